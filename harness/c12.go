package main

import (
	"encoding/binary"
	"fmt"
	"io"
	"math/rand"
	"net"
	"net/http"
	"net/url"
	"os"
	"path/filepath"
	"strconv"
	"strings"
	"time"

	"github.com/go-jose/go-jose/v4"
	"github.com/go-jose/go-jose/v4/jwt"
)

func init() { streams["c12"] = streamC12 }

var c12SignKey = "c12signingkey-c12signingkey-32ch"
var c12QueryKey = "c12querykey-c12querykey-c12query"

type c12cfg struct {
	mode       string
	hosts      []string
	split      bool
	template   string
	noUsername bool
	verify     bool
	// 'signed' selection with no query-token issuer configured (the default): the issuer is then not constrained
	noQueryIssuer bool
	// a client template that sets every setting the gateway must control to something else
	hostileDefaults bool
	// the gateway terminates TLS itself (the X-Forwarded-For header is honoured all the same)
	tls bool
}

// tunnelReplay presents token and host on the websocket transport and returns
// the tunnel-create and channel-create statuses ("-" when not reached).
func tunnelReplay(g *gwInstance, token string, server string, port int, xff string) string {
	hdr := map[string]string{}
	if xff != "" {
		hdr["X-Forwarded-For"] = xff
	}
	return tunnelReplayHdr(g, token, server, port, hdr)
}

// tunnelReplayHdr presents the token over a websocket tunnel whose upgrade request carries hdr.
func tunnelReplayHdr(g *gwInstance, token string, server string, port int, hdr map[string]string) string {
	ws, st, _, err := wsDial(g, wsOpts{headers: hdr})
	if err != nil || st != 101 {
		return fmt.Sprintf("http%d,-", st)
	}
	defer ws.close()
	status := func(m []byte, off int) string {
		if len(m) < 8+off+4 {
			return "short"
		}
		return strconv.FormatUint(uint64(binary.LittleEndian.Uint32(m[8+off:8+off+4])), 10)
	}
	ws.send(packet(ptHandshake, handshakeBody(1, 0, 0, 2)))
	if _, err := ws.recv(3 * time.Second); err != nil {
		return "nohs,-"
	}
	ws.send(packet(ptTunnelCreate, tunnelCreateBody(0, token, true)))
	m, err := ws.recv(5 * time.Second)
	if err != nil {
		return "notc,-"
	}
	tc := status(m, 2)
	if tc != "0" {
		return tc + ",-"
	}
	ws.send(packet(ptTunnelAuth, tunnelAuthBody("pc")))
	if _, err := ws.recv(3 * time.Second); err != nil {
		return tc + ",nota"
	}
	ws.send(packet(ptChannelCreate, channelCreateBody(server, port)))
	m, err = ws.recv(5 * time.Second)
	if err != nil {
		return tc + ",nocc"
	}
	return tc + "," + status(m, 0)
}

func queryToken(key []byte, issuer, sub string, exp int64) string {
	sig, _ := jose.NewSigner(jose.SigningKey{Algorithm: jose.HS256, Key: key}, nil)
	c := map[string]interface{}{"iss": issuer, "sub": sub, "exp": exp}
	s, _ := jwt.Signed(sig).Claims(c).Serialize()
	return s
}

func streamC12(env *runEnv) {
	r := rand.New(rand.NewSource(env.seed))
	idp := newFakeIdP()
	defer idp.close()
	// live backends the configured hosts point at
	var lns []net.Listener
	var addrs []string
	for i := 0; i < 3; i++ {
		l, _ := net.Listen("tcp4", "127.0.0.1:0")
		lns = append(lns, l)
		addrs = append(addrs, l.Addr().String())
		go func(l net.Listener) {
			for {
				c, err := l.Accept()
				if err != nil {
					return
				}
				go func() { time.Sleep(200 * time.Millisecond); c.Close() }()
			}
		}(l)
	}
	defer func() {
		for _, l := range lns {
			l.Close()
		}
	}()
	port0 := strings.Split(addrs[0], ":")[1]
	ph := "{{ preferred_username }}"
	cfgs := []c12cfg{
		{mode: "roundrobin", hosts: []string{addrs[0]}, verify: true},
		{mode: "roundrobin", hosts: []string{addrs[0], addrs[1], addrs[2]}, split: true, verify: true},
		{mode: "roundrobin", hosts: []string{"127.0.0." + ph + ":" + port0}, verify: true},
		{mode: "unsigned", hosts: []string{addrs[0], addrs[1]}, verify: true},
		{mode: "unsigned", hosts: []string{addrs[0], "127.0.0." + ph + ":" + port0}, split: true, template: "DOM\\{{ username }}", verify: false},
		{mode: "any", hosts: []string{addrs[0]}, verify: true},
		{mode: "signed", hosts: []string{addrs[0], addrs[1]}, verify: true},
		{mode: "signed", hosts: []string{addrs[0], addrs[1]}, verify: true, noQueryIssuer: true},
		{mode: "unsigned", hosts: []string{"rdp-host.invalid:3389", addrs[1]}, verify: true},
		{mode: "roundrobin", hosts: []string{addrs[0]}, verify: true, tls: true},
		{mode: "roundrobin", hosts: []string{addrs[0]}, verify: true, hostileDefaults: true},
		{mode: "unsigned", hosts: []string{addrs[0], addrs[1]}, split: true, verify: true, hostileDefaults: true},
		{mode: "roundrobin", hosts: []string{addrs[1]}, template: "no-placeholder", verify: true},
		{mode: "roundrobin", hosts: []string{addrs[1]}, noUsername: true, split: true, verify: true},
	}
	if env.thorough() {
		cfgs = append(cfgs,
			c12cfg{mode: "", hosts: []string{addrs[2]}, verify: true},
			c12cfg{mode: "unsigned", hosts: []string{addrs[0]}, template: "{{ username }}@corp", verify: true},
			c12cfg{mode: "any", hosts: []string{addrs[0]}, split: true, noUsername: true, verify: false})
	}
	users := []struct{ name, sub string }{{"1", "1"}, {"alice", "alice"}, {"bob@example.com", "bob@example.com"}, {"1", "sub-1234"}, {ph, ph}, {"2@dom", "2@dom"}, {"j\u00fcrgen@b\u00fcro", "j\u00fcrgen@b\u00fcro"}}
	n := 0
	for ci, cf := range cfgs {
		dir := filepath.Join(env.workdir, fmt.Sprintf("c12-%d", ci))
		gc := gwConfig{authSet: true, auth: []string{"openid"}, tlsDisable: !cf.tls, hosts: cf.hosts, hostSelection: cf.mode,
			providerURL: idp.srv.URL, clientID: idp.clientID, paaSignKey: sp(c12SignKey), queryKey: c12QueryKey, queryIssuer: map[bool]string{false: "rdpgw-query", true: ""}[cf.noQueryIssuer],
			splitDomain: cf.split, userTemplate: cf.template, noUsername: cf.noUsername, verifyIP: bp(cf.verify), gatewayAddr: "gw.example.test:%PORT%"}
		if cf.hostileDefaults {
			mkdirAll(dir)
			gc.defaults = filepath.Join(dir, "defaults.rdp")
			os.WriteFile(gc.defaults, []byte("gatewayusagemethod:i:2\r\ngatewayprofileusagemethod:i:0\r\ngatewaycredentialssource:i:0\r\n"+
				"full address:s:evil.example:3389\r\ngatewayhostname:s:evil-gw.example\r\ngatewayaccesstoken:s:EVIL\r\n"+
				"networkautodetect:i:0\r\naudiomode:i:2\r\n"), 0o600) // (user name and domain are set by the handler only when it has one)
		}
		if cf.tls {
			mkdirAll(dir)
			gc.certFile, gc.keyFile = selfSigned(dir)
		}
		yaml, ev := gc.render("file")
		g, ok := startGateway(dir, yaml, ev, cf.tls)
		if !ok {
			panic("C12: gateway did not start: " + g.logs())
		}
		gwHost := fmt.Sprintf("gw.example.test:%d", g.port)
		type req struct {
			user, sub  string
			param      *string
			qterm      string
			xff, other string
			loginFrom  string // address of the login requests when it differs from the download's
			login      string // ok | none | failed
			interleave bool   // another user logs in (own browser, own session) between this login and this download
		}
		var reqs []req
		params := []*string{nil, sp(addrs[0]), sp(addrs[1]), sp("10.66.66.66:3389"), sp("")}
		if len(cf.hosts) > 0 && cf.hosts[0] == "rdp-host.invalid:3389" {
			// a listed name and spellings of it that are not listed: selection is by exact string
			params = append(params, sp("rdp-host.invalid:3389"), sp("RDP-HOST.INVALID:3389"), sp("Rdp-Host.invalid:3389"), sp("rdp-host.invalid:3389 "))
		}
		for _, u := range users {
			for _, p := range params {
				reqs = append(reqs, req{user: u.name, sub: u.sub, param: p, xff: pick(r, []string{"", "203.0.113.5", "203.0.113.5, 10.0.0.1", "2001:db8::5"}), other: "203.0.113.77", login: "ok"})
			}
		}
		reqs = append(reqs, req{user: "alice", sub: "alice", login: "none", xff: ""}, req{user: "alice", sub: "alice", login: "failed", xff: ""})
		// the session logged in from one address and downloads from another: the token binds the downloading one
		reqs = append(reqs,
			req{user: "alice", sub: "alice", login: "ok", xff: "", loginFrom: "198.51.100.77", other: "198.51.100.77"},
			req{user: "alice", sub: "alice", login: "ok", xff: "203.0.113.5", loginFrom: "198.51.100.77", other: "198.51.100.77"})
		// other people use the gateway between this user's login and download
		reqs = append(reqs,
			req{user: "alice", sub: "alice", login: "ok", xff: "", other: "203.0.113.77", interleave: true},
			req{user: "bob@example.com", sub: "bob@example.com", param: sp(addrs[0]), login: "ok", xff: "203.0.113.5", other: "203.0.113.77", interleave: true})
		if cf.mode == "signed" {
			now := time.Now().Unix()
			for _, qt := range []struct {
				key      string
				iss, sub string
				exp      int64
				term     string
			}{
				{c12QueryKey, "rdpgw-query", addrs[0], now + 300, "C:HS256:Q"},
				{c12QueryKey, "rdpgw-query", addrs[1], now + 300, "C:HS256:Q"},
				{c12QueryKey, "rdpgw-query", "10.66.66.66:3389", now + 300, "C:HS256:Q"},
				{"anotherquerykey-anotherquerykey-", "rdpgw-query", addrs[0], now + 300, "C:HS256:O"},
				{c12QueryKey, "other-issuer", addrs[0], now + 300, "C:HS256:Q"},
				{c12QueryKey, "rdpgw-query-staging", addrs[0], now + 300, "C:HS256:Q"},
				{c12QueryKey, "rdpgw-query.evil.test", addrs[0], now + 300, "C:HS256:Q"},
				{c12QueryKey, "rdpgw-quer", addrs[0], now + 300, "C:HS256:Q"},
				{c12QueryKey, "RDPGW-QUERY", addrs[0], now + 300, "C:HS256:Q"},
				{c12QueryKey, "rdpgw-query/", addrs[0], now + 300, "C:HS256:Q"},
				{c12QueryKey, "rdpgw-query", addrs[0], now - 3600, "C:HS256:Q"},
			} {
				tok := queryToken([]byte(qt.key), qt.iss, qt.sub, qt.exp)
				rel := strconv.FormatInt(qt.exp-now, 10)
				reqs = append(reqs, req{user: "alice", sub: "alice", param: &tok, login: "ok", other: "203.0.113.77",
					qterm: qt.term + ":" + hx([]byte(qt.iss)) + ":" + rel + ":-:-:-:-:-:" + hx([]byte(qt.sub))})
			}
			g1 := "garbage"
			reqs = append(reqs, req{user: "alice", sub: "alice", param: &g1, login: "ok", qterm: "U", other: "203.0.113.77"})
		}
		for _, rq := range reqs {
			n++
			b := newBrowser()
			b.xff = rq.xff
			at := fmt.Sprintf("c12-at-%d-%d", env.seed, n)
			idp.setToken(at, atBehaviour{kind: "valid", sub: rq.sub})
			code := "code-" + at
			cb := codeBehaviour{kind: "ok", accessToken: at, claims: map[string]interface{}{"preferred_username": rq.user}}
			if rq.login == "failed" {
				cb.kind = "badsig"
			}
			idp.setCode(code, cb)
			if rq.login != "none" {
				if rq.loginFrom != "" {
					b.xff = rq.loginFrom
				}
				b.login(g, "/connect", code)
				b.xff = rq.xff
			}
			if rq.interleave {
				b2 := newBrowser()
				at2 := at + "-someone-else"
				idp.setToken(at2, atBehaviour{kind: "valid", sub: "mallory"})
				idp.setCode("code-"+at2, codeBehaviour{kind: "ok", accessToken: at2, claims: map[string]interface{}{"preferred_username": "mallory"}})
				b2.login(g, "/connect", "code-"+at2)
				b2.get(g.base() + "/connect")
			}
			path := "/connect"
			if rq.param != nil {
				path += "?host=" + urlEscape(*rq.param)
			}
			t0 := time.Now().Unix()
			resp, body, err := b.get(g.base() + path)
			t1 := time.Now().Unix()
			obs := "neterr"
			pickIdx := 0
			if err == nil {
				obs = "st=" + strconv.Itoa(resp.StatusCode)
				if strings.Contains(body, "gatewayaccesstoken") && resp.StatusCode != 200 {
					obs += " TOKEN-IN-NON-200"
				}
				if resp.StatusCode == 200 {
					addr, _ := rdpField(body, "full address")
					user, hasU := rdpField(body, "username")
					dom, hasD := rdpField(body, "domain")
					gw, _ := rdpField(body, "gatewayhostname")
					tok, _ := rdpField(body, "gatewayaccesstoken")
					src, _ := rdpField(body, "gatewaycredentialssource")
					pm, _ := rdpField(body, "gatewayprofileusagemethod")
					um, _ := rdpField(body, "gatewayusagemethod")
					opt := func(s string, has bool) string {
						if !has {
							return "none"
						}
						return hx([]byte(s))
					}
					for i, h := range cf.hosts {
						if strings.Replace(h, ph, rq.user, 1) == addr {
							pickIdx = i
							break
						}
					}
					// token claims through the independent decoder (key S = the configured signing key)
					saved := signingKey
					signingKey = []byte(c12SignKey)
					term := abstractPaa(tok)
					signingKey = saved
					p := strings.Split(term, ":")
					if len(p) == 10 {
						exp, _ := strconv.ParseInt(p[4], 10, 64)
						d := "bad-exp"
						if exp >= t0+300 && exp <= t1+300 {
							d = "300"
						}
						p[4] = d
						term = strings.Join(p, ":")
					}
					forced := "bad"
					if src == "5" && pm == "1" && um == "1" {
						forced = "ok"
					}
					// the subject claim is not part of the symbolic term of C02: read it separately
					sub := jwtSub(tok)
					server, port := splitHostPort(addr)
					same := tunnelReplay(g, tok, server, port, rq.xff)
					other := tunnelReplay(g, tok, server, port, rq.other)
					obs += fmt.Sprintf(" addr=%s user=%s domain=%s gw=%s tok=%s sub=%s forced=%s same=%s other=%s", hx([]byte(addr)), opt(user, hasU), opt(dom, hasD),
						hx([]byte(gw)), term, hx([]byte(sub)), forced, same, other)
				}
			}
			par := "none"
			if rq.param != nil {
				par = hx([]byte(*rq.param))
				if *rq.param == "" {
					par = "empty"
				}
			}
			qt := rq.qterm
			if qt == "" {
				qt = "-"
			}
			hs := make([]string, len(cf.hosts))
			for i, h := range cf.hosts {
				hs[i] = hx([]byte(h))
			}
			clientIP := "127.0.0.1"
			if rq.xff != "" {
				clientIP = strings.TrimSpace(strings.Split(rq.xff, ",")[0])
			}
			otherIP := strings.TrimSpace(strings.Split(rq.other, ",")[0])
			tmpl := "-"
			if cf.template != "" {
				tmpl = hx([]byte(cf.template))
			}
			env.count("c12.mode." + cf.mode + "." + rq.login)
			effMode := cf.mode
			if effMode == "" {
				effMode = "roundrobin" // the default of config.Load ("Server.HostSelection": "roundrobin")
			}
			env.emit("download", hx([]byte(effMode)), strings.Join(hs, ","), b01(cf.split)+b01(cf.noUsername)+b01(cf.verify)+b01(!cf.noQueryIssuer), tmpl, hx([]byte(gwHost)),
				rq.login, hx([]byte(rq.user)), hx([]byte(rq.sub)), hx([]byte(at)), hx([]byte(clientIP)), hx([]byte(otherIP)), par, qt, strconv.Itoa(pickIdx),
				strings.Join(hexAll(addrs), ","), obs)
		}
		c12Extras(env, idp, g, cf, ci, addrs)
		g.stop()
	}
}

func hexAll(l []string) []string {
	r := make([]string, len(l))
	for i, s := range l {
		r[i] = hx([]byte(s))
	}
	return r
}

func splitHostPort(addr string) (string, int) {
	h, p, err := net.SplitHostPort(addr)
	if err != nil {
		return addr, 0
	}
	n, _ := strconv.Atoi(p)
	return h, n
}

// c12Extras: clauses of C12 (and of C04, C19 where they meet it) checked directly on a running
// configuration: requests other than an authenticated GET are sent to the identity provider whatever their
// method; the only request header that can name the client address is X-Forwarded-For; settings of the
// client template that the gateway does not control reach the file unchanged.
func c12Extras(env *runEnv, idp *fakeIdP, g *gwInstance, cf c12cfg, ci int, addrs []string) {
	emit := func(what, verdict string) {
		env.count("c12.extra." + strings.SplitN(verdict, ":", 2)[0])
		env.emit("exact", fmt.Sprintf("cfg%d-%s", ci, what), verdict)
	}
	// (1) methods
	for _, m := range []string{"POST", "HEAD", "PUT", "DELETE", "OPTIONS"} {
		req, _ := http.NewRequest(m, g.base()+"/connect", nil)
		resp, err := newBrowser().c.Do(req)
		v := "exact"
		if err != nil {
			v = "no-response"
		} else {
			resp.Body.Close()
			if resp.StatusCode != 302 || !strings.HasPrefix(resp.Header.Get("Location"), idp.srv.URL) {
				v = fmt.Sprintf("status-%d-location-%q", resp.StatusCode, resp.Header.Get("Location"))
			}
		}
		emit("unauthenticated-"+m+"-connect-goes-to-the-identity-provider", v)
	}
	if ci > 1 && !cf.hostileDefaults {
		return
	}
	login := func(user, xff string) (string, string) { // returns the file body and the status
		b := newBrowser()
		b.xff = xff
		at := fmt.Sprintf("c12x-at-%d-%d-%s-%s", env.seed, ci, user, xff)
		idp.setToken(at, atBehaviour{kind: "valid", sub: user})
		idp.setCode("code-"+at, codeBehaviour{kind: "ok", accessToken: at, claims: map[string]interface{}{"preferred_username": user}})
		b.login(g, "/connect", "code-"+at)
		path := "/connect"
		if cf.mode == "unsigned" || cf.mode == "any" {
			path += "?host=" + urlEscape(addrs[0])
		}
		resp, body, err := b.get(g.base() + path)
		if err != nil || resp.StatusCode != 200 {
			return "", "no-file"
		}
		return body, ""
	}
	// (2) headers that name a client address
	if cf.verify && cf.mode == "roundrobin" && !cf.tls {
		if body, bad := login("alice", ""); bad == "" {
			tok, _ := rdpField(body, "gatewayaccesstoken")
			addr, _ := rdpField(body, "full address")
			server, port := splitHostPort(addr)
			for _, h := range []string{"X-Real-Ip", "True-Client-Ip", "X-Client-Ip", "Forwarded", "X-Forwarded", "Cf-Connecting-Ip"} {
				val := "203.0.113.9"
				if h == "Forwarded" {
					val = "for=203.0.113.9"
				}
				v := "exact"
				if r := tunnelReplayHdr(g, tok, server, port, map[string]string{h: val}); r != "0,0" {
					v = "refused-from-the-issuing-address:" + r
				}
				emit("token-of-the-peer-address-presented-by-the-peer-with-"+h, v)
			}
		} else {
			emit("token-of-the-peer-address", bad)
		}
		if body, bad := login("alice", "203.0.113.5"); bad == "" {
			tok, _ := rdpField(body, "gatewayaccesstoken")
			addr, _ := rdpField(body, "full address")
			server, port := splitHostPort(addr)
			for _, h := range []string{"X-Real-Ip", "True-Client-Ip", "X-Client-Ip", "Forwarded", "Cf-Connecting-Ip"} {
				val := "203.0.113.5"
				if h == "Forwarded" {
					val = "for=203.0.113.5"
				}
				v := "exact"
				if r := tunnelReplayHdr(g, tok, server, port, map[string]string{h: val}); strings.HasSuffix(r, ",0") {
					v = "accepted-from-another-address-naming-the-issuing-one-in-" + h
				}
				emit("token-of-203.0.113.5-presented-by-the-peer-with-"+h, v)
			}
			// a chain: the first element names the client, whatever the others are
			for _, chain := range []string{"203.0.113.5, 10.0.0.1", "203.0.113.5, 198.51.100.1, 10.0.0.1"} {
				v := "exact"
				if r := tunnelReplay(g, tok, server, port, chain); r != "0,0" {
					v = "refused-from-the-issuing-address:" + r
				}
				emit("token-of-203.0.113.5-presented-through-"+strings.ReplaceAll(chain, " ", ""), v)
			}
			long := ""
			for k := 1; k <= 9; k++ {
				long += fmt.Sprintf(", 10.0.0.%d", k)
			}
			for _, chain := range []string{"203.0.113.5" + long, "203.0.113.5" + long + long} {
				v := "exact"
				if r := tunnelReplay(g, tok, server, port, chain); r != "0,0" {
					v = "refused-from-the-issuing-address:" + r
				}
				emit(fmt.Sprintf("token-of-203.0.113.5-presented-through-a-chain-of-%d", strings.Count(chain, ",")+1), v)
			}
			for _, chain := range []string{"198.51.100.9" + long, "198.51.100.9" + long + long} {
				v := "exact"
				if r := tunnelReplay(g, tok, server, port, chain); strings.HasSuffix(r, ",0") {
					v = "accepted-although-the-first-address-differs"
				}
				emit(fmt.Sprintf("token-of-203.0.113.5-presented-by-198.51.100.9-through-a-chain-of-%d", strings.Count(chain, ",")+1), v)
			}
			for _, chain := range []string{"10.1.2.3, 203.0.113.5", "192.168.0.9, 203.0.113.5, 10.0.0.1", "127.0.0.1, 203.0.113.5"} {
				v := "exact"
				if r := tunnelReplay(g, tok, server, port, chain); strings.HasSuffix(r, ",0") {
					v = "accepted-although-the-first-address-differs"
				}
				emit("token-of-203.0.113.5-presented-through-"+strings.ReplaceAll(chain, " ", ""), v)
			}
		}
		// a token presented from another address together with the session cookie of somebody who is logged in
		if body, bad := login("alice", "203.0.113.5"); bad == "" {
			tok, _ := rdpField(body, "gatewayaccesstoken")
			addr, _ := rdpField(body, "full address")
			server, port := splitHostPort(addr)
			bm := newBrowser()
			bm.xff = "198.51.100.66"
			atm := fmt.Sprintf("c12x-at-%d-%d-mallory", env.seed, ci)
			idp.setToken(atm, atBehaviour{kind: "valid", sub: "mallory"})
			idp.setCode("code-"+atm, codeBehaviour{kind: "ok", accessToken: atm, claims: map[string]interface{}{"preferred_username": "mallory"}})
			bm.login(g, "/connect", "code-"+atm)
			u, _ := url.Parse(g.base())
			var ck []string
			for _, c := range bm.jar.Cookies(u) {
				ck = append(ck, c.Name+"="+c.Value)
			}
			v := "exact"
			if r := tunnelReplayHdr(g, tok, server, port, map[string]string{"X-Forwarded-For": "198.51.100.66", "Cookie": strings.Join(ck, "; ")}); strings.HasSuffix(r, ",0") {
				v = "accepted-from-another-address-with-a-logged-in-session-cookie"
			}
			emit("token-of-203.0.113.5-presented-by-198.51.100.66-with-its-own-session-cookie", v)
		}
		// issuance: the address recorded is the first element also when it is a private one
		if body, bad := login("alice", "10.1.2.3, 203.0.113.9"); bad == "" {
			tok, _ := rdpField(body, "gatewayaccesstoken")
			addr, _ := rdpField(body, "full address")
			server, port := splitHostPort(addr)
			v := "exact"
			if r := tunnelReplay(g, tok, server, port, "10.1.2.3"); r != "0,0" {
				v = "refused-from-the-issuing-address:" + r
			}
			emit("token-issued-through-10.1.2.3,203.0.113.9-presented-by-10.1.2.3", v)
			v = "exact"
			if r := tunnelReplay(g, tok, server, port, "203.0.113.9"); strings.HasSuffix(r, ",0") {
				v = "accepted-from-the-proxy-address"
			}
			emit("token-issued-through-10.1.2.3,203.0.113.9-presented-by-203.0.113.9", v)
		}
	}
	// (2a) access tokens of the size identity providers really issue (a signed token with group claims): the
	// gateway's token that embeds it is several thousand characters long and is accepted like any other
	if ci <= 1 && cf.verify {
		for _, n := range []int{1000, 1300, 1500} { // (larger identities do not fit the 4096-byte cookie store)
			b := newBrowser()
			at := fmt.Sprintf("c12x-at-%d-%d-long-", env.seed, ci) + strings.Repeat("Aa0_", n/4)
			idp.setToken(at, atBehaviour{kind: "valid", sub: "alice"})
			idp.setCode(fmt.Sprintf("code-long-%d-%d", ci, n), codeBehaviour{kind: "ok", accessToken: at, claims: map[string]interface{}{"preferred_username": "alice"}})
			b.login(g, "/connect", fmt.Sprintf("code-long-%d-%d", ci, n))
			resp, body, err := b.get(g.base() + "/connect")
			v := "exact"
			if err != nil || resp.StatusCode != 200 {
				v = "no-file"
			} else {
				tok, _ := rdpField(body, "gatewayaccesstoken")
				addr, _ := rdpField(body, "full address")
				server, port := splitHostPort(addr)
				if r := tunnelReplay(g, tok, server, port, ""); r != "0,0" {
					v = "fresh-token-refused:" + r
				}
			}
			emit(fmt.Sprintf("fresh-token-embedding-a-%d-character-access-token-is-accepted", n), v)
		}
	}
	// (2b) request headers do not decide which gateway the file names
	if ci <= 1 {
		b := newBrowser()
		at := fmt.Sprintf("c12x-at-%d-%d-fwdhost", env.seed, ci)
		idp.setToken(at, atBehaviour{kind: "valid", sub: "alice"})
		idp.setCode("code-"+at, codeBehaviour{kind: "ok", accessToken: at, claims: map[string]interface{}{"preferred_username": "alice"}})
		b.login(g, "/connect", "code-"+at)
		_, plain, err0 := b.get(g.base() + "/connect")
		want, _ := rdpField(plain, "gatewayhostname")
		v := "exact"
		if err0 != nil || want == "" {
			v = "no-file"
		}
		for _, h := range [][2]string{{"X-Forwarded-Host", "gw.attacker.example:443"}, {"Forwarded", "host=gw.attacker.example"}, {"X-Original-Host", "gw.attacker.example"},
			{"X-Forwarded-Server", "gw.attacker.example"}, {"X-Forwarded-Proto", "http"}, {"X-Forwarded-Port", "1"}} {
			req, _ := http.NewRequest("GET", g.base()+"/connect", nil)
			req.Header.Set(h[0], h[1])
			resp, err := b.c.Do(req)
			if err != nil {
				v = "no-response-with-" + h[0]
				continue
			}
			raw, _ := io.ReadAll(resp.Body)
			resp.Body.Close()
			if got, _ := rdpField(string(raw), "gatewayhostname"); v == "exact" && got != want {
				v = fmt.Sprintf("gateway-named-%q-with-%s", got, h[0])
			}
		}
		emit("file-names-the-configured-gateway-whatever-the-request-headers", v)
	}
	// (3) template settings the gateway does not control
	if cf.hostileDefaults {
		if body, bad := login("alice", ""); bad == "" {
			v := "exact"
			for _, line := range []string{"networkautodetect:i:0", "audiomode:i:2"} {
				if !strings.Contains(body, line+"\r\n") && !strings.Contains(body, line+"\n") {
					v = "template-setting-lost:" + line
				}
			}
			emit("template-settings-kept", v)
		} else {
			emit("template-settings-kept", bad)
		}
	}
}
