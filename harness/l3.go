package main

// L3: the real rdpgw binary (rebuilt from /repo on every run by bin/check),
// started with generated configurations; an HTTP client that performs the
// OpenID login against the fake IdP; a minimal RFC 6455 client that speaks the
// RDG_OUT_DATA websocket transport.

import (
	"bufio"
	"bytes"
	"crypto/ecdsa"
	"crypto/elliptic"
	"crypto/rand"
	"crypto/sha1"
	"crypto/tls"
	"crypto/x509"
	"crypto/x509/pkix"
	"encoding/base64"
	"encoding/binary"
	"encoding/pem"
	"errors"
	"fmt"
	"io"
	"math/big"
	"net"
	"net/http"
	"net/http/cookiejar"
	"net/url"
	"os"
	"os/exec"
	"path/filepath"
	"strings"
	"sync"
	"time"
)

var rdpgwBinary string

type gwInstance struct {
	cmd     *exec.Cmd
	port    int
	dir     string
	tls     bool
	logMu   sync.Mutex
	log     bytes.Buffer
	exited  chan struct{}
	exitErr error
}

type safeWriter struct{ g *gwInstance }

func (w safeWriter) Write(p []byte) (int, error) {
	w.g.logMu.Lock()
	defer w.g.logMu.Unlock()
	return w.g.log.Write(p)
}

func (g *gwInstance) logs() string {
	g.logMu.Lock()
	defer g.logMu.Unlock()
	return g.log.String()
}

func (g *gwInstance) lastLogLine() string {
	l := strings.Split(strings.TrimSpace(g.logs()), "\n")
	return l[len(l)-1]
}

var portMu sync.Mutex
var nextPort = 21000 + (os.Getpid()*131)%20000

// freePort hands out ports from a per-process monotone range (never the same
// port twice), checking that nothing listens there right now.
func freePort() int {
	portMu.Lock()
	defer portMu.Unlock()
	for {
		nextPort++
		if nextPort > 60000 {
			nextPort = 21000
		}
		l, err := net.Listen("tcp", fmt.Sprintf(":%d", nextPort))
		if err != nil {
			continue
		}
		l.Close()
		return nextPort
	}
}

// startGateway writes the YAML configuration (with %PORT% replaced), starts the
// binary and waits until it listens or exits. started=false means it exited.
func startGateway(dir string, yaml string, env []string, tlsOn bool) (g *gwInstance, started bool) {
	for attempt := 0; attempt < 4; attempt++ {
		g, started = startGatewayOnce(dir, yaml, append([]string(nil), env...), tlsOn)
		if started || !strings.Contains(g.logs(), "address already in use") {
			return
		}
	}
	return
}

func startGatewayOnce(dir string, yaml string, env []string, tlsOn bool) (g *gwInstance, started bool) {
	os.MkdirAll(dir, 0o700)
	port := freePort()
	yaml = strings.ReplaceAll(yaml, "%PORT%", fmt.Sprint(port))
	cfg := filepath.Join(dir, "rdpgw.yaml")
	os.WriteFile(cfg, []byte(yaml), 0o600)
	g = &gwInstance{port: port, dir: dir, tls: tlsOn, exited: make(chan struct{})}
	g.cmd = exec.Command(rdpgwBinary, "-c", cfg)
	g.cmd.Dir = dir
	ev := []string{"TMPDIR=" + dir, "HOME=" + dir, "PATH=" + os.Getenv("PATH")}
	for i, e := range env {
		env[i] = strings.ReplaceAll(e, "%PORT%", fmt.Sprint(port))
	}
	g.cmd.Env = append(ev, env...)
	g.cmd.Stdout = safeWriter{g}
	g.cmd.Stderr = safeWriter{g}
	if err := g.cmd.Start(); err != nil {
		g.exitErr = err
		close(g.exited)
		return g, false
	}
	go func() { g.exitErr = g.cmd.Wait(); close(g.exited) }()
	deadline := time.Now().Add(8 * time.Second)
	for time.Now().Before(deadline) {
		select {
		case <-g.exited:
			return g, false
		default:
		}
		c, err := net.DialTimeout("tcp", fmt.Sprintf("127.0.0.1:%d", port), 200*time.Millisecond)
		if err == nil {
			c.Close()
			return g, true
		}
		time.Sleep(30 * time.Millisecond)
	}
	return g, false
}

func (g *gwInstance) alive() bool {
	select {
	case <-g.exited:
		return false
	default:
		return true
	}
}

func (g *gwInstance) stop() {
	if g.cmd != nil && g.cmd.Process != nil && g.alive() {
		g.cmd.Process.Kill()
		<-g.exited
	}
}

func (g *gwInstance) base() string {
	if g.tls {
		return fmt.Sprintf("https://127.0.0.1:%d", g.port)
	}
	return fmt.Sprintf("http://127.0.0.1:%d", g.port)
}

// selfSigned writes cert.pem/key.pem for 127.0.0.1 into dir.
func selfSigned(dir string) (certFile, keyFile string) {
	key, _ := ecdsa.GenerateKey(elliptic.P256(), rand.Reader)
	tpl := &x509.Certificate{SerialNumber: big.NewInt(1), Subject: pkix.Name{CommonName: "127.0.0.1"},
		NotBefore: time.Now().Add(-time.Hour), NotAfter: time.Now().Add(24 * time.Hour),
		KeyUsage: x509.KeyUsageDigitalSignature, ExtKeyUsage: []x509.ExtKeyUsage{x509.ExtKeyUsageServerAuth},
		IPAddresses: []net.IP{net.IPv4(127, 0, 0, 1)}, DNSNames: []string{"localhost"}}
	der, _ := x509.CreateCertificate(rand.Reader, tpl, tpl, &key.PublicKey, key)
	kb, _ := x509.MarshalECPrivateKey(key)
	certFile, keyFile = filepath.Join(dir, "cert.pem"), filepath.Join(dir, "key.pem")
	os.WriteFile(certFile, pem.EncodeToMemory(&pem.Block{Type: "CERTIFICATE", Bytes: der}), 0o600)
	os.WriteFile(keyFile, pem.EncodeToMemory(&pem.Block{Type: "EC PRIVATE KEY", Bytes: kb}), 0o600)
	return
}

// ---------------------------------------------------------------- browser

type browser struct {
	c   *http.Client
	jar http.CookieJar
	xff string
}

func newBrowser() *browser {
	jar, _ := cookiejar.New(nil)
	return &browser{jar: jar, c: &http.Client{Jar: jar, Timeout: 10 * time.Second,
		Transport:     &http.Transport{TLSClientConfig: &tls.Config{InsecureSkipVerify: true}, DisableKeepAlives: true},
		CheckRedirect: func(*http.Request, []*http.Request) error { return http.ErrUseLastResponse }}}
}

func (b *browser) get(u string) (*http.Response, string, error) {
	req, _ := http.NewRequest("GET", u, nil)
	if b.xff != "" {
		req.Header.Set("X-Forwarded-For", b.xff)
	}
	resp, err := b.c.Do(req)
	if err != nil {
		return nil, "", err
	}
	body, _ := io.ReadAll(resp.Body)
	resp.Body.Close()
	return resp, string(body), nil
}

// login performs GET path -> 302 to the IdP -> callback with the given code.
// It returns the statuses seen: connect1, callback.
func (b *browser) login(g *gwInstance, path string, code string) (st1 int, stCb int, err error) {
	resp, _, err := b.get(g.base() + path)
	if err != nil {
		return 0, 0, err
	}
	st1 = resp.StatusCode
	if st1 != 302 {
		return st1, 0, nil
	}
	loc, _ := url.Parse(resp.Header.Get("Location"))
	state := loc.Query().Get("state")
	resp2, _, err := b.get(g.base() + "/callback?state=" + url.QueryEscape(state) + "&code=" + url.QueryEscape(code))
	if err != nil {
		return st1, 0, err
	}
	return st1, resp2.StatusCode, nil
}

// rdpField extracts a setting from an RDP file text (independent reader).
func rdpField(text, name string) (string, bool) {
	for _, l := range strings.Split(text, "\r\n") {
		p := strings.SplitN(l, ":", 3)
		if len(p) == 3 && p[0] == name {
			return p[2], true
		}
	}
	return "", false
}

// ---------------------------------------------------------------- websocket

type wsConn struct {
	c  net.Conn
	br *bufio.Reader
}

type wsOpts struct {
	headers map[string]string
	method  string
	path    string
	connID  string
}

// wsDial opens the gateway's websocket transport. It returns the HTTP status of
// the handshake and, on 101, the connection.
func wsDial(g *gwInstance, o wsOpts) (*wsConn, int, http.Header, error) {
	var c net.Conn
	var err error
	addr := fmt.Sprintf("127.0.0.1:%d", g.port)
	if g.tls {
		c, err = tls.Dial("tcp", addr, &tls.Config{InsecureSkipVerify: true})
	} else {
		c, err = net.DialTimeout("tcp", addr, 3*time.Second)
	}
	if err != nil {
		return nil, 0, nil, err
	}
	if o.method == "" {
		o.method = "RDG_OUT_DATA"
	}
	if o.path == "" {
		o.path = "/remoteDesktopGateway/"
	}
	if o.connID == "" {
		o.connID = "{" + base64.RawURLEncoding.EncodeToString(randomBytes(9)) + "}"
	}
	var sb strings.Builder
	fmt.Fprintf(&sb, "%s %s HTTP/1.1\r\nHost: %s\r\nConnection: Upgrade\r\nUpgrade: websocket\r\nSec-WebSocket-Version: 13\r\nSec-WebSocket-Key: %s\r\nRdg-Connection-Id: %s\r\n",
		o.method, o.path, addr, base64.StdEncoding.EncodeToString(randomBytes(16)), o.connID)
	for k, v := range o.headers {
		fmt.Fprintf(&sb, "%s: %s\r\n", k, v)
	}
	sb.WriteString("\r\n")
	c.SetDeadline(time.Now().Add(10 * time.Second))
	if _, err := c.Write([]byte(sb.String())); err != nil {
		c.Close()
		return nil, 0, nil, err
	}
	br := bufio.NewReader(c)
	resp, err := http.ReadResponse(br, &http.Request{Method: "GET"})
	if err != nil {
		c.Close()
		return nil, 0, nil, err
	}
	if resp.StatusCode != 101 {
		io.Copy(io.Discard, io.LimitReader(resp.Body, 1<<16))
		c.Close()
		return nil, resp.StatusCode, resp.Header, nil
	}
	c.SetDeadline(time.Time{})
	return &wsConn{c: c, br: br}, 101, resp.Header, nil
}

func randomBytes(n int) []byte {
	b := make([]byte, n)
	rand.Read(b)
	return b
}

// send writes one masked binary frame.
func (w *wsConn) send(payload []byte) error { return w.sendOp(2, payload) }

func (w *wsConn) sendOp(op byte, payload []byte) error {
	_, err := w.c.Write(wsFrame(true, op, payload))
	return err
}

// sendFragments sends one message as several frames (a first frame without FIN
// followed by continuation frames), each frame written separately.
func (w *wsConn) sendFragments(parts [][]byte) error {
	for i, p := range parts {
		op := byte(0)
		if i == 0 {
			op = 2
		}
		if _, err := w.c.Write(wsFrame(i == len(parts)-1, op, p)); err != nil {
			return err
		}
		time.Sleep(2 * time.Millisecond)
	}
	return nil
}

// sendSplit sends one single-frame message in two socket writes with a pause in between.
func (w *wsConn) sendSplit(payload []byte, at int, pause time.Duration) error {
	f := wsFrame(true, 2, payload)
	if at <= 0 || at >= len(f) {
		at = len(f) / 2
	}
	if _, err := w.c.Write(f[:at]); err != nil {
		return err
	}
	time.Sleep(pause)
	_, err := w.c.Write(f[at:])
	return err
}

func wsFrame(fin bool, op byte, payload []byte) []byte {
	var h []byte
	b0 := op
	if fin {
		b0 |= 0x80
	}
	h = append(h, b0)
	n := len(payload)
	switch {
	case n < 126:
		h = append(h, 0x80|byte(n))
	case n < 65536:
		h = append(h, 0x80|126, byte(n>>8), byte(n))
	default:
		h = append(h, 0x80|127)
		var l [8]byte
		binary.BigEndian.PutUint64(l[:], uint64(n))
		h = append(h, l[:]...)
	}
	mask := randomBytes(4)
	h = append(h, mask...)
	out := make([]byte, n)
	for i := range payload {
		out[i] = payload[i] ^ mask[i%4]
	}
	return append(h, out...)
}

var errWsClosed = errors.New("websocket closed")

// recv reads one data message (handles ping/close); timeout applies to the whole call.
func (w *wsConn) recv(timeout time.Duration) ([]byte, error) {
	w.c.SetReadDeadline(time.Now().Add(timeout))
	defer w.c.SetReadDeadline(time.Time{})
	var msg []byte
	for {
		var h [2]byte
		if _, err := io.ReadFull(w.br, h[:]); err != nil {
			return nil, err
		}
		fin, op := h[0]&0x80 != 0, h[0]&0x0f
		n := uint64(h[1] & 0x7f)
		switch n {
		case 126:
			var l [2]byte
			if _, err := io.ReadFull(w.br, l[:]); err != nil {
				return nil, err
			}
			n = uint64(binary.BigEndian.Uint16(l[:]))
		case 127:
			var l [8]byte
			if _, err := io.ReadFull(w.br, l[:]); err != nil {
				return nil, err
			}
			n = binary.BigEndian.Uint64(l[:])
		}
		p := make([]byte, n)
		if _, err := io.ReadFull(w.br, p); err != nil {
			return nil, err
		}
		switch op {
		case 8:
			return nil, errWsClosed
		case 9:
			w.sendOp(10, p)
			continue
		case 10:
			continue
		}
		msg = append(msg, p...)
		if fin {
			return msg, nil
		}
	}
}

func (w *wsConn) close() { w.c.Close() }

// wsAccept computes the expected Sec-WebSocket-Accept (unused by the gateway's
// clients but part of a well-formed handshake check).
func wsAccept(key string) string {
	h := sha1.Sum([]byte(key + "258EAFA5-E914-47DA-95CA-C5AB0DC85B11"))
	return base64.StdEncoding.EncodeToString(h[:])
}

func timeNow() time.Time { return time.Now() }

func urlParse(s string) (*url.URL, error) { return url.Parse(s) }

func statusOf(r *http.Response) int {
	if r == nil {
		return -1
	}
	return r.StatusCode
}

func urlEscape(s string) string { return url.QueryEscape(s) }

func mkdirAll(d string) { os.MkdirAll(d, 0o700) }

func readFull(r io.Reader, b []byte) (int, error) { return io.ReadFull(r, b) }
