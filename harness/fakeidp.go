package main

// A scriptable OpenID provider on loopback: discovery, JWKS, token endpoint
// (authorization-code exchange) and userinfo, RS256 ID tokens.

import (
	"crypto/rand"
	"crypto/rsa"
	"encoding/json"
	"fmt"
	"net"
	"net/http"
	"net/http/httptest"
	"strings"
	"sync"
	"time"

	"github.com/go-jose/go-jose/v4"
	"github.com/go-jose/go-jose/v4/jwt"
)

type atBehaviour struct {
	kind string // valid | unknown | revoked | err500 | drop
	sub  string
}

type codeBehaviour struct {
	kind        string // ok | refuse | noidtoken | badsig | wrongiss | wrongaud | expired | garbage
	claims      map[string]interface{}
	accessToken string
}

type fakeIdP struct {
	expiredN int
	srv      *httptest.Server
	key      *rsa.PrivateKey
	otherKey *rsa.PrivateKey
	clientID string

	mu           sync.Mutex
	tokens       map[string]atBehaviour
	codes        map[string]codeBehaviour
	userinfoHits int
	tokenHits    int
}

var sharedRSA, sharedRSA2 *rsa.PrivateKey
var rsaOnce sync.Once

func rsaKeys() (*rsa.PrivateKey, *rsa.PrivateKey) {
	rsaOnce.Do(func() {
		sharedRSA, _ = rsa.GenerateKey(rand.Reader, 2048)
		sharedRSA2, _ = rsa.GenerateKey(rand.Reader, 2048)
	})
	return sharedRSA, sharedRSA2
}

func newFakeIdP() *fakeIdP {
	k1, k2 := rsaKeys()
	f := &fakeIdP{key: k1, otherKey: k2, clientID: "rdpgw-client", tokens: map[string]atBehaviour{}, codes: map[string]codeBehaviour{}}
	mux := http.NewServeMux()
	mux.HandleFunc("/.well-known/openid-configuration", func(w http.ResponseWriter, r *http.Request) {
		u := f.srv.URL
		w.Header().Set("Content-Type", "application/json")
		json.NewEncoder(w).Encode(map[string]interface{}{
			"issuer": u, "authorization_endpoint": u + "/auth", "token_endpoint": u + "/token",
			"jwks_uri": u + "/keys", "userinfo_endpoint": u + "/userinfo",
			"id_token_signing_alg_values_supported": []string{"RS256"},
			"response_types_supported":              []string{"code"},
			"subject_types_supported":               []string{"public"},
		})
	})
	mux.HandleFunc("/keys", func(w http.ResponseWriter, r *http.Request) {
		w.Header().Set("Content-Type", "application/json")
		json.NewEncoder(w).Encode(jose.JSONWebKeySet{Keys: []jose.JSONWebKey{{Key: &f.key.PublicKey, KeyID: "k1", Algorithm: "RS256", Use: "sig"}}})
	})
	mux.HandleFunc("/userinfo", func(w http.ResponseWriter, r *http.Request) {
		at := strings.TrimPrefix(r.Header.Get("Authorization"), "Bearer ")
		f.mu.Lock()
		f.userinfoHits++
		b, ok := f.tokens[at]
		f.mu.Unlock()
		if !ok {
			b = atBehaviour{kind: "unknown"}
		}
		switch b.kind {
		case "valid":
			w.Header().Set("Content-Type", "application/json")
			json.NewEncoder(w).Encode(map[string]interface{}{"sub": b.sub, "preferred_username": b.sub})
		case "err500":
			http.Error(w, "boom", 500)
		case "drop":
			if hj, ok := w.(http.Hijacker); ok {
				c, _, _ := hj.Hijack()
				if tc, ok := c.(*net.TCPConn); ok {
					tc.SetLinger(0)
				}
				c.Close()
			}
		case "revoked":
			w.Header().Set("WWW-Authenticate", `Bearer error="invalid_token"`)
			http.Error(w, `{"error":"invalid_token"}`, 401)
		default:
			http.Error(w, "unknown token", 401)
		}
	})
	mux.HandleFunc("/token", func(w http.ResponseWriter, r *http.Request) {
		r.ParseForm()
		code := r.Form.Get("code")
		f.mu.Lock()
		f.tokenHits++
		cb, ok := f.codes[code]
		f.mu.Unlock()
		if !ok || cb.kind == "refuse" {
			w.Header().Set("Content-Type", "application/json")
			w.WriteHeader(400)
			w.Write([]byte(`{"error":"invalid_grant"}`))
			return
		}
		resp := map[string]interface{}{"access_token": cb.accessToken, "token_type": "Bearer", "expires_in": 3600}
		if cb.kind != "noidtoken" {
			resp["id_token"] = f.idToken(cb)
		}
		w.Header().Set("Content-Type", "application/json")
		json.NewEncoder(w).Encode(resp)
	})
	f.srv = httptest.NewServer(mux)
	return f
}

// rotate: the provider withdraws its signing key and signs with another one from now on (published
// under the same key id); "badsig" tokens are from now on signed with the withdrawn key.
func (f *fakeIdP) rotate() {
	f.mu.Lock()
	f.key, f.otherKey = f.otherKey, f.key
	f.mu.Unlock()
}

func (f *fakeIdP) idToken(cb codeBehaviour) string {
	key := f.key
	if cb.kind == "badsig" {
		key = f.otherKey
	}
	if cb.kind == "garbage" {
		return "not.a.jwt"
	}
	sig, err := jose.NewSigner(jose.SigningKey{Algorithm: jose.RS256, Key: key}, (&jose.SignerOptions{}).WithHeader("kid", "k1"))
	if err != nil {
		panic(err)
	}
	now := time.Now()
	c := map[string]interface{}{"iss": f.srv.URL, "aud": f.clientID, "sub": "sub-1234", "iat": now.Unix(), "exp": now.Add(time.Hour).Unix()}
	switch cb.kind {
	case "wrongiss":
		c["iss"] = "http://evil.example"
	case "wrongaud":
		c["aud"] = "someone-else"
	case "wrongaudazp":
		// issued to another application, merely naming this client as authorised party
		c["aud"] = []string{"other-app", "account"}
		c["azp"] = f.clientID
	case "expired":
		// alternately just expired and long expired: no grace period is part of the property
		f.mu.Lock()
		f.expiredN++
		recent := f.expiredN%2 == 1
		f.mu.Unlock()
		if recent {
			c["exp"] = now.Add(-30 * time.Second).Unix()
			c["iat"] = now.Add(-10 * time.Minute).Unix()
		} else {
			c["exp"] = now.Add(-time.Hour).Unix()
			c["iat"] = now.Add(-2 * time.Hour).Unix()
		}
	}
	for k, v := range cb.claims {
		c[k] = v
	}
	s, err := jwt.Signed(sig).Claims(c).Serialize()
	if err != nil {
		panic(err)
	}
	return s
}

func (f *fakeIdP) setToken(at string, b atBehaviour) {
	f.mu.Lock()
	f.tokens[at] = b
	f.mu.Unlock()
}

func (f *fakeIdP) setCode(code string, b codeBehaviour) {
	f.mu.Lock()
	f.codes[code] = b
	f.mu.Unlock()
}

func (f *fakeIdP) hits() int {
	f.mu.Lock()
	defer f.mu.Unlock()
	return f.userinfoHits
}

func (f *fakeIdP) close() { f.srv.Close() }

var _ = fmt.Sprint
