// Command harness drives the real rdpgw code (built from /repo's working tree
// with -tags verif) on generated inputs and writes one case per line:
//
//	ID \t KIND \t input fields... \t implementation-observation
//
// The same lines are replayed by the extracted Coq model (coq/extract/driver.ml).
package main

import (
	"bufio"
	"flag"
	"fmt"
	"io"
	"log"
	"os"
	"sort"
	"strings"
	"sync"
)

type stream func(env *runEnv)

var streams = map[string]stream{}

type runEnv struct {
	tier    string
	seed    int64
	out     *bufio.Writer
	mu      sync.Mutex
	n       int
	stats   map[string]int
	replay  string
	workdir string
}

func (e *runEnv) emit(kind string, fields ...string) {
	e.mu.Lock()
	defer e.mu.Unlock()
	e.n++
	fmt.Fprintf(e.out, "%d\t%s\t%s\n", e.n, kind, strings.Join(fields, "\t"))
	if e.n%64 == 0 {
		e.out.Flush()
	}
}

func (e *runEnv) count(key string) {
	e.mu.Lock()
	e.stats[key]++
	e.mu.Unlock()
}

func (e *runEnv) thorough() bool { return e.tier == "thorough" }

func main() {
	log.SetOutput(io.Discard) // the code under test logs a lot
	tier := flag.String("tier", "quick", "quick|thorough")
	seed := flag.Int64("seed", 1, "PRNG seed")
	outp := flag.String("out", "", "cases file")
	statsp := flag.String("stats", "", "stats file")
	replay := flag.String("replay", "", "replay file (stream specific)")
	workdir := flag.String("workdir", "", "scratch directory")
	flag.StringVar(&rdpgwBinary, "rdpgw", "", "path of the rdpgw binary built from /repo (L3 streams)")
	flag.Parse()
	if flag.NArg() != 1 {
		fmt.Fprintln(os.Stderr, "usage: harness [flags] <stream>")
		os.Exit(2)
	}
	s, ok := streams[flag.Arg(0)]
	if !ok {
		names := []string{}
		for k := range streams {
			names = append(names, k)
		}
		sort.Strings(names)
		fmt.Fprintf(os.Stderr, "unknown stream %q (have %v)\n", flag.Arg(0), names)
		os.Exit(2)
	}
	var w io.Writer = os.Stdout
	if *outp != "" {
		f, err := os.Create(*outp)
		if err != nil {
			fmt.Fprintln(os.Stderr, err)
			os.Exit(2)
		}
		defer f.Close()
		w = f
	}
	env := &runEnv{tier: *tier, seed: *seed, out: bufio.NewWriterSize(w, 1<<20), stats: map[string]int{}, replay: *replay, workdir: *workdir}
	s(env)
	env.out.Flush()
	if *statsp != "" {
		f, err := os.Create(*statsp)
		if err == nil {
			keys := []string{}
			for k := range env.stats {
				keys = append(keys, k)
			}
			sort.Strings(keys)
			for _, k := range keys {
				fmt.Fprintf(f, "%s\t%d\n", k, env.stats[k])
			}
			f.Close()
		}
	}
}
