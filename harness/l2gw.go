package main

// L2: the real Gateway.HandleGatewayProtocol behind web.EnrichContext in an
// in-process HTTP server, driven over real TCP with the websocket transport
// and the legacy RDG_OUT_DATA / RDG_IN_DATA pair. Callbacks are harness
// closures that log per connection id; every tunnel gets its own backend.

import (
	"bufio"
	"context"
	"crypto/tls"
	"encoding/binary"
	"fmt"
	"io"
	"log"
	"net"
	"net/http"
	"net/http/httptest"
	"strconv"
	"strings"
	"sync"
	"time"

	"github.com/bolkedebruin/rdpgw/cmd/rdpgw/protocol"
	"github.com/bolkedebruin/rdpgw/cmd/rdpgw/security"
	"github.com/bolkedebruin/rdpgw/cmd/rdpgw/web"
)

type l2server struct {
	srv    *httptest.Server
	gw     *protocol.Gateway
	inst   *gwInstance
	mu     sync.Mutex
	logs   map[string][]string // connection id -> callback log
	errlog lockedWriter        // http.Server error log ("http: panic serving ...")
}

// panics counts the handler panics net/http recovered since the server started.
func (s *l2server) panics() int { return strings.Count(s.errlog.String(), "panic serving") }

type lockedWriter struct {
	mu sync.Mutex
	sb strings.Builder
}

func (l *lockedWriter) Write(p []byte) (int, error) {
	l.mu.Lock()
	defer l.mu.Unlock()
	return l.sb.Write(p)
}
func (l *lockedWriter) String() string { l.mu.Lock(); defer l.mu.Unlock(); return l.sb.String() }

var l2ErrLog = &lockedWriter{}

// cookie strings the scripted cookie check understands: "ok|<user>|<host>" is
// accepted and fills the tunnel as security.CheckPAACookie does; anything else
// is refused.
func newL2Server(tokenAuth bool, sendBuf int) *l2server {
	storeOnce.Do(func() {
		web.InitStore([]byte("0123456789abcdef0123456789abcdef"), []byte("fedcba9876543210fedcba9876543210"), "cookie", 0)
	})
	s := &l2server{logs: map[string][]string{}}
	// all five device classes enabled individually: the redirect flags then encode as 0, the value a lazily
	// initialised cache would take for "not computed yet"
	gw := &protocol.Gateway{TokenAuth: tokenAuth, SendBuf: sendBuf, IdleTimeout: 30,
		RedirectFlags: protocol.RedirectFlags{Clipboard: true, Port: true, Drive: true, Printer: true, Pnp: true}}
	tun := func(ctx context.Context) *protocol.Tunnel {
		t, _ := ctx.Value(protocol.CtxTunnel).(*protocol.Tunnel)
		return t
	}
	add := func(t *protocol.Tunnel, tok string) {
		s.mu.Lock()
		s.logs[t.RDGId] = append(s.logs[t.RDGId], tok)
		s.mu.Unlock()
	}
	if tokenAuth {
		gw.CheckPAACookie = func(ctx context.Context, c string) (bool, error) {
			t := tun(ctx)
			p := strings.Split(c, "|")
			ok := len(p) == 3 && p[0] == "ok"
			add(t, "AC:"+hx([]byte(c))+":"+b01(ok))
			if ok {
				t.User.SetUserName(p[1])
				t.TargetServer = p[2]
			}
			return ok, nil
		}
	}
	// under token authentication the host check is the real security.CheckSession, built ONCE for the gateway
	// as main() builds it (one closure shared by every tunnel), around a host check that allows everything;
	// address verification is off (the scripted cookies carry no address)
	security.VerifyClientIP = false
	session := security.CheckSession(func(ctx context.Context, h string) (bool, error) { return true, nil })
	gw.CheckHost = func(ctx context.Context, h string) (bool, error) {
		t := tun(ctx)
		ok := true
		if tokenAuth {
			ok, _ = session(ctx, h)
		}
		add(t, "AH:"+hx([]byte(h))+":"+b01(ok)+":u="+hx([]byte(t.User.UserName())))
		return ok, nil
	}
	s.gw = gw
	h := web.EnrichContext(http.HandlerFunc(gw.HandleGatewayProtocol))
	s.srv = httptest.NewUnstartedServer(h)
	s.srv.Config.ErrorLog = log.New(&s.errlog, "", 0) // "http: panic serving ..." lines
	s.srv.Start()
	port := s.srv.Listener.Addr().(*net.TCPAddr).Port
	s.inst = &gwInstance{port: port, exited: make(chan struct{})}
	return s
}

func (s *l2server) takeLog(id string) []string {
	s.mu.Lock()
	defer s.mu.Unlock()
	l := s.logs[id]
	delete(s.logs, id)
	return l
}

func (s *l2server) close() {
	s.srv.CloseClientConnections()
	s.srv.Close()
}

// ---------------------------------------------------------------- legacy client

type legacyConn struct {
	out   net.Conn
	outBr *bufio.Reader
	in    net.Conn
	inBr  *bufio.Reader
}

func dialRaw(g *gwInstance) (net.Conn, error) {
	addr := fmt.Sprintf("127.0.0.1:%d", g.port)
	if g.tls {
		return tls.DialWithDialer(&net.Dialer{Timeout: 3 * time.Second}, "tcp", addr, &tls.Config{InsecureSkipVerify: true})
	}
	return net.DialTimeout("tcp", addr, 3*time.Second)
}

func legacyOpenOut(g *gwInstance, id string, hdr map[string]string) (net.Conn, *bufio.Reader, int, error) {
	c, err := dialRaw(g)
	if err != nil {
		return nil, nil, 0, err
	}
	var sb strings.Builder
	fmt.Fprintf(&sb, "RDG_OUT_DATA /remoteDesktopGateway/ HTTP/1.1\r\nHost: gw\r\nRdg-Connection-Id: %s\r\nAccept: */*\r\n", id)
	for k, v := range hdr {
		fmt.Fprintf(&sb, "%s: %s\r\n", k, v)
	}
	sb.WriteString("\r\n")
	c.SetDeadline(time.Now().Add(5 * time.Second))
	c.Write([]byte(sb.String()))
	br := bufio.NewReader(c)
	// status line + headers (HTTP/1.0 style body without length: not http.ReadResponse)
	line, err := br.ReadString('\n')
	if err != nil {
		c.Close()
		return nil, nil, 0, err
	}
	st := 0
	if p := strings.Split(line, " "); len(p) >= 2 {
		st, _ = strconv.Atoi(p[1])
	}
	for {
		l, err := br.ReadString('\n')
		if err != nil || l == "\r\n" {
			break
		}
	}
	if st == 200 {
		seed := make([]byte, 10)
		if _, err := io.ReadFull(br, seed); err != nil {
			c.Close()
			return nil, nil, st, err
		}
	}
	c.SetDeadline(time.Time{})
	return c, br, st, nil
}

func legacyOpenIn(g *gwInstance, id string, hdr map[string]string) (net.Conn, *bufio.Reader, int, error) {
	c, err := dialRaw(g)
	if err != nil {
		return nil, nil, 0, err
	}
	var sb strings.Builder
	fmt.Fprintf(&sb, "RDG_IN_DATA /remoteDesktopGateway/ HTTP/1.1\r\nHost: gw\r\nRdg-Connection-Id: %s\r\nTransfer-Encoding: chunked\r\n", id)
	for k, v := range hdr {
		fmt.Fprintf(&sb, "%s: %s\r\n", k, v)
	}
	sb.WriteString("\r\n")
	c.SetDeadline(time.Now().Add(5 * time.Second))
	c.Write([]byte(sb.String()))
	br := bufio.NewReader(c)
	resp, err := http.ReadResponse(br, &http.Request{Method: "GET"})
	if err != nil {
		c.Close()
		return nil, nil, 0, err
	}
	c.SetDeadline(time.Time{})
	return c, br, resp.StatusCode, nil
}

// legacyDial opens the OUT then the IN connection and sends the throw-away
// preamble the gateway drains.
func legacyDial(g *gwInstance, id string, hdr map[string]string) (*legacyConn, error) {
	return legacyDial2(g, id, hdr, hdr)
}

// legacyDial2 opens the two requests of a legacy tunnel with separate headers.
func legacyDial2(g *gwInstance, id string, hdrOut, hdr map[string]string) (*legacyConn, error) {
	out, outBr, st, err := legacyOpenOut(g, id, hdrOut)
	if err != nil || st != 200 {
		return nil, fmt.Errorf("legacy OUT: status %d err %v", st, err)
	}
	in, inBr, st, err := legacyOpenIn(g, id, hdr)
	if err != nil || st != 200 {
		out.Close()
		return nil, fmt.Errorf("legacy IN: status %d err %v", st, err)
	}
	l := &legacyConn{out: out, outBr: outBr, in: in, inBr: inBr}
	in.Write([]byte("preamble-to-be-drained"))
	time.Sleep(60 * time.Millisecond)
	return l, nil
}

func (l *legacyConn) send(p []byte) error {
	_, err := l.in.Write([]byte(fmt.Sprintf("%x\r\n%s\r\n", len(p), p)))
	return err
}

// recv reads one packet (header + declared length) from the OUT connection.
func (l *legacyConn) recv(timeout time.Duration) ([]byte, error) {
	l.out.SetReadDeadline(time.Now().Add(timeout))
	defer l.out.SetReadDeadline(time.Time{})
	h := make([]byte, 8)
	if _, err := io.ReadFull(l.outBr, h); err != nil {
		return nil, err
	}
	size := int(binary.LittleEndian.Uint32(h[4:8]))
	if size < 8 || size > 1<<20 {
		return h, fmt.Errorf("bad packet size %d", size)
	}
	body := make([]byte, size-8)
	if _, err := io.ReadFull(l.outBr, body); err != nil {
		return nil, err
	}
	return append(h, body...), nil
}

func (l *legacyConn) close() { l.in.Close(); l.out.Close() }

// ---------------------------------------------------------------- a tunnel client over either transport

type tclient interface {
	send(p []byte) error
	recv(timeout time.Duration) ([]byte, error)
	close()
}

// tunnelScript: what one client does on one tunnel.
type tunnelScript struct {
	transport    string   // ws | legacy
	id           string   // connection id
	packets      [][]byte // sent one per message / chunk
	hostSends    []byte   // what the backend writes once connected
	xff          string
	auth         string   // Authorization header value ("" = none)
	returnCookie bool     // a client that has talked to the gateway before and sends its session cookie back
	cookieHdr    string   // the Cookie header of a client whose earlier visit happened at a time of the caller's choosing (visitCookie)
	afterEnd     [][]byte // packets sent after the tunnel should have ended (silence check)
	end          string   // how the client ends: close | leave
}

type tunnelResult struct {
	responses [][]byte // non-DATA packets received, in order
	fromHost  []byte   // concatenated payloads of DATA packets received
	badData   bool     // a DATA packet that does not decode
	closed    bool     // the server ended the client-facing stream
	afterEnd  int      // packets received after the end
	err       string
}

func openTunnel(g *gwInstance, sc tunnelScript) (tclient, error) {
	hdr := map[string]string{}
	if sc.xff != "" {
		hdr["X-Forwarded-For"] = sc.xff
	}
	if sc.auth != "" {
		hdr["Authorization"] = sc.auth
	}
	if sc.cookieHdr != "" {
		hdr["Cookie"] = sc.cookieHdr
	}
	if sc.transport == "legacy" {
		return legacyDial(g, sc.id, hdr)
	}
	if sc.returnCookie {
		// an earlier visit (a plain request, answered with the session cookie): the cookie is sent back now
		if ck := visitCookie(g); ck != "" {
			hdr["Cookie"] = ck
		}
	}
	if sc.cookieHdr != "" {
		hdr["Cookie"] = sc.cookieHdr
	}
	ws, st, _, err := wsDial(g, wsOpts{headers: hdr, connID: sc.id})
	if err != nil || st != 101 {
		return nil, fmt.Errorf("ws: status %d err %v", st, err)
	}
	return ws, nil
}

// visitCookie: a plain request to the gateway endpoint, answered with the session cookie; returns the
// Cookie header a returning client would send.
func visitCookie(g *gwInstance) string {
	if g.tls {
		return ""
	}
	resp, err := http.Get(fmt.Sprintf("http://127.0.0.1:%d/remoteDesktopGateway/", g.port))
	if err != nil {
		return ""
	}
	var ck []string
	for _, c := range resp.Header.Values("Set-Cookie") {
		ck = append(ck, strings.SplitN(c, ";", 2)[0])
	}
	io.Copy(io.Discard, resp.Body)
	resp.Body.Close()
	return strings.Join(ck, "; ")
}

// runTunnel plays the script and collects what the client sees. Responses are
// awaited after each setup packet so that the exchange is sequential.
func runTunnel(g *gwInstance, sc tunnelScript) tunnelResult {
	var res tunnelResult
	c, err := openTunnel(g, sc)
	if err != nil {
		res.err = err.Error()
		return res
	}
	defer c.close()
	var mu sync.Mutex
	done := make(chan struct{})
	go func() { // reader
		defer close(done)
		for {
			m, err := c.recv(4 * time.Second)
			if err != nil {
				mu.Lock()
				if ne, ok := err.(net.Error); !(ok && ne.Timeout()) {
					res.closed = true
				}
				mu.Unlock()
				return
			}
			mu.Lock()
			if len(m) >= 8 && int(m[0])|int(m[1])<<8 == ptData {
				body := m[8:]
				if len(body) < 2 || int(body[0])|int(body[1])<<8 != len(body)-2 || int(binary.LittleEndian.Uint32(m[4:8])) != len(m) {
					res.badData = true
				} else {
					res.fromHost = append(res.fromHost, body[2:]...)
				}
			} else {
				res.responses = append(res.responses, m)
			}
			mu.Unlock()
		}
	}()
	nresp := func() int { mu.Lock(); defer mu.Unlock(); return len(res.responses) }
	isClosed := func() bool { mu.Lock(); defer mu.Unlock(); return res.closed }
	for _, p := range sc.packets {
		before := nresp()
		if err := c.send(p); err != nil {
			break
		}
		if sc.transport == "legacy" {
			time.Sleep(15 * time.Millisecond) // one packet per chunk read (coalesced packets are C08's finding)
		}
		ty := 0
		if len(p) >= 2 {
			ty = int(p[0]) | int(p[1])<<8
		}
		// setup packets and close are answered: wait for the answer (or the end)
		if ty == ptHandshake || ty == ptTunnelCreate || ty == ptTunnelAuth || ty == ptChannelCreate || ty == ptCloseChannel {
			dl := time.Now().Add(3 * time.Second)
			for nresp() == before && !isClosed() && time.Now().Before(dl) {
				time.Sleep(2 * time.Millisecond)
			}
		}
		if isClosed() {
			break
		}
	}
	// let relayed data drain, then see whether the server ended the stream
	time.Sleep(150 * time.Millisecond)
	if len(sc.afterEnd) > 0 {
		n0 := nresp()
		for _, p := range sc.afterEnd {
			c.send(p)
		}
		time.Sleep(150 * time.Millisecond)
		res.afterEnd = nresp() - n0
	}
	serverClosed := isClosed()
	if sc.end == "close" || sc.end == "" {
		c.close()
	}
	select {
	case <-done:
	case <-time.After(5 * time.Second):
	}
	mu.Lock()
	res.closed = serverClosed
	mu.Unlock()
	return res
}
