package main

import (
	"encoding/base64"
	"fmt"
	"math/bits"
	"math/rand"
	"path/filepath"
	"runtime"
	"strconv"
	"strings"
	"sync"
	"time"

	"github.com/bolkedebruin/rdpgw/cmd/rdpgw/protocol"
)

func init() { streams["c17"] = streamC17 }

// parallel runs fn over jobs on all cores; each worker gets its own L1 env.
func parallel[J any](jobs []J, fn func(e *l1env, j J)) {
	n := runtime.NumCPU()
	ch := make(chan J, 256)
	var wg sync.WaitGroup
	for w := 0; w < n; w++ {
		wg.Add(1)
		go func() {
			defer wg.Done()
			e := newL1Env(3)
			for j := range ch {
				fn(e, j)
			}
		}()
	}
	for _, j := range jobs {
		ch <- j
	}
	close(ch)
	wg.Wait()
}

func streamC17(env *runEnv) {
	r := rand.New(rand.NewSource(env.seed))
	// (a) the capability table through the real matchAuth
	var clients []int
	if env.thorough() {
		for c := 0; c < 65536; c++ {
			clients = append(clients, c)
		}
	} else {
		seen := map[int]bool{}
		for c := 0; c < 65536; c++ {
			if bits.OnesCount(uint(c)) <= 2 {
				seen[c] = true
			}
		}
		for i := 0; i < 4096; i++ {
			seen[r.Intn(65536)] = true
		}
		for c := 0; c < 65536; c++ {
			if seen[c] {
				clients = append(clients, c)
			}
		}
	}
	for _, sc := range []bool{false, true} {
		for _, tok := range []bool{false, true} {
			gw := &protocol.Gateway{SmartCardAuth: sc, TokenAuth: tok}
			p := protocol.NewProcessor(gw, nil)
			for _, c := range clients {
				caps, err := p.VerifMatchAuth(uint16(c))
				obs := "err"
				if err == nil {
					obs = "ok:" + strconv.Itoa(int(caps))
					env.count("matchauth.success")
				} else {
					env.count("matchauth.refused")
				}
				env.emit("matchauth", b01(sc), b01(tok), strconv.Itoa(c), obs)
			}
		}
	}
	// (b) whole handshakes through the real Processor: version byte pairs,
	// capability values, short and over-long bodies
	type job struct {
		sc, tok bool
		body    []byte
	}
	var jobs []job
	exts := []int{0, 1, 2, 3, 4, 5, 6, 7, 8, 0xfffd, 0xfffe, 0xffff, 0x8000, 0x0100, 0x0200}
	for _, sc := range []bool{false, true} {
		for _, tok := range []bool{false, true} {
			for _, ext := range exts {
				for _, v := range [][2]byte{{0, 0}, {1, 0}, {1, 2}, {255, 255}, {0, 255}, {128, 7}} {
					jobs = append(jobs, job{sc, tok, handshakeBody(v[0], v[1], 0, ext)})
				}
			}
			nv := 64
			if env.thorough() {
				nv = 256
			}
			for i := 0; i < nv; i++ { // version byte pairs
				jobs = append(jobs, job{sc, tok, handshakeBody(byte(i), byte(255-i), r.Intn(65536), pick(r, exts))})
			}
			full := handshakeBody(1, 2, 3, 2)
			for k := 0; k <= len(full); k++ { // truncated bodies
				jobs = append(jobs, job{sc, tok, full[:k]})
			}
			jobs = append(jobs, job{sc, tok, append(append([]byte{}, full...), 9, 9, 9)})
			nr := 200
			if env.thorough() {
				nr = 5000
			}
			for i := 0; i < nr; i++ {
				jobs = append(jobs, job{sc, tok, handshakeBody(byte(r.Intn(256)), byte(r.Intn(256)), r.Intn(65536), r.Intn(65536))})
			}
		}
	}
	parallel(jobs, func(e *l1env, j job) {
		cfg := procCfg{token: j.tok, smartcard: j.sc}
		items := []item{{data: packet(ptHandshake, j.body)}, {eof: true}}
		res := e.runProcess(cfg, items)
		env.count(fmt.Sprintf("handshake.bodylen.%d", len(j.body)))
		env.emit("handshake", b01(j.sc), b01(j.tok), hx(j.body), res.obs)
	})
}

func init() { streams["c17gw"] = streamC17gw }

// streamC17gw: the handshake against the real binary, for configurations that
// differ in everything around the two mechanism switches (how users
// authenticate, whether TLS is terminated here, both transports): the switches
// as configured are what the gateway negotiates with, and a refused handshake
// ends the tunnel on every connection it used.
func streamC17gw(env *runEnv) {
	if rdpgwBinary == "" {
		return
	}
	idp := newFakeIdP()
	defer idp.close()
	basic := "Basic " + base64.StdEncoding.EncodeToString([]byte("1:pw1"))
	type cf struct {
		auth    string
		tok, sc bool
		tls     bool
	}
	for ci, c := range []cf{
		{"local", true, true, true}, {"local", false, true, true}, {"local", false, false, true}, {"local", true, false, true},
		{"openid", true, true, false}, {"openid", true, false, false}, {"openid", true, true, true},
	} {
		dir := filepath.Join(env.workdir, fmt.Sprintf("c17gw-%d", ci))
		mkdirAll(dir)
		gc := gwConfig{authSet: true, auth: []string{c.auth}, hosts: []string{"10.9.8.7:3389"}, hostSelection: "roundrobin",
			tokenAuth: bp(c.tok), smartcard: c.sc, tlsDisable: !c.tls}
		var fa *fakeAuth
		hdr := ""
		if c.auth == "local" {
			sock := filepath.Join(dir, "a.sock")
			gc.authSocket = sock
			fa = newFakeAuth(sock, map[string]string{"1": "pw1"})
			hdr = basic
		} else {
			gc.providerURL, gc.clientID = idp.srv.URL, idp.clientID
		}
		if c.tls {
			gc.certFile, gc.keyFile = selfSigned(dir)
		}
		yaml, ev := gc.render("file")
		g, ok := startGateway(dir, yaml, ev, c.tls)
		if !ok {
			panic("C17 gw: gateway did not start: " + g.logs())
		}
		n := 0
		for _, ext := range []int{0, 1, 2, 3, 0x8000, 0xfffd} {
			for _, tr := range []string{"ws", "legacy"} {
				n++
				body := handshakeBody(byte(1+n%3), byte(n%2), 0, ext)
				res := runTunnel(g, tunnelScript{transport: tr, id: fmt.Sprintf("{c17gw-%d-%d}", ci, n), packets: [][]byte{packet(ptHandshake, body)}, auth: hdr, end: "close"})
				obs := "ERR:" + res.err
				if res.err == "" {
					var rs []string
					for _, m := range res.responses {
						rs = append(rs, hx(m))
					}
					if len(rs) == 0 {
						rs = []string{"-"}
					}
					obs = "R=" + strings.Join(rs, ",") + " X=" + b01(res.closed)
				}
				env.count("c17gw." + c.auth + "." + tr)
				env.emit("handshakegw", b01(c.sc), b01(c.tok), c.auth+"/"+b01(c.tls)+"/"+tr, hx(body), obs)
			}
		}
		if !g.alive() {
			env.emit("alive", "c17gw-gateway", "process-exited")
		}
		g.stop()
		if fa != nil {
			fa.stop()
		}
	}
}

func init() { streams["c16gw"] = streamC16gw }

// streamC16gw: the tunnel-authorization response of the real binary for configurations of the seven
// redirection switches and the idle timeout, given by file or by environment: what main() and
// config.Load make of the switches is what the client is told.
func streamC16gw(env *runEnv) {
	if rdpgwBinary == "" {
		return
	}
	r := rand.New(rand.NewSource(env.seed + 16))
	basic := "Basic " + base64.StdEncoding.EncodeToString([]byte("1:pw1"))
	redirs := []string{"0000000", "1000000", "0100000", "0010000", "0001000", "0000100", "0000010", "0000001", "1111100", "0100100", "1011000", "0000011", "1111111"}
	if env.thorough() {
		for i := 0; i < 24; i++ {
			b := make([]byte, 7)
			for k := range b {
				b[k] = "01"[r.Intn(2)]
			}
			redirs = append(redirs, string(b))
		}
	}
	idles := []int{0, 30, -1, 1, 2147483, 0, 5, 0, 0, 0, 60, 0, 0}
	for ci, rd := range redirs {
		dir := filepath.Join(env.workdir, fmt.Sprintf("c16gw-%d", ci))
		mkdirAll(dir)
		idle := idles[ci%len(idles)]
		sock := filepath.Join(dir, "a.sock")
		gc := gwConfig{authSet: true, auth: []string{"local"}, hosts: []string{"10.9.8.7:3389"}, hostSelection: "roundrobin",
			tokenAuth: bp(false), redir: rd, idle: &idle, authSocket: sock}
		gc.certFile, gc.keyFile = selfSigned(dir)
		fa := newFakeAuth(sock, map[string]string{"1": "pw1"})
		yaml, ev := gc.render([]string{"file", "env", "split"}[ci%3])
		g, ok := startGateway(dir, yaml, ev, true)
		if !ok {
			panic("C16 gw: gateway did not start: " + g.logs())
		}
		for _, tr := range []string{"ws", "legacy"} {
			pk := [][]byte{
				packet(ptHandshake, handshakeBody(1, 0, 0, 0)),
				packet(ptTunnelCreate, tunnelCreateBody(uint32(r.Intn(64)), "", false)),
				packet(ptTunnelAuth, tunnelAuthBody("pc")),
			}
			res := runTunnel(g, tunnelScript{transport: tr, id: fmt.Sprintf("{c16gw-%d-%s}", ci, tr), packets: pk, auth: basic, end: "close"})
			obs := "ERR:" + res.err
			if res.err == "" {
				var rs []string
				for _, m := range res.responses {
					rs = append(rs, hx(m))
				}
				if len(rs) == 0 {
					rs = []string{"-"}
				}
				obs = strings.Join(rs, ",")
			}
			env.count("c16gw." + tr)
			var its []string
			for _, p := range pk {
				its = append(its, hx(p))
			}
			env.emit("tunnelauthgw", rd, strconv.Itoa(idle), strings.Join(its, ","), obs)
		}
		g.stop()
		fa.stop()
	}
}

func init() { streams["c16order"] = streamC16order }

// streamC16order: a host that talks first (a banner on accept, as ssh, vnc or smtp do): the packet that
// answers CHANNEL_CREATE is the channel response, and only then does host data follow, for every one of
// many tunnels set up at once on both transports.
func streamC16order(env *runEnv) {
	srv := newL2Server(false, 0)
	defer srv.close()
	per := 120
	if env.thorough() {
		per = 400
	}
	for _, transport := range []string{"ws", "legacy"} {
		var mu sync.Mutex
		verdict := "exact"
		var wg sync.WaitGroup
		for w := 0; w < 16; w++ {
			wg.Add(1)
			go func(w int) {
				defer wg.Done()
				for k := 0; k < per; k++ {
					b := newTagBackend([]byte("SSH-2.0-banner-on-accept\r\n"))
					b.piece, b.pace = 64, 0
					host, port := splitHostPort(b.addr)
					c, err := openTunnel(srv.inst, tunnelScript{transport: transport, id: fmt.Sprintf("{c16order-%d-%s-%d-%d}", env.seed, transport, w, k)})
					if err != nil {
						b.close()
						continue
					}
					v := "exact"
					for i, p := range [][]byte{
						packet(ptHandshake, handshakeBody(1, 0, 0, 0)),
						packet(ptTunnelCreate, tunnelCreateBody(0, "", false)),
						packet(ptTunnelAuth, tunnelAuthBody("pc")),
						packet(ptChannelCreate, channelCreateBody(host, port)),
					} {
						c.send(p)
						if transport == "legacy" {
							time.Sleep(5 * time.Millisecond)
						}
						m, err := c.recv(3 * time.Second)
						want := []int{2, 5, 7, 9}[i]
						if err != nil {
							v = fmt.Sprintf("no-answer-to-request-%d", i)
							break
						}
						if got := int(m[0]) | int(m[1])<<8; got != want {
							v = fmt.Sprintf("request-%d-answered-by-packet-type-%d-instead-of-%d", i, got, want)
							break
						}
					}
					c.close()
					b.close()
					if v != "exact" {
						mu.Lock()
						verdict = v
						mu.Unlock()
						return
					}
				}
			}(w)
		}
		wg.Wait()
		env.count("c16order." + transport + "." + strings.SplitN(verdict, "-", 2)[0])
		env.emit("exact", fmt.Sprintf("every-request-answered-by-its-own-response-%d-tunnels-%s-host-talks-first", 16*per, transport), verdict)
	}
}
