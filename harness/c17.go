package main

import (
	"fmt"
	"math/bits"
	"math/rand"
	"runtime"
	"strconv"
	"sync"

	"github.com/bolkedebruin/rdpgw/cmd/rdpgw/protocol"
)

func init() { streams["c17"] = streamC17 }

// parallel runs fn over jobs on all cores; each worker gets its own L1 env.
func parallel[J any](jobs []J, fn func(e *l1env, j J)) {
	n := runtime.NumCPU()
	ch := make(chan J, 256)
	var wg sync.WaitGroup
	for w := 0; w < n; w++ {
		wg.Add(1)
		go func() {
			defer wg.Done()
			e := newL1Env(3)
			for j := range ch {
				fn(e, j)
			}
		}()
	}
	for _, j := range jobs {
		ch <- j
	}
	close(ch)
	wg.Wait()
}

func streamC17(env *runEnv) {
	r := rand.New(rand.NewSource(env.seed))
	// (a) the capability table through the real matchAuth
	var clients []int
	if env.thorough() {
		for c := 0; c < 65536; c++ {
			clients = append(clients, c)
		}
	} else {
		seen := map[int]bool{}
		for c := 0; c < 65536; c++ {
			if bits.OnesCount(uint(c)) <= 2 {
				seen[c] = true
			}
		}
		for i := 0; i < 4096; i++ {
			seen[r.Intn(65536)] = true
		}
		for c := 0; c < 65536; c++ {
			if seen[c] {
				clients = append(clients, c)
			}
		}
	}
	for _, sc := range []bool{false, true} {
		for _, tok := range []bool{false, true} {
			gw := &protocol.Gateway{SmartCardAuth: sc, TokenAuth: tok}
			p := protocol.NewProcessor(gw, nil)
			for _, c := range clients {
				caps, err := p.VerifMatchAuth(uint16(c))
				obs := "err"
				if err == nil {
					obs = "ok:" + strconv.Itoa(int(caps))
					env.count("matchauth.success")
				} else {
					env.count("matchauth.refused")
				}
				env.emit("matchauth", b01(sc), b01(tok), strconv.Itoa(c), obs)
			}
		}
	}
	// (b) whole handshakes through the real Processor: version byte pairs,
	// capability values, short and over-long bodies
	type job struct {
		sc, tok bool
		body    []byte
	}
	var jobs []job
	exts := []int{0, 1, 2, 3, 4, 5, 6, 7, 8, 0xfffd, 0xfffe, 0xffff, 0x8000, 0x0100, 0x0200}
	for _, sc := range []bool{false, true} {
		for _, tok := range []bool{false, true} {
			for _, ext := range exts {
				for _, v := range [][2]byte{{0, 0}, {1, 0}, {1, 2}, {255, 255}, {0, 255}, {128, 7}} {
					jobs = append(jobs, job{sc, tok, handshakeBody(v[0], v[1], 0, ext)})
				}
			}
			nv := 64
			if env.thorough() {
				nv = 256
			}
			for i := 0; i < nv; i++ { // version byte pairs
				jobs = append(jobs, job{sc, tok, handshakeBody(byte(i), byte(255-i), r.Intn(65536), pick(r, exts))})
			}
			full := handshakeBody(1, 2, 3, 2)
			for k := 0; k <= len(full); k++ { // truncated bodies
				jobs = append(jobs, job{sc, tok, full[:k]})
			}
			jobs = append(jobs, job{sc, tok, append(append([]byte{}, full...), 9, 9, 9)})
			nr := 200
			if env.thorough() {
				nr = 5000
			}
			for i := 0; i < nr; i++ {
				jobs = append(jobs, job{sc, tok, handshakeBody(byte(r.Intn(256)), byte(r.Intn(256)), r.Intn(65536), r.Intn(65536))})
			}
		}
	}
	parallel(jobs, func(e *l1env, j job) {
		cfg := procCfg{token: j.tok, smartcard: j.sc}
		items := []item{{data: packet(ptHandshake, j.body)}, {eof: true}}
		res := e.runProcess(cfg, items)
		env.count(fmt.Sprintf("handshake.bodylen.%d", len(j.body)))
		env.emit("handshake", b01(j.sc), b01(j.tok), hx(j.body), res.obs)
	})
}
