package main

import (
	"fmt"
	"io"
	"math/rand"
	"net"
	"net/http"
	"os"
	"path/filepath"
	"regexp"
	"sort"
	"strings"
	"sync"
	"time"
)

func init() { streams["c09"] = streamC09 }

// streamC09 is the runtime half of C09: the real gateway handlers under the
// race detector (this binary is built with -race by bin/check), N concurrent
// tunnels over both transports doing setup, data in both directions,
// keep-alives, channel close while the host is still sending, protocol errors
// while the host is still sending and abrupt disconnects. Race reports are
// written by the runtime to GORACE's log_path and summarised here.
func streamC09(env *runEnv) {
	r := rand.New(rand.NewSource(env.seed))
	srv := newL2Server(true, 0)
	defer srv.close()
	dur := 6 * time.Second
	ns := []int{4, 32}
	if env.thorough() {
		dur = 120 * time.Second
	}
	deadline := time.Now().Add(dur)
	// two tunnels that live for the whole run and never go quiet: whatever the gateway does on a timer
	// (idle supervision, metrics, clean-up) meets a tunnel whose packet loop is busy
	var longWG sync.WaitGroup
	for li, transport := range []string{"ws", "legacy"} {
		longWG.Add(1)
		go func(li int, transport string) {
			defer longWG.Done()
			b := newTagBackend([]byte(strings.Repeat("<long-lived-host>", 4096)))
			b.piece, b.pace = 512, 50*time.Millisecond
			defer b.close()
			host, port := splitHostPort(b.addr)
			c, err := openTunnel(srv.inst, tunnelScript{transport: transport, id: fmt.Sprintf("{c09-long-%d-%d}", env.seed, li)})
			if err != nil {
				return
			}
			defer c.close()
			stop := make(chan struct{})
			go func() {
				for {
					if _, err := c.recv(500 * time.Millisecond); err != nil {
						if ne, ok := err.(net.Error); !(ok && ne.Timeout()) {
							return
						}
					}
					select {
					case <-stop:
						return
					default:
					}
				}
			}()
			for _, p := range [][]byte{
				packet(ptHandshake, handshakeBody(1, 0, 0, 2)),
				packet(ptTunnelCreate, tunnelCreateBody(0, fmt.Sprintf("ok|long%d|%s", li, b.addr), true)),
				packet(ptTunnelAuth, tunnelAuthBody("pc")),
				packet(ptChannelCreate, channelCreateBody(host, port)),
			} {
				c.send(p)
				time.Sleep(30 * time.Millisecond)
			}
			for k := 0; time.Now().Before(deadline); k++ {
				if k%2 == 0 {
					c.send(packet(ptKeepalive, nil))
				} else {
					c.send(packet(ptData, dataBody([]byte("still-here"))))
				}
				time.Sleep(20 * time.Millisecond)
			}
			c.send(packet(ptCloseChannel, nil))
			time.Sleep(100 * time.Millisecond)
			close(stop)
		}(li, transport)
	}
	defer longWG.Wait()
	round := 0
	frames, badFrames, tunnels := 0, 0, 0
	var mu sync.Mutex
	for time.Now().Before(deadline) {
		n := ns[round%len(ns)]
		var wg sync.WaitGroup
		var backends []*tagBackend
		for i := 0; i < n; i++ {
			// the host keeps sending for about a second: longer than any client script, so that every
			// ending happens while the relay is busy
			tag := fmt.Sprintf("<h%d-%d>", round, i)
			b := newTagBackend([]byte(strings.Repeat(tag, (2<<20)/len(tag))))
			b.piece = 4096
			b.pace = 2 * time.Millisecond
			backends = append(backends, b)
		}
		// half of the clients of a round come from one browser-like client that returns its session cookie
		// on every request (both channels of its legacy tunnels, all its tunnels at once)
		shared := visitCookie(srv.inst)
		for i := 0; i < n; i++ {
			wg.Add(1)
			scenario := r.Intn(6)
			transport := pick(r, []string{"ws", "legacy"})
			go func(i, scenario int, transport string) {
				defer wg.Done()
				b := backends[i]
				host, port := splitHostPort(b.addr)
				pk := [][]byte{
					packet(ptHandshake, handshakeBody(1, 0, 0, 2)),
					packet(ptTunnelCreate, tunnelCreateBody(0, fmt.Sprintf("ok|u%d|%s", i, b.addr), true)),
					packet(ptTunnelAuth, tunnelAuthBody("pc")),
					packet(ptChannelCreate, channelCreateBody(host, port)),
				}
				for k := 0; k < 20; k++ {
					pk = append(pk, packet(ptData, dataBody([]byte(strings.Repeat("c", 300)))))
					if k%3 == 0 {
						pk = append(pk, packet(ptKeepalive, nil))
					}
				}
				end := "close"
				switch scenario {
				case 0: // orderly close while the host is still sending
					pk = append(pk, packet(ptCloseChannel, nil))
				case 1: // protocol error while the host is still sending
					pk = append(pk, packet(ptHandshake, handshakeBody(1, 0, 0, 2)))
				case 2: // abrupt disconnect right after the channel is open
					pk = pk[:5]
				case 3: // stop during setup
					pk = pk[:2]
				}
				ck := ""
				if i%2 == 1 {
					ck = shared
				}
				id := fmt.Sprintf("{c09-%d-%d-%d}", env.seed, round, i)
				if transport == "ws" && i%8 >= 6 {
					// two websocket clients of a round present one connection id (it only matters for legacy pairing)
					id = fmt.Sprintf("{c09-%d-%d-dup}", env.seed, round)
				}
				res := runTunnel(srv.inst, tunnelScript{transport: transport, id: id, packets: pk, end: end, cookieHdr: ck})
				mu.Lock()
				tunnels++
				frames += len(res.responses)
				if res.badData || !strings.HasPrefix(string(b.sends), string(res.fromHost)) {
					badFrames++
				}
				mu.Unlock()
			}(i, scenario, transport)
		}
		wg.Wait()
		for _, b := range backends {
			b.close()
		}
		round++
	}
	env.count("c09.rounds")
	// frame integrity as seen by the clients
	fi := "frames-intact"
	if badFrames > 0 {
		fi = fmt.Sprintf("corrupted-or-foreign-frames:%d", badFrames)
	}
	env.emit("raceprobe", "frame-integrity", fmt.Sprintf("tunnels=%d", tunnels), fi)
	// race reports written so far
	time.Sleep(300 * time.Millisecond)
	sigs := raceSignatures(env.workdir)
	if len(sigs) == 0 {
		env.emit("raceprobe", "race-detector", fmt.Sprintf("tunnels=%d", tunnels), "no-race-reported")
	}
	for _, s := range sigs {
		env.emit("raceprobe", "race-detector", fmt.Sprintf("tunnels=%d", tunnels), "race:"+s)
	}
	if strings.Contains(l2ErrLog.String(), "concurrent") {
		env.emit("raceprobe", "server-log", "-", "concurrent-fault-in-server-log")
	}
}

var raceFn = regexp.MustCompile(`rdpgw/cmd/rdpgw/[a-z]+\.(?:\(\*?([A-Za-z]+)\)\.)?([A-Za-z]+)\(`)

// raceSignatures parses the race detector's reports (GORACE log_path=<dir>/race)
// into signatures: the sorted set of gateway functions on the two stacks' tops.
func raceSignatures(dir string) []string {
	files, _ := filepath.Glob(filepath.Join(dir, "race.*"))
	seen := map[string]bool{}
	for _, f := range files {
		b, err := os.ReadFile(f)
		if err != nil {
			continue
		}
		for _, rep := range strings.Split(string(b), "WARNING: DATA RACE")[1:] {
			// the first gateway frame of each of the two accesses
			var tops []string
			for _, blk := range strings.Split(rep, "\n\n") {
				if !(strings.HasPrefix(strings.TrimSpace(blk), "Read at") || strings.HasPrefix(strings.TrimSpace(blk), "Write at") ||
					strings.HasPrefix(strings.TrimSpace(blk), "Previous read at") || strings.HasPrefix(strings.TrimSpace(blk), "Previous write at")) {
					continue
				}
				if m := raceFn.FindStringSubmatch(blk); m != nil {
					name := m[2]
					if m[1] != "" {
						name = m[1] + "." + m[2]
					}
					tops = append(tops, name)
				}
			}
			sort.Strings(tops)
			if len(tops) > 0 {
				seen[strings.Join(tops, "+")] = true
			}
		}
	}
	var out []string
	for s := range seen {
		out = append(out, s)
	}
	sort.Strings(out)
	return out
}

func init() { streams["c09gw"] = streamC09gw }

// streamC09gw: the assembled binary under connection churn: many short-lived connections (accepted,
// served, closed) from 16 clients at once, next to tunnels being hijacked and torn down. Whatever
// main() hangs on the http.Server (connection-state hooks, loggers, counters) is exercised here; the
// process must survive and its log must be free of runtime faults.
func streamC09gw(env *runEnv) {
	if rdpgwBinary == "" {
		return
	}
	idp := newFakeIdP()
	defer idp.close()
	dir := filepath.Join(env.workdir, "c09gw")
	mkdirAll(dir)
	gc := gwConfig{authSet: true, auth: []string{"openid"}, tlsDisable: true, hosts: []string{"127.0.0.1:3389"}, hostSelection: "any",
		providerURL: idp.srv.URL, clientID: idp.clientID}
	yaml, ev := gc.render("file")
	g, ok := startGateway(dir, yaml, ev, false)
	if !ok {
		panic("C09 gw: gateway did not start: " + g.logs())
	}
	per := 300
	if env.thorough() {
		per = 3000
	}
	var wg sync.WaitGroup
	served := make([]int, 16)
	for w := 0; w < 16; w++ {
		wg.Add(1)
		go func(w int) {
			defer wg.Done()
			tr := &http.Transport{DisableKeepAlives: true}
			cl := &http.Client{Transport: tr, Timeout: 3 * time.Second, CheckRedirect: func(*http.Request, []*http.Request) error { return http.ErrUseLastResponse }}
			for k := 0; k < per; k++ {
				path := []string{"/metrics", "/tokeninfo", "/connect", "/remoteDesktopGateway/"}[(w+k)%4]
				if resp, err := cl.Get(g.base() + path); err == nil {
					io.Copy(io.Discard, resp.Body)
					resp.Body.Close()
					served[w]++
				}
				if k%25 == 0 {
					if c, err := openTunnel(g, tunnelScript{transport: []string{"ws", "legacy"}[k/25%2], id: fmt.Sprintf("{c09gw-%d-%d-%d}", env.seed, w, k)}); err == nil {
						c.send(packet(ptHandshake, handshakeBody(1, 0, 0, 2)))
						c.recv(time.Second)
						c.close()
					}
				}
			}
		}(w)
	}
	wg.Wait()
	total := 0
	for _, n := range served {
		total += n
	}
	obs := "no-fault"
	lg := g.logs()
	switch {
	case !g.alive():
		obs = "process-exited"
	case strings.Contains(lg, "fatal error:") || strings.Contains(lg, "concurrent map"):
		obs = "concurrent-fault-in-server-log"
	case total < 16*per*9/10:
		obs = fmt.Sprintf("only-%d-of-%d-requests-served", total, 16*per)
	}
	if strings.Contains(lg, "WARNING: DATA RACE") {
		// the binary was built with -race: name the first gateway or main function of the report
		obs = "race-reported-by-the-binary"
		if m := regexp.MustCompile(`(?s)WARNING: DATA RACE.*?\n\s+(main\.[A-Za-z0-9_.()*]+|github\.com/bolkedebruin/rdpgw/[A-Za-z0-9_./()*]+)\(`).FindStringSubmatch(lg); m != nil {
			obs += ":" + m[1][strings.LastIndex(m[1], "/")+1:]
		}
	}
	if m := regexp.MustCompile(`fatal error: ([a-z][a-z ]*[a-z])`).FindStringSubmatch(lg); m != nil {
		obs = "process-aborted-" + strings.ReplaceAll(m[1], " ", "-")
	}
	env.count("c09gw." + obs)
	env.emit("raceprobe", "binary-under-connection-churn", fmt.Sprintf("requests=%d", 16*per), obs)
	g.stop()
}
