package main

// A scriptable authentication service on a unix socket implementing
// shared/auth: Basic verdicts from a table, NTLM through the real verifier.

import (
	"context"
	"errors"
	"net"
	"os"
	"sync"
	"time"

	authconfig "github.com/bolkedebruin/rdpgw/cmd/auth/config"
	"github.com/bolkedebruin/rdpgw/cmd/auth/database"
	authntlm "github.com/bolkedebruin/rdpgw/cmd/auth/ntlm"
	"github.com/bolkedebruin/rdpgw/shared/auth"
	"google.golang.org/grpc"
)

type authCall struct {
	kind   string // basic | ntlm
	user   string
	pass   string
	answer string // basic:1 | basic:0 | ntlmchal | ntlmok:<user> | ntlmno | err
	msg    string // ntlm: the message the gateway handed over
}

type fakeAuth struct {
	auth.UnimplementedAuthenticateServer
	srv   *grpc.Server
	sock  string
	ntlm  *authntlm.NTLMAuth
	users map[string]string
	mu    sync.Mutex
	calls []authCall
	// scripted: answer every NTLM request with this challenge instead of running the verifier
	scriptedChallenge string
}

func newFakeAuth(sock string, users map[string]string) *fakeAuth {
	os.Remove(sock)
	l, err := net.Listen("unix", sock)
	if err != nil {
		panic(err)
	}
	var db []authconfig.UserConfig
	for u, p := range users {
		db = append(db, authconfig.UserConfig{Username: u, Password: p})
	}
	f := &fakeAuth{sock: sock, users: users, ntlm: authntlm.NewNTLMAuth(database.NewConfig(db))}
	f.srv = grpc.NewServer()
	auth.RegisterAuthenticateServer(f.srv, f)
	go f.srv.Serve(l)
	return f
}

func (f *fakeAuth) record(c authCall) {
	f.mu.Lock()
	f.calls = append(f.calls, c)
	f.mu.Unlock()
}

func (f *fakeAuth) take() []authCall {
	f.mu.Lock()
	defer f.mu.Unlock()
	c := f.calls
	f.calls = nil
	return c
}

func (f *fakeAuth) Authenticate(ctx context.Context, m *auth.UserPass) (*auth.AuthResponse, error) {
	if m.Username == "err" {
		f.record(authCall{kind: "basic", user: m.Username, pass: m.Password, answer: "err"})
		return nil, errors.New("scripted failure")
	}
	ok := f.users[m.Username] != "" && f.users[m.Username] == m.Password
	if m.Username == "slow" && ok {
		time.Sleep(600 * time.Millisecond) // a slow successful check: other requests arrive while it is in flight
	}
	a := "basic:0"
	if ok {
		a = "basic:1"
	}
	f.record(authCall{kind: "basic", user: m.Username, pass: m.Password, answer: a})
	return &auth.AuthResponse{Authenticated: ok}, nil
}

func (f *fakeAuth) NTLM(ctx context.Context, m *auth.NtlmRequest) (*auth.NtlmResponse, error) {
	if f.scriptedChallenge != "" {
		f.record(authCall{kind: "ntlm", answer: "ntlmchal", msg: m.NtlmMessage})
		return &auth.NtlmResponse{NtlmMessage: f.scriptedChallenge}, nil
	}
	var r *auth.NtlmResponse
	var err error
	func() {
		defer func() {
			if rec := recover(); rec != nil {
				err = errors.New("verifier panicked")
				r = &auth.NtlmResponse{}
			}
		}()
		r, err = f.ntlm.Authenticate(m)
	}()
	a := "ntlmno"
	switch {
	case err != nil:
		a = "err"
	case r.Authenticated:
		a = "ntlmok:" + r.Username
	case r.NtlmMessage != "":
		a = "ntlmchal"
	}
	f.record(authCall{kind: "ntlm", answer: a, msg: m.NtlmMessage})
	return r, err
}

func (f *fakeAuth) stop() { f.srv.Stop(); os.Remove(f.sock) }
