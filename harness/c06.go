package main

import (
	"fmt"
	"io"
	"math/rand"
	"net"
	"strconv"
	"strings"
	"sync"

	"github.com/bolkedebruin/rdpgw/cmd/rdpgw/identity"
	"github.com/bolkedebruin/rdpgw/cmd/rdpgw/protocol"
)

func init() {
	streams["c06"] = streamC06
	replayers["relay"] = func(env *runEnv, e *l1env, f []string) {
		env.emit("relay", f[0], f[1], runRelay(hexList(f[0]), hexList(f[1])))
	}
}

func hexList(s string) [][]byte {
	if s == "-" {
		return nil
	}
	var r [][]byte
	for _, x := range strings.Split(s, ",") {
		r = append(r, unhx(x))
	}
	return r
}

func listHex(l [][]byte) string {
	if len(l) == 0 {
		return "-"
	}
	s := make([]string, len(l))
	for i, x := range l {
		s[i] = hx(x)
	}
	return strings.Join(s, ",")
}

// collectTransport records the packets forward() writes to the client.
type collectTransport struct {
	mu   sync.Mutex
	pkts [][]byte
}

func (c *collectTransport) ReadPacket() (int, []byte, error) { return 0, nil, io.EOF }
func (c *collectTransport) WritePacket(b []byte) (int, error) {
	c.mu.Lock()
	c.pkts = append(c.pkts, append([]byte(nil), b...))
	c.mu.Unlock()
	return len(b), nil
}
func (c *collectTransport) Close() error { return nil }

// runRelay drives the real forward() and receive() over net.Pipe, the two
// directions concurrently, and returns "<bytes at host> | <packets at client>".
func runRelay(bodies [][]byte, writes [][]byte) string {
	gwSide, hostSide := net.Pipe() // gateway's rwc <-> the host
	ct := &collectTransport{}
	tun := protocol.VerifNewTunnel(ct, ct, identity.NewUser(), "192.0.2.1:1")
	fwdDone := make(chan struct{})
	go func() { protocol.VerifForward(gwSide, tun); close(fwdDone) }()

	var atHost []byte
	hostRead := make(chan struct{})
	// the host reads what the gateway writes to it ...
	rIn, wIn := net.Pipe() // receive() writes to wIn
	go func() {
		buf := make([]byte, 65536)
		for {
			n, err := rIn.Read(buf)
			atHost = append(atHost, buf[:n]...)
			if err != nil {
				close(hostRead)
				return
			}
		}
	}()
	var wg sync.WaitGroup
	wg.Add(2)
	go func() { // client -> host
		defer wg.Done()
		for _, b := range bodies {
			protocol.VerifReceive(b, wIn)
		}
		wIn.Close()
	}()
	go func() { // host -> client
		defer wg.Done()
		for _, w := range writes {
			if len(w) > 0 {
				hostSide.Write(w)
			}
		}
		hostSide.Close()
	}()
	wg.Wait()
	<-fwdDone
	<-hostRead
	return hx(atHost) + " | " + listHex(ct.pkts)
}

func streamC06(env *runEnv) {
	r := rand.New(rand.NewSource(env.seed))
	type job struct {
		bodies, writes [][]byte
		tag            string
	}
	var jobs []job
	sizes := []int{0, 1, 2, 4085, 4086, 4087, 4096, 8192, 65535}
	// boundary sizes in both directions
	for _, s := range sizes {
		p := randBytes(r, s)
		var bodies [][]byte
		if s <= 65535 {
			bodies = append(bodies, dataBody(p))
		}
		jobs = append(jobs, job{bodies, [][]byte{p}, "boundary"})
		jobs = append(jobs, job{[][]byte{dataBody(p), dataBody(randBytes(r, 3))}, [][]byte{p, randBytes(r, 5), p}, "boundary"})
	}
	// host writes larger than any relay buffer the 16-bit length field could describe
	for _, s := range []int{65536, 65537, 70000, 131072, 200000} {
		jobs = append(jobs, job{nil, [][]byte{randBytes(r, s)}, "hostburst"})
	}
	// all byte values
	all := make([]byte, 256)
	for i := range all {
		all[i] = byte(i)
	}
	jobs = append(jobs, job{[][]byte{dataBody(all)}, [][]byte{all}, "bytes"})
	// length field shorter / longer than the bytes carried
	for _, d := range []int{-3, -1, 1, 2, 100, 60000} {
		p := randBytes(r, 50)
		decl := len(p) + d
		jobs = append(jobs, job{[][]byte{cat(le16(decl), p), dataBody([]byte{7, 7})}, nil, "badlen"})
	}
	jobs = append(jobs, job{[][]byte{{}, {5}, {5, 0}, {0, 0}, {0xff, 0xff}}, nil, "badlen"})
	// random splits of random streams
	n := 150
	big := 1 << 20
	if env.thorough() {
		n = 600
		big = 4 << 20
	}
	for i := 0; i < n; i++ {
		total := r.Intn(30000)
		if i%50 == 0 && (!env.thorough() || i%150 == 0) {
			total = big
		}
		stream := randBytes(r, total)
		var bodies, writes [][]byte
		for off := 0; off < len(stream); {
			k := 1 + r.Intn(9000)
			if i%50 == 0 {
				k = 1 + r.Intn(65535)
			}
			if off+k > len(stream) {
				k = len(stream) - off
			}
			bodies = append(bodies, dataBody(stream[off:off+k]))
			off += k
		}
		s2 := randBytes(r, total/2+r.Intn(100))
		for off := 0; off < len(s2); {
			k := 1 + r.Intn(12000)
			if off+k > len(s2) {
				k = len(s2) - off
			}
			writes = append(writes, s2[off:off+k])
			off += k
		}
		jobs = append(jobs, job{bodies, writes, "random"})
	}
	parallel(jobs, func(e *l1env, j job) {
		obs := runRelay(j.bodies, j.writes)
		env.count("c06." + j.tag)
		env.emit("relay", listHex(j.bodies), listHex(j.writes), obs)
	})
}

// c06proc: client-to-host bytes through the real packet loop: a full exchange
// followed by hundreds of back-to-back DATA packets; what the host receives must
// be the payloads in the order sent (process kind: compared with the processor
// model, which delivers them in order).
func init() { streams["c06proc"] = streamC06Proc }

func streamC06Proc(env *runEnv) {
	r := rand.New(rand.NewSource(env.seed + 6))
	e := newL1Env(1)
	runs := 4
	if env.thorough() {
		runs = 40
	}
	all := [4]bool{true, true, true, true}
	for i := 0; i < runs; i++ {
		cfg := procCfg{hostCb: true}
		items := []item{
			{data: packet(ptHandshake, handshakeBody(1, 0, 0, 0)), ans: all},
			{data: packet(ptTunnelCreate, tunnelCreateBody(0, "", false)), ans: all},
			{data: packet(ptTunnelAuth, tunnelAuthBody("pc")), ans: all},
			{data: packet(ptChannelCreate, channelCreateBody("127.0.0.1", e.pool[0].port)), ans: all},
		}
		n := 200 + r.Intn(400)
		for k := 0; k < n; k++ {
			p := []byte(fmt.Sprintf("<%d:%d>", i, k))
			if k%37 == 0 {
				p = append(p, randBytes(r, r.Intn(3000))...)
			}
			items = append(items, item{data: packet(ptData, dataBody(p)), ans: all})
			if k%50 == 49 {
				items = append(items, item{data: packet(ptKeepalive, nil), ans: all})
			}
		}
		items = append(items, item{data: packet(ptCloseChannel, nil), ans: all}, item{eof: true})
		res := e.runProcess(cfg, items)
		env.count("c06proc.runs")
		env.emit("procrelay", cfg.bits(), redirBits(cfg.redir), strconv.Itoa(cfg.idle), e.live(), itemsString(items), res.obs)
	}
}
