package main

import (
	"encoding/binary"
	"fmt"
	"io"
	"math/rand"
	"net"
	"strconv"
	"strings"
	"sync"
	"time"

	"github.com/bolkedebruin/rdpgw/cmd/rdpgw/identity"
	"github.com/bolkedebruin/rdpgw/cmd/rdpgw/protocol"
)

func init() {
	streams["c06"] = streamC06
	replayers["relay"] = func(env *runEnv, e *l1env, f []string) {
		env.emit("relay", f[0], f[1], runRelay(hexList(f[0]), hexList(f[1])))
	}
}

func hexList(s string) [][]byte {
	if s == "-" {
		return nil
	}
	var r [][]byte
	for _, x := range strings.Split(s, ",") {
		r = append(r, unhx(x))
	}
	return r
}

func listHex(l [][]byte) string {
	if len(l) == 0 {
		return "-"
	}
	s := make([]string, len(l))
	for i, x := range l {
		s[i] = hx(x)
	}
	return strings.Join(s, ",")
}

// collectTransport records the packets forward() writes to the client.
type collectTransport struct {
	mu   sync.Mutex
	pkts [][]byte
}

func (c *collectTransport) ReadPacket() (int, []byte, error) { return 0, nil, io.EOF }
func (c *collectTransport) WritePacket(b []byte) (int, error) {
	c.mu.Lock()
	c.pkts = append(c.pkts, append([]byte(nil), b...))
	c.mu.Unlock()
	return len(b), nil
}
func (c *collectTransport) Close() error { return nil }

// runRelay drives the real forward() and receive() over net.Pipe, the two
// directions concurrently, and returns "<bytes at host> | <packets at client>".
func runRelay(bodies [][]byte, writes [][]byte) string {
	gwSide, hostSide := net.Pipe() // gateway's rwc <-> the host
	ct := &collectTransport{}
	tun := protocol.VerifNewTunnel(ct, ct, identity.NewUser(), "192.0.2.1:1")
	fwdDone := make(chan struct{})
	go func() { protocol.VerifForward(gwSide, tun); close(fwdDone) }()

	var atHost []byte
	hostRead := make(chan struct{})
	// the host reads what the gateway writes to it ...
	rIn, wIn := net.Pipe() // receive() writes to wIn
	go func() {
		buf := make([]byte, 65536)
		for {
			n, err := rIn.Read(buf)
			atHost = append(atHost, buf[:n]...)
			if err != nil {
				close(hostRead)
				return
			}
		}
	}()
	var wg sync.WaitGroup
	wg.Add(2)
	go func() { // client -> host
		defer wg.Done()
		for _, b := range bodies {
			protocol.VerifReceive(b, wIn)
		}
		wIn.Close()
	}()
	go func() { // host -> client
		defer wg.Done()
		for _, w := range writes {
			if len(w) > 0 {
				hostSide.Write(w)
			}
		}
		hostSide.Close()
	}()
	wg.Wait()
	<-fwdDone
	<-hostRead
	return hx(atHost) + " | " + listHex(ct.pkts)
}

func streamC06(env *runEnv) {
	r := rand.New(rand.NewSource(env.seed))
	type job struct {
		bodies, writes [][]byte
		tag            string
	}
	var jobs []job
	sizes := []int{0, 1, 2, 4085, 4086, 4087, 4096, 8192, 65535}
	// boundary sizes in both directions
	for _, s := range sizes {
		p := randBytes(r, s)
		var bodies [][]byte
		if s <= 65535 {
			bodies = append(bodies, dataBody(p))
		}
		jobs = append(jobs, job{bodies, [][]byte{p}, "boundary"})
		jobs = append(jobs, job{[][]byte{dataBody(p), dataBody(randBytes(r, 3))}, [][]byte{p, randBytes(r, 5), p}, "boundary"})
	}
	// host writes larger than any relay buffer the 16-bit length field could describe
	for _, s := range []int{65536, 65537, 70000, 131072, 200000} {
		jobs = append(jobs, job{nil, [][]byte{randBytes(r, s)}, "hostburst"})
	}
	// all byte values
	all := make([]byte, 256)
	for i := range all {
		all[i] = byte(i)
	}
	jobs = append(jobs, job{[][]byte{dataBody(all)}, [][]byte{all}, "bytes"})
	// length field shorter / longer than the bytes carried
	for _, d := range []int{-3, -1, 1, 2, 100, 60000} {
		p := randBytes(r, 50)
		decl := len(p) + d
		jobs = append(jobs, job{[][]byte{cat(le16(decl), p), dataBody([]byte{7, 7})}, nil, "badlen"})
	}
	jobs = append(jobs, job{[][]byte{{}, {5}, {5, 0}, {0, 0}, {0xff, 0xff}}, nil, "badlen"})
	// random splits of random streams
	n := 150
	big := 1 << 20
	if env.thorough() {
		n = 600
		big = 4 << 20
	}
	for i := 0; i < n; i++ {
		total := r.Intn(30000)
		if i%50 == 0 && (!env.thorough() || i%150 == 0) {
			total = big
		}
		stream := randBytes(r, total)
		var bodies, writes [][]byte
		for off := 0; off < len(stream); {
			k := 1 + r.Intn(9000)
			if i%50 == 0 {
				k = 1 + r.Intn(65535)
			}
			if off+k > len(stream) {
				k = len(stream) - off
			}
			bodies = append(bodies, dataBody(stream[off:off+k]))
			off += k
		}
		s2 := randBytes(r, total/2+r.Intn(100))
		for off := 0; off < len(s2); {
			k := 1 + r.Intn(12000)
			if off+k > len(s2) {
				k = len(s2) - off
			}
			writes = append(writes, s2[off:off+k])
			off += k
		}
		jobs = append(jobs, job{bodies, writes, "random"})
	}
	parallel(jobs, func(e *l1env, j job) {
		obs := runRelay(j.bodies, j.writes)
		env.count("c06." + j.tag)
		env.emit("relay", listHex(j.bodies), listHex(j.writes), obs)
	})
}

// c06proc: client-to-host bytes through the real packet loop: a full exchange
// followed by hundreds of back-to-back DATA packets; what the host receives must
// be the payloads in the order sent (process kind: compared with the processor
// model, which delivers them in order).
func init() { streams["c06proc"] = streamC06Proc }

func streamC06Proc(env *runEnv) {
	r := rand.New(rand.NewSource(env.seed + 6))
	e := newL1Env(1)
	runs := 4
	if env.thorough() {
		runs = 40
	}
	all := [4]bool{true, true, true, true}
	for i := 0; i < runs; i++ {
		cfg := procCfg{hostCb: true}
		items := []item{
			{data: packet(ptHandshake, handshakeBody(1, 0, 0, 0)), ans: all},
			{data: packet(ptTunnelCreate, tunnelCreateBody(0, "", false)), ans: all},
			{data: packet(ptTunnelAuth, tunnelAuthBody("pc")), ans: all},
			{data: packet(ptChannelCreate, channelCreateBody("127.0.0.1", e.pool[0].port)), ans: all},
		}
		n := 200 + r.Intn(400)
		for k := 0; k < n; k++ {
			p := []byte(fmt.Sprintf("<%d:%d>", i, k))
			if k%37 == 0 {
				p = append(p, randBytes(r, r.Intn(3000))...)
			}
			items = append(items, item{data: packet(ptData, dataBody(p)), ans: all})
			if k%50 == 49 {
				items = append(items, item{data: packet(ptKeepalive, nil), ans: all})
			}
		}
		items = append(items, item{data: packet(ptCloseChannel, nil), ans: all}, item{eof: true})
		res := e.runProcess(cfg, items)
		env.count("c06proc.runs")
		env.emit("procrelay", cfg.bits(), redirBits(cfg.redir), strconv.Itoa(cfg.idle), e.live(), itemsString(items), res.obs)
	}
}

// ---------------------------------------------------------------- C06 through the real transports
//
// What the property says about volume and boundaries at the gateway level: the
// largest DATA packets a client can send (the 16-bit length field's maximum, in one
// websocket message), a bulk upload that is followed at once by the end of the
// channel (every byte written before the close must reach the host), and, in the
// thorough tier, a host that streams to a legacy client which stops reading for
// longer than any write deadline. The streams are too large for the model runner;
// the comparison of what was sent with what arrived is done here ("exact" kind).
func init() { streams["c06gw"] = streamC06Gw }

func streamC06Gw(env *runEnv) {
	r := rand.New(rand.NewSource(env.seed + 66))
	srv := newL2Server(false, 0)
	defer srv.close()
	setup := func(c tclient, host string, port int, legacy bool) bool {
		for _, p := range [][]byte{
			packet(ptHandshake, handshakeBody(1, 0, 0, 0)),
			packet(ptTunnelCreate, tunnelCreateBody(0, "", false)),
			packet(ptTunnelAuth, tunnelAuthBody("pc")),
			packet(ptChannelCreate, channelCreateBody(host, port)),
		} {
			if c.send(p) != nil {
				return false
			}
			if legacy {
				time.Sleep(15 * time.Millisecond)
			}
			if _, err := c.recv(3 * time.Second); err != nil {
				return false
			}
		}
		return true
	}
	n := 0
	// (a) maximal DATA packets in one websocket message
	for _, size := range []int{65526, 65527, 65528, 65534, 65535} {
		n++
		b := newTagBackend(nil)
		host, port := splitHostPort(b.addr)
		verdict := "setup-failed"
		if c, err := openTunnel(srv.inst, tunnelScript{transport: "ws", id: fmt.Sprintf("{c06gw-%d-%d}", env.seed, n)}); err == nil {
			if setup(c, host, port, false) {
				pre, big, post := []byte("<before>"), randBytes(r, size), []byte("<after>")
				c.send(packet(ptData, dataBody(pre)))
				c.send(packet(ptData, dataBody(big)))
				c.send(packet(ptData, dataBody(post)))
				want := cat(pre, big, post)
				verdict = waitHostBytes(b, want, 5*time.Second)
			}
			c.close()
		}
		env.count("c06gw.maxpacket." + verdict)
		env.emit("exact", fmt.Sprintf("ws-data-packet-of-%d-bytes", size), verdict)
		b.close()
	}
	// (b) bulk upload followed at once by the end of the channel
	for _, tr := range []string{"ws", "legacy"} {
		for _, end := range []string{"close-channel", "disconnect"} {
			n++
			b := newTagBackend(nil)
			b.slowReader = 200 * time.Microsecond // the host does not drain its socket instantly
			host, port := splitHostPort(b.addr)
			total := 6 << 20
			if env.thorough() {
				total = 16 << 20
			}
			if tr == "legacy" {
				// one packet per chunk read: the legacy client has to pace its chunks (packets that share a
				// read are C08's known finding), so its upload is small
				total = 160000
			}
			verdict := "setup-failed"
			if c, err := openTunnel(srv.inst, tunnelScript{transport: tr, id: fmt.Sprintf("{c06gw-%d-%d}", env.seed, n)}); err == nil {
				if setup(c, host, port, tr == "legacy") {
					stream := randBytes(r, total)
					for off := 0; off < len(stream); off += 4000 {
						e := off + 4000
						if e > len(stream) {
							e = len(stream)
						}
						if c.send(packet(ptData, dataBody(stream[off:e]))) != nil {
							break
						}
						if tr == "legacy" {
							time.Sleep(15 * time.Millisecond)
						}
					}
					if end == "close-channel" {
						c.send(packet(ptCloseChannel, nil))
					} else {
						time.Sleep(300 * time.Millisecond) // the packets are in the gateway's hands; then the client goes away
					}
					if end == "disconnect" {
						c.close()
					}
					verdict = waitHostBytes(b, stream, 20*time.Second)
				}
				c.close()
			}
			env.count("c06gw.upload." + verdict)
			env.emit("exact", fmt.Sprintf("upload-%s-%d-bytes-then-%s", tr, total, end), verdict)
			b.close()
		}
	}
	// (d) a request is answered while the host is streaming: everything the client receives is a whole,
	// well-formed packet, the DATA payloads are the host's stream in order, the answer is the answer
	rounds := 10
	if env.thorough() {
		rounds = 60
	}
	for _, tr := range []string{"ws", "legacy"} {
		verdict := "exact"
		for k := 0; k < rounds && verdict == "exact"; k++ {
			n++
			tag := fmt.Sprintf("<s%d-%d>", env.seed, n)
			b := newTagBackend([]byte(strings.Repeat(tag, (1<<20)/len(tag))))
			b.piece, b.pace = 1200, 0
			host, port := splitHostPort(b.addr)
			c, err := openTunnel(srv.inst, tunnelScript{transport: tr, id: fmt.Sprintf("{c06gw-%d-%d}", env.seed, n)})
			if err != nil || !setup(c, host, port, tr == "legacy") {
				verdict = "setup-failed"
				b.close()
				break
			}
			go func() {
				c.send(packet(ptData, dataBody([]byte("client-speaks-first")))) // the channel counts as open from the first client data on
				time.Sleep(time.Duration(5+k) * time.Millisecond)
				c.send(packet(ptCloseChannel, nil))
			}()
			got, answers := 0, 0
			for {
				m, err := c.recv(3 * time.Second)
				if err != nil {
					break
				}
				if len(m) < 8 || int(binary.LittleEndian.Uint32(m[4:8])) != len(m) {
					verdict = "malformed-packet-while-streaming:" + hx(m[:min(len(m), 24)])
					break
				}
				switch ty := int(m[0]) | int(m[1])<<8; ty {
				case ptData:
					if len(m) < 10 || int(m[8])|int(m[9])<<8 != len(m)-10 || got+len(m)-10 > len(b.sends) ||
						string(b.sends[got:got+len(m)-10]) != string(m[10:]) {
						verdict = fmt.Sprintf("host-bytes-differ-at-%d", got)
					}
					got += len(m) - 10
				case 0x11: // CLOSE_CHANNEL_RESPONSE
					answers++
					if hx(m) != "1100000014000000000000000100000001000000" {
						verdict = "close-answer-differs:" + hx(m)
					}
				default:
					verdict = fmt.Sprintf("unexpected-packet-type-%d-while-streaming", ty)
				}
				if verdict != "exact" {
					break
				}
			}
			if verdict == "exact" && answers != 1 {
				verdict = fmt.Sprintf("close-answered-%d-times", answers)
			}
			c.close()
			b.close()
		}
		env.count("c06gw.answer-while-streaming." + strings.SplitN(verdict, ":", 2)[0])
		env.emit("exact", "close-answered-while-host-streams-"+tr, verdict)
	}
	// (e) several hosts streaming at once, half of the clients reading slowly: every client's bytes are exactly its host's
	{
		nb, size := 6, 12<<20
		if env.thorough() {
			nb, size = 8, 48<<20
		}
		for i, v := range bulkProbe(srv, nb, size, fmt.Sprintf("c06-bulk-%d", env.seed), false) {
			if v == "own-bytes-only" {
				v = "exact"
			}
			env.count("c06gw.bulk." + v)
			env.emit("exact", fmt.Sprintf("host-stream-%d-of-%d-concurrent-%d-bytes", i, nb, size), v)
		}
	}
	// (c) thorough: a legacy client that stops reading for 7 s while its host streams
	if env.thorough() {
		n++
		tag := fmt.Sprintf("<stall-%d>", env.seed)
		b := newTagBackend([]byte(strings.Repeat(tag, (24<<20)/len(tag))))
		b.piece = 65536
		host, port := splitHostPort(b.addr)
		verdict := "setup-failed"
		if c, err := openTunnel(srv.inst, tunnelScript{transport: "legacy", id: fmt.Sprintf("{c06gw-%d-%d}", env.seed, n)}); err == nil {
			if setup(c, host, port, true) {
				got := 0
				verdict = "exact"
				stalled := false
				for got < len(b.sends) {
					m, err := c.recv(15 * time.Second)
					if err != nil {
						verdict = fmt.Sprintf("stream-ended-after-%d-of-%d", got, len(b.sends))
						break
					}
					if len(m) < 10 || int(m[0])|int(m[1])<<8 != ptData || int(m[8])|int(m[9])<<8 != len(m)-10 {
						verdict = "malformed-data-packet"
						break
					}
					pl := m[10:]
					if got+len(pl) > len(b.sends) || string(b.sends[got:got+len(pl)]) != string(pl) {
						verdict = fmt.Sprintf("bytes-differ-at-%d", got)
						break
					}
					got += len(pl)
					if !stalled && got > 4<<20 {
						stalled = true
						time.Sleep(7 * time.Second)
					}
				}
			}
			c.close()
		}
		env.count("c06gw.stall." + verdict)
		env.emit("exact", "legacy-client-stalls-7s-while-host-streams-24MiB", verdict)
		b.close()
	}
}

// waitHostBytes waits until the backend has seen the end of its connection (or the time is up)
// and compares what it received with what was sent.
func waitHostBytes(b *tagBackend, want []byte, max time.Duration) string {
	dl := time.Now().Add(max)
	for time.Now().Before(dl) {
		_, got, eof := b.snapshot()
		if len(got) >= len(want) || eof {
			time.Sleep(50 * time.Millisecond)
			break
		}
		time.Sleep(20 * time.Millisecond)
	}
	_, got, _ := b.snapshot()
	switch {
	case string(got) == string(want):
		return "exact"
	case len(got) < len(want) && string(want[:len(got)]) == string(got):
		return fmt.Sprintf("host-received-only-%d-of-%d-bytes", len(got), len(want))
	default:
		return fmt.Sprintf("host-received-other-bytes-(%d-for-%d)", len(got), len(want))
	}
}
