package main

import (
	"context"
	"encoding/binary"
	"fmt"
	"math/rand"
	"net"
	"net/http"
	"net/http/httptest"
	"strconv"
	"strings"
	"sync"
	"time"

	"github.com/bolkedebruin/rdpgw/cmd/rdpgw/identity"
	"github.com/bolkedebruin/rdpgw/cmd/rdpgw/protocol"
	"github.com/bolkedebruin/rdpgw/cmd/rdpgw/security"
	"github.com/bolkedebruin/rdpgw/cmd/rdpgw/web"
)

func init() {
	streams["c03"] = streamC03
	streams["c04"] = streamC04
	replayers["policy"] = func(env *runEnv, e *l1env, f []string) {
		pc := policyCase{tok: f[0] == "1", verify: f[1] == "1", mode: string(unhx(f[2])), tokhost: string(unhx(f[4])),
			tokip: string(unhx(f[5])), user: string(unhx(f[6])), clientip: string(unhx(f[7]))}
		for _, h := range hexList(f[3]) {
			pc.hosts = append(pc.hosts, string(h))
		}
		// addresses in the recorded case name the recorded run's ports
		old := hexList(f[8])
		re := func(s string) string {
			for i, o := range old {
				if i < len(e.pool) {
					s = strings.ReplaceAll(s, string(o), e.pool[i].addr)
					k := strings.LastIndex(string(o), ":")
					s = strings.ReplaceAll(s, string(o)[k:], ":"+strconv.Itoa(e.pool[i].port))
				}
			}
			return s
		}
		for i := range pc.hosts {
			pc.hosts[i] = re(pc.hosts[i])
		}
		pc.tokhost = re(pc.tokhost)
		items, _ := retargetItems(e, f[8], f[9])
		pc.items = items
		emitPolicy(env, e, pc)
	}
	replayers["clientip"] = func(env *runEnv, e *l1env, f []string) {
		env.emit("clientip", f[0], f[1], hx([]byte(enrichClientIP(string(unhx(f[0])), f[0] != "-", string(unhx(f[1]))+":4444"))))
	}
}

type policyCase struct {
	tok, verify                    bool
	mode                           string
	hosts                          []string // the slice the code under test is given (shared per configuration)
	hostsConf                      []string // the list as configured (recorded in the case line); nil: hosts
	tokhost, tokip, user, clientip string
	items                          []item
}

var securityMu sync.Mutex // security.* are package globals

// emitPolicy runs one exchange through the real Processor with the real
// security.CheckHost / CheckSession wired as main() wires them.
func emitPolicy(env *runEnv, e *l1env, pc policyCase) {
	securityMu.Lock()
	defer securityMu.Unlock()
	// the configured list as written in the configuration, recorded BEFORE the code under test sees it:
	// the slice object is shared by all cases of one configuration (as security.Hosts is shared by all
	// tunnels of one gateway), so a check that rewrites it in place shows up in later cases
	conf := pc.hosts
	if pc.hostsConf != nil {
		conf = pc.hostsConf
	}
	hs := make([]string, len(conf))
	for i, h := range conf {
		hs[i] = hx([]byte(h))
	}
	hostsF := "-"
	if len(hs) > 0 {
		hostsF = strings.Join(hs, ",")
	}
	security.Hosts = pc.hosts
	security.HostSelection = pc.mode
	security.VerifyClientIP = pc.verify

	tr := &trace{pool: e.pool}
	mt := &memTransport{items: pc.items, tr: tr}
	gw := &protocol.Gateway{TokenAuth: pc.tok}
	id := identity.NewUser()
	id.SetAttribute(identity.AttrClientIp, pc.clientip)
	if !pc.tok {
		id.SetUserName(pc.user)
	}
	tun := protocol.VerifNewTunnel(mt, mt, id, pc.clientip+":5555")
	ctx := context.WithValue(context.Background(), protocol.CtxTunnel, tun)
	ctx = context.WithValue(ctx, identity.CTXKey, identity.Identity(id))
	var policy protocol.CheckHostFunc
	if pc.tok {
		// what security.CheckPAACookie does on acceptance (jwt.go:107-111)
		gw.CheckPAACookie = func(ctx context.Context, s string) (bool, error) {
			tr.add("AC:" + hx([]byte(s)) + ":1")
			tun.TargetServer = pc.tokhost
			tun.RemoteAddr = pc.tokip
			tun.User.SetUserName(pc.user)
			return true, nil
		}
		policy = security.CheckSession(security.CheckHost)
	} else {
		policy = security.CheckHost
	}
	gw.CheckHost = func(ctx context.Context, h string) (bool, error) {
		ok, _ := policy(ctx, h)
		tr.add("AH:" + hx([]byte(h)) + ":" + b01(ok))
		return ok, nil
	}
	p := protocol.NewProcessor(gw, tun)
	obs := finishProcess(e, tr, mt, tun, func() error { return p.Process(ctx) })
	env.emit("policy", b01(pc.tok), b01(pc.verify), hx([]byte(pc.mode)), hostsF, hx([]byte(pc.tokhost)), hx([]byte(pc.tokip)),
		hx([]byte(pc.user)), hx([]byte(pc.clientip)), e.live(), itemsString(pc.items), obs)
}

func exchange(tok bool, cc []byte) []item {
	ext := 0
	if tok {
		ext = 2
	}
	all := [4]bool{true, true, true, true}
	return []item{
		{data: packet(ptHandshake, handshakeBody(1, 0, 0, ext)), ans: all},
		{data: packet(ptTunnelCreate, tunnelCreateBody(0, "c", true)), ans: all},
		{data: packet(ptTunnelAuth, tunnelAuthBody("pc")), ans: all},
		{data: packet(ptChannelCreate, cc), ans: all},
		{data: packet(ptData, dataBody([]byte{1})), ans: all},
		{eof: true},
	}
}

func streamC03(env *runEnv) {
	r := rand.New(rand.NewSource(env.seed))
	e := newL1Env(3)
	p0, p1, p2 := e.pool[0], e.pool[1], e.pool[2]
	ph := "{{ preferred_username }}"
	hostLists := [][]string{
		{p0.addr},
		{p0.addr, p1.addr},
		{"127.0.0." + ph + ":" + strconv.Itoa(p0.port)},
		{p1.addr, "127.0.0." + ph + ":" + strconv.Itoa(p0.port), "[::1]:" + strconv.Itoa(p2.port)},
		{ph + ":" + strconv.Itoa(p0.port), ph + ph},
		{},
		{"127.0.0.2:" + strconv.Itoa(p0.port)}, // allowed, but nothing listens there (the listeners are on 127.0.0.1)
		{"host-a.invalid:3389"},                // a name with letters: comparisons are by exact string, not by case folding
	}
	users := []string{"", "1", "2", "bob", "127.0.0.1", "1:" + strconv.Itoa(p0.port) + "\x00"}
	modes := []string{"roundrobin", "unsigned", "signed", "any", "", "Any", "roundrobin "}
	n := 0
	for _, mode := range modes {
		for _, hosts := range hostLists {
			// one slice object per configuration, as one gateway has one security.Hosts for all its tunnels;
			// the case lines record the list as configured
			shared := append([]string{}, hosts...)
			for _, user := range users {
				for _, tok := range []bool{false, true} {
					// requested names: every entry as substituted, and its near misses
					var reqs [][]byte
					add := func(server string, port int) { reqs = append(reqs, channelCreateBody(server, port)) }
					addRaw := func(port, nameLen int, name []byte) { reqs = append(reqs, channelCreateBodyRaw(port, nameLen, name)) }
					add("127.0.0.1", p0.port)
					add("127.0.0.1", p1.port)
					add("127.0.0.1", p0.port+1) // other port
					add("127.0.0.1", 0)         // removed port
					add("127.0.0", p0.port)     // prefix
					add("27.0.0.1", p0.port)    // suffix
					add("127.0.0.11", p0.port)  // superstring
					add("127.0.0.2", p0.port)   // another user's substituted entry
					add("::1", p2.port)         // IPv6, bracketed by JoinHostPort
					add("[::1]", p2.port)       // already bracketed
					add("[127.0.0.1]", p0.port) // an allowed address in URL-style brackets is another string
					add("127.0.0.1.", p0.port)  // trailing dot
					add(" 127.0.0.1", p0.port)  // leading blank
					add("127.0.0.1 ", p0.port)  // trailing blank
					add("127.000.000.001", p0.port)
					add("0x7f.0.0.1", p0.port)
					add("2130706433", p0.port)    // the same address as one number
					add("127.0.0.1\x00", p0.port) // doubled NUL
					add("127.0\x00.0.1", p0.port) // embedded NUL
					add(user, p0.port)            // bare user name
					// an allowed but unreachable first name with alternate names that are live but not allowed
					reqs = append(reqs, channelCreateWithAlts("127.0.0.2", p0.port, "127.0.0.1"))
					reqs = append(reqs, channelCreateWithAlts("127.0.0.2", p0.port, "127.0.0.3", "127.0.0.1", "localhost"))
					reqs = append(reqs, channelCreateWithAlts("127.0.0.1", p0.port, "127.0.0.1"))
					add("host-a.invalid", 3389)                                                          // the lettered entry itself
					add("HOST-A.INVALID", 3389)                                                          // ASCII case variant
					add("ho\u017ft-a.invalid", 3389)                                                     // U+017F folds to 's' under Unicode case folding
					add("ho\u0073t-a.in\u212Aalid", 3389)                                                // unrelated fold (Kelvin sign)
					addRaw(p0.port, 21, utf16le("127.0.0.1\x00")[:19])                                   // odd-length UTF-16
					addRaw(p0.port, 40, utf16le("127.0.0.1\x00"))                                        // over-long length field
					addRaw(p0.port, 4, utf16le("127.0.0.1\x00"))                                         // short length field
					addRaw(p0.port, 24, cat(utf16le("127.0.0.1"), []byte{0x3d, 0xd8, 0x00, 0xde, 0, 0})) // surrogate pair appended
					addRaw(p0.port, 22, cat(utf16le("127.0.0.1"), []byte{0x00, 0xd8, 0, 0}))             // lone surrogate
					tokhosts := []string{p0.addr}
					if tok {
						tokhosts = []string{p0.addr, p1.addr, "", "127.0.0.1", "host-a.invalid:3389"}
					}
					for _, th := range tokhosts {
						for ri, req := range reqs {
							n++
							// quick tier: thin out the product deterministically
							if !env.thorough() && (n%3 != 0) && ri > 1 {
								continue
							}
							pc := policyCase{tok: tok, verify: r.Intn(4) != 0, mode: mode, hosts: shared, hostsConf: hosts, tokhost: th,
								tokip: "192.0.2.7", user: user, clientip: "192.0.2.7", items: exchange(tok, req)}
							if r.Intn(5) == 0 {
								pc.clientip = "192.0.2.8"
							}
							// 'any' lets the gateway dial whatever is asked: keep those on loopback literals
							env.count("c03.mode." + mode)
							emitPolicy(env, e, pc)
						}
					}
				}
			}
		}
	}
}

var storeOnce sync.Once

// enrichClientIP runs the real web.EnrichContext middleware and returns the
// client address it computes.
func enrichClientIP(xff string, hasXff bool, remoteAddr string) string {
	storeOnce.Do(func() {
		web.InitStore([]byte("0123456789abcdef0123456789abcdef"), []byte("fedcba9876543210fedcba9876543210"), "cookie", 0)
	})
	var got string
	h := web.EnrichContext(http.HandlerFunc(func(w http.ResponseWriter, r *http.Request) {
		id := identity.FromRequestCtx(r)
		if v, ok := id.GetAttribute(identity.AttrClientIp).(string); ok {
			got = v
		} else {
			got = "<unset>"
		}
	}))
	req := httptest.NewRequest("GET", "/x", nil)
	req.RemoteAddr = remoteAddr
	if hasXff {
		req.Header.Set("X-Forwarded-For", xff)
	}
	h.ServeHTTP(httptest.NewRecorder(), req)
	return got
}

func streamC04(env *runEnv) {
	r := rand.New(rand.NewSource(env.seed))
	e := newL1Env(2)
	addrs := []string{"192.0.2.7", "192.0.2.8", "2001:db8::1", "2001:DB8::1", "2001:db8:0:0:0:0:0:1", "::ffff:192.0.2.7",
		"192.0.2.07", "192.000.002.007", " 192.0.2.7", "192.0.2.7 ", "", "10.0.0.1"}
	chains := func(first string) []string {
		return []string{first, first + ", 10.0.0.1", first + ",10.0.0.1,10.0.0.2", "  " + first + "  ,10.0.0.9, 10.0.0.8 , 10.0.0.7,10.0.0.6"}
	}
	// (a) the client address function through the real middleware
	var ips []string
	for _, a := range addrs {
		for _, c := range chains(a) {
			peer := pick(r, []string{"198.51.100.4", "2001:db8::9"})
			ra := peer + ":4444"
			if strings.Contains(peer, ":") {
				ra = "[" + peer + "]:4444"
			}
			got := enrichClientIP(c, true, ra)
			ips = append(ips, got)
			env.count("c04.clientip.xff")
			env.emit("clientip", hx([]byte(c)), hx([]byte(peer)), hx([]byte(got)))
		}
		peer := a
		if peer == "" || strings.ContainsAny(peer, " ") {
			continue
		}
		ra := peer + ":4444"
		if strings.Contains(peer, ":") {
			ra = "[" + peer + "]:4444"
		}
		got := enrichClientIP("", false, ra)
		ips = append(ips, got)
		env.count("c04.clientip.peer")
		env.emit("clientip", "-", hx([]byte(peer)), hx([]byte(got)))
	}
	// (b) issuing address x presenting address, both switch settings
	cc := channelCreateBody("127.0.0.1", e.pool[0].port)
	n := 0
	for _, issued := range ips {
		for _, presenting := range ips {
			n++
			if !env.thorough() && issued != presenting && n%4 != 0 {
				continue
			}
			for _, verify := range []bool{true, false} {
				pc := policyCase{tok: true, verify: verify, mode: "roundrobin", hosts: []string{e.pool[0].addr}, tokhost: e.pool[0].addr,
					tokip: issued, user: "bob", clientip: presenting, items: exchange(true, cc)}
				env.count(fmt.Sprintf("c04.pair.same=%v.verify=%v", issued == presenting, verify))
				emitPolicy(env, e, pc)
			}
		}
	}
}

// ---------------------------------------------------------------- C04 at the gateway: both transports
//
// The real Gateway.HandleGatewayProtocol behind web.EnrichContext with the real
// security.CheckSession around an always-allowing host check. The scripted cookie
// check does what security.CheckPAACookie does on acceptance with the claims the
// cookie text carries ("ok|user|host|ip"). For the legacy transport the two
// requests of one tunnel may come from different addresses: the packets (and with
// them the token) travel on the RDG_IN_DATA request.
func init() { streams["c04gw"] = streamC04Gw }

func streamC04Gw(env *runEnv) {
	storeOnce.Do(func() {
		web.InitStore([]byte("0123456789abcdef0123456789abcdef"), []byte("fedcba9876543210fedcba9876543210"), "cookie", 0)
	})
	securityMu.Lock()
	defer securityMu.Unlock()
	b := newTagBackend(nil)
	defer b.close()
	gw := &protocol.Gateway{TokenAuth: true}
	gw.CheckPAACookie = func(ctx context.Context, c string) (bool, error) {
		t, _ := ctx.Value(protocol.CtxTunnel).(*protocol.Tunnel)
		p := strings.Split(c, "|")
		if len(p) != 4 || p[0] != "ok" || t == nil {
			return false, nil
		}
		t.User.SetUserName(p[1])
		t.TargetServer = p[2]
		t.RemoteAddr = p[3]
		return true, nil
	}
	gw.CheckHost = security.CheckSession(func(ctx context.Context, h string) (bool, error) { return true, nil })
	srv := httptest.NewServer(web.EnrichContext(http.HandlerFunc(gw.HandleGatewayProtocol)))
	defer srv.Close()
	g := &gwInstance{port: srv.Listener.Addr().(*net.TCPAddr).Port, exited: make(chan struct{})}
	host, port := splitHostPort(b.addr)
	addrs := []string{"192.0.2.7", "192.0.2.8", "2001:db8::1", "10.0.0.1", "10.0.0.12", ""}
	n := 0
	for _, verify := range []bool{true, false} {
		security.VerifyClientIP = verify
		for _, tokip := range addrs[:5] {
			for _, present := range addrs {
				for _, tr := range []string{"ws", "legacy-same", "legacy-out-other"} {
					n++
					if !env.thorough() && n%2 == 0 && tokip != present && tr == "ws" {
						continue // the websocket cases with differing addresses are thinned in the quick tier
					}
					hdr := func(a string) map[string]string {
						if a == "" {
							return map[string]string{} // no header: the TCP peer (127.0.0.1) is the client
						}
						return map[string]string{"X-Forwarded-For": a + ", 198.51.100.1"}
					}
					id := fmt.Sprintf("{c04gw-%d}", n)
					var c tclient
					var err error
					switch tr {
					case "ws":
						ws, st, _, e := wsDial(g, wsOpts{headers: hdr(present), connID: id})
						if e != nil || st != 101 {
							err = fmt.Errorf("ws %d %v", st, e)
						} else {
							c = ws
						}
					case "legacy-same":
						c, err = legacyDial2(g, id, hdr(present), hdr(present))
					default:
						// the outbound request arrives from the address the token was issued to, the inbound
						// request (which carries the token) from the presenting address
						c, err = legacyDial2(g, id, hdr(tokip), hdr(present))
					}
					obs := "ERR"
					if err == nil {
						a0, _, _ := b.snapshot()
						steps := [][]byte{
							packet(ptHandshake, handshakeBody(1, 0, 0, 2)),
							packet(ptTunnelCreate, tunnelCreateBody(0, "ok|bob|"+b.addr+"|"+tokip, true)),
							packet(ptTunnelAuth, tunnelAuthBody("pc")),
							packet(ptChannelCreate, channelCreateBody(host, port)),
						}
						var last []byte
						for _, p := range steps {
							c.send(p)
							if tr != "ws" {
								time.Sleep(15 * time.Millisecond)
							}
							m, e := c.recv(3 * time.Second)
							if e != nil {
								last = nil
								break
							}
							last = m
						}
						time.Sleep(30 * time.Millisecond)
						a1, _, _ := b.snapshot()
						st := "none"
						if len(last) >= 12 && int(last[0])|int(last[1])<<8 == 9 {
							st = strconv.FormatUint(uint64(binary.LittleEndian.Uint32(last[8:12])), 10)
						}
						obs = fmt.Sprintf("channel=%s dials=%d", st, a1-a0)
						c.close()
					}
					presenting := present
					if present == "" {
						presenting = "127.0.0.1"
					}
					env.count("c04gw." + tr)
					env.emit("addrbind", b01(verify), tr, hx([]byte(tokip)), hx([]byte(presenting)), hx([]byte(b.addr)), obs)
				}
			}
		}
	}
}
