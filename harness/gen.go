package main

// Client-side packet construction (written from MS-TSGU, independent of the
// repository's client.go) and shared generator helpers.

import (
	"encoding/binary"
	"math/rand"
	"unicode/utf16"
)

const (
	ptHandshake     = 0x1
	ptTunnelCreate  = 0x4
	ptTunnelAuth    = 0x6
	ptChannelCreate = 0x8
	ptData          = 0xA
	ptKeepalive     = 0xD
	ptCloseChannel  = 0x10
)

func le16(v int) []byte { b := make([]byte, 2); binary.LittleEndian.PutUint16(b, uint16(v)); return b }
func le32(v uint32) []byte {
	b := make([]byte, 4)
	binary.LittleEndian.PutUint32(b, v)
	return b
}

func cat(parts ...[]byte) []byte {
	var r []byte
	for _, p := range parts {
		r = append(r, p...)
	}
	return r
}

func packet(ty int, body []byte) []byte {
	return cat(le16(ty), le16(0), le32(uint32(len(body)+8)), body)
}

// packetWithLen builds a packet whose length field is given explicitly.
func packetWithLen(ty int, body []byte, size uint32) []byte {
	return cat(le16(ty), le16(0), le32(size), body)
}

func utf16le(s string) []byte {
	var r []byte
	for _, u := range utf16.Encode([]rune(s)) {
		r = append(r, byte(u), byte(u>>8))
	}
	return r
}

func handshakeBody(major, minor byte, version, ext int) []byte {
	return cat([]byte{major, minor}, le16(version), le16(ext))
}

func tunnelCreateBody(caps uint32, cookie string, withCookie bool) []byte {
	if !withCookie {
		return cat(le32(caps), le16(0), le16(0))
	}
	c := utf16le(cookie + "\x00")
	return cat(le32(caps), le16(1), le16(0), le16(len(c)), c)
}

func tunnelAuthBody(client string) []byte {
	c := utf16le(client + "\x00")
	return cat(le16(len(c)), c)
}

// channelCreateBodyRaw: resources count, alt count, port, protocol, name length, name bytes.
func channelCreateBodyRaw(port int, nameLen int, name []byte) []byte {
	return cat([]byte{1, 0}, le16(port), le16(3), le16(nameLen), name)
}

func channelCreateBody(server string, port int) []byte {
	n := utf16le(server + "\x00")
	return channelCreateBodyRaw(port, len(n), n)
}

// channelCreateWithAlts: one resource name and alternate resource names (which the gateway does not use).
func channelCreateWithAlts(server string, port int, alts ...string) []byte {
	n := utf16le(server + "\x00")
	b := cat([]byte{1, byte(len(alts))}, le16(port), le16(3), le16(len(n)), n)
	for _, a := range alts {
		an := utf16le(a + "\x00")
		b = cat(b, le16(len(an)), an)
	}
	return b
}

func dataBody(payload []byte) []byte { return cat(le16(len(payload)), payload) }

func randBytes(r *rand.Rand, n int) []byte {
	b := make([]byte, n)
	r.Read(b)
	return b
}

func pick[T any](r *rand.Rand, xs []T) T { return xs[r.Intn(len(xs))] }
