package main

import (
	"fmt"
	"math/rand"
	"os"
	"path/filepath"
	"reflect"
	"sort"
	"strconv"
	"strings"

	"github.com/bolkedebruin/rdpgw/cmd/rdpgw/rdp"
	rdpparser "github.com/bolkedebruin/rdpgw/cmd/rdpgw/rdp/koanf/parsers/rdp"
)

func init() { streams["c19"] = streamC19 }

// canonMap renders a parsed map: entries sorted by key, "hexkey=i:N" / "hexkey=s:hex".
func canonMap(m map[string]interface{}) string {
	keys := make([]string, 0, len(m))
	for k := range m {
		keys = append(keys, k)
	}
	sort.Strings(keys)
	var parts []string
	for _, k := range keys {
		switch v := m[k].(type) {
		case int:
			parts = append(parts, hx([]byte(k))+"=i:"+strconv.Itoa(v))
		case string:
			parts = append(parts, hx([]byte(k))+"=s:"+hx([]byte(v)))
		default:
			parts = append(parts, hx([]byte(k))+"=?")
		}
	}
	if len(parts) == 0 {
		return "empty"
	}
	return strings.Join(parts, ";")
}

func settingsString(s rdp.RdpSettings) string {
	v := reflect.ValueOf(s)
	var parts []string
	for i := 0; i < v.NumField(); i++ {
		f := v.Field(i)
		switch f.Kind() {
		case reflect.Bool:
			if f.Bool() {
				parts = append(parts, "i:1")
			} else {
				parts = append(parts, "i:0")
			}
		case reflect.Int:
			parts = append(parts, "i:"+strconv.FormatInt(f.Int(), 10))
		case reflect.String:
			parts = append(parts, "s:"+hx([]byte(f.String())))
		}
	}
	return strings.Join(parts, ",")
}

// wellFormedFile: CRLF-terminated name:type:value lines, at most one per name.
func wellFormedFile(text string) string {
	if text == "" {
		return "WF:ok"
	}
	if !strings.HasSuffix(text, "\r\n") {
		return "WF:no-final-crlf"
	}
	seen := map[string]bool{}
	for _, l := range strings.Split(strings.TrimSuffix(text, "\r\n"), "\r\n") {
		p := strings.SplitN(l, ":", 3)
		if len(p) != 3 || (p[1] != "i" && p[1] != "s") || strings.ContainsAny(l, "\r\n") {
			return "WF:bad-line"
		}
		if seen[p[0]] {
			return "WF:duplicate"
		}
		seen[p[0]] = true
	}
	return "WF:ok"
}

func randText(r *rand.Rand, maxLen int) string {
	alpha := []string{"a", "b", "Z", "0", "9", ":", " ", "#", "é", "ü", "漢", "\u00a0", "\u2003", "\u3000", "-", "_", "\\", "/", "@", ".", "%", "%s", "%d", "%USERPROFILE%"}
	n := r.Intn(maxLen + 1)
	var sb strings.Builder
	for sb.Len() < n {
		sb.WriteString(alpha[r.Intn(len(alpha))])
	}
	return sb.String()
}

func trimmed(s string) bool { return strings.TrimSpace(s) == s }

func streamC19(env *runEnv) {
	r := rand.New(rand.NewSource(env.seed))
	p := rdpparser.Parser()
	dir := env.workdir
	if dir == "" {
		dir = os.TempDir()
	}
	// (a) random maps: parse(marshal(m)) and the marshalled bytes
	nm := 1500
	if env.thorough() {
		nm = 60000
	}
	for i := 0; i < nm; i++ {
		m := map[string]interface{}{}
		var spec []string
		for k := 0; k < r.Intn(8); k++ {
			key := strings.TrimSpace(strings.ReplaceAll(randText(r, 12), ":", ""))
			if key == "" || strings.HasPrefix(key, "#") {
				key = "k" + strconv.Itoa(k)
			}
			if _, dup := m[key]; dup {
				continue
			}
			if r.Intn(2) == 0 {
				v := int(r.Int63())
				switch r.Intn(6) {
				case 0:
					v = -v
				case 1:
					v = r.Intn(10)
				case 2:
					v = -9223372036854775808
				case 3:
					v = 9223372036854775807
				}
				m[key] = v
				spec = append(spec, hx([]byte(key))+"=i:"+strconv.Itoa(v))
			} else {
				maxl := 30
				if i%97 == 0 {
					maxl = 4000
				}
				v := strings.TrimSpace(randText(r, maxl))
				m[key] = v
				spec = append(spec, hx([]byte(key))+"=s:"+hx([]byte(v)))
			}
		}
		b, err := p.Marshal(m)
		if err != nil {
			env.emit("rdpmarshal", strings.Join(spec, ";"), "ERR")
			continue
		}
		back, err := p.Unmarshal(b)
		rt := "RT:ok"
		if err != nil || !reflect.DeepEqual(back, m) {
			rt = "RT:diff"
		}
		in := strings.Join(spec, ";")
		if in == "" {
			in = "empty"
		}
		env.count("c19.marshal")
		env.emit("rdpmarshal", in, hx(b)+" "+rt+" "+wellFormedFile(string(b)))
	}
	// (b) byte strings offered to the parser: valid files, malformed lines, noise
	lines := []string{"full address:s:host:3389", "username:s:bob", "audiomode:i:1", "x:i:-5", "x:i:+7", "x:i:", "x:i:1_0", "x:i:0x10",
		"x:i: 12 ", " spaced key : s : v ", "# comment", "", "   ", "nocolon", "one:colon", "x:q:1", "x:b:0", "x:B:0", "x::",
		"x:i:9223372036854775808", "x:i:-9223372036854775808", "x:s:a:b:c", "\u00a0x:s:1\u2003", "x:s:\u3000v", "k:s:v\r", "k:s:v\r\r",
		"x:i:１", ":s:emptykey", "::", "#:s:x", "x:s:#", "a:s:1\x00", "dup:s:1", "dup:i:2",
		"x:s", "x:i", "x:b", "drivestoredirect:s", "Password:b", "x:s:", "x:i:0"}
	nb := 1500
	if env.thorough() {
		nb = 40000
	}
	for i := 0; i < nb; i++ {
		var sb strings.Builder
		for k := 0; k < 1+r.Intn(5); k++ {
			if r.Intn(5) == 0 {
				sb.WriteString(randText(r, 20))
			} else {
				sb.WriteString(lines[r.Intn(len(lines))])
			}
			sb.WriteString(pick(r, []string{"\r\n", "\n", "\r\n", "\r", ""}))
		}
		s := sb.String()
		if i%10 == 0 {
			s = string(randBytes(r, r.Intn(60)))
		}
		mp, err := p.Unmarshal([]byte(s))
		obs := "err"
		if err == nil {
			obs = canonMap(mp)
			env.count("c19.parse.ok")
		} else {
			env.count("c19.parse.err")
		}
		env.emit("rdpparse", hx([]byte(s)), obs)
	}
	// (c) the settings builder: random assignments, String(), reload, String() again
	ns := 400
	if env.thorough() {
		ns = 10000
	}
	for i := 0; i < ns; i++ {
		b := rdp.NewBuilder()
		v := reflect.ValueOf(&b.Settings).Elem()
		for f := 0; f < v.NumField(); f++ {
			if r.Intn(3) != 0 {
				continue
			}
			fld := v.Field(f)
			switch fld.Kind() {
			case reflect.Bool:
				fld.SetBool(r.Intn(2) == 0)
			case reflect.Int:
				fld.SetInt(int64(pick(r, []int{0, 1, 2, 3, -1, 1500, 65536, int(r.Int31())})))
			case reflect.String:
				maxl := 20
				if i%53 == 0 {
					maxl = 3000
				}
				fld.SetString(strings.TrimSpace(strings.ReplaceAll(strings.ReplaceAll(randText(r, maxl), "\r", ""), "\n", "")))
			}
		}
		text := b.String()
		fn := filepath.Join(dir, fmt.Sprintf("c19-%d.rdp", i%8))
		os.WriteFile(fn, []byte(text), 0o600)
		rt := "RT:ok"
		b2, err := rdp.NewBuilderFromFile(fn)
		if err != nil {
			rt = "RT:reload-error"
		} else if !reflect.DeepEqual(b2.Settings, b.Settings) {
			rt = "RT:diff"
		}
		env.count("c19.build")
		env.emit("rdpbuild", settingsString(b.Settings), hx([]byte(text))+" "+rt+" "+wellFormedFile(text))
	}
	// (d) templates: known settings with the right type, unknown keys, then String()
	nt := 300
	if env.thorough() {
		nt = 6000
	}
	rows := reflect.TypeOf(rdp.RdpSettings{})
	for i := 0; i < nt; i++ {
		var sb strings.Builder
		for f := 0; f < rows.NumField(); f++ {
			if r.Intn(4) != 0 {
				continue
			}
			name := rows.Field(f).Tag.Get("rdp")
			switch rows.Field(f).Type.Kind() {
			case reflect.Bool:
				sb.WriteString(name + ":i:" + strconv.Itoa(pick(r, []int{0, 1, 2, -1})) + "\r\n")
			case reflect.Int:
				sb.WriteString(name + ":i:" + strconv.Itoa(pick(r, []int{0, 1, 2, 3, 1500, -7, 123456})) + "\r\n")
			case reflect.String:
				sb.WriteString(name + ":s:" + strings.ReplaceAll(strings.ReplaceAll(randText(r, 15), "\r", ""), "\n", "") + "\r\n")
			}
		}
		if r.Intn(3) == 0 {
			sb.WriteString("some unknown setting:s:zz\r\n# a comment\r\n\r\n")
		}
		tmpl := sb.String()
		fn := filepath.Join(dir, fmt.Sprintf("c19t-%d.rdp", i%8))
		os.WriteFile(fn, []byte(tmpl), 0o600)
		b, err := rdp.NewBuilderFromFile(fn)
		if err != nil {
			env.emit("rdptemplate", hx([]byte(tmpl)), "err")
			continue
		}
		text := b.String()
		env.count("c19.template")
		env.emit("rdptemplate", hx([]byte(tmpl)), hx([]byte(text))+" "+settingsString(b.Settings)+" "+wellFormedFile(text))
	}
}
