package main

import (
	"bufio"
	"fmt"
	"math/rand"
	"net"
	"net/http"
	"strings"
	"time"
)

func init() {
	streams["c08"] = streamC08
	replayers["segment"] = func(env *runEnv, e *l1env, f []string) {
		cfg := parseCfg(f[0], "0000000", "0")
		whole, _ := retargetItems(e, f[1], f[3])
		seg, live := retargetItems(e, f[1], f[4])
		a := e.runProcess(cfg, seg)
		b := e.runProcess(cfg, whole)
		env.emit("segment", f[0], live, f[2], itemsString(whole), itemsString(seg), a.obs+" | "+b.obs)
	}
}

// classify labels a segmentation of a packet sequence.
func classify(pkts [][]byte, reads [][]byte) string {
	// byte offset ranges of packets
	var starts []int
	off := 0
	for _, p := range pkts {
		starts = append(starts, off)
		off += len(p)
	}
	total := off
	pktOf := func(pos int) int {
		k := 0
		for i, s := range starts {
			if pos >= s {
				k = i
			}
		}
		return k
	}
	coalesced, multi, big := false, false, false
	span := make([]int, len(pkts))
	firstLen := make([]int, len(pkts))
	pos := 0
	for _, r := range reads {
		if len(r) == 0 {
			multi = true
			continue
		}
		a, b := pktOf(pos), pktOf(pos+len(r)-1)
		if a != b {
			coalesced = true
		}
		for k := a; k <= b; k++ {
			if span[k] == 0 {
				end := pos + len(r)
				if k+1 < len(starts) && end > starts[k+1] {
					end = starts[k+1]
				}
				st := pos
				if st < starts[k] {
					st = starts[k]
				}
				firstLen[k] = end - st
			}
			span[k]++
		}
		pos += len(r)
	}
	_ = total
	for k := range pkts {
		if span[k] >= 3 {
			multi = true
		}
		if span[k] == 2 && firstLen[k] > 4096 {
			big = true
		}
	}
	switch {
	case coalesced:
		return "coalesced-tail-dropped"
	case multi:
		return "three-or-more-fragments"
	case big:
		return "first-fragment-over-4096"
	}
	return "clean-segmentation-differs"
}

func cutAt(stream []byte, cuts []int) [][]byte {
	var r [][]byte
	prev := 0
	for _, c := range cuts {
		if c > prev && c < len(stream) {
			r = append(r, stream[prev:c])
			prev = c
		}
	}
	r = append(r, stream[prev:])
	return r
}

func streamC08(env *runEnv) {
	r := rand.New(rand.NewSource(env.seed))
	type job struct {
		sizes []int // DATA payload sizes
		mode  int
		seed  int64
		close bool
	}
	var jobs []job
	sizeSets := [][]int{{1}, {0}, {3, 5}, {4086, 4087}, {4088}, {8183, 8184, 8185}, {4095, 4096, 4097}, {100, 200, 300}}
	reps := 1
	if env.thorough() {
		reps = 8
		sizeSets = append(sizeSets, []int{65535 - 2}, []int{20000, 1}, []int{4085, 4086})
	}
	for rep := 0; rep < reps; rep++ {
		for _, ss := range sizeSets {
			for mode := 0; mode < 8; mode++ {
				n := 6
				if mode == 1 || mode == 2 {
					n = 40
				}
				for i := 0; i < n; i++ {
					jobs = append(jobs, job{ss, mode, r.Int63(), r.Intn(2) == 0})
				}
			}
		}
	}
	parallel(jobs, func(e *l1env, j job) {
		jr := rand.New(rand.NewSource(j.seed))
		cfg := procCfg{token: true, cookieCb: true, hostCb: true}
		pkts := [][]byte{
			packet(ptHandshake, handshakeBody(1, 0, 0, 2)),
			packet(ptTunnelCreate, tunnelCreateBody(0, "cookie", true)),
			packet(ptTunnelAuth, tunnelAuthBody("pc")),
			packet(ptChannelCreate, channelCreateBody("127.0.0.1", e.pool[0].port)),
		}
		for _, s := range j.sizes {
			pkts = append(pkts, packet(ptData, dataBody(randBytes(jr, s))))
			if jr.Intn(3) == 0 {
				pkts = append(pkts, packet(ptKeepalive, nil))
			}
		}
		if j.close {
			pkts = append(pkts, packet(ptCloseChannel, nil))
		}
		bad := -1
		if j.mode == 7 {
			// bytes that can never be framed (a length field below the header size) in the middle of the exchange
			bad = 4 + jr.Intn(len(pkts)-3)
			u := packetWithLen(ptData, []byte("never-framed"), uint32(jr.Intn(8)))
			pkts = append(pkts[:bad], append([][]byte{u}, pkts[bad:]...)...)
		}
		stream := cat(pkts...)
		var starts []int
		off := 0
		for _, p := range pkts {
			starts = append(starts, off)
			off += len(p)
		}
		var reads [][]byte
		switch j.mode {
		case 0: // one packet per read
			reads = pkts
		case 1: // one cut inside one packet
			k := jr.Intn(len(pkts))
			cuts := append([]int{}, starts[1:]...)
			if len(pkts[k]) > 1 {
				cuts = append(cuts, starts[k]+1+jr.Intn(len(pkts[k])-1))
			}
			reads = cutAt(stream, sorted(cuts))
		case 2: // two cuts inside one packet
			k := jr.Intn(len(pkts))
			cuts := append([]int{}, starts[1:]...)
			for c := 0; c < 2; c++ {
				if len(pkts[k]) > 1 {
					cuts = append(cuts, starts[k]+1+jr.Intn(len(pkts[k])-1))
				}
			}
			reads = cutAt(stream, sorted(cuts))
		case 3: // coalesce 2..n consecutive packets
			k := jr.Intn(len(pkts) - 1)
			n := 2 + jr.Intn(len(pkts)-k-1)
			var cuts []int
			for i := 1; i < len(pkts); i++ {
				if i <= k || i >= k+n {
					cuts = append(cuts, starts[i])
				}
			}
			reads = cutAt(stream, cuts)
		case 4: // boundaries independent of packets (random multi-cut of the stream)
			var cuts []int
			for c := 0; c < 1+jr.Intn(8); c++ {
				cuts = append(cuts, 1+jr.Intn(len(stream)-1))
			}
			reads = cutAt(stream, sorted(cuts))
		case 5: // legacy-like: pieces of at most 4096 bytes of the whole stream
			var cuts []int
			for c := 4096; c < len(stream); c += 4096 {
				cuts = append(cuts, c)
			}
			reads = cutAt(stream, cuts)
		case 7: // the unframeable packet's header arrives over two reads; everything else one packet per read
			cuts := append([]int{}, starts[1:]...)
			cuts = append(cuts, starts[bad]+1+jr.Intn(7))
			reads = cutAt(stream, sorted(cuts))
		case 6: // every packet cut once at a random position
			cuts := append([]int{}, starts[1:]...)
			for k := range pkts {
				if len(pkts[k]) > 1 {
					cuts = append(cuts, starts[k]+1+jr.Intn(len(pkts[k])-1))
				}
			}
			reads = cutAt(stream, sorted(cuts))
		}
		all := [4]bool{true, true, true, true}
		mk := func(rs [][]byte) []item {
			var it []item
			for _, x := range rs {
				it = append(it, item{data: x, ans: all})
			}
			return append(it, item{eof: true})
		}
		cls := classify(pkts, reads)
		if j.mode == 7 {
			cls = "unframeable-header-over-two-reads"
		}
		seg, whole := mk(reads), mk(pkts)
		a := e.runProcess(cfg, seg)
		b := e.runProcess(cfg, whole)
		env.count("c08.class." + cls)
		env.count("c08.mode." + string(rune('0'+j.mode)))
		env.emit("segment", cfg.bits(), e.live(), cls, itemsString(whole), itemsString(seg), a.obs+" | "+b.obs)
	})
}

func sorted(xs []int) []int {
	for i := 1; i < len(xs); i++ {
		for j := i; j > 0 && xs[j] < xs[j-1]; j-- {
			xs[j], xs[j-1] = xs[j-1], xs[j]
		}
	}
	return xs
}

// ---------------------------------------------------------------- C08 at the gateway: the real transports
//
// The websocket transport hands the packet loop one message per read, however the
// message was framed or segmented underneath; the legacy transport reads the
// chunked body of the RDG_IN_DATA request wherever TCP put the first boundary.
// Each tunnel is compared with the model's run over the packets the client sent.
func init() { streams["c08gw"] = streamC08Gw }

func streamC08Gw(env *runEnv) {
	r := rand.New(rand.NewSource(env.seed + 8))
	srv := newL2Server(false, 0)
	defer srv.close()
	all := [4]bool{true, true, true, true}
	sizes := []int{100, 4000, 4089, 5000, 20000, 60000, 65535}
	if env.thorough() {
		sizes = append(sizes, 4080, 4088, 4090, 8192, 12000, 33000, 65000)
	}
	n := 0
	for _, size := range sizes {
		for _, how := range []string{"single", "fragments2", "fragments4", "split-header", "split-payload", "messages2", "messages2-short-first"} {
			n++
			b := newTagBackend(nil)
			host, port := splitHostPort(b.addr)
			id := fmt.Sprintf("{c08gw-%d-%d}", env.seed, n)
			ws, st, _, err := wsDial(srv.inst, wsOpts{connID: id})
			if err != nil || st != 101 {
				env.emit("tunnel", "00001", "ws", "-", hx([]byte(b.addr)), "-", fmt.Sprintf("ERR:upgrade %d %v", st, err))
				b.close()
				continue
			}
			payload := randBytes(r, size)
			tail := []byte("<after-the-big-one>")
			pk := [][]byte{
				packet(ptHandshake, handshakeBody(1, 0, 0, 0)),
				packet(ptTunnelCreate, tunnelCreateBody(0, "", false)),
				packet(ptTunnelAuth, tunnelAuthBody("pc")),
				packet(ptChannelCreate, channelCreateBody(host, port)),
			}
			var resp [][]byte
			for _, p := range pk {
				ws.send(p)
				if m, e := ws.recv(3 * time.Second); e == nil {
					resp = append(resp, m)
				}
			}
			big := packet(ptData, dataBody(payload))
			cut := 0
			switch how {
			case "single":
				ws.send(big)
			case "fragments2":
				k := 1 + r.Intn(len(big)-1)
				ws.sendFragments([][]byte{big[:k], big[k:]})
			case "fragments4":
				q := len(big) / 4
				ws.sendFragments([][]byte{big[:q], big[q : 2*q], big[2*q : 3*q], big[3*q:]})
			case "messages2", "messages2-short-first":
				// two websocket messages (not fragments of one): the packet loop sees two reads
				cut = 8 + r.Intn(min(len(big)-9, 4000))
				if how == "messages2-short-first" {
					cut = 1 + r.Intn(7)
				}
				ws.send(big[:cut])
				time.Sleep(30 * time.Millisecond)
				ws.send(big[cut:])
			case "split-header":
				ws.sendSplit(big, 1+r.Intn(5), 40*time.Millisecond)
			default:
				ws.sendSplit(big, 20+r.Intn(len(big)-20), 40*time.Millisecond)
			}
			ws.send(packet(ptData, dataBody(tail)))
			ws.send(packet(ptCloseChannel, nil))
			closed := false
			for {
				m, e := ws.recv(2 * time.Second)
				if e != nil {
					if ne, ok := e.(net.Error); !(ok && ne.Timeout()) {
						closed = true
					}
					break
				}
				resp = append(resp, m)
			}
			ws.close()
			res := tunnelResult{responses: resp, closed: closed}
			obs := tunnelObservation(srv, id, res, b, nil)
			if cut > 0 {
				pk = append(pk, big[:cut], big[cut:], packet(ptData, dataBody(tail)), packet(ptCloseChannel, nil))
			} else {
				pk = append(pk, big, packet(ptData, dataBody(tail)), packet(ptCloseChannel, nil))
			}
			var items []item
			for _, p := range pk {
				items = append(items, item{data: p, ans: all})
			}
			env.count("c08gw.ws." + how)
			env.emit("tunnel", "00001", "ws", "-", hx([]byte(b.addr)), itemsString(items), obs)
			b.close()
		}
	}
	// legacy: a packet over two chunks whose second part is a few bytes, and a chunk that fills the
	// transport's 4096-byte read buffer exactly; further packets follow and must all be processed
	for _, shape := range []string{"tail-1", "tail-3", "tail-7", "tail-8", "exactly-4096", "exactly-8192-in-two"} {
		n++
		b := newTagBackend(nil)
		host, port := splitHostPort(b.addr)
		id := fmt.Sprintf("{c08gw-%d-%d}", env.seed, n)
		size := 100
		if strings.HasPrefix(shape, "exactly") {
			size = 4096 - 10
		}
		payload := randBytes(r, size)
		big := packet(ptData, dataBody(payload))
		pk := [][]byte{
			packet(ptHandshake, handshakeBody(1, 0, 0, 0)),
			packet(ptTunnelCreate, tunnelCreateBody(0, "", false)),
			packet(ptTunnelAuth, tunnelAuthBody("pc")),
			packet(ptChannelCreate, channelCreateBody(host, port)),
			big,
			packet(ptData, dataBody([]byte("<next>"))),
			packet(ptCloseChannel, nil),
		}
		obs := "ERR:setup"
		if l, err := legacyDial(srv.inst, id, nil); err == nil {
			var resps [][]byte
			get := func() {
				if m, e := l.recv(2 * time.Second); e == nil {
					resps = append(resps, m)
				}
			}
			chunk := func(p []byte) {
				l.in.Write([]byte(fmt.Sprintf("%x\r\n%s\r\n", len(p), p)))
				time.Sleep(25 * time.Millisecond)
			}
			for _, p := range pk[:4] {
				chunk(p)
				get()
			}
			switch shape {
			case "exactly-4096":
				chunk(big)
			case "exactly-8192-in-two":
				chunk(big)
				chunk(big)
				pk = append(pk[:5], append([][]byte{big}, pk[5:]...)...)
			default:
				k := int(shape[len(shape)-1] - '0')
				chunk(big[:len(big)-k])
				chunk(big[len(big)-k:])
			}
			chunk(pk[len(pk)-2])
			chunk(pk[len(pk)-1])
			get()
			closed := false
			if _, e := l.recv(1500 * time.Millisecond); e != nil {
				if ne, ok := e.(net.Error); !(ok && ne.Timeout()) {
					closed = true
				}
			}
			obs = tunnelObservation(srv, id, tunnelResult{responses: resps, closed: closed}, b, nil)
			l.close()
		}
		var items []item
		for _, p := range pk {
			items = append(items, item{data: p, ans: all})
		}
		env.count("c08gw.legacy." + shape)
		env.emit("tunnel", "00001", "legacy", "-", hx([]byte(b.addr)), itemsString(items), obs)
		b.close()
	}
	// legacy: where TCP puts the first boundary of the RDG_IN_DATA request
	for _, coalesce := range []string{"head-alone", "head+chunk", "head+half-chunk"} {
		n++
		b := newTagBackend(nil)
		host, port := splitHostPort(b.addr)
		id := fmt.Sprintf("{c08gw-%d-%d}", env.seed, n)
		pk := [][]byte{
			packet(ptHandshake, handshakeBody(1, 0, 0, 0)),
			packet(ptTunnelCreate, tunnelCreateBody(0, "", false)),
			packet(ptTunnelAuth, tunnelAuthBody("pc")),
			packet(ptChannelCreate, channelCreateBody(host, port)),
			packet(ptData, dataBody([]byte("<legacy-payload>"))),
			packet(ptCloseChannel, nil),
		}
		obs := legacyCoalesced(srv, id, pk, coalesce, b)
		var items []item
		for _, p := range pk {
			items = append(items, item{data: p, ans: all})
		}
		env.count("c08gw.legacy." + coalesce)
		env.emit("tunnel", "00001", "legacy", "-", hx([]byte(b.addr)), itemsString(items), obs)
		b.close()
	}
}

// legacyCoalesced opens a legacy tunnel whose RDG_IN_DATA request head is written
// together with (part of) the first chunk. The gateway discards the first thing
// it reads after accepting the channel (Drain), so the first chunk is a throw-away
// one, exactly as in the separate-writes client.
func legacyCoalesced(srv *l2server, id string, pk [][]byte, mode string, b *tagBackend) string {
	g := srv.inst
	out, outBr, st, err := legacyOpenOut(g, id, nil)
	if err != nil || st != 200 {
		return fmt.Sprintf("ERR:out %d %v", st, err)
	}
	defer out.Close()
	in, err := dialRaw(g)
	if err != nil {
		return "ERR:dial"
	}
	defer in.Close()
	chunk := func(p []byte) []byte { return append(append([]byte(fmt.Sprintf("%x\r\n", len(p))), p...), '\r', '\n') }
	head := []byte(fmt.Sprintf("RDG_IN_DATA /remoteDesktopGateway/ HTTP/1.1\r\nHost: gw\r\nRdg-Connection-Id: %s\r\nTransfer-Encoding: chunked\r\n\r\n", id))
	first := chunk(pk[0])
	switch mode {
	case "head-alone":
		in.Write(head)
	case "head+chunk":
		in.Write(append(append([]byte{}, head...), first...))
	default:
		in.Write(append(append([]byte{}, head...), first[:len(first)/2]...))
	}
	ibr := bufio.NewReader(in)
	in.SetReadDeadline(time.Now().Add(3 * time.Second))
	resp, err := http.ReadResponse(ibr, &http.Request{Method: "GET"})
	if err != nil || resp.StatusCode != 200 {
		return "ERR:in"
	}
	in.SetReadDeadline(time.Time{})
	in.Write([]byte("drain-me")) // swallowed by the gateway's Drain()
	time.Sleep(80 * time.Millisecond)
	switch mode {
	case "head-alone":
		in.Write(first)
	case "head+half-chunk":
		in.Write(first[len(first)/2:])
	}
	l := &legacyConn{out: out, outBr: outBr, in: in, inBr: ibr}
	var resps [][]byte
	get := func() {
		if m, e := l.recv(2 * time.Second); e == nil {
			resps = append(resps, m)
		}
	}
	get()
	for _, p := range pk[1:] {
		in.Write(chunk(p))
		time.Sleep(15 * time.Millisecond)
		ty := int(p[0]) | int(p[1])<<8
		if ty != ptData {
			get()
		}
	}
	closed := false
	if _, e := l.recv(1500 * time.Millisecond); e != nil {
		if ne, ok := e.(net.Error); !(ok && ne.Timeout()) {
			closed = true
		}
	}
	return tunnelObservation(srv, id, tunnelResult{responses: resps, closed: closed}, b, nil)
}
