package main

import (
	"math/rand"
)

func init() {
	streams["c08"] = streamC08
	replayers["segment"] = func(env *runEnv, e *l1env, f []string) {
		cfg := parseCfg(f[0], "0000000", "0")
		whole, _ := retargetItems(e, f[1], f[3])
		seg, live := retargetItems(e, f[1], f[4])
		a := e.runProcess(cfg, seg)
		b := e.runProcess(cfg, whole)
		env.emit("segment", f[0], live, f[2], itemsString(whole), itemsString(seg), a.obs+" | "+b.obs)
	}
}

// classify labels a segmentation of a packet sequence.
func classify(pkts [][]byte, reads [][]byte) string {
	// byte offset ranges of packets
	var starts []int
	off := 0
	for _, p := range pkts {
		starts = append(starts, off)
		off += len(p)
	}
	total := off
	pktOf := func(pos int) int {
		k := 0
		for i, s := range starts {
			if pos >= s {
				k = i
			}
		}
		return k
	}
	coalesced, multi, big := false, false, false
	span := make([]int, len(pkts))
	firstLen := make([]int, len(pkts))
	pos := 0
	for _, r := range reads {
		if len(r) == 0 {
			multi = true
			continue
		}
		a, b := pktOf(pos), pktOf(pos+len(r)-1)
		if a != b {
			coalesced = true
		}
		for k := a; k <= b; k++ {
			if span[k] == 0 {
				end := pos + len(r)
				if k+1 < len(starts) && end > starts[k+1] {
					end = starts[k+1]
				}
				st := pos
				if st < starts[k] {
					st = starts[k]
				}
				firstLen[k] = end - st
			}
			span[k]++
		}
		pos += len(r)
	}
	_ = total
	for k := range pkts {
		if span[k] >= 3 {
			multi = true
		}
		if span[k] == 2 && firstLen[k] > 4096 {
			big = true
		}
	}
	switch {
	case coalesced:
		return "coalesced-tail-dropped"
	case multi:
		return "three-or-more-fragments"
	case big:
		return "first-fragment-over-4096"
	}
	return "clean-segmentation-differs"
}

func cutAt(stream []byte, cuts []int) [][]byte {
	var r [][]byte
	prev := 0
	for _, c := range cuts {
		if c > prev && c < len(stream) {
			r = append(r, stream[prev:c])
			prev = c
		}
	}
	r = append(r, stream[prev:])
	return r
}

func streamC08(env *runEnv) {
	r := rand.New(rand.NewSource(env.seed))
	type job struct {
		sizes []int // DATA payload sizes
		mode  int
		seed  int64
		close bool
	}
	var jobs []job
	sizeSets := [][]int{{1}, {0}, {3, 5}, {4086, 4087}, {4088}, {8183, 8184, 8185}, {4095, 4096, 4097}, {100, 200, 300}}
	reps := 1
	if env.thorough() {
		reps = 8
		sizeSets = append(sizeSets, []int{65535 - 2}, []int{20000, 1}, []int{4085, 4086})
	}
	for rep := 0; rep < reps; rep++ {
		for _, ss := range sizeSets {
			for mode := 0; mode < 7; mode++ {
				n := 6
				if mode == 1 || mode == 2 {
					n = 40
				}
				for i := 0; i < n; i++ {
					jobs = append(jobs, job{ss, mode, r.Int63(), r.Intn(2) == 0})
				}
			}
		}
	}
	parallel(jobs, func(e *l1env, j job) {
		jr := rand.New(rand.NewSource(j.seed))
		cfg := procCfg{token: true, cookieCb: true, hostCb: true}
		pkts := [][]byte{
			packet(ptHandshake, handshakeBody(1, 0, 0, 2)),
			packet(ptTunnelCreate, tunnelCreateBody(0, "cookie", true)),
			packet(ptTunnelAuth, tunnelAuthBody("pc")),
			packet(ptChannelCreate, channelCreateBody("127.0.0.1", e.pool[0].port)),
		}
		for _, s := range j.sizes {
			pkts = append(pkts, packet(ptData, dataBody(randBytes(jr, s))))
			if jr.Intn(3) == 0 {
				pkts = append(pkts, packet(ptKeepalive, nil))
			}
		}
		if j.close {
			pkts = append(pkts, packet(ptCloseChannel, nil))
		}
		stream := cat(pkts...)
		var starts []int
		off := 0
		for _, p := range pkts {
			starts = append(starts, off)
			off += len(p)
		}
		var reads [][]byte
		switch j.mode {
		case 0: // one packet per read
			reads = pkts
		case 1: // one cut inside one packet
			k := jr.Intn(len(pkts))
			cuts := append([]int{}, starts[1:]...)
			if len(pkts[k]) > 1 {
				cuts = append(cuts, starts[k]+1+jr.Intn(len(pkts[k])-1))
			}
			reads = cutAt(stream, sorted(cuts))
		case 2: // two cuts inside one packet
			k := jr.Intn(len(pkts))
			cuts := append([]int{}, starts[1:]...)
			for c := 0; c < 2; c++ {
				if len(pkts[k]) > 1 {
					cuts = append(cuts, starts[k]+1+jr.Intn(len(pkts[k])-1))
				}
			}
			reads = cutAt(stream, sorted(cuts))
		case 3: // coalesce 2..n consecutive packets
			k := jr.Intn(len(pkts) - 1)
			n := 2 + jr.Intn(len(pkts)-k-1)
			var cuts []int
			for i := 1; i < len(pkts); i++ {
				if i <= k || i >= k+n {
					cuts = append(cuts, starts[i])
				}
			}
			reads = cutAt(stream, cuts)
		case 4: // boundaries independent of packets (random multi-cut of the stream)
			var cuts []int
			for c := 0; c < 1+jr.Intn(8); c++ {
				cuts = append(cuts, 1+jr.Intn(len(stream)-1))
			}
			reads = cutAt(stream, sorted(cuts))
		case 5: // legacy-like: pieces of at most 4096 bytes of the whole stream
			var cuts []int
			for c := 4096; c < len(stream); c += 4096 {
				cuts = append(cuts, c)
			}
			reads = cutAt(stream, cuts)
		case 6: // every packet cut once at a random position
			cuts := append([]int{}, starts[1:]...)
			for k := range pkts {
				if len(pkts[k]) > 1 {
					cuts = append(cuts, starts[k]+1+jr.Intn(len(pkts[k])-1))
				}
			}
			reads = cutAt(stream, sorted(cuts))
		}
		all := [4]bool{true, true, true, true}
		mk := func(rs [][]byte) []item {
			var it []item
			for _, x := range rs {
				it = append(it, item{data: x, ans: all})
			}
			return append(it, item{eof: true})
		}
		cls := classify(pkts, reads)
		seg, whole := mk(reads), mk(pkts)
		a := e.runProcess(cfg, seg)
		b := e.runProcess(cfg, whole)
		env.count("c08.class." + cls)
		env.count("c08.mode." + string(rune('0'+j.mode)))
		env.emit("segment", cfg.bits(), e.live(), cls, itemsString(whole), itemsString(seg), a.obs+" | "+b.obs)
	})
}

func sorted(xs []int) []int {
	for i := 1; i < len(xs); i++ {
		for j := i; j > 0 && xs[j] < xs[j-1]; j-- {
			xs[j], xs[j-1] = xs[j-1], xs[j]
		}
	}
	return xs
}
