package main

// Generation of rdpgw configurations (YAML file and/or RDPGW_ environment).

import (
	"fmt"
	"os"
	"path/filepath"
	"strings"

	"github.com/bolkedebruin/gokrb5/v8/iana/etypeID"
	"github.com/bolkedebruin/gokrb5/v8/keytab"
)

type gwConfig struct {
	auth          []string // nil = leave the default
	authSet       bool
	tlsDisable    bool
	tlsValue      string // another spelling of the Tls setting, given together with the certificate files
	hostSelection string // "" = default
	hosts         []string
	queryKey      string
	queryIssuer   string
	keytab        string // path; "" = unset
	krb5conf      string
	tokenAuth     *bool
	smartcard     bool
	verifyIP      *bool
	enableUserTok bool
	userEncKey    string
	userSignKey   string
	paaSignKey    *string
	paaEncKey     *string
	sessionKey    *string
	sessionEnc    *string
	sessionStore  string
	maxSessionLen int
	redir         string // seven switches as 0/1: clipboard, port, drive, printer, pnp, disable-all, redirect-all ("" = not written)
	providerURL   string
	clientID      string
	authSocket    string
	gatewayAddr   string
	sendBuf       int
	recvBuf       int
	idle          *int
	caps          map[string]bool
	certFile      string
	keyFile       string
	splitDomain   bool
	userTemplate  string
	noUsername    bool
	defaults      string // client template file
}

func sp(s string) *string { return &s }
func bp(b bool) *bool     { return &b }

type kvp struct{ sect, key, val string }

// entries lists (section, key, yaml value) of everything that is set.
func (c gwConfig) entries() []kvp {
	var e []kvp
	q := func(s string) string { return fmt.Sprintf("%q", s) }
	list := func(l []string) string {
		qs := make([]string, len(l))
		for i, x := range l {
			qs[i] = q(x)
		}
		return "[" + strings.Join(qs, ", ") + "]"
	}
	e = append(e, kvp{"Server", "Port", "%PORT%"})
	if c.authSet {
		e = append(e, kvp{"Server", "Authentication", list(c.auth)})
	}
	if c.tlsDisable {
		e = append(e, kvp{"Server", "Tls", "disable"})
	} else {
		e = append(e, kvp{"Server", "CertFile", q(c.certFile)}, kvp{"Server", "KeyFile", q(c.keyFile)})
		if c.tlsValue != "" {
			e = append(e, kvp{"Server", "Tls", q(c.tlsValue)})
		}
	}
	if c.hostSelection != "" {
		e = append(e, kvp{"Server", "HostSelection", q(c.hostSelection)})
	}
	if c.hosts != nil {
		e = append(e, kvp{"Server", "Hosts", list(c.hosts)})
	}
	if c.sessionKey != nil {
		e = append(e, kvp{"Server", "SessionKey", q(*c.sessionKey)})
	}
	if c.sessionEnc != nil {
		e = append(e, kvp{"Server", "SessionEncryptionKey", q(*c.sessionEnc)})
	}
	if c.sessionStore != "" {
		e = append(e, kvp{"Server", "SessionStore", q(c.sessionStore)})
	}
	if c.maxSessionLen > 0 {
		e = append(e, kvp{"Server", "MaxSessionLength", fmt.Sprint(c.maxSessionLen)})
	}
	if c.authSocket != "" {
		e = append(e, kvp{"Server", "AuthSocket", q(c.authSocket)})
	}
	ga := c.gatewayAddr
	if ga == "" {
		ga = "127.0.0.1:%PORT%"
	}
	e = append(e, kvp{"Server", "GatewayAddress", q(ga)})
	if c.sendBuf != 0 {
		e = append(e, kvp{"Server", "SendBuf", fmt.Sprint(c.sendBuf)})
	}
	if c.recvBuf != 0 {
		e = append(e, kvp{"Server", "ReceiveBuf", fmt.Sprint(c.recvBuf)})
	}
	if c.providerURL != "" {
		e = append(e, kvp{"OpenId", "ProviderUrl", q(c.providerURL)}, kvp{"OpenId", "ClientId", q(c.clientID)}, kvp{"OpenId", "ClientSecret", q("secret")})
	}
	if c.keytab != "" {
		e = append(e, kvp{"Kerberos", "Keytab", q(c.keytab)})
	}
	if c.krb5conf != "" {
		e = append(e, kvp{"Kerberos", "Krb5conf", q(c.krb5conf)})
	}
	if c.tokenAuth != nil {
		e = append(e, kvp{"Caps", "TokenAuth", fmt.Sprint(*c.tokenAuth)})
	}
	if c.smartcard {
		e = append(e, kvp{"Caps", "SmartCardAuth", "true"})
	}
	if len(c.redir) == 7 {
		for i, k := range []string{"EnableClipboard", "EnablePort", "EnableDrive", "EnablePrinter", "EnablePnp", "DisableRedirect", "RedirectAll"} {
			e = append(e, kvp{"Caps", k, fmt.Sprint(c.redir[i] == '1')})
		}
	}
	if c.idle != nil {
		e = append(e, kvp{"Caps", "IdleTimeout", fmt.Sprint(*c.idle)})
	}
	for k, v := range c.caps {
		e = append(e, kvp{"Caps", k, fmt.Sprint(v)})
	}
	if c.queryKey != "" {
		e = append(e, kvp{"Security", "QueryTokenSigningKey", q(c.queryKey)})
	}
	if c.queryIssuer != "" {
		e = append(e, kvp{"Security", "QueryTokenIssuer", q(c.queryIssuer)})
	}
	if c.verifyIP != nil {
		e = append(e, kvp{"Security", "VerifyClientIp", fmt.Sprint(*c.verifyIP)})
	}
	if c.enableUserTok {
		e = append(e, kvp{"Security", "EnableUserToken", "true"})
	}
	if c.userEncKey != "" {
		e = append(e, kvp{"Security", "UserTokenEncryptionKey", q(c.userEncKey)})
	}
	if c.userSignKey != "" {
		e = append(e, kvp{"Security", "UserTokenSigningKey", q(c.userSignKey)})
	}
	if c.paaSignKey != nil {
		e = append(e, kvp{"Security", "PAATokenSigningKey", q(*c.paaSignKey)})
	}
	if c.paaEncKey != nil {
		e = append(e, kvp{"Security", "PAATokenEncryptionKey", q(*c.paaEncKey)})
	}
	if c.splitDomain {
		e = append(e, kvp{"Client", "SplitUserDomain", "true"})
	}
	if c.noUsername {
		e = append(e, kvp{"Client", "NoUsername", "true"})
	}
	if c.userTemplate != "" {
		e = append(e, kvp{"Client", "UsernameTemplate", q(c.userTemplate)})
	}
	if c.defaults != "" {
		e = append(e, kvp{"Client", "Defaults", q(c.defaults)})
	}
	return e
}

// render gives the YAML file and the environment for a source split:
// via = "file" | "env" | "split" (entries alternate between file and env).
func (c gwConfig) render(via string) (yaml string, env []string) {
	sections := map[string][]string{}
	order := []string{}
	for i, e := range c.entries() {
		toEnv := via == "env" || (via == "split" && i%2 == 1)
		// lists and quoted values in the environment: space separated, unquoted
		if toEnv {
			v := e.val
			if strings.HasPrefix(v, "[") {
				v = strings.TrimSuffix(strings.TrimPrefix(v, "["), "]")
				parts := strings.Split(v, ", ")
				for i := range parts {
					parts[i] = strings.Trim(parts[i], "\"")
				}
				if len(parts) == 1 && parts[0] == "" {
					// an empty list cannot be expressed in the environment: keep it in the file
					toEnv = false
				} else {
					v = strings.Join(parts, " ")
				}
			} else {
				v = strings.Trim(v, "\"")
			}
			if toEnv && (strings.Contains(v, " ") && !strings.HasPrefix(e.val, "[")) {
				toEnv = false // a scalar with blanks would be split into a list
			}
			if toEnv {
				// ToCamel turns "caps.token_auth" into "Caps.TokenAuth": the underscores must sit at the
				// camel-case boundaries, otherwise the variable becomes a second, differently-cased key
				// next to the default and which of the two wins is decided by Go's map order
				env = append(env, "RDPGW_"+upperSnake(e.sect)+"__"+upperSnake(e.key)+"="+v)
				continue
			}
		}
		if _, ok := sections[e.sect]; !ok {
			order = append(order, e.sect)
		}
		sections[e.sect] = append(sections[e.sect], " "+e.key+": "+e.val)
	}
	var sb strings.Builder
	for _, s := range order {
		sb.WriteString(s + ":\n" + strings.Join(sections[s], "\n") + "\n")
	}
	return sb.String(), env
}

// writeKerberosFiles creates a keytab with one entry and a minimal krb5.conf.
func writeKerberosFiles(dir string, kdcs []string) (keytabPath, confPath string) {
	kt := keytab.New()
	kt.AddEntry("HTTP/gw.example.test", "EXAMPLE.TEST", "password", timeNow(), 1, etypeID.AES256_CTS_HMAC_SHA1_96)
	b, _ := kt.Marshal()
	keytabPath = filepath.Join(dir, "gw.keytab")
	os.WriteFile(keytabPath, b, 0o600)
	var kl strings.Builder
	for _, k := range kdcs {
		kl.WriteString("  kdc = " + k + "\n")
	}
	conf := "[libdefaults]\n default_realm = EXAMPLE.TEST\n dns_lookup_kdc = false\n dns_lookup_realm = false\n\n[realms]\n EXAMPLE.TEST = {\n" + kl.String() + " }\n OTHER.TEST = {\n }\n"
	confPath = filepath.Join(dir, "krb5.conf")
	os.WriteFile(confPath, []byte(conf), 0o600)
	return
}

// upperSnake: "TokenAuth" -> "TOKEN_AUTH", "OpenId" -> "OPEN_ID", "VerifyClientIp" -> "VERIFY_CLIENT_IP".
func upperSnake(s string) string {
	var b strings.Builder
	for i, r := range s {
		if i > 0 && r >= 'A' && r <= 'Z' {
			b.WriteByte('_')
		}
		b.WriteRune(r)
	}
	return strings.ToUpper(b.String())
}
