package main

// C10: hostile inputs. Every case either compares a checked handler of the
// model (Model/Partial.v) with the real function, or asks one question of the
// real code: did it survive, and does it still serve?

import (
	"bufio"
	"crypto/tls"
	"encoding/base64"
	"encoding/binary"
	"fmt"
	"math/rand"
	"net"
	"net/http"
	"net/http/httptest"
	"path/filepath"
	"strconv"
	"strings"
	"sync"
	"time"

	authconfig "github.com/bolkedebruin/rdpgw/cmd/auth/config"
	"github.com/bolkedebruin/rdpgw/cmd/auth/database"
	authntlm "github.com/bolkedebruin/rdpgw/cmd/auth/ntlm"
	"github.com/bolkedebruin/rdpgw/cmd/rdpgw/protocol"
	"github.com/bolkedebruin/rdpgw/cmd/rdpgw/web"
	"github.com/bolkedebruin/rdpgw/shared/auth"
	"github.com/m7913d/go-ntlm/ntlm"
)

func init() { streams["c10"] = streamC10 }

func guarded(f func() string) (out string) {
	defer func() {
		if r := recover(); r != nil {
			out = "PANIC"
		}
	}()
	return f()
}

var boundarySizes = []uint32{0, 1, 2, 7, 8, 9, 10, 15, 16, 17, 4095, 4096, 4097, 65535, 65536, 65537, 1<<31 - 1, 1 << 31, 1<<32 - 1}

func observeHeader(d []byte) string {
	return guarded(func() string {
		ty, size, body, err := protocol.VerifReadHeader(d)
		switch {
		case err == nil:
			return fmt.Sprintf("ok:%d:%d:%s", ty, size, hx(body))
		case strings.Contains(err.Error(), "too short"):
			return "short"
		case strings.Contains(err.Error(), "incomplete"):
			return fmt.Sprintf("incomplete:%d:%d", ty, size)
		default:
			return fmt.Sprintf("malformed:%d:%d", ty, size)
		}
	})
}

func observeUtf16(d []byte) string {
	return guarded(func() string {
		s, _ := protocol.DecodeUTF16(d)
		return hx([]byte(s))
	})
}

func init() {
	replayers["hdrc"] = func(env *runEnv, e *l1env, f []string) { env.emit("hdrc", f[0], observeHeader(unhx(f[0]))) }
	replayers["utf16c"] = func(env *runEnv, e *l1env, f []string) { env.emit("utf16c", f[0], observeUtf16(unhx(f[0]))) }
}

func c10Headers(env *runEnv, r *rand.Rand) {
	emit := func(d []byte) {
		obs := observeHeader(d)
		env.count("c10.hdr." + strings.SplitN(obs, ":", 2)[0])
		env.emit("hdrc", hx(d), obs)
	}
	// every length 0..20 with every boundary size field (relative ones included)
	for n := 0; n <= 20; n++ {
		sizes := append([]uint32{}, boundarySizes...)
		sizes = append(sizes, uint32(n), uint32(n+1))
		if n > 0 {
			sizes = append(sizes, uint32(n-1))
		}
		for _, sz := range sizes {
			d := make([]byte, n)
			for i := range d {
				d[i] = byte(i + 1)
			}
			if n >= 8 {
				binary.LittleEndian.PutUint32(d[4:8], sz)
			} else if n >= 5 {
				// a partial size field
				var t [4]byte
				binary.LittleEndian.PutUint32(t[:], sz)
				copy(d[4:], t[:])
			}
			emit(d)
		}
	}
	nr := 400
	if env.thorough() {
		nr = 20000
	}
	for i := 0; i < nr; i++ {
		n := r.Intn(64)
		d := randBytes(r, n)
		if n >= 8 && r.Intn(3) > 0 {
			binary.LittleEndian.PutUint32(d[4:8], uint32(r.Intn(n+4)))
		}
		emit(d)
	}
}

func c10Utf16(env *runEnv, r *rand.Rand) {
	emit := func(d []byte) {
		obs := observeUtf16(d)
		env.count(fmt.Sprintf("c10.utf16.parity%d", len(d)%2))
		env.emit("utf16c", hx(d), obs)
	}
	interesting := []byte{0x00, 0x41, 0x7f, 0x80, 0xd7, 0xd8, 0xdb, 0xdc, 0xdf, 0xe0, 0xff}
	for n := 0; n <= 3; n++ {
		var rec func(cur []byte)
		rec = func(cur []byte) {
			if len(cur) == n {
				emit(append([]byte(nil), cur...))
				return
			}
			for _, b := range interesting {
				rec(append(cur, b))
			}
		}
		rec(nil)
	}
	nr := 300
	if env.thorough() {
		nr = 20000
	}
	for i := 0; i < nr; i++ {
		n := r.Intn(40)
		d := make([]byte, n)
		for k := range d {
			if r.Intn(3) == 0 {
				d[k] = interesting[r.Intn(len(interesting))]
			} else {
				d[k] = byte(r.Intn(256))
			}
		}
		emit(d)
	}
}

// c10AuthPayload drives the real NTLM middleware; the authentication service
// answers every message with a fixed challenge, so the scheme the middleware
// recognised shows in the WWW-Authenticate prefix and the payload it cut out of
// the header shows in the service's call log.
func c10AuthPayload(env *runEnv, r *rand.Rand) {
	sock := filepath.Join(env.workdir, "c10-auth.sock")
	mkdirAll(env.workdir)
	fa := newFakeAuth(sock, map[string]string{"1": "pw1"})
	fa.scriptedChallenge = "Q0hBTExFTkdF"
	defer fa.stop()
	h := (&web.NTLMAuthHandler{SocketAddress: sock, Timeout: 5}).NTLMAuth(func(w http.ResponseWriter, r *http.Request) { w.WriteHeader(200) })
	emit := func(v string) {
		fa.take()
		obs := guarded(func() string {
			req := httptest.NewRequest("GET", "/remoteDesktopGateway/", nil)
			req.Header["Authorization"] = []string{v}
			rec := httptest.NewRecorder()
			h(rec, req)
			calls := fa.take()
			if len(calls) == 0 {
				if rec.Code == 401 {
					return "none"
				}
				return fmt.Sprintf("status-%d", rec.Code)
			}
			mode := "?"
			for _, c := range rec.Header().Values("Www-Authenticate") {
				if strings.HasPrefix(c, "NTLM ") {
					mode = "ntlm"
				} else if strings.HasPrefix(c, "Negotiate ") {
					mode = "negotiate"
				}
			}
			return mode + ":" + hx([]byte(calls[0].msg))
		})
		env.count("c10.auth." + strings.SplitN(obs, ":", 2)[0])
		env.emit("authpayload", hx([]byte(v)), obs)
	}
	maxLen := 3
	if env.thorough() {
		maxLen = 5
	}
	alpha := []byte("NTLM eg")
	var rec func(cur []byte)
	rec = func(cur []byte) {
		emit(string(cur))
		if len(cur) == maxLen {
			return
		}
		for _, b := range alpha {
			rec(append(append([]byte(nil), cur...), b))
		}
	}
	rec(nil)
	for _, full := range []string{"NTLM abcd", "Negotiate abcd", "ntlm abcd", "NEGOTIATE abcd", "Basic NTLM", "xNTLM abc", "x Negotiate abc", "NTLMNTLM ", "NegotiateNTLM x", "NTLM  double", "Negotiate\tx", "NTLM\x00x"} {
		for k := 0; k <= len(full); k++ {
			emit(full[:k])
		}
	}
	for i := 0; i < 100; i++ {
		pre := pick(r, []string{"NTLM ", "Negotiate ", "NTLM", "Negotiate", "Neg", " NTLM ", ""})
		emit(pre + base64.StdEncoding.EncodeToString(randBytes(r, r.Intn(24))))
	}
}

// c10NtlmParse: messages whose payload descriptors (len, maxlen, offset) point
// anywhere, in either position of the exchange, through the real verifier.
func c10NtlmParse(env *runEnv, r *rand.Rand) {
	srv := authntlm.NewNTLMAuth(database.NewConfig([]authconfig.UserConfig{{Username: "1", Password: "pw1"}}))
	cl := ntlm.V2ClientSession{}
	cl.SetUserInfo("1", "pw1", "")
	neg, _ := cl.GenerateNegotiateMessage()
	negB := neg.Bytes()
	n := 0
	wedged := false
	// every call is bounded: a verifier that stops answering is a finding, not a hang of the check
	bounded := func(f func() string) string {
		ch := make(chan string, 1)
		go func() { ch <- guarded(f) }()
		select {
		case o := <-ch:
			return o
		case <-time.After(3 * time.Second):
			return "no-answer-within-3s"
		}
	}
	honest := func(sess string) string {
		return bounded(func() string {
			res, err := srv.Authenticate(&auth.NtlmRequest{Session: sess, NtlmMessage: base64.StdEncoding.EncodeToString(negB)})
			if err != nil || res == nil || res.NtlmMessage == "" {
				return "honest-client-refused"
			}
			return "alive"
		})
	}
	try := func(label string, sess string, msg []byte, second bool) {
		n++
		if wedged {
			return
		}
		obs := bounded(func() string {
			if second {
				// a well-formed first leg so that the hostile message is parsed as the authenticate message
				srv.Authenticate(&auth.NtlmRequest{Session: sess, NtlmMessage: base64.StdEncoding.EncodeToString(negB)})
			}
			res, err := srv.Authenticate(&auth.NtlmRequest{Session: sess, NtlmMessage: base64.StdEncoding.EncodeToString(msg)})
			if err == nil && res != nil && res.Authenticated {
				return "AUTHENTICATED"
			}
			return "alive"
		})
		// the service must still serve an honest client of another session
		if obs == "alive" && n%16 == 0 {
			if h := honest(fmt.Sprintf("honest-%d", n)); h != "alive" {
				obs = "after-this-message-" + h
			}
		}
		if strings.Contains(obs, "no-answer") {
			wedged = true
		}
		env.count("c10.ntlmparse." + obs)
		env.emit("alive", fmt.Sprintf("ntlm-verifier:%s:%s", label, hx(msg)), obs)
	}
	defer func() {
		if !wedged {
			env.emit("alive", "ntlm-verifier:honest-client-after-all-hostile-messages", honest("honest-final"))
		}
	}()
	// an authenticate message for a challenge that was never issued to these sessions
	chal := selfChallenge()
	cm, _ := ntlm.ParseChallengeMessage(chal)
	cl.ProcessChallengeMessage(cm)
	am, _ := cl.GenerateAuthenticateMessage()
	amB := am.Bytes()
	vals := []uint32{0, 1, 8, 0x40, 0xffff, 0x10000, 0x7fffffff, 0x80000000, 0xffffffff}
	for _, base := range []struct {
		label string
		b     []byte
		descs []int // offsets of the 8-byte payload descriptors
	}{
		{"negotiate", negB, []int{16, 24}},
		{"authenticate", amB, []int{12, 20, 28, 36, 44, 52}},
	} {
		// truncations
		for k := 0; k <= len(base.b); k++ {
			if k > 72 && k%7 != 0 && !env.thorough() {
				continue
			}
			try(base.label+"-trunc", fmt.Sprintf("t%d", n), base.b[:k], base.label == "authenticate")
		}
		for _, d := range base.descs {
			if d+8 > len(base.b) {
				continue
			}
			for _, l := range []uint16{0, 1, 8, 0xffff} {
				for _, off := range vals {
					m := append([]byte(nil), base.b...)
					binary.LittleEndian.PutUint16(m[d:], l)
					binary.LittleEndian.PutUint16(m[d+2:], l)
					binary.LittleEndian.PutUint32(m[d+4:], off)
					try(base.label+"-desc", fmt.Sprintf("d%d", n), m, base.label == "authenticate")
					if base.label == "authenticate" {
						try(base.label+"-desc-first", fmt.Sprintf("d%d", n), m, false)
					}
				}
			}
		}
	}
	nr := 200
	if env.thorough() {
		nr = 5000
	}
	for i := 0; i < nr; i++ {
		src := negB
		second := false
		if r.Intn(2) == 0 {
			src, second = amB, true
		}
		m := append([]byte(nil), src...)
		for k := 0; k < 1+r.Intn(4); k++ {
			m[8+r.Intn(len(m)-8)] = byte(r.Intn(256))
		}
		if r.Intn(4) == 0 {
			m = m[:r.Intn(len(m)+1)]
		}
		try("random", fmt.Sprintf("r%d", n), m, second)
	}
}

func handshakeAnswered(c tclient) string {
	if err := c.send(packet(ptHandshake, handshakeBody(1, 0, 0, 0))); err != nil {
		return "send-failed"
	}
	m, err := c.recv(3 * time.Second)
	if err != nil || len(m) < 2 || int(m[0])|int(m[1])<<8 != 2 {
		return "no-handshake-response"
	}
	return "alive"
}

// c10Buffers: socket buffer tuning on both kinds of connection the gateway can
// be handed (TLS terminated by the gateway, or by something in front of it).
func c10Buffers(env *runEnv) {
	for _, buf := range []int{0, 1, 4096, 65536, 1 << 24} {
		// the function itself, on the two connection types
		l, _ := net.Listen("tcp", "127.0.0.1:0")
		go func() {
			for {
				c, err := l.Accept()
				if err != nil {
					return
				}
				defer c.Close()
			}
		}()
		plain, err := net.Dial("tcp", l.Addr().String())
		if err == nil {
			gw := &protocol.Gateway{SendBuf: buf, ReceiveBuf: buf}
			obs := guarded(func() string { gw.VerifSetSendReceiveBuffers(plain); return "alive" })
			env.emit("alive", fmt.Sprintf("setbuffers:tcp:%d", buf), obs)
			tc := tls.Client(plain, &tls.Config{InsecureSkipVerify: true})
			obs = guarded(func() string { gw.VerifSetSendReceiveBuffers(tc); return "alive" })
			env.emit("alive", fmt.Sprintf("setbuffers:tls:%d", buf), obs)
			plain.Close()
		}
		l.Close()
		// a websocket tunnel through the gateway handler with that tuning, over plain HTTP
		s := newL2Server(false, buf)
		obs := "alive"
		c, err := openTunnel(s.inst, tunnelScript{transport: "ws", id: fmt.Sprintf("{c10-buf-%d}", buf)})
		if err != nil {
			obs = "no-upgrade"
		} else {
			obs = handshakeAnswered(c)
			c.close()
		}
		if s.panics() > 0 {
			obs = "PANIC"
		}
		env.count("c10.buffers." + obs)
		env.emit("alive", fmt.Sprintf("ws-plain:sendbuf=%d", buf), obs)
		s.close()
	}
}

// c10Orderings: every order of legacy channel requests of up to four steps over
// two connection ids, then: did a handler panic, does a new tunnel still work?
func c10Orderings(env *runEnv) {
	steps := []string{"Oa", "Ia", "Ob", "Ib"}
	maxLen := 3
	if env.thorough() {
		maxLen = 4
	}
	var seqs [][]string
	var rec func(cur []string)
	rec = func(cur []string) {
		if len(cur) > 0 {
			seqs = append(seqs, append([]string(nil), cur...))
		}
		if len(cur) == maxLen {
			return
		}
		for _, s := range steps {
			rec(append(cur, s))
		}
	}
	rec(nil)
	s := newL2Server(false, 0)
	defer s.close()
	for i, seq := range seqs {
		before := s.panics()
		var conns []net.Conn
		for _, st := range seq {
			id := fmt.Sprintf("{c10-%d-%s}", i, st[1:])
			var c net.Conn
			if st[0] == 'O' {
				c, _, _, _ = legacyOpenOut(s.inst, id, nil)
			} else {
				c, _, _, _ = legacyOpenIn(s.inst, id, nil)
			}
			if c != nil {
				conns = append(conns, c)
			}
		}
		obs := "alive"
		c, err := openTunnel(s.inst, tunnelScript{transport: "ws", id: fmt.Sprintf("{c10-probe-%d}", i)})
		if err != nil {
			obs = "no-upgrade"
		} else {
			obs = handshakeAnswered(c)
			c.close()
		}
		for _, c := range conns {
			c.Close()
		}
		if s.panics() > before {
			obs = "PANIC"
		}
		env.count("c10.order." + obs)
		env.emit("alive", "legacy-order:"+strings.Join(seq, ","), obs)
	}
}

// c10Binary: the real binary, TLS on and off, buffers tuned or not; hostile
// requests, then a liveness probe and a scan of the log.
func c10Binary(env *runEnv, r *rand.Rand) {
	if rdpgwBinary == "" {
		return
	}
	users := map[string]string{"1": "pw1"}
	type cfg struct {
		tls  bool
		buf  int // send buffer
		rbuf int // receive buffer (-1: same as the send buffer)
	}
	cfgs := []cfg{{true, 0, -1}, {true, 65536, -1}, {false, 0, -1}, {false, 65536, -1}, {false, 0, 65536}, {false, 32768, 0}, {true, 0, 32768}}
	for ci, c := range cfgs {
		dir := filepath.Join(env.workdir, fmt.Sprintf("c10-%d", ci))
		mkdirAll(dir)
		sock := filepath.Join(dir, "a.sock")
		gc := gwConfig{authSet: true, tlsDisable: !c.tls, hosts: []string{"127.0.0.1:3389"}, hostSelection: "any",
			authSocket: sock, tokenAuth: bp(false), sendBuf: c.buf, recvBuf: c.buf}
		if c.rbuf >= 0 {
			gc.recvBuf = c.rbuf
		}
		if c.tls {
			gc.auth = []string{"local"}
			gc.certFile, gc.keyFile = selfSigned(dir)
		} else {
			gc.auth = []string{"ntlm"}
		}
		fa := newFakeAuth(sock, users)
		yaml, ev := gc.render("file")
		g, ok := startGateway(dir, yaml, ev, c.tls)
		if !ok {
			panic("C10: gateway did not start: " + g.logs())
		}
		name := fmt.Sprintf("tls=%v,buf=%d", c.tls, c.buf)
		if c.rbuf >= 0 {
			name += fmt.Sprintf(",rbuf=%d", c.rbuf)
		}
		// an authenticated websocket tunnel
		tunnel := func() (tclient, string) {
			if c.tls {
				ws, st, _, err := wsDial(g, wsOpts{headers: map[string]string{"Authorization": "Basic " + base64.StdEncoding.EncodeToString([]byte("1:pw1"))}})
				if err != nil || st != 101 {
					return nil, fmt.Sprintf("upgrade-status-%d", st)
				}
				return ws, ""
			}
			conn, err := dialGateway(g)
			if err != nil {
				return nil, "dial-failed"
			}
			st, _, _ := runNtlmSeq(g, conn, c05req{method: "RDG_OUT_DATA", ntlmSeq: "full:1:pw1", upgrade: true})
			if st != 101 {
				conn.c.Close()
				return nil, fmt.Sprintf("upgrade-status-%d", st)
			}
			conn.c.SetDeadline(time.Time{})
			return &wsConn{c: conn.c, br: conn.br}, ""
		}
		probe := func(what string) {
			obs := "alive"
			t, why := tunnel()
			if t == nil {
				obs = why
			} else {
				obs = handshakeAnswered(t)
				t.close()
			}
			if !g.alive() {
				obs = "process-exited"
			}
			lg := g.logs()
			if strings.Contains(lg, "panic serving") || strings.Contains(lg, "fatal error:") || strings.Contains(lg, "panic:") {
				obs = "PANIC"
			}
			env.count("c10.l3." + obs)
			env.emit("alive", "binary:"+name+":"+what, obs)
		}
		probe("first-tunnel")
		raw := func(payload []byte) {
			conn, err := dialGateway(g)
			if err != nil {
				return
			}
			conn.c.SetDeadline(time.Now().Add(2 * time.Second))
			conn.c.Write(payload)
			bufio.NewReader(conn.c).ReadString('\n')
			conn.c.Close()
		}
		raw(randBytes(r, 512))
		raw([]byte("GET / HTTP/1.1\r\nHost: x\r\nX-Big: " + strings.Repeat("a", 1<<20) + "\r\n\r\n"))
		raw([]byte("RDG_IN_DATA /remoteDesktopGateway/ HTTP/1.1\r\nHost: x\r\nRdg-Connection-Id: {none}\r\nTransfer-Encoding: chunked\r\n\r\n"))
		raw([]byte("RDG_OUT_DATA /remoteDesktopGateway/ HTTP/1.1\r\nHost: x\r\nAuthorization: NTLM\r\nContent-Length: 0\r\n\r\n"))
		raw([]byte("RDG_OUT_DATA /remoteDesktopGateway/ HTTP/1.1\r\nHost: x\r\nAuthorization: Negotiate\r\nAuthorization: Basic\r\nContent-Length: 0\r\n\r\n"))
		// messages the authentication service answers with an error rather than a verdict
		for _, m := range []string{"AAAA", "TlRMTVNTUAAB", "TlRMTVNTUAADAAAA//8=", "!!!!", "TlRMTVNTUAAD" + strings.Repeat("/", 64)} {
			raw([]byte("RDG_OUT_DATA /remoteDesktopGateway/ HTTP/1.1\r\nHost: x\r\nAuthorization: NTLM " + m + "\r\nContent-Length: 0\r\n\r\n"))
			raw([]byte("RDG_OUT_DATA /remoteDesktopGateway/ HTTP/1.1\r\nHost: x\r\nAuthorization: Negotiate " + m + "\r\nContent-Length: 0\r\n\r\n"))
		}
		raw([]byte("GET /metrics HTTP/1.1\r\nHost: x\r\nX-Forwarded-For: ,\r\n\r\n"))
		raw([]byte("GET /tokeninfo HTTP/1.1\r\nHost: x\r\nX-Forwarded-For:  , , \r\nX-Real-Ip: ,\r\n\r\n"))
		raw([]byte("POST /KdcProxy HTTP/1.1\r\nHost: x\r\nContent-Length: 3\r\n\r\n\x30\x84\xff"))
		probe("after-hostile-requests")
		// hostile packets inside an authenticated tunnel: each ends that tunnel at most
		for _, p := range [][]byte{
			{1, 0, 0, 0, 0, 0, 0, 0}, {1, 0, 0, 0, 3, 0, 0, 0}, {1, 0, 0, 0, 0xff, 0xff, 0xff, 0xff},
			packetWithLen(ptTunnelCreate, []byte{0, 0, 0, 0, 1, 0, 0, 0, 0xff, 0xff}, 18),
			packetWithLen(ptChannelCreate, []byte{1, 0, 0xff, 0xff, 3, 0}, 14), {0xA}, {},
		} {
			if t, _ := tunnel(); t != nil {
				t.send(packet(ptHandshake, handshakeBody(1, 0, 0, 0)))
				t.recv(2 * time.Second)
				t.send(p)
				t.recv(300 * time.Millisecond)
				t.close()
			}
		}
		probe("after-hostile-packets")
		// a well-formed session whose target cannot be reached (closed port, unresolvable name): an error
		// answer for that tunnel, nothing else
		for _, target := range []struct {
			h string
			p int
		}{{"127.0.0.1", 1}, {"no-such-host.invalid", 3389}, {"", 0}} {
			if t, _ := tunnel(); t != nil {
				for _, p := range [][]byte{
					packet(ptHandshake, handshakeBody(1, 0, 0, 0)),
					packet(ptTunnelCreate, tunnelCreateBody(0, "", false)),
					packet(ptTunnelAuth, tunnelAuthBody("pc")),
					packet(ptChannelCreate, channelCreateBody(target.h, target.p)),
					packet(ptData, dataBody([]byte("x"))),
				} {
					t.send(p)
					t.recv(2 * time.Second)
				}
				t.close()
			}
		}
		time.Sleep(200 * time.Millisecond)
		probe("after-unreachable-targets")
		g.stop()
		fa.stop()
	}
	if env.thorough() {
		// timers: an idle timeout is configured, a client opens only the outbound half of a legacy tunnel
		// and then does nothing for longer than a minute; another opens both halves and goes quiet
		idp := newFakeIdP()
		defer idp.close()
		dir := filepath.Join(env.workdir, "c10-idle")
		mkdirAll(dir)
		one := 1
		gc := gwConfig{authSet: true, auth: []string{"openid"}, tlsDisable: true, hosts: []string{"127.0.0.1:3389"}, hostSelection: "any",
			providerURL: idp.srv.URL, clientID: idp.clientID, idle: &one}
		yaml, ev := gc.render("file")
		g, ok := startGateway(dir, yaml, ev, false)
		if !ok {
			panic("C10: gateway did not start: " + g.logs())
		}
		out, _, _, err := legacyOpenOut(g, "{c10-half-open}", nil)
		var quiet tclient
		if q, e2 := openTunnel(g, tunnelScript{transport: "legacy", id: "{c10-quiet}"}); e2 == nil {
			q.send(packet(ptHandshake, handshakeBody(1, 0, 0, 2)))
			q.recv(2 * time.Second)
			quiet = q
		}
		time.Sleep(66 * time.Second)
		obs := "alive"
		if !g.alive() {
			obs = "process-exited"
		} else if t, e3 := openTunnel(g, tunnelScript{transport: "ws", id: "{c10-after-idle}"}); e3 != nil {
			obs = "no-upgrade"
		} else {
			obs = handshakeAnswered(t)
			t.close()
		}
		if lg := g.logs(); strings.Contains(lg, "fatal error:") || strings.Contains(lg, "panic:") || strings.Contains(lg, "panic serving") {
			obs = "PANIC"
		}
		if err == nil {
			out.Close()
		}
		if quiet != nil {
			quiet.close()
		}
		env.count("c10.l3.idle." + obs)
		env.emit("alive", "binary:half-open-and-quiet-tunnels-for-66s-with-idle-timeout", obs)
		g.stop()
	}
}

// c10Fragments: packets delivered in two reads whose sizes sweep the defragmenter's scratch
// buffer (4096): the second read alone, or both together, exceed it.
func c10Fragments(env *runEnv, r *rand.Rand) {
	e := newL1Env(1)
	all := [4]bool{true, true, true, true}
	cfg := procCfg{hostCb: true}
	for _, total := range []int{100, 4090, 4096, 4097, 4104, 8000, 12000} {
		for _, first := range []int{1, 4, 7, 8, 9, 100, 4000, 4088, 4095, 4096} {
			if first >= total+10 {
				continue
			}
			big := packet(ptData, dataBody(randBytes(r, total)))
			if first >= len(big) {
				continue
			}
			items := []item{
				{data: packet(ptHandshake, handshakeBody(1, 0, 0, 0)), ans: all},
				{data: packet(ptTunnelCreate, tunnelCreateBody(0, "", false)), ans: all},
				{data: packet(ptTunnelAuth, tunnelAuthBody("pc")), ans: all},
				{data: packet(ptChannelCreate, channelCreateBody("127.0.0.1", e.pool[0].port)), ans: all},
				{data: big[:first], ans: all},
				{data: big[first:], ans: all},
				{data: packet(ptCloseChannel, nil), ans: all},
				{eof: true},
			}
			res := e.runProcess(cfg, items)
			env.count("c10.fragments")
			env.emit("process", cfg.bits(), redirBits(cfg.redir), strconv.Itoa(cfg.idle), e.live(), itemsString(items), res.obs)
		}
	}
}

// c10Headers2: request headers a client controls, with bytes no well-behaved client sends.
func c10HostileHeaders(env *runEnv) {
	s := newL2Server(false, 0)
	defer s.close()
	hostile := []string{"R\xe9mi-RDP/2.0", "\xff\xfe", strings.Repeat("A", 60000), "", "a\tb", "\x80", "Mozilla/5.0 (\xc3\x28)", ",", " , , ", ",,,", ";", "=", "\"", ", 10.0.0.1"}
	for _, name := range []string{"User-Agent", "X-Forwarded-For", "Rdg-Connection-Id", "Cookie", "Rdg-User-Id", "Origin", "Sec-WebSocket-Protocol", "Accept-Language"} {
		for _, v := range hostile {
			before := s.panics()
			obs := "alive"
			for _, upgrade := range []bool{true, false} {
				c, err := dialRaw(s.inst)
				if err != nil {
					obs = "no-connection"
					break
				}
				var sb strings.Builder
				fmt.Fprintf(&sb, "RDG_OUT_DATA /remoteDesktopGateway/ HTTP/1.1\r\nHost: gw\r\n")
				if name != "Rdg-Connection-Id" {
					fmt.Fprintf(&sb, "Rdg-Connection-Id: {c10-hh-%d}\r\n", time.Now().UnixNano())
				}
				if upgrade {
					fmt.Fprintf(&sb, "Connection: Upgrade\r\nUpgrade: websocket\r\nSec-WebSocket-Version: 13\r\nSec-WebSocket-Key: %s\r\n", base64.StdEncoding.EncodeToString(randomBytes(16)))
				}
				fmt.Fprintf(&sb, "%s: %s\r\n\r\n", name, v)
				c.SetDeadline(time.Now().Add(time.Second))
				c.Write([]byte(sb.String()))
				bufio.NewReader(c).ReadString('\n')
				c.Close()
			}
			if s.panics() > before {
				obs = "PANIC"
			}
			env.count("c10.hostile-header." + obs)
			env.emit("alive", fmt.Sprintf("header:%s:%s", name, hx([]byte(v[:min(len(v), 24)]))), obs)
		}
	}
	// and the gateway still serves
	obs := "alive"
	if c, err := openTunnel(s.inst, tunnelScript{transport: "ws", id: "{c10-hh-probe}"}); err != nil {
		obs = "no-upgrade"
	} else {
		obs = handshakeAnswered(c)
		c.close()
	}
	env.emit("alive", "after-hostile-headers", obs)
}

// c10VerifierConcurrent: the NTLM verifier under concurrent well-formed exchanges (right and wrong
// passwords, several users): a runtime abort of the service is the end of every authentication.
func c10VerifierConcurrent(env *runEnv) {
	srv := authntlm.NewNTLMAuth(database.NewConfig([]authconfig.UserConfig{{Username: "1", Password: "pw1"}, {Username: "2", Password: "pw2"}, {Username: "3", Password: "pw3"}}))
	var wg sync.WaitGroup
	stop := time.Now().Add(1500 * time.Millisecond)
	if env.thorough() {
		stop = time.Now().Add(15 * time.Second)
	}
	bad := make([]string, 8)
	for w := 0; w < 8; w++ {
		wg.Add(1)
		go func(w int) {
			defer wg.Done()
			for i := 0; time.Now().Before(stop); i++ {
				user := fmt.Sprint(1 + (w+i)%3)
				pw := "pw" + user
				if (w+i)%4 == 0 {
					pw = "wrong"
				}
				sess := fmt.Sprintf("192.0.2.%d:%d", w, 40000+i)
				cl := ntlm.V2ClientSession{}
				cl.SetUserInfo(user, pw, "")
				n, _ := cl.GenerateNegotiateMessage()
				r1, err := srv.Authenticate(&auth.NtlmRequest{Session: sess, NtlmMessage: base64.StdEncoding.EncodeToString(n.Bytes())})
				if err != nil || r1.NtlmMessage == "" {
					bad[w] = "honest-negotiate-refused"
					return
				}
				chb, _ := base64.StdEncoding.DecodeString(r1.NtlmMessage)
				cm, err := ntlm.ParseChallengeMessage(chb)
				if err != nil {
					bad[w] = "challenge-unparseable"
					return
				}
				cl.ProcessChallengeMessage(cm)
				am, _ := cl.GenerateAuthenticateMessage()
				r2, _ := srv.Authenticate(&auth.NtlmRequest{Session: sess, NtlmMessage: base64.StdEncoding.EncodeToString(am.Bytes())})
				if pw != "wrong" && (r2 == nil || !r2.Authenticated) {
					bad[w] = "honest-client-refused"
					return
				}
				if pw == "wrong" && r2 != nil && r2.Authenticated {
					bad[w] = "wrong-password-accepted"
					return
				}
			}
		}(w)
	}
	wg.Wait()
	obs := "alive"
	for _, b := range bad {
		if b != "" {
			obs = b
		}
	}
	env.emit("alive", "ntlm-verifier:8-concurrent-clients", obs)
}

// c10Teardown: tunnels that end (close, protocol error, disconnect) while their host is still sending.
// A fault in a relay goroutine is outside every recover and takes the whole process down: here that is
// the harness process itself, which the check reports as a crash of the gateway code.
func c10Teardown(env *runEnv, r *rand.Rand) {
	srv := newL2Server(true, 0)
	defer srv.close()
	rounds := 3
	if env.thorough() {
		rounds = 30
	}
	for round := 0; round < rounds; round++ {
		var wg sync.WaitGroup
		n := 12
		backends := make([]*tagBackend, n)
		for i := range backends {
			tag := fmt.Sprintf("<t%d-%d>", round, i)
			backends[i] = newTagBackend([]byte(strings.Repeat(tag, (8<<20)/len(tag))))
			backends[i].piece = 65536 // full speed: the relay is writing, not waiting, when the end comes
		}
		for i := 0; i < n; i++ {
			wg.Add(1)
			go func(i int) {
				defer wg.Done()
				b := backends[i]
				host, port := splitHostPort(b.addr)
				pk := [][]byte{
					packet(ptHandshake, handshakeBody(1, 0, 0, 2)),
					packet(ptTunnelCreate, tunnelCreateBody(0, fmt.Sprintf("ok|u%d|%s", i, b.addr), true)),
					packet(ptTunnelAuth, tunnelAuthBody("pc")),
					packet(ptChannelCreate, channelCreateBody(host, port)),
					packet(ptData, dataBody([]byte("hello"))),
				}
				switch i % 3 {
				case 0:
					pk = append(pk, packet(ptCloseChannel, nil))
				case 1:
					pk = append(pk, packet(ptHandshake, handshakeBody(1, 0, 0, 2)))
				}
				runTunnel(srv.inst, tunnelScript{transport: []string{"ws", "legacy"}[i%2], id: fmt.Sprintf("{c10-td-%d-%d-%d}", env.seed, round, i), packets: pk, end: "close"})
			}(i)
		}
		wg.Wait()
		for _, b := range backends {
			b.close()
		}
	}
	obs := "alive"
	if c, err := openTunnel(srv.inst, tunnelScript{transport: "ws", id: fmt.Sprintf("{c10-td-probe-%d}", env.seed)}); err != nil {
		obs = "no-upgrade"
	} else {
		obs = handshakeAnswered(c)
		c.close()
	}
	if srv.panics() > 0 {
		obs = "PANIC"
	}
	env.emit("alive", fmt.Sprintf("teardown-while-host-is-sending:%d-rounds", rounds), obs)
}

func streamC10(env *runEnv) {
	r := rand.New(rand.NewSource(env.seed))
	c10Headers(env, r)
	c10Fragments(env, r)
	c10Utf16(env, r)
	c10AuthPayload(env, r)
	c10NtlmParse(env, r)
	c10Buffers(env)
	c10Orderings(env)
	c10HostileHeaders(env)
	c10VerifierConcurrent(env)
	c10Teardown(env, r)
	c10Binary(env, r)
}
