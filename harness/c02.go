package main

import (
	"context"
	"crypto/hmac"
	"crypto/sha256"
	"encoding/base64"
	"encoding/json"
	"fmt"
	"math/rand"
	"strconv"
	"strings"
	"sync"
	"time"

	"github.com/bolkedebruin/rdpgw/cmd/rdpgw/identity"
	"github.com/bolkedebruin/rdpgw/cmd/rdpgw/protocol"
	"github.com/bolkedebruin/rdpgw/cmd/rdpgw/security"
	"github.com/coreos/go-oidc/v3/oidc"
	"github.com/go-jose/go-jose/v4"
	"github.com/go-jose/go-jose/v4/jwt"
	"golang.org/x/oauth2"
)

func init() {
	streams["c02"] = streamC02
	replayers["paa"] = func(env *runEnv, e *l1env, f []string) {
		idp := getIdP()
		parts := strings.SplitN(f[1], ":", 2)
		kind := parts[0]
		sub := ""
		if len(parts) > 1 {
			sub = string(unhx(parts[1]))
		}
		// the recorded access token is the last component of the term
		tok := string(unhx(f[3]))
		if at := termAccessToken(f[2]); at != "" {
			idp.setToken(at, atBehaviour{kind: kind, sub: sub})
		}
		emitPaa(env, idp, tok, f[1], func(now int64) string { return abstractPaa(tok) })
	}
}

var signingKey = []byte("SIGNINGKEYSIGNINGKEYSIGNINGKEY32")
var otherKey = []byte("OTHERKEY-OTHERKEY-OTHERKEY-32byt")

var idpOnce sync.Once
var theIdP *fakeIdP

func getIdP() *fakeIdP {
	idpOnce.Do(func() {
		theIdP = newFakeIdP()
		p, err := oidc.NewProvider(context.Background(), theIdP.srv.URL)
		if err != nil {
			panic(err)
		}
		security.OIDCProvider = p
		security.Oauth2Config = oauth2.Config{ClientID: theIdP.clientID, ClientSecret: "s", Endpoint: p.Endpoint(), RedirectURL: "http://127.0.0.1/callback"}
		security.SigningKey = signingKey
	})
	return theIdP
}

type paaClaims struct {
	Iss  *string `json:"iss,omitempty"`
	Sub  string  `json:"sub,omitempty"`
	Exp  *int64  `json:"exp,omitempty"`
	Nbf  *int64  `json:"nbf,omitempty"`
	Iat  *int64  `json:"iat,omitempty"`
	Host string  `json:"remoteServer"`
	IP   string  `json:"clientIp"`
	AT   string  `json:"accessToken"`
}

func optS(p *int64) string {
	if p == nil {
		return "-"
	}
	return strconv.FormatInt(*p, 10)
}

// term renders the symbolic term of a compact JWS.
func (c paaClaims) term(alg, key string) string {
	iss := ""
	if c.Iss != nil {
		iss = *c.Iss
	}
	return strings.Join([]string{"C", alg, key, hx([]byte(iss)), optS(c.Exp), optS(c.Nbf), optS(c.Iat), hx([]byte(c.Host)), hx([]byte(c.IP)), hx([]byte(c.AT))}, ":")
}

func termAccessToken(term string) string {
	p := strings.Split(term, ":")
	if len(p) == 10 && p[0] == "C" {
		return string(unhx(p[9]))
	}
	return ""
}

func b64(b []byte) string { return base64.RawURLEncoding.EncodeToString(b) }

// compactHS builds a compact JWS by hand (independent of go-jose).
func compactHS(header string, payload []byte, key []byte, alg string) string {
	in := b64([]byte(header)) + "." + b64(payload)
	var mac []byte
	switch alg {
	case "HS256":
		m := hmac.New(sha256.New, key)
		m.Write([]byte(in))
		mac = m.Sum(nil)
	}
	return in + "." + b64(mac)
}

// abstractPaa maps a concrete string to its symbolic term with an independent
// decoder: three base64url segments, header alg HS256, HMAC-SHA256 over the
// ASCII signing input recomputed with crypto/hmac, claims JSON.
func abstractPaa(tok string) string {
	if tok == "" {
		return "E"
	}
	seg := strings.Split(tok, ".")
	if len(seg) != 3 {
		return "U"
	}
	hb, e1 := base64.RawURLEncoding.DecodeString(seg[0])
	pb, e2 := base64.RawURLEncoding.DecodeString(seg[1])
	sb, e3 := base64.RawURLEncoding.DecodeString(seg[2])
	if e1 != nil || e2 != nil || e3 != nil {
		return "U"
	}
	var hdr map[string]interface{}
	if json.Unmarshal(hb, &hdr) != nil {
		return "U"
	}
	alg, _ := hdr["alg"].(string)
	var c paaClaims
	if json.Unmarshal(pb, &c) != nil {
		return "U"
	}
	if alg != "HS256" {
		return c.term("other", "O")
	}
	for _, k := range []struct {
		name string
		key  []byte
	}{{"S", signingKey}, {"O", otherKey}} {
		m := hmac.New(sha256.New, k.key)
		// go-jose verifies the MAC over the re-encoded decoded segments, so the unused trailing
		// bits of a segment's last base64 character do not take part (same term, same verdict)
		m.Write([]byte(base64.RawURLEncoding.EncodeToString(hb) + "." + base64.RawURLEncoding.EncodeToString(pb)))
		if hmac.Equal(m.Sum(nil), sb) {
			return c.term("HS256", k.name)
		}
	}
	return c.term("HS256", "X") // MAC verifies under no known key
}

func emitPaa(env *runEnv, idp *fakeIdP, tok string, idpSpec string, term func(now int64) string) {
	id := identity.NewUser()
	id.SetAttribute(identity.AttrClientIp, "198.51.100.9")
	tun := protocol.VerifNewTunnel(nil, nil, id, "198.51.100.9:1")
	ctx := context.WithValue(context.Background(), protocol.CtxTunnel, tun)
	ctx = context.WithValue(ctx, identity.CTXKey, identity.Identity(id))
	before := idp.hits()
	now := time.Now().Unix()
	var ok bool
	panicked := false
	func() {
		defer func() {
			if r := recover(); r != nil {
				panicked = true
			}
		}()
		ok, _ = security.CheckPAACookie(ctx, tok)
	}()
	q := b01(idp.hits() > before)
	obs := "rej:" + q
	if panicked {
		obs = "PANIC"
	} else if ok {
		obs = "acc:" + hx([]byte(tun.TargetServer)) + ":" + hx([]byte(tun.RemoteAddr)) + ":" + hx([]byte(tun.User.UserName())) + ":" + q
	}
	env.emit("paa", strconv.FormatInt(now, 10), idpSpec, term(now), hx([]byte(tok)), obs)
}

func streamC02(env *runEnv) {
	r := rand.New(rand.NewSource(env.seed))
	idp := getIdP()
	now := time.Now().Unix()
	i64 := func(v int64) *int64 { return &v }
	str := func(s string) *string { return &s }
	atN := 0
	newAT := func(kind string) (string, string) {
		atN++
		at := fmt.Sprintf("at-%d-%d", env.seed, atN)
		sub := "user" + strconv.Itoa(atN%7)
		idp.setToken(at, atBehaviour{kind: kind, sub: sub})
		if kind == "valid" {
			return at, "valid:" + hx([]byte(sub))
		}
		return at, kind
	}
	base := func(at string) paaClaims {
		return paaClaims{Iss: str("rdpgw"), Sub: "alice", Exp: i64(now + 300), Host: "10.1.2.3:3389", IP: "198.51.100.9", AT: at}
	}
	signWith := func(alg jose.SignatureAlgorithm, key interface{}, c paaClaims) string {
		sig, err := jose.NewSigner(jose.SigningKey{Algorithm: alg, Key: key}, nil)
		if err != nil {
			panic(err)
		}
		s, err := jwt.Signed(sig).Claims(c).Serialize()
		if err != nil {
			panic(err)
		}
		return s
	}
	idpKinds := []string{"valid", "unknown", "revoked", "err500", "drop"}

	// (a) the token family x IdP behaviour
	for _, k := range idpKinds {
		type variant struct {
			name string
			mk   func(c *paaClaims)
		}
		vs := []variant{
			{"valid", func(c *paaClaims) {}},
			{"iss-other", func(c *paaClaims) { c.Iss = str("rdpgw2") }},
			{"iss-missing", func(c *paaClaims) { c.Iss = nil }},
			{"iss-case", func(c *paaClaims) { c.Iss = str("RDPGW") }},
			{"exp-missing", func(c *paaClaims) { c.Exp = nil }},
			{"exp-3600", func(c *paaClaims) { c.Exp = i64(now - 3600) }},
			{"exp-63", func(c *paaClaims) { c.Exp = i64(now - 63) }},
			{"exp-57", func(c *paaClaims) { c.Exp = i64(now - 57) }},
			{"exp+1", func(c *paaClaims) { c.Exp = i64(now + 1) }},
			{"exp+3600", func(c *paaClaims) { c.Exp = i64(now + 3600) }},
			{"nbf-future", func(c *paaClaims) { c.Nbf = i64(now + 3600) }},
			{"nbf+57", func(c *paaClaims) { c.Nbf = i64(now + 57) }},
			{"nbf-past", func(c *paaClaims) { c.Nbf = i64(now - 10) }},
			{"iat-future", func(c *paaClaims) { c.Iat = i64(now + 3600) }},
			{"iat-past", func(c *paaClaims) { c.Iat = i64(now - 10) }},
			{"host-other", func(c *paaClaims) { c.Host = "evil:1" }},
			{"at-empty", func(c *paaClaims) { c.AT = "" }},
			{"at-other", func(c *paaClaims) { c.AT = c.AT + "x" }},
		}
		for _, v := range vs {
			at, spec := newAT(k)
			c := base(at)
			v.mk(&c)
			tok := signWith(jose.HS256, signingKey, c)
			env.count("c02.family." + v.name)
			if strings.HasPrefix(v.name, "at-") {
				spec = "unknown" // the provider never issued that access token
			}
			emitPaa(env, idp, tok, spec, func(int64) string { return c.term("HS256", "S") })
		}
		// other key, other algorithms
		at, spec := newAT(k)
		c := base(at)
		emitPaa(env, idp, signWith(jose.HS256, otherKey, c), spec, func(int64) string { return c.term("HS256", "O") })
		emitPaa(env, idp, signWith(jose.HS384, append(append([]byte{}, signingKey...), signingKey...), c), spec, func(int64) string { return c.term("other", "O") })
		emitPaa(env, idp, signWith(jose.HS512, append(append(append([]byte{}, signingKey...), signingKey...), append(signingKey, signingKey...)...), c), spec, func(int64) string { return c.term("other", "O") })
		k1, _ := rsaKeys()
		emitPaa(env, idp, signWith(jose.RS256, k1, c), spec, func(int64) string { return c.term("other", "O") })
		pj, _ := json.Marshal(c)
		emitPaa(env, idp, b64([]byte(`{"alg":"none"}`))+"."+b64(pj)+".", spec, func(int64) string { return c.term("other", "O") })
		emitPaa(env, idp, b64([]byte(`{"alg":"none","typ":"JWT"}`))+"."+b64(pj)+"."+b64([]byte("x")), spec, func(int64) string { return c.term("other", "O") })
		// HS256 header but MAC computed with HS384-sized key of the same bytes is just another key
		// handcrafted valid token (independent of go-jose's serializer)
		emitPaa(env, idp, compactHS(`{"alg":"HS256"}`, pj, signingKey, "HS256"), spec, func(int64) string { return c.term("HS256", "S") })
		emitPaa(env, idp, compactHS(`{"alg":"HS256","typ":"JWT"}`, pj, otherKey, "HS256"), spec, func(int64) string { return c.term("HS256", "O") })
		// JSON serialisations and nesting
		sig, _ := jose.NewSigner(jose.SigningKey{Algorithm: jose.HS256, Key: signingKey}, nil)
		obj, _ := sig.Sign(pj)
		emitPaa(env, idp, obj.FullSerialize(), spec, func(int64) string { return "U" })
		inner := signWith(jose.HS256, signingKey, c)
		obj2, _ := sig.Sign([]byte(inner))
		nested, _ := obj2.CompactSerialize()
		emitPaa(env, idp, nested, spec, func(int64) string { return "U" })
	}
	// (b) minted by the gateway itself, presented back
	nm := 20
	if env.thorough() {
		nm = 200
	}
	for i := 0; i < nm; i++ {
		at, spec := newAT(pick(r, []string{"valid", "valid", "valid", "revoked"}))
		id := identity.NewUser()
		ip := pick(r, []string{"198.51.100.9", "2001:db8::7", ""})
		id.SetAttribute(identity.AttrClientIp, ip)
		id.SetAttribute(identity.AttrAccessToken, at)
		ctx := context.WithValue(context.Background(), identity.CTXKey, identity.Identity(id))
		host := pick(r, []string{"10.0.0.5:3389", "[::1]:3389", "h"})
		user := pick(r, []string{"alice", "bob@example.com", ""})
		t0 := time.Now().Unix()
		tok, err := security.GeneratePAAToken(ctx, user, host)
		t1 := time.Now().Unix()
		if err != nil {
			env.emit("paa", "0", spec, "MINT-FAILED", "-", "MINT-FAILED:"+err.Error())
			continue
		}
		// the independent decoder recovers the claims; the minted expiry must be issue time + 300
		term := abstractPaa(tok)
		p := strings.Split(term, ":")
		exp, _ := strconv.ParseInt(p[4], 10, 64)
		env.count("c02.minted")
		if exp < t0+300 || exp > t1+300 {
			env.emit("paa", strconv.FormatInt(t0, 10), spec, term, hx([]byte(tok)), fmt.Sprintf("MINT-EXPIRY:%d", exp-t0))
			continue
		}
		emitPaa(env, idp, tok, spec, func(int64) string { return term })
	}
	// (b2) histories: the same cookie (and a freshly signed one carrying the same access token)
	// presented again after the provider stopped honouring the access token, and again after it
	// resumed; acceptance must follow the provider's answer at the time of presentation
	nh := 6
	if env.thorough() {
		nh = 60
	}
	for i := 0; i < nh; i++ {
		at, _ := newAT("valid")
		sub := "user" + strconv.Itoa(atN%7)
		c1 := base(at)
		t1 := signWith(jose.HS256, signingKey, c1)
		c2 := base(at)
		c2.Host = "10.9.9.9:3389"
		t2 := signWith(jose.HS256, signingKey, c2)
		for _, phase := range []string{"valid", pick(r, []string{"revoked", "err500", "drop", "unknown"}), "valid", "revoked"} {
			idp.setToken(at, atBehaviour{kind: phase, sub: sub})
			spec := phase
			if phase == "valid" {
				spec = "valid:" + hx([]byte(sub))
			}
			env.count("c02.history." + phase)
			emitPaa(env, idp, t1, spec, func(int64) string { return c1.term("HS256", "S") })
			emitPaa(env, idp, t2, spec, func(int64) string { return c2.term("HS256", "S") })
		}
	}
	// (b3) thorough: a cookie that expires while the gateway is running is refused afterwards
	// (the comparison time is the time of presentation, not an earlier one)
	if env.thorough() {
		at, spec := newAT("valid")
		c := base(at)
		c.Exp = i64(time.Now().Unix() + 2)
		tok := signWith(jose.HS256, signingKey, c)
		emitPaa(env, idp, tok, spec, func(int64) string { return c.term("HS256", "S") })
		time.Sleep(66 * time.Second)
		env.count("c02.expired-while-running")
		emitPaa(env, idp, tok, spec, func(int64) string { return c.term("HS256", "S") })
	}
	// (c) every single-character substitution, truncation and segment swap of a valid token
	at, spec := newAT("valid")
	c := base(at)
	valid := signWith(jose.HS256, signingKey, c)
	alts := []byte("Aa0_-Q")
	step := 3
	if env.thorough() {
		step = 1
	}
	for i := 0; i < len(valid); i += step {
		for _, a := range alts[:2+r.Intn(3)] {
			if valid[i] == a || valid[i] == '.' {
				continue
			}
			m := valid[:i] + string(a) + valid[i+1:]
			env.count("c02.mutation.subst")
			emitPaa(env, idp, m, spec, func(int64) string { return abstractPaa(m) })
		}
		// single bit flips
		for b := 0; b < 7; b += 3 {
			ch := valid[i] ^ byte(1<<uint(b))
			if valid[i] == '.' || ch == '.' {
				continue
			}
			m := valid[:i] + string(ch) + valid[i+1:]
			env.count("c02.mutation.bitflip")
			emitPaa(env, idp, m, spec, func(int64) string { return abstractPaa(m) })
		}
	}
	for i := 0; i < len(valid); i += 5 * step {
		m := valid[:i]
		env.count("c02.mutation.truncate")
		emitPaa(env, idp, m, spec, func(int64) string { return abstractPaa(m) })
	}
	seg := strings.Split(valid, ".")
	for _, m := range []string{seg[1] + "." + seg[0] + "." + seg[2], seg[0] + "." + seg[2] + "." + seg[1], seg[0] + "." + seg[1], seg[0] + ".." + seg[2], valid + ".", "." + valid, valid + " ", " " + valid, valid + "\n"} {
		env.count("c02.mutation.segments")
		emitPaa(env, idp, m, spec, func(int64) string { return abstractPaa(m) })
	}
	// (d) noise
	nn := 1500
	if env.thorough() {
		nn = 60000
	}
	emitPaa(env, idp, "", "unknown", func(int64) string { return "E" })
	for _, s := range []string{" ", "\t", "..", ".", "a.b.c", "e30.e30.", "e30.e30.e30"} {
		emitPaa(env, idp, s, "unknown", func(int64) string { return abstractPaa(s) })
	}
	for i := 0; i < nn; i++ {
		var s string
		if i%2 == 0 {
			s = string(randBytes(r, r.Intn(60)))
		} else {
			s = b64(randBytes(r, r.Intn(30))) + "." + b64(randBytes(r, r.Intn(40))) + "." + b64(randBytes(r, r.Intn(34)))
		}
		env.count("c02.noise")
		emitPaa(env, idp, s, "unknown", func(int64) string { return abstractPaa(s) })
	}
}

// jwtSub reads the sub claim of a compact JWS payload (no verification).
func jwtSub(tok string) string {
	seg := strings.Split(tok, ".")
	if len(seg) != 3 {
		return ""
	}
	pb, err := base64.RawURLEncoding.DecodeString(seg[1])
	if err != nil {
		return ""
	}
	var c paaClaims
	if json.Unmarshal(pb, &c) != nil {
		return ""
	}
	return c.Sub
}

// c02proc: the cookie decision as the packet loop applies it — whatever the
// handshake negotiated, a tunnel-create under token authentication is answered
// according to the cookie check (process kind: compared with the processor model
// and judged by the order monitor).
func init() { streams["c02proc"] = streamC02Proc }

func streamC02Proc(env *runEnv) {
	e := newL1Env(1)
	for _, cfg := range []procCfg{
		{token: true, cookieCb: true, hostCb: true},
		{token: true, smartcard: true, cookieCb: true, hostCb: true},
		{token: true, smartcard: true, cookieCb: true, nameCb: true, hostCb: true},
	} {
		for _, ext := range []int{0, 1, 2, 3, 4, 7} {
			for _, withCookie := range []bool{true, false} {
				for _, cookieOK := range []bool{true, false} {
					ans := [4]bool{cookieOK, true, true, true}
					// the cookie as it travels in the packet: plain, with the terminator clients append, and with
					// bytes after an embedded terminator (all of it is the cookie the verifier must see)
					cookie := []string{"cookie", "cookie\x00", "cookie\x00tail", "cookie\x00\x00"}[(ext+len(cfg.bits()))%4]
					if cookieOK {
						cookie = []string{"cookie", "cookie\x00tail"}[ext%2]
					}
					if ext == 4 || ext == 7 {
						// code units whose low byte spells an ASCII cookie and whose high byte does not: another string
						cookie = []string{"c\u016fokie", "\u0463\u046f\u046f\u046b\u0469\u0465", "cook\u7f69e", "coo\u016bie\x00"}[(ext/4+len(cfg.bits())+b2i(withCookie)+2*b2i(cookieOK))%4]
					}
					items := []item{
						{data: packet(ptHandshake, handshakeBody(1, 0, 0, ext)), ans: ans},
						{data: packet(ptTunnelCreate, tunnelCreateBody(0, cookie, withCookie)), ans: ans},
						{data: packet(ptTunnelAuth, tunnelAuthBody("pc")), ans: ans},
						{data: packet(ptChannelCreate, channelCreateBody("127.0.0.1", e.pool[0].port)), ans: ans},
						{eof: true},
					}
					res := e.runProcess(cfg, items)
					env.count(fmt.Sprintf("c02proc.ext%d", ext))
					env.emit("process16", cfg.bits(), redirBits(cfg.redir), strconv.Itoa(cfg.idle), e.live(), itemsString(items), res.obs)
					for _, b := range e.pool {
						b.reset()
					}
				}
			}
		}
	}
}

func b2i(b bool) int {
	if b {
		return 1
	}
	return 0
}
