package main

import (
	"encoding/base64"
	"fmt"
	"math/rand"
	"os"
	"path/filepath"
	"strconv"
	"strings"
	"time"

	authconfig "github.com/bolkedebruin/rdpgw/cmd/auth/config"
	"github.com/bolkedebruin/rdpgw/cmd/auth/database"
	authntlm "github.com/bolkedebruin/rdpgw/cmd/auth/ntlm"
	"github.com/bolkedebruin/rdpgw/shared/auth"
	"github.com/m7913d/go-ntlm/ntlm"
)

func init() { streams["c14"] = streamC14 }

// session identifiers as the gateway forms them (the TCP peer of the client's connection):
// A and B are two connections from one address, C comes from another address
const (
	sessA = "192.0.2.7:50001"
	sessB = "192.0.2.7:50002"
	sessC = "192.0.2.8:50001"
)

// symbolic NTLM operation
type nop struct {
	sess           string
	kind           string // neg | negbad | auth | authas | authbad | b64bad | garbage | empty
	keyUser, keyPw string // authas: the response is computed with (keyUser, keyPw), the message names [user]
	user           string
	pw             string
	from           int // index (1-based) of the negotiate step whose challenge is answered
	wait           int // seconds to wait before the step (expiry runs)
}

func (o nop) String() string {
	switch o.kind {
	case "auth":
		return fmt.Sprintf("%d|%s|auth:%s:%s:%d", o.wait, hx([]byte(o.sess)), hx([]byte(o.user)), hx([]byte(o.pw)), o.from)
	case "authbad":
		return fmt.Sprintf("%d|%s|authbad:%s", o.wait, hx([]byte(o.sess)), hx([]byte(o.user)))
	case "authas":
		return fmt.Sprintf("%d|%s|authas:%s:%s:%s:%d", o.wait, hx([]byte(o.sess)), hx([]byte(o.user)), hx([]byte(o.keyUser)), hx([]byte(o.keyPw)), o.from)
	}
	return fmt.Sprintf("%d|%s|%s", o.wait, hx([]byte(o.sess)), o.kind)
}

// runNtlmHistory drives the real NTLMAuth.Authenticate with messages produced by
// go-ntlm's own client session.
func runNtlmHistory(db []authconfig.UserConfig, ops []nop) string {
	srv := authntlm.NewNTLMAuth(database.NewConfig(db))
	challenges := map[int][]byte{} // step index -> challenge message bytes
	var outs []string
	for i, o := range ops {
		if o.wait > 0 {
			time.Sleep(time.Duration(o.wait) * time.Second)
		}
		var msg string
		switch o.kind {
		case "neg":
			c := ntlm.V2ClientSession{}
			c.SetUserInfo("x", "y", "")
			n, _ := c.GenerateNegotiateMessage()
			msg = base64.StdEncoding.EncodeToString(n.Bytes())
		case "negbad":
			// signature + message type 1, truncated
			msg = base64.StdEncoding.EncodeToString(append([]byte("NTLMSSP\x00\x01\x00\x00\x00"), 0x07, 0x82, 0x08, 0xa2, 1, 2, 3))
		case "authas":
			ch, ok := challenges[o.from]
			if !ok {
				ch = selfChallenge()
			}
			c := ntlm.V2ClientSession{}
			c.SetUserInfo(o.keyUser, o.keyPw, "")
			cm, _ := ntlm.ParseChallengeMessage(ch)
			c.ProcessChallengeMessage(cm) // response keys are derived (and cached) from keyUser/keyPw
			c.SetUserInfo(o.user, "irrelevant", "")
			am, err := c.GenerateAuthenticateMessage()
			if err != nil {
				outs = append(outs, "HARNESS-ERROR")
				continue
			}
			msg = base64.StdEncoding.EncodeToString(am.Bytes())
		case "auth", "authbad":
			ch, ok := challenges[o.from]
			if !ok {
				// no such challenge was ever issued: answer a self-made one
				ch = selfChallenge()
			}
			c := ntlm.V2ClientSession{}
			// the domain a client names is part of its response key; the verifier must follow it (a client that
			// knows the password is authenticated whatever domain it sends)
			c.SetUserInfo(o.user, o.pw, []string{"", "CORP", "WORKGROUP"}[(i+len(o.user))%3])
			cm, err := ntlm.ParseChallengeMessage(ch)
			if err != nil {
				outs = append(outs, "HARNESS-ERROR")
				continue
			}
			c.ProcessChallengeMessage(cm)
			am, err := c.GenerateAuthenticateMessage()
			if err != nil {
				outs = append(outs, "HARNESS-ERROR")
				continue
			}
			b := am.Bytes()
			if o.kind == "authbad" {
				// corrupt the NT response payload (last bytes of the message hold payloads)
				off := int(b[24]) | int(b[25])<<8 | int(b[26])<<16 | int(b[27])<<24 // NtChallengeResponseFields.BufferOffset
				if off+8 < len(b) {
					for k := 0; k < 8; k++ {
						b[off+k] ^= 0x5a
					}
				}
			}
			msg = base64.StdEncoding.EncodeToString(b)
		case "b64bad":
			msg = "!!!not-base64!!!"
		case "garbage":
			msg = base64.StdEncoding.EncodeToString([]byte("NTLMSSP\x00\x09\x00\x00\x00garbagegarbagegarbagegarbagegarbagegarbagegarbagegarbagegarbagegarbage"))
		case "empty":
			msg = ""
		}
		var res *auth.NtlmResponse
		var err error
		panicked := false
		func() {
			defer func() {
				if r := recover(); r != nil {
					panicked = true
				}
			}()
			res, err = srv.Authenticate(&auth.NtlmRequest{Session: o.sess, NtlmMessage: msg})
		}()
		switch {
		case panicked:
			outs = append(outs, "PANIC")
		case err != nil:
			if res != nil && res.Authenticated {
				outs = append(outs, "err+auth")
			} else {
				outs = append(outs, "err")
			}
		case res.Authenticated:
			outs = append(outs, "ok:"+hx([]byte(res.Username)))
		case res.NtlmMessage != "":
			b, e := base64.StdEncoding.DecodeString(res.NtlmMessage)
			if e != nil {
				outs = append(outs, "chal-undecodable")
			} else {
				challenges[i+1] = b
				outs = append(outs, "chal")
			}
		default:
			outs = append(outs, "no")
		}
	}
	return strings.Join(outs, ",")
}

func selfChallenge() []byte {
	s, _ := ntlm.CreateServerSession(ntlm.Version2, ntlm.ConnectionOrientedMode)
	s.SetRequireNtHash(true)
	c := ntlm.V2ClientSession{}
	c.SetUserInfo("x", "y", "")
	n, _ := c.GenerateNegotiateMessage()
	s.ProcessNegotiateMessage(n)
	cm, _ := s.GenerateChallengeMessage()
	return cm.Bytes()
}

func streamC14(env *runEnv) {
	r := rand.New(rand.NewSource(env.seed))
	type job struct {
		db   []authconfig.UserConfig
		ops  []nop
		spec []authconfig.UserConfig // the database the configuration file describes, when db was read from one
	}
	var jobs []job
	dbs := [][]authconfig.UserConfig{
		{{Username: "alice", Password: "wonderland"}},
		{{Username: "alice", Password: "wonderland"}, {Username: "bob", Password: ""}, {Username: "carol", Password: "pässwörd"}},
		{},
		// configured passwords are literal strings: '$' and '%' mean nothing
		{{Username: "alice", Password: "wonderland"}, {Username: "dave", Password: "pa$$w0rd$HOME"}, {Username: "erin", Password: "$HOME"}, {Username: "frank", Password: "${USER}%PATH%"}},
	}
	dbSpec := func(db []authconfig.UserConfig) string {
		var p []string
		for _, u := range db {
			p = append(p, hx([]byte(u.Username))+"="+hx([]byte(u.Password)))
		}
		if len(p) == 0 {
			return "-"
		}
		return strings.Join(p, ";")
	}
	users := []string{"alice", "bob", "carol", "mallory", "ALICE", ""}
	pws := []string{"wonderland", "wrong", "", "pässwörd"}
	sessions := []string{sessA, sessB, sessC, ""}
	mkop := func(hist []nop) nop {
		sess := sessions[r.Intn(len(sessions)-1)]
		if r.Intn(25) == 0 {
			sess = ""
		}
		var negs []int
		for i, o := range hist {
			if o.kind == "neg" && o.sess != "" {
				negs = append(negs, i+1)
			}
		}
		switch r.Intn(10) {
		case 0, 1, 2:
			return nop{sess: sess, kind: "neg"}
		case 3, 4, 5, 6:
			o := nop{sess: sess, kind: "auth", user: users[r.Intn(len(users))], pw: pws[r.Intn(len(pws))]}
			if len(negs) > 0 && r.Intn(6) != 0 {
				o.from = negs[r.Intn(len(negs))]
				// prefer the latest negotiate of this very session (the honest client)
				if r.Intn(3) != 0 {
					for i := len(hist) - 1; i >= 0; i-- {
						if hist[i].kind == "neg" && hist[i].sess == sess {
							o.from = i + 1
							break
						}
					}
				}
			}
			if r.Intn(2) == 0 {
				o.user, o.pw = "alice", "wonderland"
			}
			return o
		case 7:
			return nop{sess: sess, kind: "authbad", user: "alice", pw: "wonderland", from: func() int {
				if len(negs) > 0 {
					return negs[len(negs)-1]
				}
				return 0
			}()}
		case 8:
			return nop{sess: sess, kind: pick(r, []string{"b64bad", "garbage", "empty", "negbad"})}
		case 9:
			o := nop{sess: sess, kind: "authas", user: pick(r, []string{"alice", "carol"}), keyUser: pick(r, []string{"carol", "alice", "mallory"}), keyPw: pick(r, []string{"pässwörd", "wonderland", "x"})}
			if len(negs) > 0 {
				o.from = negs[len(negs)-1]
				for i := len(hist) - 1; i >= 0; i-- {
					if hist[i].kind == "neg" && hist[i].sess == sess {
						o.from = i + 1
						break
					}
				}
			}
			return o
		}
		return nop{sess: sess, kind: "neg"}
	}
	// (a) all histories of length <= 3 over a small alphabet, one session pair
	small := []nop{
		{sess: sessA, kind: "neg"}, {sess: sessB, kind: "neg"},
		{sess: sessA, kind: "auth", user: "alice", pw: "wonderland", from: -1}, // -1: latest negotiate of the session
		{sess: sessB, kind: "auth", user: "alice", pw: "wonderland", from: -2}, // -2: latest negotiate of the OTHER session
		{sess: sessA, kind: "auth", user: "alice", pw: "wrong", from: -1},
		{sess: sessA, kind: "auth", user: "bob", pw: "", from: -1},
		{sess: sessA, kind: "garbage"},
		{sess: sessA, kind: "auth", user: "carol", pw: "wrong", from: -1},
		{sess: sessA, kind: "authas", user: "alice", keyUser: "carol", keyPw: "pässwörd", from: -1},
	}
	maxLen := 3
	if env.thorough() {
		maxLen = 4
	}
	var rec func(cur []nop)
	rec = func(cur []nop) {
		if len(cur) > 0 {
			ops := make([]nop, len(cur))
			copy(ops, cur)
			for i := range ops {
				if ops[i].from < 0 {
					want := ops[i].sess
					if ops[i].from == -2 {
						want = map[string]string{sessA: sessB, sessB: sessA}[want]
					}
					ops[i].from = 0
					for j := i - 1; j >= 0; j-- {
						if ops[j].kind == "neg" && ops[j].sess == want {
							ops[i].from = j + 1
							break
						}
					}
				}
			}
			jobs = append(jobs, job{db: dbs[1], ops: ops})
		}
		if len(cur) == maxLen {
			return
		}
		for _, o := range small {
			rec(append(cur, o))
		}
	}
	rec(nil)
	// (a2) literal passwords with shell metacharacters, and what an expansion would make of them
	for _, up := range [][2]string{{"dave", "pa$$w0rd$HOME"}, {"dave", "paw0rd"}, {"dave", "pa$$w0rd" + os.Getenv("HOME")}, {"erin", "$HOME"}, {"erin", os.Getenv("HOME")}, {"erin", ""},
		{"frank", "${USER}%PATH%"}, {"frank", os.Getenv("USER") + "%PATH%"}, {"frank", "%PATH%"}} {
		jobs = append(jobs, job{db: dbs[3], ops: []nop{{sess: sessA, kind: "neg"}, {sess: sessA, kind: "auth", user: up[0], pw: up[1], from: 1}}})
	}
	// (a4) the user database as the service reads it from its configuration file: unquoted scalars that
	// look like numbers are user names and passwords like any other
	{
		want := []authconfig.UserConfig{{Username: "alice", Password: "wonderland"}, {Username: "bob", Password: "20241231"},
			{Username: "4711", Password: "s3cret"}, {Username: "quoted", Password: "00123"}}
		f := filepath.Join(env.workdir, "c14-users.yaml")
		os.MkdirAll(env.workdir, 0o700)
		os.WriteFile(f, []byte("Users:\n - Username: alice\n   Password: wonderland\n - Username: bob\n   Password: 20241231\n"+
			" - Username: 4711\n   Password: s3cret\n - Username: \"quoted\"\n   Password: \"00123\"\n"), 0o600)
		loaded := authconfig.Load(f).Users
		for _, u := range want {
			for _, pw := range []string{u.Password, "wrong", ""} {
				jobs = append(jobs, job{db: loaded, spec: want, ops: []nop{{sess: sessA, kind: "neg"}, {sess: sessA, kind: "auth", user: u.Username, pw: pw, from: 1}}})
			}
		}
		jobs = append(jobs, job{db: loaded, spec: want, ops: []nop{{sess: sessA, kind: "neg"}, {sess: sessA, kind: "auth", user: "", pw: "s3cret", from: 1}}})
	}
	// (a5) many other clients have started an exchange and not finished it; a client with the configured
	// password on a fresh session is served all the same
	for _, others := range []int{100, 300} {
		var ops []nop
		for k := 0; k < others; k++ {
			ops = append(ops, nop{sess: fmt.Sprintf("198.51.100.%d:%d", k%250, 40000+k), kind: "neg"})
		}
		ops = append(ops, nop{sess: sessC, kind: "neg"}, nop{sess: sessC, kind: "auth", user: "alice", pw: "wonderland", from: len(ops) + 1})
		jobs = append(jobs, job{db: dbs[1], ops: ops})
	}
	// (a3) many rejected proofs for a user, from several sessions, then the configured password in a fresh session
	for _, fails := range []int{4, 5, 6, 12} {
		var ops []nop
		for k := 0; k < fails; k++ {
			sess := []string{sessA, sessB}[k%2]
			ops = append(ops, nop{sess: sess, kind: "neg"}, nop{sess: sess, kind: "auth", user: "alice", pw: "wrong", from: len(ops) + 1})
		}
		ops = append(ops, nop{sess: sessC, kind: "neg"}, nop{sess: sessC, kind: "auth", user: "alice", pw: "wonderland", from: len(ops) + 1})
		ops = append(ops, nop{sess: sessA, kind: "neg"}, nop{sess: sessA, kind: "auth", user: "carol", pw: "pässwörd", from: len(ops) + 1})
		jobs = append(jobs, job{db: dbs[1], ops: ops})
	}
	// (b) random histories
	nh := 1500
	if env.thorough() {
		nh = 40000
	}
	for i := 0; i < nh; i++ {
		var ops []nop
		n := 1 + r.Intn(9)
		for k := 0; k < n; k++ {
			ops = append(ops, mkop(ops))
		}
		jobs = append(jobs, job{db: dbs[r.Intn(len(dbs))], ops: ops})
	}
	// (c) expiry of the cached context (real waits; thorough tier only)
	if env.thorough() {
		jobs = append(jobs, job{db: dbs[0], ops: []nop{{sess: sessA, kind: "neg"}, {sess: sessA, kind: "auth", user: "alice", pw: "wonderland", from: 1, wait: 62}}})
		jobs = append(jobs, job{db: dbs[0], ops: []nop{{sess: sessA, kind: "neg"}, {sess: sessA, kind: "auth", user: "alice", pw: "wonderland", from: 1, wait: 3}}})
	}
	parallel(jobs, func(e *l1env, j job) {
		var specs []string
		for _, o := range j.ops {
			specs = append(specs, o.String())
		}
		obs := runNtlmHistory(j.db, j.ops)
		env.count("c14.len." + strconv.Itoa(len(j.ops)))
		if strings.Contains(obs, "ok:") {
			env.count("c14.with-success")
		}
		spec := j.db
		if j.spec != nil {
			spec = j.spec
		}
		env.emit("ntlm", dbSpec(spec), strings.Join(specs, ","), obs)
	})
}

func init() {
	replayers["ntlm"] = func(env *runEnv, e *l1env, f []string) {
		var db []authconfig.UserConfig
		if f[0] != "-" {
			for _, p := range strings.Split(f[0], ";") {
				kv := strings.SplitN(p, "=", 2)
				db = append(db, authconfig.UserConfig{Username: string(unhx(kv[0])), Password: string(unhx(kv[1]))})
			}
		}
		var ops []nop
		for _, s := range strings.Split(f[1], ",") {
			p := strings.Split(s, "|")
			o := nop{sess: string(unhx(p[1]))}
			o.wait, _ = strconv.Atoi(p[0])
			m := strings.Split(p[2], ":")
			o.kind = m[0]
			if o.kind == "auth" {
				o.user, o.pw = string(unhx(m[1])), string(unhx(m[2]))
				o.from, _ = strconv.Atoi(m[3])
			} else if o.kind == "authas" {
				o.user, o.keyUser, o.keyPw = string(unhx(m[1])), string(unhx(m[2])), string(unhx(m[3]))
				o.from, _ = strconv.Atoi(m[4])
			} else if o.kind == "authbad" {
				o.user, o.pw = string(unhx(m[1])), "wonderland"
				// answers the latest negotiate before it
				for i := len(ops) - 1; i >= 0; i-- {
					if ops[i].kind == "neg" && ops[i].sess != "" {
						o.from = i + 1
						break
					}
				}
			}
			ops = append(ops, o)
		}
		env.emit("ntlm", f[0], f[1], runNtlmHistory(db, ops))
	}
}
