module verifharness

go 1.22

require (
	github.com/bolkedebruin/gokrb5/v8 v8.5.0
	github.com/bolkedebruin/rdpgw v0.0.0
	github.com/coreos/go-oidc/v3 v3.9.0
	github.com/go-jose/go-jose/v4 v4.0.5
	github.com/jcmturner/gofork v1.7.6
	github.com/m7913d/go-ntlm v0.0.1
	github.com/prometheus/client_golang v1.19.0
	golang.org/x/oauth2 v0.18.0
	google.golang.org/grpc v1.62.1
)

require (
	github.com/beorn7/perks v1.0.1 // indirect
	github.com/cespare/xxhash/v2 v2.2.0 // indirect
	github.com/fatih/structs v1.1.0 // indirect
	github.com/fsnotify/fsnotify v1.7.0 // indirect
	github.com/go-jose/go-jose/v3 v3.0.4 // indirect
	github.com/go-viper/mapstructure/v2 v2.0.0-alpha.1 // indirect
	github.com/golang/protobuf v1.5.4 // indirect
	github.com/google/uuid v1.6.0 // indirect
	github.com/gorilla/mux v1.8.1 // indirect
	github.com/gorilla/securecookie v1.1.2 // indirect
	github.com/gorilla/sessions v1.2.2 // indirect
	github.com/gorilla/websocket v1.5.1 // indirect
	github.com/hashicorp/go-uuid v1.0.3 // indirect
	github.com/jcmturner/aescts/v2 v2.0.0 // indirect
	github.com/jcmturner/dnsutils/v2 v2.0.0 // indirect
	github.com/jcmturner/goidentity/v6 v6.0.1 // indirect
	github.com/knadh/koanf/maps v0.1.1 // indirect
	github.com/knadh/koanf/parsers/yaml v0.1.0 // indirect
	github.com/knadh/koanf/providers/confmap v0.1.0 // indirect
	github.com/knadh/koanf/providers/file v0.1.0 // indirect
	github.com/knadh/koanf/v2 v2.1.0 // indirect
	github.com/mitchellh/copystructure v1.2.0 // indirect
	github.com/mitchellh/reflectwalk v1.0.2 // indirect
	github.com/patrickmn/go-cache v2.1.0+incompatible // indirect
	github.com/prometheus/client_model v0.6.0 // indirect
	github.com/prometheus/common v0.50.0 // indirect
	github.com/prometheus/procfs v0.13.0 // indirect
	golang.org/x/crypto v0.32.0 // indirect
	golang.org/x/net v0.23.0 // indirect
	golang.org/x/sys v0.29.0 // indirect
	golang.org/x/text v0.21.0 // indirect
	google.golang.org/genproto/googleapis/rpc v0.0.0-20240314234333-6e1732d8331c // indirect
	google.golang.org/protobuf v1.33.0 // indirect
	gopkg.in/yaml.v3 v3.0.1 // indirect
)

replace github.com/bolkedebruin/rdpgw => /repo
