module verifharness

go 1.22

require github.com/bolkedebruin/rdpgw v0.0.0

require (
	github.com/beorn7/perks v1.0.1 // indirect
	github.com/cespare/xxhash/v2 v2.2.0 // indirect
	github.com/google/uuid v1.6.0 // indirect
	github.com/gorilla/websocket v1.5.1 // indirect
	github.com/patrickmn/go-cache v2.1.0+incompatible // indirect
	github.com/prometheus/client_golang v1.19.0 // indirect
	github.com/prometheus/client_model v0.6.0 // indirect
	github.com/prometheus/common v0.50.0 // indirect
	github.com/prometheus/procfs v0.13.0 // indirect
	golang.org/x/net v0.23.0 // indirect
	golang.org/x/sys v0.29.0 // indirect
	google.golang.org/protobuf v1.33.0 // indirect
)

replace github.com/bolkedebruin/rdpgw => /repo
