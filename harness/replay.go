package main

import (
	"bufio"
	"encoding/hex"
	"os"
	"strconv"
	"strings"

	"github.com/bolkedebruin/rdpgw/cmd/rdpgw/protocol"
)

func unhx(s string) []byte {
	if s == "-" || s == "" {
		return nil
	}
	b, err := hex.DecodeString(s)
	if err != nil {
		panic(err)
	}
	return b
}

func parseItems(s string) []item {
	var items []item
	if s == "-" {
		return items
	}
	for _, t := range strings.Split(s, ",") {
		p := strings.Split(t, ":")
		if p[0] == "E" {
			items = append(items, item{eof: true})
			continue
		}
		it := item{data: unhx(p[1])}
		for i := 0; i < 4; i++ {
			it.ans[i] = p[2][i] == '1'
		}
		items = append(items, it)
	}
	return items
}

func parseCfg(bits, redir, idle string) procCfg {
	c := procCfg{token: bits[0] == '1', smartcard: bits[1] == '1', cookieCb: bits[2] == '1', nameCb: bits[3] == '1', hostCb: bits[4] == '1'}
	c.redir = protocol.RedirectFlags{Clipboard: redir[0] == '1', Port: redir[1] == '1', Drive: redir[2] == '1', Printer: redir[3] == '1', Pnp: redir[4] == '1', DisableAll: redir[5] == '1', EnableAll: redir[6] == '1'}
	c.idle, _ = strconv.Atoi(idle)
	return c
}

// replayers re-run one case of a kind from its input fields.
var replayers = map[string]func(env *runEnv, e *l1env, f []string){}

func init() {
	replayers["process"] = func(env *runEnv, e *l1env, f []string) {
		cfg := parseCfg(f[0], f[1], f[2])
		// the live set of the recorded run named that run's ports: translate
		// every recorded live address to a backend of this run
		items, live := retargetItems(e, f[3], f[4])
		res := e.runProcess(cfg, items)
		env.emit("process", f[0], f[1], f[2], live, itemsString(items), res.obs)
	}
	replayers["handshake"] = func(env *runEnv, e *l1env, f []string) {
		cfg := procCfg{smartcard: f[0] == "1", token: f[1] == "1"}
		res := e.runProcess(cfg, []item{{data: packet(ptHandshake, unhx(f[2]))}, {eof: true}})
		env.emit("handshake", f[0], f[1], f[2], res.obs)
	}
	replayers["matchauth"] = func(env *runEnv, e *l1env, f []string) {
		gw := &protocol.Gateway{SmartCardAuth: f[0] == "1", TokenAuth: f[1] == "1"}
		p := protocol.NewProcessor(gw, nil)
		c, _ := strconv.Atoi(f[2])
		caps, err := p.VerifMatchAuth(uint16(c))
		obs := "err"
		if err == nil {
			obs = "ok:" + strconv.Itoa(int(caps))
		}
		env.emit("matchauth", f[0], f[1], f[2], obs)
	}
}

func replayLines(env *runEnv) {
	f, err := os.Open(env.replay)
	if err != nil {
		panic(err)
	}
	defer f.Close()
	e := newL1Env(3)
	sc := bufio.NewScanner(f)
	sc.Buffer(make([]byte, 1<<20), 1<<28)
	for sc.Scan() {
		parts := strings.Split(sc.Text(), "\t")
		if len(parts) < 4 {
			continue
		}
		kind := parts[1]
		fields := parts[2 : len(parts)-1]
		if r, ok := replayers[kind]; ok {
			r(env, e, fields)
		} else {
			env.emit(kind, append(fields, "REPLAY-UNSUPPORTED")...)
		}
	}
}

// retargetItems rewrites, in the raw reads, the decimal port digits of the
// recorded backends (UTF-16LE in channel-create bodies carry the port as a
// binary field, so the port field bytes are replaced) by this run's ports.
func retargetItems(e *l1env, live string, itemsS string) ([]item, string) {
	items := parseItems(itemsS)
	if live == "-" {
		return items, e.live()
	}
	old := strings.Split(live, ",")
	for i, o := range old {
		if i >= len(e.pool) {
			break
		}
		addr := string(unhx(o))
		k := strings.LastIndex(addr, ":")
		op, _ := strconv.Atoi(addr[k+1:])
		np := e.pool[i].port
		for j := range items {
			d := items[j].data
			// a channel-create packet: header(8) res(1) alt(1) port(2)
			if len(d) >= 12 && int(d[0])|int(d[1])<<8 == ptChannelCreate && int(d[10])|int(d[11])<<8 == op {
				d = append([]byte(nil), d...)
				d[10], d[11] = byte(np), byte(np>>8)
				items[j].data = d
			}
		}
	}
	return items, e.live()
}
