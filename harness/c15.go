package main

import (
	"context"
	"encoding/base64"
	"encoding/json"
	"fmt"
	"io"
	"math/rand"
	"net/http"
	"net/http/httptest"
	"net/url"
	"path/filepath"
	"strconv"
	"strings"
	"time"

	"github.com/bolkedebruin/rdpgw/cmd/rdpgw/security"
	"github.com/bolkedebruin/rdpgw/cmd/rdpgw/web"
	"github.com/go-jose/go-jose/v4"
	"github.com/go-jose/go-jose/v4/jwt"
)

func init() { streams["c15"] = streamC15 }

var encKey = []byte("ENCRYPTKEYENCRYPTKEYENCRYPTKEY32")
var otherEncKey = []byte("otherenc-otherenc-otherenc-32byt")
var userSignKey = []byte("USERSIGNKEYUSERSIGNKEYUSERSIGN32")
var otherSignKey = []byte("othersig-othersig-othersig-32byt")

// a configured signing key that is shorter than the 32 bytes HS256 needs: the gateway is still in
// signed mode (minting fails, encrypt-only tokens are refused)
var shortSignKey = []byte("SHORTSIGNKEYSHORTSIGNKEY")

type uclaims struct {
	Iss string `json:"iss,omitempty"`
	Sub string `json:"sub,omitempty"`
	Exp *int64 `json:"exp,omitempty"`
	Nbf *int64 `json:"nbf,omitempty"`
	Iat *int64 `json:"iat,omitempty"`
}

func (c uclaims) t() string {
	return strings.Join([]string{hx([]byte(c.Iss)), optS(c.Exp), optS(c.Nbf), optS(c.Iat), "-", "-", "-", hx([]byte(c.Sub))}, ":")
}

func setUserKeys(ek, sk string) {
	security.UserEncryptionKey = nil
	security.UserSigningKey = nil
	if ek == "E" {
		security.UserEncryptionKey = encKey
	}
	if sk == "S" {
		security.UserSigningKey = userSignKey
	}
	if sk == "T" {
		security.UserSigningKey = shortSignKey
	}
}

func emitUserTok(env *runEnv, ek, sk, term, tok string) {
	securityMu.Lock()
	defer securityMu.Unlock()
	setUserKeys(ek, sk)
	now := time.Now().Unix()
	obs := "rej"
	func() {
		defer func() {
			if r := recover(); r != nil {
				obs = "PANIC"
			}
		}()
		cl, err := security.UserInfo(context.Background(), tok)
		if err == nil {
			obs = "ok:" + hx([]byte(cl.Subject))
		}
	}()
	env.emit("usertok", ek, sk, strconv.FormatInt(now, 10), term, hx([]byte(tok)), obs)
	// the HTTP endpoint on the same token
	for _, m := range []struct{ method, param string }{{"GET", "tok"}, {"POST", "tok"}, {"GET", "none"}, {"GET", "empty"}, {"HEAD", "tok"},
		{"POST", "form"}, {"PUT", "form"}} {
		if m.method != "GET" || m.param != "tok" {
			if len(tok)%7 != 0 { // thin out the status matrix
				continue
			}
		}
		u := "/tokeninfo"
		var rd io.Reader
		switch m.param {
		case "tok":
			u += "?access_token=" + url.QueryEscape(tok)
		case "empty":
			u += "?access_token="
		case "form":
			// the token in a form body (and in the query as well): still not a GET
			u += "?access_token=" + url.QueryEscape(tok)
			rd = strings.NewReader("access_token=" + url.QueryEscape(tok))
		}
		req := httptest.NewRequest(m.method, u, rd)
		if m.param == "form" {
			req.Header.Set("Content-Type", "application/x-www-form-urlencoded")
		}
		rec := httptest.NewRecorder()
		web.TokenInfo(rec, req)
		body := rec.Body.String()
		disclosed := "0"
		if rec.Code != 200 && (strings.Contains(body, `"sub"`) || strings.Contains(body, `"iss"`)) {
			disclosed = "1"
		}
		// a refusal must not name the token's subject either (the harness knows it from the term it built)
		if f := strings.Split(term, ":"); rec.Code != 200 && len(f) > 3 {
			if subj := string(unhx(f[len(f)-1])); len(subj) >= 3 && strings.Contains(body, subj) {
				disclosed = "1"
			}
		}
		sub := ""
		if rec.Code == 200 {
			var out map[string]interface{}
			if json.Unmarshal([]byte(body), &out) == nil {
				sub, _ = out["sub"].(string)
			}
		}
		p := m.param
		if m.param == "tok" && tok == "" {
			p = "empty"
		}
		if p == "form" {
			p = "tok"
		}
		env.emit("tokeninfo", m.method, p, ek, sk, strconv.FormatInt(now, 10), term, strconv.Itoa(rec.Code)+":"+hx([]byte(sub))+":"+disclosed)
	}
}

func buildJWE(kalg jose.KeyAlgorithm, cenc jose.ContentEncryption, key []byte, cty bool, signAlg jose.SignatureAlgorithm, signKey []byte, c uclaims) string {
	opts := &jose.EncrypterOptions{Compression: jose.DEFLATE}
	if cty {
		opts = opts.WithContentType("JWT")
	}
	enc, err := jose.NewEncrypter(cenc, jose.Recipient{Algorithm: kalg, Key: key}, opts)
	if err != nil {
		panic(err)
	}
	var s string
	if signKey != nil {
		sig, err := jose.NewSigner(jose.SigningKey{Algorithm: signAlg, Key: signKey}, nil)
		if err != nil {
			panic(err)
		}
		if cty {
			s, err = jwt.SignedAndEncrypted(sig, enc).Claims(c).Serialize()
			if err != nil {
				panic(err)
			}
		} else {
			in, err := jwt.Signed(sig).Claims(c).Serialize()
			if err != nil {
				panic(err)
			}
			obj, err := enc.Encrypt([]byte(in))
			if err != nil {
				panic(err)
			}
			s, _ = obj.CompactSerialize()
		}
	} else {
		s, err = jwt.Encrypted(enc).Claims(c).Serialize()
		if err != nil {
			panic(err)
		}
	}
	return s
}

func streamC15(env *runEnv) {
	r := rand.New(rand.NewSource(env.seed))
	now := time.Now().Unix()
	i64 := func(v int64) *int64 { return &v }
	names := []string{"alice", "bob@example.com", "üñï¢ødé", strings.Repeat("longname", 12), "a"}
	modes := [][2]string{{"E", "S"}, {"E", "-"}, {"-", "S"}, {"-", "-"}, {"E", "T"}}

	kname := func(k []byte) string {
		switch string(k) {
		case string(encKey):
			return "E"
		case string(userSignKey):
			return "S"
		}
		return "O"
	}
	term := func(kalg, cenc string, key []byte, cty bool, signAlg string, signKey []byte, c uclaims) string {
		t := "X:" + kalg + ":" + cenc + ":" + kname(key) + ":" + b01(cty) + ":"
		if signKey != nil {
			return t + "S:" + signAlg + ":" + kname(signKey) + ":" + c.t()
		}
		return t + "P:" + c.t()
	}

	for _, name := range names {
		// minted by the gateway in each mode, verified in every mode
		for _, mint := range [][2]string{{"E", "S"}, {"E", "-"}} {
			securityMu.Lock()
			setUserKeys(mint[0], mint[1])
			t0 := time.Now().Unix()
			tok, err := security.GenerateUserToken(context.Background(), name)
			securityMu.Unlock()
			if err != nil {
				env.emit("usertok", mint[0], mint[1], "0", "MINT-FAILED", "-", "MINT-FAILED")
				continue
			}
			// opacity: neither the name nor its base64 forms occur in the token text
			leaks := strings.Contains(tok, name) || strings.Contains(tok, base64.RawURLEncoding.EncodeToString([]byte(name))) ||
				strings.Contains(tok, base64.StdEncoding.EncodeToString([]byte(name)))
			for _, seg := range strings.Split(tok, ".") {
				// the segments are base64url text: what they decode to must not show the name either
				if raw, e := base64.RawURLEncoding.DecodeString(seg); e == nil && strings.Contains(string(raw), name) {
					leaks = true
				}
			}
			if leaks && len(name) > 3 {
				env.emit("usertok", mint[0], mint[1], "0", "LEAK", hx([]byte(tok)), "LEAK")
			}
			c := uclaims{Iss: "rdpgw", Sub: name, Exp: i64(t0 + 300)}
			var sk []byte
			if mint[1] == "S" {
				sk = userSignKey
			}
			tm := term("DIRECT", "A128CBC_HS256", encKey, true, "HS256", sk, c)
			for _, m := range modes {
				env.count("c15.minted")
				emitUserTok(env, m[0], m[1], tm, tok)
			}
			// single-character mutations of each of the five segments
			segs := strings.Split(tok, ".")
			for si := range segs {
				if len(segs[si]) == 0 {
					continue
				}
				positions := []int{0, len(segs[si]) / 2, len(segs[si]) - 1}
				if env.thorough() {
					positions = nil
					for p := 0; p < len(segs[si]); p += 2 {
						positions = append(positions, p)
					}
				}
				for _, p := range positions {
					for _, a := range []byte("Aq_") {
						if segs[si][p] == a {
							continue
						}
						ms := append([]string{}, segs...)
						ms[si] = segs[si][:p] + string(a) + segs[si][p+1:]
						mt := strings.Join(ms, ".")
						env.count("c15.mutation.seg" + strconv.Itoa(si))
						emitUserTok(env, mint[0], mint[1], abstractJWE(tok, tm, mt), mt)
					}
				}
			}
			// re-encodings a lenient reader might "repair": the standard base64 alphabet, padding, quotes
			for si := range segs {
				for _, sub := range [][2]string{{"-", "+"}, {"_", "/"}, {"-", " "}, {"-", "%2D"}} {
					if !strings.Contains(segs[si], sub[0]) {
						continue
					}
					ms := append([]string{}, segs...)
					ms[si] = strings.Replace(segs[si], sub[0], sub[1], 1)
					env.count("c15.mutation.reencoded")
					emitUserTok(env, mint[0], mint[1], "U", strings.Join(ms, "."))
				}
				ms := append([]string{}, segs...)
				ms[si] += "="
				emitUserTok(env, mint[0], mint[1], "U", strings.Join(ms, "."))
			}
			for _, w := range []string{"\"" + tok + "\"", "'" + tok + "'", "Bearer " + tok, tok + "=", tok + "=="} {
				env.count("c15.mutation.reencoded")
				emitUserTok(env, mint[0], mint[1], "U", w)
			}
		}
		// built directly: other keys, algorithms, issuers, expiry
		type v struct {
			kalg       jose.KeyAlgorithm
			cenc       jose.ContentEncryption
			key        []byte
			cty        bool
			salg       jose.SignatureAlgorithm
			skey       []byte
			c          uclaims
			kn, cn, sn string
		}
		ok := uclaims{Iss: "rdpgw", Sub: name, Exp: i64(now + 300)}
		vs := []v{
			{jose.DIRECT, jose.A128CBC_HS256, otherEncKey, true, jose.HS256, userSignKey, ok, "DIRECT", "A128CBC_HS256", "HS256"},
			{jose.DIRECT, jose.A128CBC_HS256, encKey, true, jose.HS256, otherSignKey, ok, "DIRECT", "A128CBC_HS256", "HS256"},
			{jose.DIRECT, jose.A128CBC_HS256, encKey, true, jose.HS384, append(append([]byte{}, userSignKey...), userSignKey...), ok, "DIRECT", "A128CBC_HS256", "HS384"},
			{jose.DIRECT, jose.A128CBC_HS256, encKey, false, jose.HS256, userSignKey, ok, "DIRECT", "A128CBC_HS256", "HS256"},
			{jose.DIRECT, jose.A128CBC_HS256, encKey, false, "", nil, ok, "DIRECT", "A128CBC_HS256", ""},
			{jose.DIRECT, jose.A256GCM, encKey, true, jose.HS256, userSignKey, ok, "DIRECT", "A256GCM", "HS256"},
			{jose.DIRECT, jose.A256GCM, encKey, true, "", nil, ok, "DIRECT", "A256GCM", ""},
			{jose.A256KW, jose.A128CBC_HS256, encKey, true, jose.HS256, userSignKey, ok, "A256KW", "A128CBC_HS256", "HS256"},
			{jose.A256KW, jose.A128CBC_HS256, encKey, true, "", nil, ok, "A256KW", "A128CBC_HS256", ""},
			{jose.DIRECT, jose.A128CBC_HS256, encKey, true, jose.HS256, userSignKey, uclaims{Iss: "other", Sub: name, Exp: i64(now + 300)}, "DIRECT", "A128CBC_HS256", "HS256"},
			{jose.DIRECT, jose.A128CBC_HS256, encKey, true, "", nil, uclaims{Iss: "", Sub: name, Exp: i64(now + 300)}, "DIRECT", "A128CBC_HS256", ""},
			{jose.DIRECT, jose.A128CBC_HS256, encKey, true, jose.HS256, userSignKey, uclaims{Iss: "rdpgw", Sub: name, Exp: i64(now - 3600)}, "DIRECT", "A128CBC_HS256", "HS256"},
			{jose.DIRECT, jose.A128CBC_HS256, encKey, true, "", nil, uclaims{Iss: "rdpgw", Sub: name, Exp: i64(now - 63)}, "DIRECT", "A128CBC_HS256", ""},
			{jose.DIRECT, jose.A128CBC_HS256, encKey, true, "", nil, uclaims{Iss: "rdpgw", Sub: name, Exp: i64(now - 57)}, "DIRECT", "A128CBC_HS256", ""},
			{jose.DIRECT, jose.A128CBC_HS256, encKey, true, jose.HS256, userSignKey, uclaims{Iss: "rdpgw", Sub: name}, "DIRECT", "A128CBC_HS256", "HS256"},
			{jose.DIRECT, jose.A128CBC_HS256, encKey, true, jose.HS256, userSignKey, uclaims{Iss: "rdpgw", Sub: name, Exp: i64(now + 300), Nbf: i64(now + 3600)}, "DIRECT", "A128CBC_HS256", "HS256"},
		}
		for _, x := range vs {
			tok := buildJWE(x.kalg, x.cenc, x.key, x.cty, x.salg, x.skey, x.c)
			tm := term(x.kn, x.cn, x.key, x.cty, x.sn, x.skey, x.c)
			for _, m := range modes[:2] {
				env.count("c15.built")
				emitUserTok(env, m[0], m[1], tm, tok)
			}
		}
		// a plain signed JWT
		sig, _ := jose.NewSigner(jose.SigningKey{Algorithm: jose.HS256, Key: userSignKey}, nil)
		plain, _ := jwt.Signed(sig).Claims(ok).Serialize()
		for _, m := range modes[:2] {
			emitUserTok(env, m[0], m[1], "U", plain)
		}
	}
	nn := 300
	if env.thorough() {
		nn = 20000
	}
	for _, s := range []string{"", " ", "....", "a.b.c.d.e", "e30..e30.e30.e30"} {
		emitUserTok(env, "E", "S", "U", s)
		emitUserTok(env, "E", "-", "U", s)
	}
	for i := 0; i < nn; i++ {
		var s string
		if i%2 == 0 {
			s = string(randBytes(r, r.Intn(80)))
		} else {
			s = b64(randBytes(r, 20)) + ".." + b64(randBytes(r, 16)) + "." + b64(randBytes(r, r.Intn(64))) + "." + b64(randBytes(r, 16))
		}
		m := modes[i%2]
		env.count("c15.noise")
		emitUserTok(env, m[0], m[1], "U", s)
	}
}

// abstractJWE: a mutated JWE is the same term as the original iff its
// protected-header text is unchanged and the other four segments decode to the
// same bytes (base64url's last-character slack); anything else authenticates
// under no key.
func abstractJWE(orig, origTerm, mut string) string {
	a, b := strings.Split(orig, "."), strings.Split(mut, ".")
	if len(a) != 5 || len(b) != 5 || a[0] != b[0] {
		return "U"
	}
	for i := 1; i < 5; i++ {
		x, e1 := base64.RawURLEncoding.DecodeString(a[i])
		y, e2 := base64.RawURLEncoding.DecodeString(b[i])
		if e1 != nil || e2 != nil || string(x) != string(y) {
			return "U"
		}
	}
	return origTerm
}

func init() { streams["c15gw"] = streamC15gw }

// streamC15gw: the token-info endpoint of the real binary, started from a
// configuration file that names the keys (and nothing else about user tokens):
// what main() wires into the security package is part of the behaviour.
func streamC15gw(env *runEnv) {
	idp := newFakeIdP()
	defer idp.close()
	i64 := func(v int64) *int64 { return &v }
	for mi, mode := range [][2]string{{"E", "S"}, {"E", "-"}} {
		dir := filepath.Join(env.workdir, fmt.Sprintf("c15gw-%d", mi))
		gc := gwConfig{authSet: true, auth: []string{"openid"}, tlsDisable: true, hosts: []string{"10.9.8.7:3389"},
			providerURL: idp.srv.URL, clientID: idp.clientID, enableUserTok: true, userEncKey: string(encKey)}
		if mode[1] == "S" {
			gc.userSignKey = string(userSignKey)
		}
		yaml, ev := gc.render("file")
		g, ok := startGateway(dir, yaml, ev, false)
		if !ok {
			panic("C15: gateway did not start: " + g.logs())
		}
		now := time.Now().Unix()
		name := "alice"
		type bt struct {
			enc  []byte
			sign []byte
			c    uclaims
		}
		kn := func(k []byte) string {
			switch string(k) {
			case string(encKey):
				return "E"
			case string(userSignKey):
				return "S"
			}
			return "O"
		}
		good := uclaims{Iss: "rdpgw", Sub: name, Exp: i64(now + 300)}
		var toks [][2]string // term, text
		for _, b := range []bt{
			{encKey, userSignKey, good}, {encKey, nil, good},
			{otherEncKey, userSignKey, good}, {encKey, otherSignKey, good},
			{encKey, userSignKey, uclaims{Iss: "other", Sub: name, Exp: i64(now + 300)}}, {encKey, nil, uclaims{Iss: "other", Sub: name, Exp: i64(now + 300)}},
			{encKey, userSignKey, uclaims{Iss: "", Sub: name, Exp: i64(now + 300)}}, {encKey, nil, uclaims{Iss: "", Sub: name, Exp: i64(now + 300)}},
			{encKey, userSignKey, uclaims{Iss: "rdpgw", Sub: name, Exp: i64(now - 3600)}}, {encKey, nil, uclaims{Iss: "rdpgw", Sub: name, Exp: i64(now - 3600)}},
			{encKey, userSignKey, uclaims{Iss: "rdpgw", Sub: name}},
		} {
			var salg jose.SignatureAlgorithm
			tm := "X:DIRECT:A128CBC_HS256:" + kn(b.enc) + ":1:"
			if b.sign != nil {
				salg = jose.HS256
				tm += "S:HS256:" + kn(b.sign) + ":" + b.c.t()
			} else {
				tm += "P:" + b.c.t()
			}
			toks = append(toks, [2]string{tm, buildJWE(jose.DIRECT, jose.A128CBC_HS256, b.enc, true, salg, b.sign, b.c)})
		}
		toks = append(toks, [2]string{"U", "hello"}, [2]string{"U", "a.b.c.d.e"}, [2]string{"U", "e30.e30.e30"})
		for _, t := range toks {
			for _, m := range []struct{ method, param string }{{"GET", "tok"}, {"POST", "tok"}, {"GET", "none"}, {"GET", "empty"}} {
				u := g.base() + "/tokeninfo"
				switch m.param {
				case "tok":
					u += "?access_token=" + url.QueryEscape(t[1])
				case "empty":
					u += "?access_token="
				}
				req, _ := http.NewRequest(m.method, u, nil)
				resp, err := newBrowser().c.Do(req)
				obs := "neterr"
				if err == nil {
					raw, _ := io.ReadAll(io.LimitReader(resp.Body, 1<<16))
					resp.Body.Close()
					body := string(raw)
					disclosed := "0"
					if resp.StatusCode != 200 && (strings.Contains(body, `"sub"`) || strings.Contains(body, `"iss"`) || strings.Contains(body, name)) {
						disclosed = "1"
					}
					sub := ""
					if resp.StatusCode == 200 {
						var out map[string]interface{}
						if json.Unmarshal(raw, &out) == nil {
							sub, _ = out["sub"].(string)
						}
					}
					obs = strconv.Itoa(resp.StatusCode) + ":" + hx([]byte(sub)) + ":" + disclosed
				}
				env.count("c15gw.request." + m.method)
				env.emit("tokeninfo", m.method, m.param, mode[0], mode[1], strconv.FormatInt(now, 10), t[0], obs)
			}
		}
		g.stop()
	}
	// the token handed out with a connection file names the user the file names: the identity's name is split
	// into user and domain, the file says user, the token's subject says user
	for ti, name := range []string{"alice@example.com", "bob", "carol@corp@example.com"} {
		dir := filepath.Join(env.workdir, fmt.Sprintf("c15gw-file-%d", ti))
		gc := gwConfig{authSet: true, auth: []string{"openid"}, tlsDisable: true, hosts: []string{"10.9.8.7:3389"},
			providerURL: idp.srv.URL, clientID: idp.clientID, enableUserTok: true, userEncKey: string(encKey),
			splitDomain: true, userTemplate: "{{ username }}|{{ token }}"}
		yaml, ev := gc.render("file")
		g, ok := startGateway(dir, yaml, ev, false)
		if !ok {
			panic("C15: gateway did not start: " + g.logs())
		}
		b := newBrowser()
		at := fmt.Sprintf("c15gw-at-%d-%d", env.seed, ti)
		idp.setToken(at, atBehaviour{kind: "valid", sub: name})
		idp.setCode("code-"+at, codeBehaviour{kind: "ok", accessToken: at, claims: map[string]interface{}{"preferred_username": name}})
		b.login(g, "/connect", "code-"+at)
		resp, body, err := b.get(g.base() + "/connect")
		verdict := "no-file"
		if err == nil && resp.StatusCode == 200 {
			un, _ := rdpField(body, "username")
			want := strings.SplitN(name, "@", 2)[0]
			tok := ""
			if p := strings.SplitN(un, "|", 2); len(p) == 2 && p[0] == want {
				tok = p[1]
			}
			securityMu.Lock()
			setUserKeys("E", "-")
			cl, uerr := security.UserInfo(context.Background(), tok)
			securityMu.Unlock()
			switch {
			case uerr != nil:
				verdict = "token-in-file-does-not-verify"
			case cl.Subject != want:
				verdict = fmt.Sprintf("token-subject-%q-file-user-%q", cl.Subject, want)
			default:
				verdict = "exact"
			}
		}
		env.count("c15gw.file-token." + strings.SplitN(verdict, "-", 2)[0])
		env.emit("exact", "user-token-in-the-file-of-"+hx([]byte(name))+"-names-the-user-of-the-file", verdict)
		g.stop()
	}
}
