package main

import (
	"bufio"
	"bytes"
	"encoding/binary"
	"fmt"
	"io"
	"math/rand"
	"net"
	"net/http"
	"net/http/httptest"
	"os"
	"path/filepath"
	"strings"
	"sync"
	"time"

	"github.com/bolkedebruin/rdpgw/cmd/rdpgw/kdcproxy"
	"github.com/jcmturner/gofork/encoding/asn1"
)

func init() { streams["c20"] = streamC20 }

// fakeKDC listens on one port over TCP and UDP with a fixed behaviour per protocol.
type fakeKDC struct {
	port    int
	tcpMode string // reply-close | reply-hold | partial | close | silent | refuse
	udpMode string // reply | silent | refuse
	reply   []byte // Kerberos reply body (without length prefix)
	tl      net.Listener
	uc      net.PacketConn
	mu      sync.Mutex
	gotTCP  [][]byte
	gotUDP  [][]byte
	stopped chan struct{}
}

func newFakeKDC(tcpMode, udpMode string, reply []byte) *fakeKDC {
	for {
		k := &fakeKDC{tcpMode: tcpMode, udpMode: udpMode, reply: reply, stopped: make(chan struct{})}
		l, err := net.Listen("tcp4", "127.0.0.1:0")
		if err != nil {
			panic(err)
		}
		k.port = l.Addr().(*net.TCPAddr).Port
		var uc net.PacketConn
		if udpMode != "refuse" {
			uc, err = net.ListenPacket("udp4", fmt.Sprintf("127.0.0.1:%d", k.port))
			if err != nil {
				l.Close()
				continue
			}
		}
		if tcpMode == "refuse" {
			l.Close()
		} else {
			k.tl = l
			go k.serveTCP()
		}
		if uc != nil {
			k.uc = uc
			go k.serveUDP()
		}
		return k
	}
}

func (k *fakeKDC) serveTCP() {
	for {
		c, err := k.tl.Accept()
		if err != nil {
			return
		}
		go func(c net.Conn) {
			defer c.Close()
			// read the length-prefixed request (or whatever arrives within a moment)
			c.SetReadDeadline(time.Now().Add(1500 * time.Millisecond))
			var got []byte
			hdr := make([]byte, 4)
			if _, err := io.ReadFull(c, hdr); err == nil {
				got = append(got, hdr...)
				n := int(binary.BigEndian.Uint32(hdr))
				if n >= 0 && n <= 1<<20 {
					body := make([]byte, n)
					m, _ := io.ReadFull(c, body)
					got = append(got, body[:m]...)
				}
			} else {
				buf := make([]byte, 16)
				m, _ := c.Read(buf)
				got = append(got, buf[:m]...)
			}
			k.mu.Lock()
			k.gotTCP = append(k.gotTCP, got)
			k.mu.Unlock()
			pre := make([]byte, 4)
			binary.BigEndian.PutUint32(pre, uint32(len(k.reply)))
			full := append(pre, k.reply...)
			switch k.tcpMode {
			case "reply-close":
				c.Write(full)
			case "reply-hold":
				c.Write(full)
				select {
				case <-k.stopped:
				case <-time.After(8 * time.Second):
				}
			case "partial":
				c.Write(full[:len(full)/2])
				select {
				case <-k.stopped:
				case <-time.After(8 * time.Second):
				}
			case "trickle":
				// one byte a second: never idle for long, never complete within the proxy's wait
				for i := 0; i < len(full); i++ {
					c.Write(full[i : i+1])
					select {
					case <-k.stopped:
						return
					case <-time.After(time.Second):
					}
				}
			case "close":
			case "silent":
				select {
				case <-k.stopped:
				case <-time.After(8 * time.Second):
				}
			}
		}(c)
	}
}

func (k *fakeKDC) serveUDP() {
	buf := make([]byte, 1<<17)
	for {
		n, addr, err := k.uc.ReadFrom(buf)
		if err != nil {
			return
		}
		k.mu.Lock()
		k.gotUDP = append(k.gotUDP, append([]byte(nil), buf[:n]...))
		k.mu.Unlock()
		if k.udpMode == "reply" {
			k.uc.WriteTo(k.reply, addr)
		}
		if k.udpMode == "echo" {
			// a reply that depends on the request: concurrent requests get distinguishable answers
			k.uc.WriteTo(append([]byte("<echo:"), append(append([]byte(nil), buf[:n]...), '>')...), addr)
		}
	}
}

func (k *fakeKDC) stop() {
	close(k.stopped)
	if k.tl != nil {
		k.tl.Close()
	}
	if k.uc != nil {
		k.uc.Close()
	}
}

type kdcSet struct {
	name  string
	kdcs  []*fakeKDC
	proxy kdcproxy.KerberosProxy
	srv   *httptest.Server
	conf  string // the krb5.conf naming these KDCs
	url   string // base URL of the server in front of the proxy (the in-process one, or a real gateway)
}

func newKdcSet(dir, name string, modes [][2]string) *kdcSet {
	s := &kdcSet{name: name}
	var hosts []string
	for i, m := range modes {
		reply := []byte(fmt.Sprintf("<kdc-reply-%s-%d>", name, i))
		if strings.HasPrefix(name, "big-") {
			// replies larger than common scratch buffers (4 KiB, 8 KiB, 16 KiB); a datagram carries up to 65507 bytes
			reply = []byte(strings.Repeat(string(reply), 30000/len(reply)))
		}
		k := newFakeKDC(m[0], m[1], reply)
		s.kdcs = append(s.kdcs, k)
		hosts = append(hosts, fmt.Sprintf("127.0.0.1:%d", k.port))
	}
	os.MkdirAll(dir, 0o700)
	var kl strings.Builder
	for _, h := range hosts {
		kl.WriteString("  kdc = " + h + "\n")
	}
	conf := "[libdefaults]\n default_realm = EXAMPLE.TEST\n dns_lookup_kdc = false\n dns_lookup_realm = false\n\n[realms]\n EXAMPLE.TEST = {\n" + kl.String() + " }\n EMPTY.TEST = {\n }\n"
	p := filepath.Join(dir, "krb5-"+name+".conf")
	os.WriteFile(p, []byte(conf), 0o600)
	s.proxy = kdcproxy.InitKdcProxy(p)
	mux := http.NewServeMux()
	mux.HandleFunc("/KdcProxy", s.proxy.Handler)
	s.srv = httptest.NewServer(mux)
	s.conf, s.url = p, s.srv.URL
	return s
}

func (s *kdcSet) spec() string {
	var p []string
	for _, k := range s.kdcs {
		p = append(p, fmt.Sprintf("%s/%s/%s", k.tcpMode, k.udpMode, hx(k.reply)))
	}
	return strings.Join(p, ",")
}

type kdcProxyMsg struct {
	Message []byte `asn1:"tag:0,explicit"`
	Realm   string `asn1:"tag:1,optional"`
	Flags   int    `asn1:"tag:2,optional"`
}

func kdcRequest(s *kdcSet, method string, body []byte, chunked bool) (int, []byte, time.Duration, bool) {
	if len(body) > 131072 {
		// the server answers from the declared length alone and closes: announce the length, send a
		// part of the body, read the answer (a full-speed upload races with the server's close)
		t0 := time.Now()
		c, err := net.DialTimeout("tcp", strings.TrimPrefix(s.url, "http://"), 3*time.Second)
		if err != nil {
			return 0, nil, time.Since(t0), false
		}
		defer c.Close()
		fmt.Fprintf(c, "%s /KdcProxy HTTP/1.1\r\nHost: kdc\r\nContent-Length: %d\r\nConnection: close\r\n\r\n", method, len(body))
		c.Write(body[:1000])
		c.SetReadDeadline(time.Now().Add(15 * time.Second))
		resp, err := http.ReadResponse(bufio.NewReader(c), &http.Request{Method: method})
		if err != nil {
			return 0, nil, time.Since(t0), false
		}
		b, _ := io.ReadAll(io.LimitReader(resp.Body, 1<<16))
		return resp.StatusCode, b, time.Since(t0), true
	}
	var rd io.Reader = bytes.NewReader(body)
	req, _ := http.NewRequest(method, s.url+"/KdcProxy", rd)
	if chunked {
		req.ContentLength = -1
		req.Body = io.NopCloser(rd)
	}
	t0 := time.Now()
	cl := &http.Client{Timeout: 20 * time.Second, Transport: &http.Transport{DisableKeepAlives: true}}
	resp, err := cl.Do(req)
	if err != nil {
		return 0, nil, time.Since(t0), false
	}
	defer resp.Body.Close()
	b, _ := io.ReadAll(resp.Body)
	return resp.StatusCode, b, time.Since(t0), true
}

func streamC20(env *runEnv) {
	r := rand.New(rand.NewSource(env.seed))
	dir := env.workdir
	if dir == "" {
		dir = os.TempDir()
	}
	sets := []*kdcSet{
		newKdcSet(dir, "tcp-reply-close", [][2]string{{"reply-close", "refuse"}}),
		newKdcSet(dir, "tcp-reply-hold", [][2]string{{"reply-hold", "refuse"}}),
		newKdcSet(dir, "udp-reply", [][2]string{{"refuse", "reply"}}),
		newKdcSet(dir, "big-udp-reply", [][2]string{{"refuse", "reply"}}),
		newKdcSet(dir, "big-tcp-reply", [][2]string{{"reply-close", "refuse"}}),
		newKdcSet(dir, "partial", [][2]string{{"partial", "silent"}}),
		newKdcSet(dir, "trickle", [][2]string{{"trickle", "silent"}}),
		newKdcSet(dir, "closes", [][2]string{{"close", "refuse"}}),
		newKdcSet(dir, "silent", [][2]string{{"silent", "silent"}}),
		newKdcSet(dir, "refuse", [][2]string{{"refuse", "refuse"}}),
		newKdcSet(dir, "silent-then-reply", [][2]string{{"silent", "silent"}, {"reply-close", "refuse"}}),
		newKdcSet(dir, "three-one-replies", [][2]string{{"refuse", "refuse"}, {"close", "silent"}, {"reply-hold", "refuse"}}),
	}
	defer func() {
		for _, s := range sets {
			for _, k := range s.kdcs {
				k.stop()
			}
			// a handler that never returns must not hang the check: it has been reported as a case already
			done := make(chan struct{})
			go func(srv *httptest.Server) { srv.CloseClientConnections(); srv.Close(); close(done) }(s.srv)
			select {
			case <-done:
			case <-time.After(3 * time.Second):
			}
		}
	}()
	// concurrent requests answered over UDP, each with its own reply
	{
		es := newKdcSet(dir, "udp-echo", [][2]string{{"refuse", "echo"}})
		var wg sync.WaitGroup
		bad := make([]string, 16)
		per := 12
		if env.thorough() {
			per = 120
		}
		for w := 0; w < 16; w++ {
			wg.Add(1)
			go func(w int) {
				defer wg.Done()
				for i := 0; i < per; i++ {
					msg := []byte(fmt.Sprintf("<request-%d-%d-%s>", w, i, strings.Repeat("x", 20+i)))
					kmsg := append([]byte{0, 0, 0, byte(len(msg))}, msg...)
					body, _ := asn1.Marshal(kdcProxyMsg{Message: kmsg})
					st, resp, _, _ := kdcRequest(es, "POST", body, false)
					var out kdcProxyMsg
					want := append([]byte("<echo:"), append(append([]byte(nil), msg...), '>')...)
					if st != 200 {
						bad[w] = fmt.Sprintf("status-%d", st)
						return
					}
					if _, err := asn1.Unmarshal(resp, &out); err != nil || len(out.Message) < 4 || string(out.Message[4:]) != string(want) {
						bad[w] = "reply-of-another-request-or-altered"
						return
					}
				}
			}(w)
		}
		wg.Wait()
		verdict := "exact"
		for _, b := range bad {
			if b != "" {
				verdict = b
			}
		}
		env.count("c20.concurrent-udp." + verdict)
		env.emit("exact", fmt.Sprintf("16-concurrent-clients-x-%d-requests-answered-over-udp", per), verdict)
		for _, k := range es.kdcs {
			k.stop()
		}
		go func() { es.srv.CloseClientConnections(); es.srv.Close() }()
	}
	type job struct {
		set     *kdcSet
		method  string
		body    []byte
		chunked bool
		realm   string
		tag     string
	}
	var jobs []job
	mk := func(msg []byte, realm string) []byte {
		b, _ := asn1.Marshal(kdcProxyMsg{Message: msg, Realm: realm})
		return b
	}
	withLen := func(n int) []byte {
		m := make([]byte, 4+n)
		binary.BigEndian.PutUint32(m, uint32(n))
		r.Read(m[4:])
		return m
	}
	for _, s := range sets {
		// payload sizes (message = 4-byte length + payload) and the raw short messages
		sizes := []int{0, 1, 1024}
		if s.name == "tcp-reply-close" || s.name == "udp-reply" || env.thorough() {
			sizes = []int{0, 1, 5, 1024, 60000, 131072 - 64}
		}
		for _, n := range sizes {
			jobs = append(jobs, job{s, "POST", mk(withLen(n), ""), false, "", "size"})
		}
		for _, raw := range [][]byte{{}, {7}, {7, 8, 9}, {0, 0, 0, 0}} {
			jobs = append(jobs, job{s, "POST", mk(raw, ""), false, "", "short"})
		}
		for _, realm := range []string{"EXAMPLE.TEST", "UNKNOWN.TEST", "EMPTY.TEST"} {
			jobs = append(jobs, job{s, "POST", mk(withLen(20), realm), false, realm, "realm"})
		}
	}
	s0 := sets[0]
	valid := mk(withLen(30), "")
	for _, m := range []string{"GET", "PUT", "DELETE", "HEAD"} {
		jobs = append(jobs, job{s0, m, valid, false, "", "method"})
	}
	jobs = append(jobs, job{s0, "POST", valid, true, "", "nolength"})
	jobs = append(jobs, job{s0, "POST", make([]byte, 131072+1), false, "", "toolarge"})
	jobs = append(jobs, job{s0, "POST", mk(make([]byte, 131072), ""), false, "", "toolarge"})
	jobs = append(jobs, job{s0, "POST", nil, false, "", "malformed"})
	for i := 1; i < len(valid); i += 3 {
		jobs = append(jobs, job{s0, "POST", valid[:i], false, "", "malformed"})
	}
	jobs = append(jobs, job{s0, "POST", append(append([]byte{}, valid...), 0), false, "", "malformed"})
	jobs = append(jobs, job{s0, "POST", append(append([]byte{}, valid...), valid...), false, "", "malformed"})
	for _, pos := range []int{0, 2, 4} {
		b := append([]byte{}, valid...)
		b[pos] ^= 0x01
		jobs = append(jobs, job{s0, "POST", b, false, "", "malformed"})
	}
	jobs = append(jobs, job{s0, "POST", []byte{0x30, 0x81, 0x08, 0xa0, 0x06, 0x04, 0x04, 0, 0, 0, 0xaa}, false, "", "malformed"}) // non-minimal length
	nr := 60
	if env.thorough() {
		nr = 3000
	}
	for i := 0; i < nr; i++ {
		jobs = append(jobs, job{s0, "POST", randBytes(r, r.Intn(40)), false, "", "noise"})
	}
	var wg sync.WaitGroup
	sem := make(chan struct{}, 48)
	var emu sync.Mutex
	for _, j := range jobs {
		wg.Add(1)
		sem <- struct{}{}
		go func(j job) {
			defer wg.Done()
			defer func() { <-sem }()
			st, body, lat, ok := kdcRequest(j.set, j.method, j.body, j.chunked)
			if ok && st == 503 && strings.Contains(j.set.spec(), "reply") {
				// a set with a replying KDC answered 503 once: ask again and report the second answer (a
				// scheduling artefact of the scripted KDCs under 48 parallel requests is absorbed and counted;
				// a gateway that does not ask the replying KDC fails both times)
				emu.Lock()
				env.count("c20.retried-after-503")
				emu.Unlock()
				st, body, lat, ok = kdcRequest(j.set, j.method, j.body, j.chunked)
			}
			obs := "no-response"
			if ok {
				obs = fmt.Sprintf("st=%d", st)
				if st == 200 {
					var m kdcProxyMsg
					rest, err := asn1.Unmarshal(body, &m)
					if err != nil || len(rest) != 0 {
						obs += " reply=undecodable"
					} else {
						obs += " reply=" + hx(m.Message)
					}
				}
			}
			bound := "in-time"
			if lat > 11*time.Second {
				bound = "late"
			}
			obs += " " + bound
			cl := fmt.Sprint(len(j.body))
			if j.chunked {
				cl = "none"
			}
			emu.Lock()
			env.count("c20." + j.tag)
			env.emit("kdc", j.method, cl, hx(j.body), j.set.spec(), obs)
			emu.Unlock()
		}(j)
	}
	wg.Wait()
	// what the KDCs received: exactly the embedded message (TCP) / without its prefix (UDP)
	time.Sleep(100 * time.Millisecond)
	for _, s := range sets {
		for i, k := range s.kdcs {
			k.mu.Lock()
			bad := 0
			for _, g := range k.gotTCP {
				if len(g) >= 4 && int(binary.BigEndian.Uint32(g[:4])) != len(g)-4 && len(g) > 4 {
					bad++
				}
			}
			env.emit("kdcrecv", s.name, fmt.Sprint(i), fmt.Sprintf("tcp=%d udp=%d badframes=%d", len(k.gotTCP), len(k.gotUDP), bad))
			k.mu.Unlock()
		}
	}
}

func init() { streams["c20gw"] = streamC20gw }

// streamC20gw: the KDC-proxy endpoint of the real binary (started with
// Kerberos authentication, the krb5.conf naming the scripted KDCs): the route,
// its method filter and the server settings of main() are part of the answer a
// client gets, in particular for KDCs that stay silent for the whole wait.
func streamC20gw(env *runEnv) {
	if rdpgwBinary == "" {
		return
	}
	r := rand.New(rand.NewSource(env.seed))
	idp := newFakeIdP()
	defer idp.close()
	mk := func(msg []byte, realm string) []byte {
		b, _ := asn1.Marshal(kdcProxyMsg{Message: msg, Realm: realm})
		return b
	}
	withLen := func(n int) []byte {
		m := make([]byte, 4+n)
		binary.BigEndian.PutUint32(m, uint32(n))
		r.Read(m[4:])
		return m
	}
	type job struct {
		method  string
		body    []byte
		chunked bool
		tag     string
	}
	var wg sync.WaitGroup
	var emu sync.Mutex
	for si, sd := range []struct {
		name  string
		modes [][2]string
	}{
		{"gw-tcp-reply", [][2]string{{"reply-close", "refuse"}}},
		{"gw-udp-reply", [][2]string{{"refuse", "reply"}}},
		{"gw-silent", [][2]string{{"silent", "silent"}}},
		{"gw-partial", [][2]string{{"partial", "silent"}}},
		{"gw-refuse", [][2]string{{"refuse", "refuse"}}},
	} {
		dir := filepath.Join(env.workdir, fmt.Sprintf("c20gw-%d", si))
		set := newKdcSet(dir, sd.name, sd.modes)
		kt, _ := writeKerberosFiles(dir, []string{"127.0.0.1:1"})
		gc := gwConfig{authSet: true, auth: []string{"kerberos"}, tlsDisable: true, hosts: []string{"10.9.8.7:3389"}, hostSelection: "roundrobin",
			tokenAuth: bp(false), keytab: kt, krb5conf: set.conf}
		if si%2 == 1 {
			// Kerberos stacked with OpenID: the proxy route is the same route
			gc.auth = []string{"openid", "kerberos"}
			gc.tokenAuth = bp(true)
			gc.providerURL, gc.clientID = idp.srv.URL, idp.clientID
		}
		yaml, ev := gc.render("file")
		g, ok := startGateway(dir, yaml, ev, false)
		if !ok {
			panic("C20 gw: gateway did not start: " + g.logs())
		}
		set.url = g.base()
		valid := mk(withLen(30), "")
		jobs := []job{
			{"POST", valid, false, "valid"}, {"POST", mk(withLen(1024), "EXAMPLE.TEST"), false, "valid"}, {"POST", mk(withLen(20), "UNKNOWN.TEST"), false, "realm"},
		}
		if si <= 1 {
			jobs = append(jobs, job{"GET", valid, false, "method"}, job{"PUT", valid, false, "method"}, job{"DELETE", valid, false, "method"}, job{"POST", valid, true, "nolength"},
				job{"POST", make([]byte, 131072+1), false, "toolarge"}, job{"POST", valid[:7], false, "malformed"},
				job{"POST", append(append([]byte{}, valid...), 0), false, "malformed"})
		}
		var swg sync.WaitGroup
		for _, j := range jobs {
			wg.Add(1)
			swg.Add(1)
			go func(j job) {
				defer wg.Done()
				defer swg.Done()
				st, body, lat, ok := kdcRequest(set, j.method, j.body, j.chunked)
				obs := "no-response"
				if ok {
					obs = fmt.Sprintf("st=%d", st)
					if st == 200 {
						var m kdcProxyMsg
						rest, err := asn1.Unmarshal(body, &m)
						if err != nil || len(rest) != 0 {
							obs += " reply=undecodable"
						} else {
							obs += " reply=" + hx(m.Message)
						}
					}
				}
				bound := "in-time"
				if lat > 11*time.Second {
					bound = "late"
				}
				cl := fmt.Sprint(len(j.body))
				if j.chunked {
					cl = "none"
				}
				emu.Lock()
				env.count("c20gw." + j.tag)
				env.emit("kdc", j.method, cl, hx(j.body), set.spec(), obs+" "+bound)
				emu.Unlock()
			}(j)
		}
		go func() {
			swg.Wait()
			g.stop()
			for _, k := range set.kdcs {
				k.stop()
			}
			set.srv.CloseClientConnections()
			set.srv.Close()
		}()
	}
	wg.Wait()
	time.Sleep(100 * time.Millisecond)
}
