package main

import (
	"bufio"
	"crypto/tls"
	"encoding/base64"
	"encoding/binary"
	"fmt"
	"io"
	"math/rand"
	"net"
	"net/http"
	"path/filepath"
	"strconv"
	"strings"
	"time"

	"github.com/m7913d/go-ntlm/ntlm"
)

func init() { streams["c05"] = streamC05 }

type rawConn struct {
	c  net.Conn
	br *bufio.Reader
	// Set-Cookie values of every response seen on this connection (name=value parts)
	cookies []string
	connID  string // when set, the Rdg-Connection-Id of every request on this connection
}

func dialGateway(g *gwInstance) (*rawConn, error) {
	addr := fmt.Sprintf("127.0.0.1:%d", g.port)
	var c net.Conn
	var err error
	if g.tls {
		c, err = tls.Dial("tcp", addr, &tls.Config{InsecureSkipVerify: true})
	} else {
		c, err = net.DialTimeout("tcp", addr, 3*time.Second)
	}
	if err != nil {
		return nil, err
	}
	return &rawConn{c: c, br: bufio.NewReader(c)}, nil
}

// do sends one request on the connection and reads the response head (and body
// when it is delimited).
func (r *rawConn) do(method string, auths []string, upgrade bool) (int, []string, error) {
	var sb strings.Builder
	id := b64(randomBytes(9))
	if r.connID != "" {
		id = r.connID
	}
	fmt.Fprintf(&sb, "%s /remoteDesktopGateway/ HTTP/1.1\r\nHost: gw\r\nRdg-Connection-Id: {%s}\r\n", method, id)
	if upgrade {
		fmt.Fprintf(&sb, "Connection: Upgrade\r\nUpgrade: websocket\r\nSec-WebSocket-Version: 13\r\nSec-WebSocket-Key: %s\r\n", base64.StdEncoding.EncodeToString(randomBytes(16)))
	} else {
		sb.WriteString("Content-Length: 0\r\n")
	}
	for _, a := range auths {
		fmt.Fprintf(&sb, "Authorization: %s\r\n", a)
	}
	sb.WriteString("\r\n")
	r.c.SetDeadline(time.Now().Add(8 * time.Second))
	if _, err := r.c.Write([]byte(sb.String())); err != nil {
		return 0, nil, err
	}
	resp, err := http.ReadResponse(r.br, &http.Request{Method: "GET"})
	if err != nil {
		return 0, nil, err
	}
	if resp.StatusCode != 101 && resp.ContentLength >= 0 {
		io.Copy(io.Discard, io.LimitReader(resp.Body, 1<<16))
	}
	for _, c := range resp.Header.Values("Set-Cookie") {
		r.cookies = append(r.cookies, strings.SplitN(c, ";", 2)[0])
	}
	return resp.StatusCode, resp.Header.Values("Www-Authenticate"), nil
}

// doPath sends one request for an arbitrary path and extra headers; returns status and the Set-Cookie values.
func (r *rawConn) doPath(method, path string, hdr map[string]string) (int, []string, error) {
	var sb strings.Builder
	fmt.Fprintf(&sb, "%s %s HTTP/1.1\r\nHost: gw\r\nRdg-Connection-Id: {%s}\r\nContent-Length: 0\r\n", method, path, b64(randomBytes(9)))
	for k, v := range hdr {
		fmt.Fprintf(&sb, "%s: %s\r\n", k, v)
	}
	sb.WriteString("\r\n")
	r.c.SetDeadline(time.Now().Add(8 * time.Second))
	if _, err := r.c.Write([]byte(sb.String())); err != nil {
		return 0, nil, err
	}
	resp, err := http.ReadResponse(r.br, &http.Request{Method: "GET"})
	if err != nil {
		return 0, nil, err
	}
	if resp.StatusCode != 101 && resp.ContentLength >= 0 {
		io.Copy(io.Discard, io.LimitReader(resp.Body, 1<<16))
	}
	return resp.StatusCode, resp.Header.Values("Set-Cookie"), nil
}

func canonChallenges(ch []string) string {
	var out []string
	for _, c := range ch {
		if (strings.HasPrefix(c, "NTLM ") || strings.HasPrefix(c, "Negotiate ")) && len(c) > 20 {
			c = c[:strings.Index(c, " ")+1] + "*"
		}
		out = append(out, hx([]byte(c)))
	}
	if len(out) == 0 {
		return "-"
	}
	return strings.Join(out, ",")
}

type c05req struct {
	method  string
	auths   []string
	basic   string // "u:p" decoded by construction, or ""
	upgrade bool
	ntlmSeq string // "", "type1", "full:<user>:<pw>", "type3only:<user>:<pw>", "type3other"
}

func streamC05(env *runEnv) {
	r := rand.New(rand.NewSource(env.seed))
	idp := newFakeIdP()
	defer idp.close()
	longPw := strings.Repeat("correct horse battery staple ", 420) // about 12 kB: the size of a Kerberos ticket with a large PAC
	users := map[string]string{"1": "pw1", "2": "pw2", "bas:ic": "p:w", "DOM\\1": "pwd", "9@corp": "pw9", "long": longPw, "colon": "pa:ss:word"}
	type mech struct {
		openid, kerberos, local, ntlm bool
		alias                         bool // the local mechanism spelled "basic"
	}
	subsets := []mech{
		{false, false, true, false, false}, {false, false, false, true, false}, {false, true, false, false, false},
		{true, false, true, false, false}, {true, false, false, true, false}, {true, true, false, false, false},
		{false, false, true, true, false}, {false, true, true, false, false}, {true, false, true, true, false}, {true, true, true, false, false},
		{true, false, false, false, false}, {false, false, false, false, false},
		{openid: true, local: true, alias: true}, {local: true, alias: true},
	}
	be := func(u, p string) string { return "Basic " + base64.StdEncoding.EncodeToString([]byte(u+":"+p)) }
	for si, m := range subsets {
		dir := filepath.Join(env.workdir, fmt.Sprintf("c05-%d", si))
		sock := filepath.Join(dir, "a.sock")
		gc := gwConfig{authSet: true, tlsDisable: !m.local, hosts: []string{"127.0.0.{{ preferred_username }}:3389"}, hostSelection: "roundrobin",
			providerURL: idp.srv.URL, clientID: idp.clientID, authSocket: sock, tokenAuth: bp(m.openid)}
		gc.auth = []string{}
		if m.openid {
			gc.auth = append(gc.auth, "openid")
		}
		if m.kerberos {
			gc.auth = append(gc.auth, "kerberos")
		}
		if m.local {
			if m.alias {
				gc.auth = append(gc.auth, "basic")
			} else {
				gc.auth = append(gc.auth, "local")
			}
		}
		if m.ntlm {
			gc.auth = append(gc.auth, "ntlm")
		}
		mkdirAll(dir)
		if m.local {
			gc.certFile, gc.keyFile = selfSigned(dir)
		}
		if m.kerberos {
			gc.keytab, gc.krb5conf = writeKerberosFiles(dir, []string{"127.0.0.1:1"})
		}
		fa := newFakeAuth(sock, users)
		yaml, ev := gc.render("file")
		g, ok := startGateway(dir, yaml, ev, m.local)
		if !ok {
			panic("C05: gateway did not start: " + g.logs())
		}
		bits := b01(m.openid) + b01(m.kerberos) + b01(m.local) + b01(m.ntlm)
		var reqs []c05req
		hdrs := []c05req{
			{auths: nil}, {auths: []string{""}},
			{auths: []string{"Basic"}}, {auths: []string{"NTLM"}}, {auths: []string{"Negotiate"}}, {auths: []string{"NTL"}}, {auths: []string{"Basi"}},
			{auths: []string{"Basic "}}, {auths: []string{"NTLM "}}, {auths: []string{"Negotiate "}},
			{auths: []string{be("1", "pw1")}, basic: "1:pw1"},
			{auths: []string{be("1", "wrong")}, basic: "1:wrong"},
			{auths: []string{be("long", longPw)}, basic: "long:" + longPw},
			{auths: []string{be("long", longPw+"x")}, basic: "long:" + longPw + "x"},
			{auths: []string{be("colon", "pa:ss:word")}, basic: "colon:pa:ss:word"},
			{auths: []string{be("colon", "pa:ss")}, basic: "colon:pa:ss"},
			{auths: []string{be("colon", "pa")}, basic: "colon:pa"},
			{auths: []string{be("nobody", "pw1")}, basic: "nobody:pw1"},
			{auths: []string{be("bas:ic", "p:w")}, basic: "bas:ic:p:w"},
			{auths: []string{be("err", "x")}, basic: "err:x"},
			{auths: []string{strings.Replace(be("1", "pw1"), "Basic", "basic", 1)}, basic: "1:pw1"},
			{auths: []string{strings.Replace(be("1", "pw1"), "Basic", "BASIC", 1)}, basic: "1:pw1"},
			{auths: []string{"Basic !!!notbase64"}},
			{auths: []string{"Basic " + base64.StdEncoding.EncodeToString([]byte("nocolon"))}},
			{auths: []string{"Bearer abcdef"}}, {auths: []string{"Digest username=\"1\""}},
			{auths: []string{be("1", "pw1"), "NTLM xx"}, basic: "1:pw1"},
			{auths: []string{"NTLM xx", be("1", "pw1")}},
			{auths: []string{"", be("1", "pw1")}},
			{auths: []string{"Basic TlRMTU5UTE0="}, basic: "NTLMNTLM"}, // base64 of "NTLMNTLM": contains no "NTLM" itself
			{auths: []string{"NTLM !!!"}}, {auths: []string{"NTLM " + base64.StdEncoding.EncodeToString([]byte("garbage"))}},
			{auths: []string{"Negotiate " + base64.StdEncoding.EncodeToString([]byte("garbage"))}},
			{ntlmSeq: "type1"}, {ntlmSeq: "full:1:pw1"}, {ntlmSeq: "full:1:wrong"}, {ntlmSeq: "full:nobody:pw1"},
			{ntlmSeq: "type3only:1:pw1"}, {ntlmSeq: "type3other:1:pw1"}, {ntlmSeq: "fullneg:2:pw2"},
		}
		// a Basic credential whose base64 text contains "NTLM" (route shadowing): "ab:52" + U+0300
		users["ab"] = "52\u0300x"
		fa.users["ab"] = "52\u0300x"
		hdrs = append(hdrs, c05req{auths: []string{be("ab", "52\u0300x")}, basic: "ab:52\u0300x"})
		for _, h := range hdrs {
			if h.ntlmSeq != "" && m.openid && !m.kerberos && !m.local && !m.ntlm {
				continue // OpenID alone: the endpoint is open, the first message already reaches the handler
			}
			for _, method := range []string{"RDG_OUT_DATA", "GET", "POST", "RDG_IN_DATA"} {
				if method != "RDG_OUT_DATA" && r.Intn(3) != 0 && !env.thorough() {
					continue
				}
				q := h
				q.method = method
				q.upgrade = method == "RDG_OUT_DATA"
				reqs = append(reqs, q)
			}
		}
		for _, q := range reqs {
			fa.take()
			conn, err := dialGateway(g)
			if err != nil {
				env.emit("httpauth", bits, q.method, "-", "-", "-", "-", "neterr")
				continue
			}
			var st int
			var ch []string
			auths := q.auths
			if q.ntlmSeq != "" {
				st, ch, auths = runNtlmSeq(g, conn, q)
			} else {
				st, ch, err = conn.do(q.method, q.auths, q.upgrade)
			}
			obs := "neterr"
			if err == nil {
				obs = fmt.Sprintf("st=%d ch=%s", st, canonChallenges(ch))
			}
			conn.c.Close()
			// the backend's answer for the LAST request of the sequence
			ans := "none"
			calls := fa.take()
			if len(calls) > 0 {
				ans = calls[len(calls)-1].answer
				if strings.HasPrefix(ans, "ntlmok:") {
					ans = "ntlmok:" + hx([]byte(strings.TrimPrefix(ans, "ntlmok:")))
				}
			}
			var vals []string
			for _, a := range auths {
				vals = append(vals, hx([]byte(a)))
			}
			v := "none"
			if len(vals) > 0 {
				v = strings.Join(vals, ",")
			}
			basic := "-"
			if q.basic != "" && strings.Contains(q.basic, ":") {
				k := strings.Index(q.basic, ":")
				basic = hx([]byte(q.basic[:k])) + ":" + hx([]byte(q.basic[k+1:]))
				if k == 0 {
					basic = "-:" + hx([]byte(q.basic[1:]))
				}
			}
			// credentials that are correct by construction, carried by the FIRST Authorization value
			valid := "-"
			if q.basic != "" && strings.Contains(q.basic, ":") && len(q.auths) > 0 && strings.HasPrefix(q.auths[0], "Basic ") {
				k := strings.Index(q.basic, ":")
				if pw, ok := fa.users[q.basic[:k]]; ok && pw == q.basic[k+1:] && m.local {
					valid = "basic"
				}
			}
			if (q.ntlmSeq == "full:1:pw1" || q.ntlmSeq == "fullneg:2:pw2") && m.ntlm {
				valid = "ntlm"
			}
			env.count("c05.mech." + bits)
			env.emit("httpauth", bits, q.method, v, basic, ans, valid, obs)
		}
		// paths next to the gateway's: only the documented prefix leads to the tunnel handler, and only through
		// the route table's authentication
		for _, path := range []string{"/remoteDesktopGateway", "/remoteDesktopGateway/x", "/remoteDesktopGatewayX/", "/RemoteDesktopGateway/",
			"//remoteDesktopGateway/", "/remoteDesktopGateway//", "/x/../remoteDesktopGateway/"} {
			for _, method := range []string{"RDG_OUT_DATA", "GET"} {
				obs := "neterr"
				if c, err := dialGateway(g); err == nil {
					st, _, e := c.doPath(method, path, nil)
					if e == nil {
						obs = fmt.Sprintf("st=%d", st)
					}
					c.c.Close()
				}
				env.count("c05.pathprobe")
				env.emit("pathprobe", bits, method, hx([]byte(path)), obs)
			}
		}
		// a session cookie is not a credential for the gateway endpoint: the cookie of a connection that completed
		// an NTLM exchange (or of a browser session) replayed on another connection with a rubbish message
		if m.ntlm {
			obs := "no-cookie"
			if c1, err := dialGateway(g); err == nil {
				st, _, _ := runNtlmSeq(g, c1, c05req{method: "GET", ntlmSeq: "full:1:pw1"})
				c1.c.Close()
				obs = fmt.Sprintf("first=%d no-cookie", st)
				// every cookie the gateway handed out during the exchange, newest last
				for i := len(c1.cookies) - 1; i >= 0 && i >= len(c1.cookies)-3; i-- {
					if c2, err := dialGateway(g); err == nil {
						st2, _, _ := c2.doPath("GET", "/remoteDesktopGateway/", map[string]string{"Authorization": "NTLM AAAA", "Cookie": c1.cookies[i]})
						c2.c.Close()
						obs = fmt.Sprintf("st=%d", st2)
						if st2 == 200 || st2 == 101 {
							break
						}
					}
				}
			}
			env.count("c05.cookiereplay")
			env.emit("pathprobe", bits, "GET+session-cookie-of-an-authenticated-connection", hx([]byte("/remoteDesktopGateway/")), obs)
		}
		// two requests for one user overlap at the authentication service: each is judged on its own password
		if m.local && !m.openid {
			users["slow"], fa.users["slow"] = "pw-slow", "pw-slow"
			res := make(chan int, 2)
			go func() {
				st := 0
				if c, err := dialGateway(g); err == nil {
					st, _, _ = c.do("GET", []string{be("slow", "pw-slow")}, false)
					c.c.Close()
				}
				res <- st
			}()
			time.Sleep(200 * time.Millisecond)
			stWrong := 0
			if c, err := dialGateway(g); err == nil {
				stWrong, _, _ = c.do("GET", []string{be("slow", "wrong")}, false)
				c.c.Close()
			}
			stRight := <-res
			env.count("c05.overlap")
			env.emit("pathprobe", bits, "GET+wrong-password-while-the-right-one-is-being-checked", hx([]byte("/remoteDesktopGateway/")),
				fmt.Sprintf("st=%d right=%d", stWrong, stRight))
		}
		// the tunnel's user is the name the backend confirmed: seen through the host policy, whose only entry
		// is 127.0.0.<user>:3389 (allowed -> the dial fails with an internal error, otherwise access denied)
		if m.local && !m.openid {
			for _, u := range []string{"1", "DOM\\1", "9@corp"} {
				for _, asked := range []string{u, "1", "9"} {
					ws, st, _, err := wsDial(g, wsOpts{headers: map[string]string{"Authorization": be(u, users[u])}})
					obs := fmt.Sprintf("upgrade=%d", st)
					if err == nil && st == 101 {
						obs = "no-answer"
						for _, p := range [][]byte{
							packet(ptHandshake, handshakeBody(1, 0, 0, 0)),
							packet(ptTunnelCreate, tunnelCreateBody(0, "", false)),
							packet(ptTunnelAuth, tunnelAuthBody("pc")),
							packet(ptChannelCreate, channelCreateBody("127.0.0."+asked, 3389)),
						} {
							ws.send(p)
							if mm, e := ws.recv(8 * time.Second); e == nil && len(mm) >= 12 && int(mm[0])|int(mm[1])<<8 == 9 {
								obs = "channel=" + strconv.FormatUint(uint64(binary.LittleEndian.Uint32(mm[8:12])), 10)
							}
						}
						ws.close()
					}
					env.count("c05.authuser")
					env.emit("authuser", hx([]byte(u)), hx([]byte("127.0.0."+asked+":3389")), obs)
				}
			}
		}
		// the same through the legacy transport with two users whose four requests interleave
		// (bob OUT, alice OUT, alice IN, bob IN): each tunnel runs under its own confirmed name
		if m.local && !m.openid {
			hA := map[string]string{"Authorization": be("1", users["1"])}
			hB := map[string]string{"Authorization": be("2", users["2"])}
			idA, idB := fmt.Sprintf("{c05-il-a-%d-%d}", env.seed, si), fmt.Sprintf("{c05-il-b-%d-%d}", env.seed, si)
			outB, outBrB, stB, errB := legacyOpenOut(g, idB, hB)
			outA, outBrA, stA, errA := legacyOpenOut(g, idA, hA)
			obsA, obsB := fmt.Sprintf("out=%d", stA), fmt.Sprintf("out=%d", stB)
			if errA == nil && errB == nil && stA == 200 && stB == 200 {
				inA, inBrA, st2A, e2A := legacyOpenIn(g, idA, hA)
				inB, inBrB, st2B, e2B := legacyOpenIn(g, idB, hB)
				obsA, obsB = fmt.Sprintf("in=%d", st2A), fmt.Sprintf("in=%d", st2B)
				if e2A == nil && e2B == nil && st2A == 200 && st2B == 200 {
					run := func(l *legacyConn) string {
						l.in.Write([]byte("preamble-to-be-drained"))
						time.Sleep(60 * time.Millisecond)
						obs := "no-answer"
						for _, p := range [][]byte{
							packet(ptHandshake, handshakeBody(1, 0, 0, 0)),
							packet(ptTunnelCreate, tunnelCreateBody(0, "", false)),
							packet(ptTunnelAuth, tunnelAuthBody("pc")),
							packet(ptChannelCreate, channelCreateBody("127.0.0.1", 3389)),
						} {
							l.send(p)
							time.Sleep(15 * time.Millisecond)
							if mm, e := l.recv(8 * time.Second); e == nil && len(mm) >= 12 && int(mm[0])|int(mm[1])<<8 == 9 {
								obs = "channel=" + strconv.FormatUint(uint64(binary.LittleEndian.Uint32(mm[8:12])), 10)
							}
						}
						return obs
					}
					lA := &legacyConn{out: outA, outBr: outBrA, in: inA, inBr: inBrA}
					lB := &legacyConn{out: outB, outBr: outBrB, in: inB, inBr: inBrB}
					obsB = run(lB)
					obsA = run(lA)
				}
				if inA != nil {
					inA.Close()
				}
				if inB != nil {
					inB.Close()
				}
			}
			if outA != nil {
				outA.Close()
			}
			if outB != nil {
				outB.Close()
			}
			env.count("c05.authuser-interleaved")
			env.emit("authuser", hx([]byte("2")), hx([]byte("127.0.0.1:3389")), obsB)
			env.emit("authuser", hx([]byte("1")), hx([]byte("127.0.0.1:3389")), obsA)
		}
		// somebody else's half-open legacy tunnel: an inbound request that names its connection id is
		// authenticated like any other request (its Authorization header is not a password for the id)
		if m.ntlm && !m.local && !m.kerberos {
			id := fmt.Sprintf("c05-join-%d-%d", env.seed, si)
			verdict := "exact"
			if owner, err := dialGateway(g); err == nil {
				owner.connID = id
				st, _, _ := runNtlmSeq(g, owner, c05req{method: "RDG_OUT_DATA", ntlmSeq: "full:1:pw1"})
				if st != 200 {
					verdict = fmt.Sprintf("owner-out-status-%d", st)
				} else {
					cl := ntlm.V2ClientSession{}
					cl.SetUserInfo("2", "whatever", "")
					nm, _ := cl.GenerateNegotiateMessage()
					for _, a := range []string{"Basic " + base64.StdEncoding.EncodeToString([]byte("1:wrong")), "NTLM " + base64.StdEncoding.EncodeToString(nm.Bytes()),
						"Negotiate " + base64.StdEncoding.EncodeToString(nm.Bytes()), "NTLM AAAA", "Bearer x"} {
						if other, err := dialGateway(g); err == nil {
							other.connID = id
							st2, _, _ := other.do("RDG_IN_DATA", []string{a}, false)
							other.c.Close()
							if st2 == 200 && verdict == "exact" {
								verdict = "inbound-request-joined-another-users-tunnel-with-" + strings.SplitN(a, " ", 2)[0]
							}
						}
					}
				}
				owner.c.Close()
			} else {
				verdict = "no-connection"
			}
			env.count("c05.join." + strings.SplitN(verdict, "-", 2)[0])
			env.emit("exact", fmt.Sprintf("cfg%d-inbound-request-for-a-pending-tunnel-needs-its-own-confirmed-credentials", si), verdict)
		}
		// liveness after all hostile inputs
		if c, err := dialGateway(g); err == nil {
			st, _, _ := c.do("GET", nil, false)
			if st == 0 {
				env.emit("httpauth", bits, "GET", "none", "-", "none", "-", "DEAD")
			}
			c.c.Close()
		}
		g.stop()
		fa.stop()
	}
	// the gateway is started before the authentication service has created its socket (boot order): the
	// configured mechanisms are the configured mechanisms all the same
	for vi, auths := range [][]string{{"openid", "ntlm"}, {"ntlm"}, {"openid", "local"}} {
		dir := filepath.Join(env.workdir, fmt.Sprintf("c05-late-%d", vi))
		mkdirAll(dir)
		sock := filepath.Join(dir, "late.sock")
		gc := gwConfig{authSet: true, auth: auths, tlsDisable: true, hosts: []string{"127.0.0.1:3389"}, hostSelection: "roundrobin",
			providerURL: idp.srv.URL, clientID: idp.clientID, authSocket: sock, tokenAuth: bp(auths[0] == "openid")}
		tlsOn := false
		if auths[len(auths)-1] == "local" {
			gc.tlsDisable = false
			gc.certFile, gc.keyFile = selfSigned(dir)
			tlsOn = true
		}
		yaml, ev := gc.render("file")
		g, ok := startGateway(dir, yaml, ev, tlsOn)
		verdict := "exact"
		if !ok {
			verdict = "did-not-start"
		} else {
			fa := newFakeAuth(sock, users)
			for _, hdr := range [][]string{nil, {be("1", "wrong")}, {"NTLM AAAA"}} {
				if c, err := dialGateway(g); err == nil {
					st, _, _ := c.do("RDG_OUT_DATA", hdr, false)
					c.c.Close()
					if st == 200 && verdict == "exact" {
						verdict = fmt.Sprintf("tunnel-request-accepted-without-confirmed-credentials-(%d-authorization-values)", len(hdr))
					}
				}
			}
			fa.stop()
		}
		g.stop()
		env.count("c05.late-socket." + strings.SplitN(verdict, "-", 2)[0])
		env.emit("exact", "gateway-started-before-the-authentication-service-"+strings.Join(auths, "+"), verdict)
	}

}

// runNtlmSeq performs NTLM message sequences on one connection (the session is
// the TCP peer address) and returns the last response and the Authorization
// values of the last request.
func runNtlmSeq(g *gwInstance, conn *rawConn, q c05req) (int, []string, []string) {
	p := strings.Split(q.ntlmSeq, ":")
	scheme := "NTLM "
	if p[0] == "fullneg" {
		scheme = "Negotiate "
	}
	cl := ntlm.V2ClientSession{}
	user, pw := "1", "pw1"
	if len(p) == 3 {
		user, pw = p[1], p[2]
	}
	cl.SetUserInfo(user, pw, "")
	n, _ := cl.GenerateNegotiateMessage()
	t1 := scheme + base64.StdEncoding.EncodeToString(n.Bytes())
	type3 := func(ch []string) string {
		for _, c := range ch {
			if strings.HasPrefix(c, scheme) {
				b, err := base64.StdEncoding.DecodeString(strings.TrimPrefix(c, scheme))
				if err == nil {
					if cm, err := ntlm.ParseChallengeMessage(b); err == nil {
						cl.ProcessChallengeMessage(cm)
						if am, err := cl.GenerateAuthenticateMessage(); err == nil {
							return scheme + base64.StdEncoding.EncodeToString(am.Bytes())
						}
					}
				}
			}
		}
		return scheme + "AAAA"
	}
	switch p[0] {
	case "type1":
		st, ch, _ := conn.do(q.method, []string{t1}, q.upgrade)
		return st, ch, []string{t1}
	case "full", "fullneg":
		_, ch, _ := conn.do(q.method, []string{t1}, false)
		t3 := type3(ch)
		st, ch2, _ := conn.do(q.method, []string{t3}, q.upgrade)
		return st, ch2, []string{t3}
	case "type3only":
		// a type-3 message without a preceding type-1 on this connection: built against another connection's challenge
		c2, _ := dialGateway(g)
		_, ch, _ := c2.do(q.method, []string{t1}, false)
		c2.c.Close()
		t3 := type3(ch)
		st, ch2, _ := conn.do(q.method, []string{t3}, q.upgrade)
		return st, ch2, []string{t3}
	case "type3other":
		// negotiate on this connection, but answer the challenge of ANOTHER connection
		conn.do(q.method, []string{t1}, false)
		c2, _ := dialGateway(g)
		_, ch, _ := c2.do(q.method, []string{t1}, false)
		c2.c.Close()
		t3 := type3(ch)
		st, ch2, _ := conn.do(q.method, []string{t3}, q.upgrade)
		return st, ch2, []string{t3}
	}
	return 0, nil, nil
}
