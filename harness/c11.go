package main

import (
	"fmt"
	"net"
	"os"
	"runtime"
	"strings"
	"time"

	"github.com/bolkedebruin/rdpgw/cmd/rdpgw/protocol"
	"github.com/prometheus/client_golang/prometheus"
)

func init() { streams["c11"] = streamC11 }

func gaugeValue(name string) float64 {
	mfs, err := prometheus.DefaultGatherer.Gather()
	if err != nil {
		return -1
	}
	for _, mf := range mfs {
		if mf.GetName() == name && len(mf.GetMetric()) > 0 {
			return mf.GetMetric()[0].GetGauge().GetValue()
		}
	}
	return -1
}

// gatewayGoroutines counts goroutines with a frame in the gateway's packages.
func gatewayGoroutines() int {
	buf := make([]byte, 1<<22)
	n := runtime.Stack(buf, true)
	c := 0
	for _, g := range strings.Split(string(buf[:n]), "\n\n") {
		if strings.Contains(g, "rdpgw/cmd/rdpgw/protocol.") || strings.Contains(g, "rdpgw/cmd/rdpgw/transport.") {
			c++
		}
	}
	return c
}

type resources struct {
	conns      int
	wsGauge    float64
	lgGauge    float64
	goroutines int
}

func snapshotResources() resources {
	return resources{protocol.VerifConnectionCount(), gaugeValue("rdpgw_websocket_connections"), gaugeValue("rdpgw_legacy_connections"), gatewayGoroutines()}
}

func reset(c net.Conn) {
	if tc, ok := c.(*net.TCPConn); ok {
		tc.SetLinger(0)
	}
	c.Close()
}

// streamC11: every point of the exchange x every way of ending x both
// transports; within 2 s the backend must see EOF, the remaining client-facing
// connections must be closed by the gateway, the registry and the gauges must be
// back to their baseline and no gateway goroutine may remain.
func streamC11(env *runEnv) {
	srv := newL2Server(true, 0)
	defer srv.close()
	points := []string{"start", "handshake", "tunnel", "auth", "channel", "data-c2h", "data-h2c", "data-both"}
	causes := []string{"close-channel", "out-of-order", "unframeable", "tcp-close", "tcp-reset", "close-in-only", "close-out-only",
		"repeat-channel-create", "close-in-before-first-byte", "unframeable-while-client-not-reading",
		"out-gone-before-channel-create", "unframeable-in-pieces", "host-first-close-channel", "host-first-close-in-only", "tcp-close-while-host-does-not-read"}
	reps := 1
	if env.thorough() {
		reps = 10
	}
	n := 0
	for rep := 0; rep < reps; rep++ {
		for _, transport := range []string{"ws", "legacy"} {
			for _, point := range points {
				for _, cause := range causes {
					if (cause == "close-in-only" || cause == "close-out-only") && transport == "ws" {
						continue
					}
					// the three special endings each have one place where they make sense
					if cause == "repeat-channel-create" && point != "channel" && point != "data-h2c" {
						continue
					}
					if cause == "close-in-before-first-byte" && !(transport == "legacy" && point == "start") {
						continue
					}
					if cause == "unframeable-while-client-not-reading" && point != "data-h2c" {
						continue
					}
					if cause == "out-gone-before-channel-create" && !(transport == "legacy" && point == "auth") {
						continue
					}
					if strings.HasPrefix(cause, "host-first-") && point != "channel" {
						continue
					}
					if cause == "tcp-close-while-host-does-not-read" && point != "data-both" {
						continue
					}
					if cause == "host-first-close-in-only" && transport == "ws" {
						continue
					}
					n++
					obs := runC11Cell(srv, transport, point, cause, fmt.Sprintf("{c11-%d-%d}", env.seed, n))
					env.count("c11.cell." + transport)
					env.emit("lifecycle", transport, point, cause, obs)
				}
			}
		}
	}
	c11Overlap(env, srv)
}

// c11Overlap: two tunnels whose lifetimes overlap and that end in the order they began (and in the reverse
// order): after each ending the gauges and the registry count exactly the tunnels that are still up.
func c11Overlap(env *runEnv, srv *l2server) {
	for _, transport := range []string{"ws", "legacy"} {
		for _, order := range []string{"first-ends-first", "last-ends-first"} {
			time.Sleep(50 * time.Millisecond)
			base := snapshotResources()
			gauge := func(r resources) float64 {
				if transport == "ws" {
					return r.wsGauge
				}
				return r.lgGauge
			}
			open := func(tag string) tclient {
				c, err := openTunnel(srv.inst, tunnelScript{transport: transport, id: fmt.Sprintf("{c11-overlap-%s-%s-%s-%d}", transport, order, tag, env.seed)})
				if err != nil {
					return nil
				}
				c.send(packet(ptHandshake, handshakeBody(1, 0, 0, 2)))
				c.recv(2 * time.Second)
				return c
			}
			a, b := open("a"), open("b")
			obs := "ERR:open"
			if a != nil && b != nil {
				first, second := a, b
				if order == "last-ends-first" {
					first, second = b, a
				}
				wait := func(want float64, conns int) bool {
					for dl := time.Now().Add(2 * time.Second); time.Now().Before(dl); time.Sleep(10 * time.Millisecond) {
						r := snapshotResources()
						if gauge(r) == gauge(base)+want && r.conns == base.conns+conns {
							return true
						}
					}
					return false
				}
				ok2 := wait(2, 2)
				first.close()
				ok1 := wait(1, 1)
				second.close()
				ok0 := wait(0, 0)
				got := snapshotResources()
				st := func(ok bool) string {
					if ok {
						return "ok"
					}
					return "leak"
				}
				obs = fmt.Sprintf("backend=none client=closed registry=%s gauges=%s goroutines=%s",
					st(got.conns <= base.conns), st(ok2 && ok1 && ok0 && gauge(got) == gauge(base)), st(got.goroutines <= base.goroutines))
			} else {
				if a != nil {
					a.close()
				}
				if b != nil {
					b.close()
				}
			}
			env.count("c11.overlap." + transport)
			env.emit("lifecycle", transport, "handshake", "two-overlapping-tunnels-"+order, obs)
		}
	}
}

func runC11Cell(srv *l2server, transport, point, cause, id string) string {
	time.Sleep(20 * time.Millisecond)
	base := snapshotResources()
	hostStream := []byte{}
	if point == "data-h2c" || point == "data-both" {
		hostStream = []byte(strings.Repeat("<host-data>", 60000)) // keeps the host talking for the whole cell
	}
	stalled := cause == "unframeable-while-client-not-reading"
	if stalled {
		hostStream = []byte(strings.Repeat("<host-data>", 1500000)) // more than the sockets on the way can hold
	}
	noRead := cause == "tcp-close-while-host-does-not-read"
	if noRead {
		hostStream = []byte(strings.Repeat("<host-data>", 3000000)) // keeps writing until a write fails
	}
	b := newTagBackend(hostStream)
	b.pace = 4 * time.Millisecond
	b.noRead = noRead
	if noRead {
		b.pace, b.piece = time.Millisecond, 2000
	}
	if stalled {
		b.pace, b.piece = 0, 65536
	}
	defer b.close()
	host, port := splitHostPort(b.addr)
	if cause == "close-in-before-first-byte" {
		// both channels accepted, then the inbound connection goes away before the client sent anything
		out, outBr, st, err := legacyOpenOut(srv.inst, id, nil)
		if err != nil || st != 200 {
			return "ERR:out"
		}
		in, _, st2, err := legacyOpenIn(srv.inst, id, nil)
		if err != nil || st2 != 200 {
			out.Close()
			return "ERR:in"
		}
		in.Close()
		clientState := "closed"
		out.SetReadDeadline(time.Now().Add(2300 * time.Millisecond))
		buf := make([]byte, 4096)
		for {
			if _, err := outBr.Read(buf); err != nil {
				if ne, ok := err.(net.Error); ok && ne.Timeout() {
					clientState = "open"
				}
				break
			}
		}
		out.Close()
		// the handler's deferred steps run one after the other: give them the same 2 s as everywhere else
		got := snapshotResources()
		for dl := time.Now().Add(2 * time.Second); time.Now().Before(dl); {
			if got.conns <= base.conns && got.wsGauge <= base.wsGauge && got.lgGauge <= base.lgGauge && got.goroutines <= base.goroutines {
				break
			}
			time.Sleep(10 * time.Millisecond)
			got = snapshotResources()
		}
		st3 := func(ok bool) string {
			if ok {
				return "ok"
			}
			return "leak"
		}
		return fmt.Sprintf("backend=none client=%s registry=%s gauges=%s goroutines=%s", clientState,
			st3(got.conns <= base.conns), st3(got.wsGauge <= base.wsGauge && got.lgGauge <= base.lgGauge), st3(got.goroutines <= base.goroutines))
	}
	c, err := openTunnel(srv.inst, tunnelScript{transport: transport, id: id})
	if err != nil {
		if os.Getenv("VERIF_DEBUG_STACK") != "" {
			buf := make([]byte, 1<<22)
			n := runtime.Stack(buf, true)
			os.WriteFile(os.Getenv("VERIF_DEBUG_STACK"), buf[:n], 0o644)
		}
		return "ERR:" + err.Error()
	}
	setup := [][]byte{
		packet(ptHandshake, handshakeBody(1, 0, 0, 2)),
		packet(ptTunnelCreate, tunnelCreateBody(0, "ok|u|"+b.addr, true)),
		packet(ptTunnelAuth, tunnelAuthBody("pc")),
		packet(ptChannelCreate, channelCreateBody(host, port)),
	}
	steps := map[string]int{"start": 0, "handshake": 1, "tunnel": 2, "auth": 3, "channel": 4, "data-c2h": 4, "data-h2c": 4, "data-both": 4}[point]
	for _, p := range setup[:steps] {
		c.send(p)
		if _, err := c.recv(3 * time.Second); err != nil {
			c.close()
			return "ERR:setup"
		}
		if transport == "legacy" {
			time.Sleep(15 * time.Millisecond)
		}
	}
	withBackend := steps == 4
	// data in flight
	stopData := make(chan struct{})
	dataDone := make(chan struct{})
	go func() {
		defer close(dataDone)
		if point != "data-c2h" && point != "data-both" {
			return
		}
		for {
			select {
			case <-stopData:
				return
			default:
			}
			if c.send(packet(ptData, dataBody([]byte(strings.Repeat("c", 500))))) != nil {
				return
			}
			time.Sleep(2 * time.Millisecond)
		}
	}()
	// one reader on the outbound side: drains what the gateway sends and notices when the gateway ends the stream
	outClosed := make(chan struct{})
	startReading := make(chan struct{})
	if !stalled {
		close(startReading)
	}
	go func() {
		<-startReading
		for {
			_, err := c.recv(500 * time.Millisecond)
			if err != nil {
				if ne, ok := err.(net.Error); ok && ne.Timeout() {
					select {
					case <-stopData:
						// keep waiting for the end of the stream, bounded below by the caller
					default:
					}
					continue
				}
				close(outClosed)
				return
			}
		}
	}()
	if point != "channel" && withBackend {
		time.Sleep(40 * time.Millisecond)
	}
	close(stopData)
	<-dataDone
	if transport == "legacy" {
		time.Sleep(20 * time.Millisecond)
	}
	// the end
	switch cause {
	case "close-channel":
		c.send(packet(ptCloseChannel, nil))
	case "out-of-order":
		if steps == 0 {
			c.send(packet(ptTunnelAuth, tunnelAuthBody("pc"))) // a handshake would be in order here
		} else {
			c.send(packet(ptHandshake, handshakeBody(1, 0, 0, 2)))
		}
	case "unframeable":
		c.send(packetWithLen(ptData, nil, 4))
	case "unframeable-while-client-not-reading":
		time.Sleep(600 * time.Millisecond) // the relay is now blocked writing to a client that does not read
		c.send(packetWithLen(ptData, nil, 4))
		// the client starts reading only after the release has been measured (below)
	case "unframeable-in-pieces":
		// a header that announces far more than ever follows; the client stays connected and sends one more short piece
		c.send(packetWithLen(ptData, []byte("twelve bytes"), 60000))
		time.Sleep(60 * time.Millisecond)
		c.send([]byte("and-more"))
	case "host-first-close-channel", "host-first-close-in-only":
		// the remote desktop host ends its connection first; the client ends the tunnel afterwards
		b.hangUp()
		time.Sleep(150 * time.Millisecond)
		if cause == "host-first-close-channel" {
			c.send(packet(ptCloseChannel, nil))
		} else {
			c.(*legacyConn).in.Close()
		}
	case "repeat-channel-create":
		c.send(packet(ptChannelCreate, channelCreateBody(host, port)))
	case "out-gone-before-channel-create":
		// the outbound connection is reset, then the channel is requested on the inbound one: the gateway
		// connects to the host, cannot report it, and must let the host go again when the client leaves
		reset(c.(*legacyConn).out)
		time.Sleep(50 * time.Millisecond)
		c.send(packet(ptChannelCreate, channelCreateBody(host, port)))
		time.Sleep(300 * time.Millisecond)
		c.(*legacyConn).in.Close()
	case "tcp-close":
		c.close()
	case "tcp-close-while-host-does-not-read":
		// the client has uploaded more than the sockets towards the host hold: the packet loop is blocked
		// writing to the host, the relay is busy towards the client; then the client goes away
		go func() {
			for k := 0; k < 3000; k++ {
				if c.send(packet(ptData, dataBody([]byte(strings.Repeat("u", 4000))))) != nil {
					return
				}
			}
		}()
		time.Sleep(1200 * time.Millisecond) // the sender is blocked by now (or done); closing ends it
		c.close()
	case "tcp-reset":
		if ws, ok := c.(*wsConn); ok {
			reset(ws.c)
		} else if l, ok := c.(*legacyConn); ok {
			reset(l.in)
			reset(l.out)
		}
	case "close-in-only":
		c.(*legacyConn).in.Close()
	case "close-out-only":
		c.(*legacyConn).out.Close()
	}
	// close-channel in a phase where it is not valid is just another out-of-order packet
	deadline := time.Now().Add(2 * time.Second)
	var got resources
	backendState := "none"
	for {
		got = snapshotResources()
		_, _, eof := b.snapshot()
		acc, _, _ := b.snapshot()
		if acc > 0 {
			backendState = "open"
			if eof {
				backendState = "released"
			}
		}
		if acc > 0 && eof && !b.allReleased() {
			backendState = "open" // one of several backend connections was not released
			eof = false
		}
		ok := got.conns <= base.conns && got.wsGauge <= base.wsGauge && got.lgGauge <= base.lgGauge && got.goroutines <= base.goroutines &&
			(acc == 0 || eof)
		if ok || time.Now().After(deadline) {
			break
		}
		time.Sleep(10 * time.Millisecond)
	}
	// client-facing connections still open on the gateway's side?
	clientState := "closed"
	waitOut := func() {
		select {
		case <-outClosed:
		case <-time.After(time.Until(deadline) + 300*time.Millisecond):
			clientState = "open"
		}
	}
	probeIn := func(conn net.Conn) { // the inbound legacy connection has no other reader
		conn.SetReadDeadline(time.Now().Add(300 * time.Millisecond))
		buf := make([]byte, 4096)
		for {
			_, err := conn.Read(buf)
			if err != nil {
				if ne, ok := err.(net.Error); ok && ne.Timeout() {
					clientState = "open"
				}
				return
			}
		}
	}
	if stalled {
		close(startReading)
	}
	switch cause {
	case "close-channel", "out-of-order", "unframeable", "repeat-channel-create", "unframeable-while-client-not-reading",
		"unframeable-in-pieces", "host-first-close-channel":
		waitOut()
		if l, ok := c.(*legacyConn); ok {
			probeIn(l.in)
		}
	case "close-in-only", "host-first-close-in-only":
		waitOut()
	case "close-out-only":
		probeIn(c.(*legacyConn).in)
	}
	c.close()
	st := func(ok bool) string {
		if ok {
			return "ok"
		}
		return "leak"
	}
	return fmt.Sprintf("backend=%s client=%s registry=%s gauges=%s goroutines=%s", backendState, clientState,
		st(got.conns <= base.conns), st(got.wsGauge <= base.wsGauge && got.lgGauge <= base.lgGauge), st(got.goroutines <= base.goroutines))
}
