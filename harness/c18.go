package main

import (
	"crypto/tls"
	"encoding/binary"
	"fmt"
	"math/rand"
	"net"
	"net/http"
	"os"
	"path/filepath"
	"strconv"
	"strings"
	"sync"
	"time"
)

func init() { streams["c18"] = streamC18 }

type c18case struct {
	openid, kerberos, local, ntlm bool
	tlsDisable                    bool
	hostsel                       string
	qkLen                         int
	hosts                         int
	keytab                        string // "unset" | "ok" | "missing"
	tokenAuth                     bool
	userTok                       bool
	keyLens                       [5]int // paaEnc, paaSign, userEnc, session, sessionEnc ; -1 = absent
	idpOK                         bool
	krbConfOK                     bool
	via                           string
	extraAuth                     []string
	tlsValue                      string   // a spelling of the Tls setting other than the recognised "disable"
	qIssuer                       bool     // Security.QueryTokenIssuer set (never makes a configuration safer)
	blankEnv                      []string // settings given in the file and set to the empty string in the environment: "qk", "k0".."k4"
}

var c18BlankVars = map[string]string{
	"qk": "RDPGW_SECURITY__QUERY_TOKEN_SIGNING_KEY", "k0": "RDPGW_SECURITY__" + upperSnake("PAATokenEncryptionKey"), "k1": "RDPGW_SECURITY__" + upperSnake("PAATokenSigningKey"),
	"k2": "RDPGW_SECURITY__USER_TOKEN_ENCRYPTION_KEY", "k3": "RDPGW_SERVER__SESSION_KEY", "k4": "RDPGW_SERVER__SESSION_ENCRYPTION_KEY",
}

func (c c18case) blanked(what string) bool {
	for _, b := range c.blankEnv {
		if b == what {
			return true
		}
	}
	return false
}

func keyOfLen(n int, seed byte) *string {
	if n < 0 {
		return nil
	}
	s := strings.Repeat(string(rune('a'+seed%26)), n)
	return &s
}

func (c c18case) fields() []string {
	kl := func(n int) string {
		if n < 0 {
			return "0"
		}
		return strconv.Itoa(n)
	}
	// the environment wins over the file, also with an empty value
	if c.blanked("qk") {
		c.qkLen = 0
	}
	for k := range c.keyLens {
		if c.blanked("k" + strconv.Itoa(k)) {
			c.keyLens[k] = 0
		}
	}
	local := c.local
	for _, a := range c.extraAuth {
		if a == "basic" { // BasicAuthEnabled() also matches "basic"
			local = true
		}
	}
	return []string{b01(c.openid) + b01(c.kerberos) + b01(local) + b01(c.ntlm) + b01(c.tlsDisable), hx([]byte(c.hostsel)), strconv.Itoa(c.qkLen),
		strconv.Itoa(c.hosts), b01(c.keytab != "unset") + b01(c.tokenAuth) + b01(c.userTok),
		kl(c.keyLens[0]) + "," + kl(c.keyLens[1]) + "," + kl(c.keyLens[2]) + "," + kl(c.keyLens[3]) + "," + kl(c.keyLens[4]),
		b01(c.idpOK) + b01(c.keytab == "ok") + b01(c.krbConfOK), c.via}
}

func (c c18case) config(dir string, idp *fakeIdP) gwConfig {
	os.MkdirAll(dir, 0o700)
	g := gwConfig{authSet: true, tlsDisable: c.tlsDisable, tlsValue: c.tlsValue, hostSelection: c.hostsel, tokenAuth: bp(c.tokenAuth), enableUserTok: c.userTok}
	if c.openid {
		g.auth = append(g.auth, "openid")
	}
	if c.kerberos {
		g.auth = append(g.auth, "kerberos")
	}
	if c.local {
		g.auth = append(g.auth, "local")
	}
	if c.ntlm {
		g.auth = append(g.auth, "ntlm")
	}
	g.auth = append(g.auth, c.extraAuth...)
	if g.auth == nil {
		g.auth = []string{}
	}
	if !c.tlsDisable {
		g.certFile, g.keyFile = selfSigned(dir)
	}
	g.hosts = []string{}
	for i := 0; i < c.hosts; i++ {
		g.hosts = append(g.hosts, fmt.Sprintf("10.0.0.%d:3389", i+1))
	}
	if c.qkLen > 0 {
		g.queryKey = strings.Repeat("q", c.qkLen)
	}
	if c.qIssuer {
		g.queryIssuer = "some-issuer"
	}
	kt, conf := writeKerberosFiles(dir, []string{"127.0.0.1:1"})
	switch c.keytab {
	case "ok":
		g.keytab = kt
	case "missing":
		g.keytab = filepath.Join(dir, "does-not-exist.keytab")
	}
	if c.krbConfOK {
		g.krb5conf = conf
	} else {
		g.krb5conf = filepath.Join(dir, "no-such-krb5.conf")
	}
	g.paaEncKey, g.paaSignKey = keyOfLen(c.keyLens[0], 0), keyOfLen(c.keyLens[1], 1)
	if k := keyOfLen(c.keyLens[2], 2); k != nil {
		g.userEncKey = *k
	}
	g.sessionKey, g.sessionEnc = keyOfLen(c.keyLens[3], 3), keyOfLen(c.keyLens[4], 4)
	if c.idpOK {
		g.providerURL = idp.srv.URL
	} else {
		g.providerURL = "http://127.0.0.1:1/nowhere"
	}
	g.clientID = idp.clientID
	g.authSocket = filepath.Join(dir, "auth.sock")
	return g
}

var substMsgs = []string{"security.paatokenencryptionkey", "security.paatokensigningkey", "security.usertokenencryptionkey", "server.sessionkey", "server.sessionencryptionkey"}

func runC18(env *runEnv, idp *fakeIdP, c c18case, n int) {
	dir := filepath.Join(env.workdir, fmt.Sprintf("gw%d", n))
	yaml, ev := c.config(dir, idp).render(c.via)
	for _, b := range c.blankEnv {
		ev = append(ev, c18BlankVars[b]+"=")
	}
	g, started := startGateway(dir, yaml, ev, !c.tlsDisable)
	obs := "fatal"
	if started {
		// give a slow fatal path a moment: the listener is up only after all checks
		time.Sleep(50 * time.Millisecond)
		if g.alive() {
			obs = "started"
		}
	} else if g.alive() {
		obs = "hung"
	}
	logs := g.logs()
	if obs == "started" && !c.tlsDisable {
		// the listener of a configuration that did not disable TLS must speak TLS
		tc, err := tls.DialWithDialer(&net.Dialer{Timeout: 2 * time.Second}, "tcp", fmt.Sprintf("127.0.0.1:%d", g.port), &tls.Config{InsecureSkipVerify: true})
		if err != nil {
			obs = "started-without-tls"
		} else {
			tc.Close()
		}
	}
	if obs == "started" {
		// what the instance serves is what the configuration enabled, mechanism by mechanism
		if sv := c18Serving(g); sv != "" {
			env.count("c18.serving-probe")
			env.emit("serving", c.fields()[0], sv)
		}
	}
	if obs == "started" {
		var ks []string
		for _, m := range substMsgs {
			if strings.Contains(logs, "No valid `"+m+"`") {
				ks = append(ks, "F")
			} else {
				ks = append(ks, "C")
			}
		}
		obs += ":" + strings.Join(ks, "")
	}
	g.stop()
	env.count("c18.start." + strings.SplitN(obs, ":", 2)[0])
	env.emit("config", append(c.fields(), obs)...)
}

// tunnelCreateStatus opens the websocket transport, sends handshake and tunnel
// create with the cookie and returns the tunnel-create status (or -1).
func tunnelCreateStatus(g *gwInstance, cookie string, hdr map[string]string) int64 {
	ws, st, _, err := wsDial(g, wsOpts{headers: hdr})
	if err != nil || st != 101 {
		return -int64(st) - 1000
	}
	defer ws.close()
	ws.send(packet(ptHandshake, handshakeBody(1, 0, 0, 2)))
	if _, err := ws.recv(3 * time.Second); err != nil {
		return -2
	}
	ws.send(packet(ptTunnelCreate, tunnelCreateBody(0, cookie, true)))
	m, err := ws.recv(5 * time.Second)
	if err != nil || len(m) < 14 {
		return -3
	}
	return int64(binary.LittleEndian.Uint32(m[10:14]))
}

func streamC18(env *runEnv) {
	r := rand.New(rand.NewSource(env.seed))
	idp := newFakeIdP()
	defer idp.close()
	var cases []c18case
	base := c18case{openid: true, tlsDisable: true, hostsel: "roundrobin", hosts: 2, keytab: "unset", tokenAuth: true,
		keyLens: [5]int{-1, -1, -1, -1, -1}, idpOK: true, krbConfOK: true, via: "file"}
	add := func(f func(c *c18case)) { c := base; f(&c); cases = append(cases, c) }
	// every mechanism subset x TLS, with the Kerberos files present
	for m := 0; m < 16; m++ {
		for _, tls := range []bool{true, false} {
			add(func(c *c18case) {
				c.openid, c.kerberos, c.local, c.ntlm = m&1 != 0, m&2 != 0, m&4 != 0, m&8 != 0
				c.tlsDisable = tls
				c.keytab = "ok"
				c.via = pick(r, []string{"file", "env", "split"})
			})
		}
	}
	// each rule on its own dimensions
	for _, kt := range []string{"unset", "ok", "missing"} {
		add(func(c *c18case) { c.openid = false; c.kerberos = true; c.keytab = kt })
		add(func(c *c18case) { c.kerberos = true; c.keytab = kt; c.krbConfOK = false })
	}
	for _, hs := range []string{"roundrobin", "signed", "unsigned", "any", "Signed", ""} {
		for _, qk := range []int{0, 1, 32} {
			add(func(c *c18case) { c.hostsel = hs; c.qkLen = qk; c.via = pick(r, []string{"file", "env"}) })
		}
	}
	for _, h := range []int{0, 1, 3} {
		for _, via := range []string{"file", "env", "split"} {
			add(func(c *c18case) { c.hosts = h; c.via = via })
		}
	}
	for _, ta := range []bool{true, false} {
		for _, oid := range []bool{true, false} {
			add(func(c *c18case) {
				c.tokenAuth = ta
				c.openid = oid
				c.local = !oid
				c.tlsDisable = false
				c.via = pick(r, []string{"file", "env", "split"})
			})
		}
	}
	// the rules do not depend on each other: each unsafe combination together with settings that are
	// irrelevant to it (another mechanism next to openid, an issuer next to a missing key, a mechanism
	// other than openid next to an empty host list)
	for _, other := range []string{"local", "ntlm", "kerberos"} {
		add(func(c *c18case) {
			c.tokenAuth = false
			c.openid = true
			switch other {
			case "local":
				c.local, c.tlsDisable = true, false
			case "ntlm":
				c.ntlm = true
			case "kerberos":
				c.kerberos, c.keytab = true, "ok"
			}
			c.via = pick(r, []string{"file", "env"})
		})
	}
	for _, qk := range []int{0, 32} {
		add(func(c *c18case) { c.hostsel = "signed"; c.qkLen = qk; c.qIssuer = true })
	}
	for _, mech := range []string{"local", "ntlm", "kerberos", "none"} {
		add(func(c *c18case) {
			c.hosts = 0
			c.openid = false
			c.tokenAuth = false
			switch mech {
			case "local":
				c.local, c.tlsDisable = true, false
			case "ntlm":
				c.ntlm = true
			case "kerberos":
				c.kerberos, c.keytab = true, "ok"
			}
		})
	}
	// no hosts under every selection mode
	for _, hs := range []string{"roundrobin", "signed", "unsigned", "any"} {
		add(func(c *c18case) { c.hostsel = hs; c.hosts = 0; c.qkLen = 32 })
	}
	// only the exact value "disable" turns TLS off: with another spelling the gateway serves TLS
	// (so local authentication is allowed and the listener speaks TLS)
	for _, v := range []string{"Disable", "DISABLE", "disabled", "auto"} {
		add(func(c *c18case) {
			c.openid = false
			c.local = true
			c.tlsDisable = false
			c.tlsValue = v
			c.via = pick(r, []string{"file", "env"})
		})
	}
	// a setting given by the file and blanked by the environment is empty
	add(func(c *c18case) { c.hostsel = "signed"; c.qkLen = 32; c.blankEnv = []string{"qk"} })
	add(func(c *c18case) { c.hostsel = "signed"; c.qkLen = 32 })
	add(func(c *c18case) { c.keyLens = [5]int{32, 32, 32, 32, 32}; c.blankEnv = []string{"k3", "k4"} })
	add(func(c *c18case) { c.keyLens = [5]int{32, 32, 32, 32, 32}; c.blankEnv = []string{"k0", "k1"} })
	add(func(c *c18case) {
		c.keyLens = [5]int{32, 32, 32, 32, 32}
		c.userTok = true
		c.blankEnv = []string{"k2"}
	})
	// no mechanism at all: nothing is enabled in its place
	add(func(c *c18case) { c.openid = false; c.tokenAuth = false })
	add(func(c *c18case) { c.openid = false; c.tokenAuth = true; c.via = "env" })
	add(func(c *c18case) { c.idpOK = false })
	add(func(c *c18case) {
		c.openid = false
		c.local = true
		c.tlsDisable = false
		c.extraAuth = []string{"basic"}
	})
	add(func(c *c18case) { c.openid = false; c.extraAuth = []string{"basic"} }) // "basic" is local under another name
	// key lengths
	lens := []int{-1, 0, 1, 31, 32, 33}
	nk := 12
	if env.thorough() {
		nk = 120
	}
	for i := 0; i < nk; i++ {
		add(func(c *c18case) {
			for k := range c.keyLens {
				c.keyLens[k] = lens[r.Intn(len(lens))]
			}
			c.userTok = r.Intn(2) == 0
			c.via = pick(r, []string{"file", "env", "split"})
		})
	}
	if env.thorough() {
		for i := 0; i < 300; i++ {
			add(func(c *c18case) {
				m := r.Intn(16)
				c.openid, c.kerberos, c.local, c.ntlm = m&1 != 0, m&2 != 0, m&4 != 0, m&8 != 0
				c.tlsDisable = r.Intn(2) == 0
				c.hostsel = pick(r, []string{"roundrobin", "signed", "unsigned", "any"})
				c.qkLen = pick(r, []int{0, 32})
				c.hosts = pick(r, []int{0, 1, 3})
				c.keytab = pick(r, []string{"unset", "ok", "missing"})
				c.tokenAuth = r.Intn(4) != 0
				c.via = pick(r, []string{"file", "env", "split"})
			})
		}
	}
	var wg sync.WaitGroup
	sem := make(chan struct{}, 12)
	for i, c := range cases {
		wg.Add(1)
		sem <- struct{}{}
		go func(i int, c c18case) {
			defer wg.Done()
			defer func() { <-sem }()
			runC18(env, idp, c, i)
		}(i, c)
	}
	wg.Wait()

	// (b) are the substituted keys really per-instance? tokens and session cookies across two instances
	for ki, mode := range []int{-1, 5, 31, 32, 33} {
		c := base
		c.keyLens = [5]int{mode, mode, mode, mode, mode}
		var gs [2]*gwInstance
		ok := true
		for j := 0; j < 2; j++ {
			dir := filepath.Join(env.workdir, fmt.Sprintf("pair%d-%d", ki, j))
			yaml, ev := c.config(dir, idp).render("file")
			g, started := startGateway(dir, yaml, ev, false)
			gs[j] = g
			ok = ok && started
		}
		obs := "not-started"
		if ok {
			at := fmt.Sprintf("pair-at-%d-%d", env.seed, ki)
			idp.setToken(at, atBehaviour{kind: "valid", sub: "alice"})
			idp.setCode("code-"+at, codeBehaviour{kind: "ok", accessToken: at, claims: map[string]interface{}{"preferred_username": "alice"}})
			b := newBrowser()
			_, cb, _ := b.login(gs[0], "/connect", "code-"+at)
			resp, body, err := b.get(gs[0].base() + "/connect")
			tok, _ := rdpField(body, "gatewayaccesstoken")
			stA, stB, cookieOnB := int64(-9), int64(-9), "nofile"
			if err == nil && resp.StatusCode == 200 && tok != "" {
				stA = tunnelCreateStatus(gs[0], tok, nil)
				stB = tunnelCreateStatus(gs[1], tok, nil)
				// the session cookie of A presented to B
				b2 := newBrowser()
				ua, _ := urlParse(gs[0].base())
				ub, _ := urlParse(gs[1].base())
				b2.jar.SetCookies(ub, b.jar.Cookies(ua))
				r2, body2, e2 := b2.get(gs[1].base() + "/connect")
				if e2 == nil && r2.StatusCode == 200 && strings.Contains(body2, "gatewayaccesstoken") {
					cookieOnB = "file"
				}
			}
			obs = fmt.Sprintf("callback=%d connect=%d tokA_on_A=%d tokA_on_B=%d cookieA_on_B=%s", cb, statusOf(resp), stA, stB, cookieOnB)
		}
		for _, g := range gs {
			if g != nil {
				g.stop()
			}
		}
		kl := mode
		if kl < 0 {
			kl = 0
		}
		env.count("c18.keyshare")
		env.emit("keyshare", strconv.Itoa(kl), obs)
	}
}

// c18Serving probes a started instance: whether the OpenID routes exist, and
// which challenges the gateway endpoint answers a request without credentials with.
func c18Serving(g *gwInstance) string {
	b := newBrowser()
	get := func(path string) (int, []string) {
		req, _ := http.NewRequest("GET", g.base()+path, nil)
		resp, err := b.c.Do(req)
		if err != nil {
			return -1, nil
		}
		defer resp.Body.Close()
		return resp.StatusCode, resp.Header.Values("Www-Authenticate")
	}
	st, _ := get("/connect")
	if st < 0 {
		return "" // not reachable: nothing to say (the TLS probe reports that)
	}
	_, ch := get("/remoteDesktopGateway/")
	has := func(p string) bool {
		for _, h := range ch {
			if strings.HasPrefix(h, p) {
				return true
			}
		}
		return false
	}
	return fmt.Sprintf("openid=%s basic=%s ntlm=%s negotiate=%s", b01(st != 404), b01(has("Basic")), b01(has("NTLM")), b01(has("Negotiate")))
}
