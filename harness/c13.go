package main

import (
	"encoding/base64"
	"fmt"
	"io"
	"math/rand"
	"net/http"
	"net/url"
	"os"
	"path/filepath"
	"reflect"
	"strconv"
	"strings"
	"time"

	"github.com/bolkedebruin/rdpgw/cmd/rdpgw/identity"
)

func init() { streams["c13"] = streamC13 }

// oidcOp is one step of a browser-session history.
type oidcOp struct {
	kind     string // connect | callback
	sess     int
	stateRef int    // callback: which issued state to present (0 = a value never issued)
	cb       string // callback: ok | refuse | noidtoken | badsig | wrongiss | wrongaud | expired | garbage | noname
	user     string
	wait     int
	big      int // extra bytes in the IdP's access token (an identity near or beyond the default size limits)
}

func (o oidcOp) String(t int) string {
	if o.kind == "connect" {
		return fmt.Sprintf("c:%d:%d", o.sess, t)
	}
	return fmt.Sprintf("b:%d:%d:%s:%s:%d", o.sess, o.stateRef, o.cb, hx([]byte(o.user)), t)
}

func startOidcGateway(env *runEnv, idp *fakeIdP, store string, n int) *gwInstance {
	dir := filepath.Join(env.workdir, fmt.Sprintf("oidc-%s-%d", store, n))
	c := gwConfig{authSet: true, auth: []string{"openid"}, tlsDisable: true, hosts: []string{"10.9.8.7:3389"}, sessionStore: store,
		providerURL: idp.srv.URL, clientID: idp.clientID}
	if n >= 2 {
		// sessions kept in files, with room for large identities
		c.maxSessionLen = 32768
	}
	yaml, ev := c.render("file")
	g, ok := startGateway(dir, yaml, ev, false)
	if !ok {
		panic("cannot start the gateway for C13: " + g.logs())
	}
	return g
}

// runOidcHistory plays the ops against the real binary; returns the observation tokens.
func runOidcHistory(g *gwInstance, idp *fakeIdP, ops []oidcOp, tag string) (string, string) {
	browsers := map[int]*browser{}
	var states []string
	var outs, specs []string
	t := 0
	for i, o := range ops {
		if o.wait > 0 {
			time.Sleep(time.Duration(o.wait) * time.Second)
			t += o.wait
		}
		b, ok := browsers[o.sess]
		if !ok {
			b = newBrowser()
			browsers[o.sess] = b
		}
		specs = append(specs, o.String(t))
		switch o.kind {
		case "connect":
			resp, body, err := b.get(g.base() + "/connect")
			switch {
			case err != nil:
				outs = append(outs, "neterr")
			case resp.StatusCode == 302:
				loc, _ := url.Parse(resp.Header.Get("Location"))
				st := loc.Query().Get("state")
				if strings.HasPrefix(resp.Header.Get("Location"), idp.srv.URL) && st != "" {
					states = append(states, st)
					outs = append(outs, "idp")
				} else {
					outs = append(outs, "redirect-elsewhere")
				}
			case resp.StatusCode == 200:
				u, _ := rdpField(body, "username")
				_, hasTok := rdpField(body, "gatewayaccesstoken")
				if hasTok {
					outs = append(outs, "file:"+hx([]byte(u)))
				} else {
					outs = append(outs, "200-without-token")
				}
			default:
				outs = append(outs, "http"+strconv.Itoa(resp.StatusCode))
			}
		case "callback":
			state := "0000000000000000deadbeef00000000"
			if o.stateRef > 0 && o.stateRef <= len(states) {
				state = states[o.stateRef-1]
			}
			code := fmt.Sprintf("code-%s-%d", tag, i)
			at := "at-" + code
			if o.big > 0 {
				// not compressible: what a signed token with many group claims looks like
				rr := rand.New(rand.NewSource(int64(i) + int64(o.big)))
				pad := make([]byte, o.big)
				for k := range pad {
					pad[k] = "ABCDEFGHIJKLMNOPQRSTUVWXYZabcdefghijklmnopqrstuvwxyz0123456789-_"[rr.Intn(64)]
				}
				at += "." + string(pad)
			}
			idp.setToken(at, atBehaviour{kind: "valid", sub: o.user})
			cb := codeBehaviour{kind: o.cb, accessToken: at, claims: map[string]interface{}{}}
			if o.cb == "noname" {
				cb.kind = "ok"
				// no user-name claim, but other identifying claims a lenient reader might fall back to
				cb.claims["email"] = o.user + "@example.com"
				cb.claims["name"] = "Full Name of " + o.user
				cb.claims["nickname"] = o.user
				// and user-name claims that are present but are not a string
				shape := i
				for _, ch := range []byte(tag) {
					shape += int(ch)
				}
				switch shape % 7 {
				case 1:
					cb.claims["preferred_username"] = nil
				case 2:
					cb.claims["upn"] = map[string]interface{}{}
				case 3:
					cb.claims["username"] = []interface{}{nil}
				case 4:
					cb.claims["unique_name"] = true
				case 5:
					cb.claims["preferred_username"] = 4711
				case 6:
					cb.claims["upn"] = []interface{}{o.user}
				}
			} else if o.user != "" {
				cb.claims["preferred_username"] = o.user
			}
			idp.setCode(code, cb)
			extra := ""
			if o.cb == "refuse" || o.cb == "noidtoken" {
				// the request itself carries a genuine ID token of this provider for this client: only what the
				// provider hands over in exchange for the code counts
				extra = "&id_token=" + url.QueryEscape(idp.idToken(codeBehaviour{kind: "ok", accessToken: at, claims: map[string]interface{}{"preferred_username": o.user}}))
			}
			resp, _, err := b.get(g.base() + "/callback?state=" + url.QueryEscape(state) + "&code=" + url.QueryEscape(code) + extra)
			if err != nil {
				outs = append(outs, "neterr")
			} else {
				if o.big > 0 && os.Getenv("VERIF_DEBUG_LOGS") != "" {
					fmt.Fprintf(os.Stderr, "DBG big=%d status=%d hdr=%v\n", o.big, resp.StatusCode, resp.Header)
				}
				outs = append(outs, "cb"+strconv.Itoa(resp.StatusCode))
			}
		}
	}
	return strings.Join(specs, ","), strings.Join(outs, ",")
}

func streamC13(env *runEnv) {
	r := rand.New(rand.NewSource(env.seed))
	idp := newFakeIdP()
	defer idp.close()
	fails := []string{"refuse", "noidtoken", "badsig", "wrongiss", "wrongaud", "wrongaudazp", "expired", "garbage", "noname"}
	for si, store := range []string{"cookie", "file", "file"} {
		g := startOidcGateway(env, idp, store, si)
		n := 0
		run := func(ops []oidcOp) {
			n++
			spec, obs := runOidcHistory(g, idp, ops, fmt.Sprintf("%s%d-%d", store, env.seed, n))
			env.count("c13.history." + store)
			env.emit("oidc", store, spec, obs)
		}
		if si == 2 {
			// identities of every size the store accepts come back as they were saved
			for _, big := range []int{3000, 7000, 8100, 8300, 12000, 16000} {
				run([]oidcOp{{kind: "connect", sess: 1}, {kind: "callback", sess: 1, stateRef: 1, cb: "ok", user: "alice", big: big}, {kind: "connect", sess: 1},
					{kind: "connect", sess: 2}, {kind: "connect", sess: 1}})
			}
			if p := os.Getenv("VERIF_DEBUG_LOGS"); p != "" {
				os.WriteFile(p, []byte(g.logs()), 0o644)
			}
			g.stop()
			continue
		}
		// every failure point x session state
		for _, f := range append([]string{"badstate"}, fails...) {
			mk := func(sess int) oidcOp {
				if f == "badstate" {
					return oidcOp{kind: "callback", sess: sess, stateRef: 0, cb: "ok", user: "mallory"}
				}
				return oidcOp{kind: "callback", sess: sess, stateRef: 1, cb: f, user: "mallory"}
			}
			// new session: the callback is the first request of browser 2 (state issued to browser 1)
			run([]oidcOp{{kind: "connect", sess: 1}, mk(2), {kind: "connect", sess: 2}, {kind: "connect", sess: 1}})
			// unauthenticated session that has a cookie
			run([]oidcOp{{kind: "connect", sess: 1}, mk(1), {kind: "connect", sess: 1}})
			// authenticated session: a later failing callback
			run([]oidcOp{{kind: "connect", sess: 1}, {kind: "callback", sess: 1, stateRef: 1, cb: "ok", user: "alice"}, {kind: "connect", sess: 1},
				mk(1), {kind: "connect", sess: 1}})
		}
		// a user-name claim that is present but not a string is no user-name claim (several shapes)
		for k := 0; k < 7; k++ {
			run([]oidcOp{{kind: "connect", sess: 1}, {kind: "callback", sess: 1, stateRef: 1, cb: "noname", user: "mallory"}, {kind: "connect", sess: 1}})
		}
		// successful logins: names, state reuse, several sessions
		for _, u := range []string{"alice", "bob@example.com", "Ünï", "a b", strings.Repeat("n", 200)} {
			run([]oidcOp{{kind: "connect", sess: 1}, {kind: "callback", sess: 1, stateRef: 1, cb: "ok", user: u}, {kind: "connect", sess: 1},
				{kind: "connect", sess: 2}, {kind: "callback", sess: 2, stateRef: 1, cb: "ok", user: "second"}, {kind: "connect", sess: 2}, {kind: "connect", sess: 1}})
		}
		// random histories
		nh := 25
		if env.thorough() {
			nh = 400
		}
		for i := 0; i < nh; i++ {
			var ops []oidcOp
			issued := 0
			for k := 0; k < 2+r.Intn(7); k++ {
				s := 1 + r.Intn(3)
				if r.Intn(2) == 0 {
					ops = append(ops, oidcOp{kind: "connect", sess: s})
					issued++ // upper bound: only unauthenticated connects issue one; stateRef is clamped below
				} else {
					cb := "ok"
					if r.Intn(2) == 0 {
						cb = fails[r.Intn(len(fails))]
					}
					ops = append(ops, oidcOp{kind: "callback", sess: s, stateRef: r.Intn(issued + 1), cb: cb, user: pick(r, []string{"alice", "bob", "carol"})})
				}
			}
			run(ops)
		}
		if env.thorough() && si == 0 {
			// state expiry (real wait)
			run([]oidcOp{{kind: "connect", sess: 1}, {kind: "callback", sess: 1, stateRef: 1, cb: "ok", user: "late", wait: 125}, {kind: "connect", sess: 1}})
		}
		// session-cookie mutations: every position of a valid authenticated cookie
		b := newBrowser()
		at := fmt.Sprintf("mut-%s-%d", store, env.seed)
		idp.setToken(at, atBehaviour{kind: "valid", sub: "alice"})
		idp.setCode("code-"+at, codeBehaviour{kind: "ok", accessToken: at, claims: map[string]interface{}{"preferred_username": "alice"}})
		b.login(g, "/connect", "code-"+at)
		u, _ := url.Parse(g.base())
		var val string
		for _, c := range b.jar.Cookies(u) {
			if c.Name == "RDPGWSESSION" {
				val = c.Value
			}
		}
		try := func(v string) string {
			req, _ := http.NewRequest("GET", g.base()+"/connect", nil)
			req.Header.Set("Cookie", "RDPGWSESSION="+v)
			resp, err := newBrowser().c.Do(req)
			if err != nil {
				return "neterr"
			}
			defer resp.Body.Close()
			buf := make([]byte, 1<<16)
			k, _ := resp.Body.Read(buf)
			if resp.StatusCode == 200 && strings.Contains(string(buf[:k]), "gatewayaccesstoken") {
				return "file"
			}
			return "nofile"
		}
		orig, _ := base64.URLEncoding.DecodeString(val)
		step := 7
		if env.thorough() {
			step = 1
		}
		emitMut := func(m string) {
			dec, err := base64.URLEncoding.DecodeString(m)
			same := err == nil && string(dec) == string(orig) && len(orig) > 0
			env.count("c13.cookie-mutation")
			env.emit("cookiemut", store, b01(same), hx([]byte(m)), try(m))
		}
		emitMut(val)
		for i := 0; i < len(val); i += step {
			for _, a := range []byte("Aq9_") {
				if val[i] != a {
					emitMut(val[:i] + string(a) + val[i+1:])
					break
				}
			}
			emitMut(val[:i])
		}
		emitMut("")
		emitMut(val + "A")
		g.stop()
	}
	// a provider URL that is not the issuer the provider's discovery document names (trailing slash, alias
	// host): the gateway either refuses to start or, if it serves, still verifies the issuer of every ID token
	for vi, variant := range []string{idp.srv.URL + "/", strings.Replace(idp.srv.URL, "127.0.0.1", "localhost", 1)} {
		dir := filepath.Join(env.workdir, fmt.Sprintf("oidc-alias-%d", vi))
		c := gwConfig{authSet: true, auth: []string{"openid"}, tlsDisable: true, hosts: []string{"10.9.8.7:3389"}, providerURL: variant, clientID: idp.clientID}
		yaml, ev := c.render("file")
		g, ok := startGateway(dir, yaml, ev, false)
		if !ok {
			env.count("c13.provider-url-not-the-issuer.refused-at-start")
			g.stop()
			continue
		}
		env.count("c13.provider-url-not-the-issuer.serving")
		for k, f := range []string{"wrongiss", "badsig", "wrongaud", "expired"} {
			spec, obs := runOidcHistory(g, idp, []oidcOp{{kind: "connect", sess: 1}, {kind: "callback", sess: 1, stateRef: 1, cb: f, user: "mallory"}, {kind: "connect", sess: 1}},
				fmt.Sprintf("alias%d-%d-%d", vi, env.seed, k))
			env.emit("oidc", "cookie", spec, obs)
		}
		g.stop()
	}
	// the provider withdraws a signing key after the gateway has started: tokens signed with it stop verifying
	{
		g := startOidcGateway(env, idp, "cookie", 7)
		tagr := fmt.Sprintf("rot%d", env.seed)
		spec0, obs0 := runOidcHistory(g, idp, []oidcOp{{kind: "connect", sess: 1}, {kind: "callback", sess: 1, stateRef: 1, cb: "ok", user: "alice"}, {kind: "connect", sess: 1}}, tagr+"a")
		env.emit("oidc", "cookie", spec0, obs0)
		idp.rotate()
		// (the verifier keeps the keys it fetched last for as long as they verify: the first login under the new
		// key makes it fetch the provider's current set; from then on the withdrawn key is not a provider key)
		spec1, obs1 := runOidcHistory(g, idp, []oidcOp{{kind: "connect", sess: 3}, {kind: "callback", sess: 3, stateRef: 1, cb: "ok", user: "bob"}, {kind: "connect", sess: 3},
			{kind: "connect", sess: 2}, {kind: "callback", sess: 2, stateRef: 2, cb: "badsig", user: "mallory"}, {kind: "connect", sess: 2}}, tagr+"b")
		env.count("c13.key-withdrawn")
		env.emit("oidc", "cookie", spec1, obs1)
		idp.rotate() // back, for whatever follows
		g.stop()
	}
	// OpenID stacked with a header-based mechanism: a gateway request that authenticates with a password does
	// not log the browser session in (only the callback does), whichever store keeps the sessions
	for vi, store := range []string{"file", "cookie"} {
		dir := filepath.Join(env.workdir, fmt.Sprintf("oidc-stacked-%d", vi))
		mkdirAll(dir)
		sock := filepath.Join(dir, "a.sock")
		c := gwConfig{authSet: true, auth: []string{"openid", "local"}, hosts: []string{"10.9.8.7:3389"}, sessionStore: store,
			providerURL: idp.srv.URL, clientID: idp.clientID, authSocket: sock}
		c.certFile, c.keyFile = selfSigned(dir)
		fa := newFakeAuth(sock, map[string]string{"bob": "secret"})
		yaml, ev := c.render("file")
		g, ok := startGateway(dir, yaml, ev, true)
		if !ok {
			panic("C13: stacked gateway did not start: " + g.logs())
		}
		b := newBrowser()
		verdict := "exact"
		step := func(what string) {
			resp, _, err := b.get(g.base() + "/connect")
			if err != nil {
				verdict = what + ":no-response"
			} else if resp.StatusCode != 302 || !strings.HasPrefix(resp.Header.Get("Location"), idp.srv.URL) {
				verdict = fmt.Sprintf("%s:connect-status-%d", what, resp.StatusCode)
			}
		}
		step("before")
		for _, pw := range []string{"secret", "wrong", "secret"} {
			req, _ := http.NewRequest("GET", g.base()+"/remoteDesktopGateway/", nil)
			req.SetBasicAuth("bob", pw)
			if resp, err := b.c.Do(req); err == nil {
				io.Copy(io.Discard, resp.Body)
				resp.Body.Close()
			}
			if verdict == "exact" {
				step("after-basic-" + pw)
			}
		}
		env.count("c13.stacked." + store)
		env.emit("exact", "connect-after-password-authenticated-gateway-requests-still-goes-to-the-identity-provider-"+store, verdict)
		g.stop()
		fa.stop()
	}
	// identity contents restored unchanged (gob round trip through Marshal/Unmarshal)
	ni := 200
	if env.thorough() {
		ni = 5000
	}
	for i := 0; i < ni; i++ {
		id := identity.NewUser()
		id.SetUserName(randText(r, 20))
		id.SetDomain(randText(r, 10))
		id.SetDisplayName(randText(r, 10))
		id.SetEmail(randText(r, 10))
		id.SetAuthenticated(r.Intn(2) == 0)
		id.SetAuthTime(time.Unix(r.Int63n(1<<33), int64(r.Intn(1e9))).UTC())
		id.SetExpiry(time.Unix(r.Int63n(1<<33), 0).UTC())
		id.SetAttribute(identity.AttrAccessToken, randText(r, 30))
		id.SetAttribute(identity.AttrClientIp, "192.0.2."+strconv.Itoa(r.Intn(255)))
		if r.Intn(2) == 0 {
			id.SetAttribute(identity.AttrProxies, []string{"10.0.0.1", randText(r, 5)})
		}
		obs := "same"
		bts, err := id.Marshal()
		if err != nil {
			obs = "marshal-error"
		} else {
			id2 := identity.NewUser()
			if err := id2.Unmarshal(bts); err != nil {
				obs = "unmarshal-error"
			} else if id2.UserName() != id.UserName() || id2.Domain() != id.Domain() || id2.DisplayName() != id.DisplayName() ||
				id2.Email() != id.Email() || id2.Authenticated() != id.Authenticated() || !id2.AuthTime().Equal(id.AuthTime()) ||
				!id2.Expiry().Equal(id.Expiry()) || id2.SessionId() != id.SessionId() || !reflect.DeepEqual(id2.Attributes(), id.Attributes()) {
				obs = "diff"
			}
		}
		env.count("c13.identity")
		env.emit("identity", strconv.Itoa(i), obs)
	}
}
