package main

import (
	"math/rand"
	"strconv"

	"github.com/bolkedebruin/rdpgw/cmd/rdpgw/protocol"
)

func init() {
	streams["c16"] = streamC16
	replayers["process16"] = func(env *runEnv, e *l1env, f []string) {
		cfg := parseCfg(f[0], f[1], f[2])
		items, live := retargetItems(e, f[3], f[4])
		res := e.runProcess(cfg, items)
		env.emit("process16", f[0], f[1], f[2], live, itemsString(items), res.obs)
	}
}

func streamC16(env *runEnv) {
	r := rand.New(rand.NewSource(env.seed))
	type job struct {
		cfg   procCfg
		kind  int
		seed  int64
	}
	var jobs []job
	idles := []int{-2147483648, -1, 0, 1, 30, 2147483647}
	if env.thorough() {
		idles = append(idles, -2, 2, 1440, 65535, 65536, 1<<31-2, -(1 << 30))
	}
	// all 2^7 redirect combinations x idle timeouts, full exchange and every refusal point
	for m := 0; m < 128; m++ {
		rf := protocol.RedirectFlags{Clipboard: m&1 != 0, Port: m&2 != 0, Drive: m&4 != 0, Printer: m&8 != 0, Pnp: m&16 != 0, DisableAll: m&32 != 0, EnableAll: m&64 != 0}
		for _, idle := range idles {
			for _, caps := range [][2]bool{{true, false}, {false, false}, {true, true}, {false, true}} {
				cfg := procCfg{token: caps[0], smartcard: caps[1], cookieCb: caps[0], hostCb: true, redir: rf, idle: idle}
				kinds := []int{0}
				if m%16 == 5 || env.thorough() {
					kinds = []int{0, 1, 2, 3, 4, 5, 6}
				}
				for _, k := range kinds {
					jobs = append(jobs, job{cfg, k, 0})
				}
			}
		}
	}
	nb := 1000
	if env.thorough() {
		nb = 10000
	}
	for i := 0; i < nb; i++ {
		m := r.Intn(128)
		rf := protocol.RedirectFlags{Clipboard: m&1 != 0, Port: m&2 != 0, Drive: m&4 != 0, Printer: m&8 != 0, Pnp: m&16 != 0, DisableAll: m&32 != 0, EnableAll: m&64 != 0}
		tok := r.Intn(2) == 0
		cfg := procCfg{token: tok, smartcard: r.Intn(2) == 0, cookieCb: tok, hostCb: true, redir: rf, idle: int(int32(r.Uint32()))}
		jobs = append(jobs, job{cfg, 7, r.Int63()})
	}
	parallel(jobs, func(e *l1env, j job) {
		ext := 0
		if j.cfg.token {
			ext = 2
		} else if j.cfg.smartcard {
			ext = 1
		}
		all := [4]bool{true, true, true, true}
		mk := func(ps ...[]byte) []item {
			var it []item
			for _, p := range ps {
				it = append(it, item{data: p, ans: all})
			}
			return it
		}
		hs := packet(ptHandshake, handshakeBody(1, 0, 0, ext))
		tc := packet(ptTunnelCreate, tunnelCreateBody(0, "tok", true))
		ta := packet(ptTunnelAuth, tunnelAuthBody("pc"))
		cc := packet(ptChannelCreate, channelCreateBody("127.0.0.1", e.pool[0].port))
		da := packet(ptData, dataBody([]byte{1, 2, 3}))
		cl := packet(ptCloseChannel, nil)
		var items []item
		switch j.kind {
		case 0: // accepted throughout
			items = mk(hs, tc, ta, cc, da, cl)
		case 1: // capability mismatch
			items = mk(packet(ptHandshake, handshakeBody(1, 0, 0, 4)))
		case 2: // rejected cookie
			items = mk(hs, tc)
			items[1].ans[0] = false
		case 3: // denied host
			items = mk(hs, tc, ta, cc)
			items[3].ans[2] = false
		case 4: // unreachable host
			items = mk(hs, tc, ta, packet(ptChannelCreate, channelCreateBody("127.0.0.1", e.refused.port)))
		case 5: // wrong phase for each setup packet
			items = mk(hs, ta)
		case 6:
			items = mk(hs, tc, cc)
		case 7:
			items = mutatedExchange(rand.New(rand.NewSource(j.seed)), e, j.cfg)
		}
		if j.kind != 7 {
			items = append(items, item{eof: true})
		}
		res := e.runProcess(j.cfg, items)
		env.count("c16.outcome." + strconv.Itoa(j.kind))
		env.emit("process16", j.cfg.bits(), redirBits(j.cfg.redir), strconv.Itoa(j.cfg.idle), e.live(), itemsString(items), res.obs)
	})
}
