package main

import (
	"context"
	"math/rand"
	"strconv"

	"github.com/bolkedebruin/rdpgw/cmd/rdpgw/identity"
	"github.com/bolkedebruin/rdpgw/cmd/rdpgw/protocol"
	"github.com/bolkedebruin/rdpgw/cmd/rdpgw/security"
)

func init() {
	streams["c16"] = streamC16
	replayers["process16"] = func(env *runEnv, e *l1env, f []string) {
		cfg := parseCfg(f[0], f[1], f[2])
		items, live := retargetItems(e, f[3], f[4])
		res := e.runProcess(cfg, items)
		env.emit("process16", f[0], f[1], f[2], live, itemsString(items), res.obs)
	}
}

func streamC16(env *runEnv) {
	r := rand.New(rand.NewSource(env.seed))
	type job struct {
		cfg  procCfg
		kind int
		seed int64
	}
	var jobs []job
	idles := []int{-2147483648, -1, 0, 1, 30, 2147483647}
	if env.thorough() {
		idles = append(idles, -2, 2, 1440, 65535, 65536, 1<<31-2, -(1 << 30))
	}
	// all 2^7 redirect combinations x idle timeouts, full exchange and every refusal point
	for m := 0; m < 128; m++ {
		rf := protocol.RedirectFlags{Clipboard: m&1 != 0, Port: m&2 != 0, Drive: m&4 != 0, Printer: m&8 != 0, Pnp: m&16 != 0, DisableAll: m&32 != 0, EnableAll: m&64 != 0}
		for _, idle := range idles {
			for _, caps := range [][2]bool{{true, false}, {false, false}, {true, true}, {false, true}} {
				cfg := procCfg{token: caps[0], smartcard: caps[1], cookieCb: caps[0], hostCb: true, redir: rf, idle: idle}
				kinds := []int{0}
				if m%16 == 5 || env.thorough() {
					kinds = []int{0, 1, 2, 3, 4, 5, 6}
				}
				for _, k := range kinds {
					jobs = append(jobs, job{cfg, k, 0})
				}
			}
		}
	}
	nb := 1000
	if env.thorough() {
		nb = 10000
	}
	for i := 0; i < nb; i++ {
		m := r.Intn(128)
		rf := protocol.RedirectFlags{Clipboard: m&1 != 0, Port: m&2 != 0, Drive: m&4 != 0, Printer: m&8 != 0, Pnp: m&16 != 0, DisableAll: m&32 != 0, EnableAll: m&64 != 0}
		tok := r.Intn(2) == 0
		cfg := procCfg{token: tok, smartcard: r.Intn(2) == 0, cookieCb: tok, hostCb: true, redir: rf, idle: int(int32(r.Uint32()))}
		jobs = append(jobs, job{cfg, 7, r.Int63()})
	}
	parallel(jobs, func(e *l1env, j job) {
		ext := 0
		if j.cfg.token {
			ext = 2
		} else if j.cfg.smartcard {
			ext = 1
		}
		all := [4]bool{true, true, true, true}
		mk := func(ps ...[]byte) []item {
			var it []item
			for _, p := range ps {
				it = append(it, item{data: p, ans: all})
			}
			return it
		}
		hs := packet(ptHandshake, handshakeBody(1, 0, 0, ext))
		tc := packet(ptTunnelCreate, tunnelCreateBody(0, "tok", true))
		ta := packet(ptTunnelAuth, tunnelAuthBody("pc"))
		cc := packet(ptChannelCreate, channelCreateBody("127.0.0.1", e.pool[0].port))
		da := packet(ptData, dataBody([]byte{1, 2, 3}))
		cl := packet(ptCloseChannel, nil)
		var items []item
		switch j.kind {
		case 0: // accepted throughout
			items = mk(hs, tc, ta, cc, da, cl)
		case 1: // capability mismatch
			items = mk(packet(ptHandshake, handshakeBody(1, 0, 0, 4)))
		case 2: // rejected cookie
			items = mk(hs, tc)
			items[1].ans[0] = false
		case 3: // denied host
			items = mk(hs, tc, ta, cc)
			items[3].ans[2] = false
		case 4: // unreachable host
			items = mk(hs, tc, ta, packet(ptChannelCreate, channelCreateBody("127.0.0.1", e.refused.port)))
		case 5: // wrong phase for each setup packet
			items = mk(hs, ta)
		case 6:
			items = mk(hs, tc, cc)
		case 7:
			items = mutatedExchange(rand.New(rand.NewSource(j.seed)), e, j.cfg)
		}
		if j.kind != 7 {
			items = append(items, item{eof: true})
		}
		res := e.runProcess(j.cfg, items)
		env.count("c16.outcome." + strconv.Itoa(j.kind))
		env.emit("process16", j.cfg.bits(), redirBits(j.cfg.redir), strconv.Itoa(j.cfg.idle), e.live(), itemsString(items), res.obs)
	})
}

// c16pol: the status a denial carries when the denial comes from the REAL policy
// handlers (security.CheckHost reports a refused host together with an error,
// security.CheckSession reports a mismatch without one): the client must be told
// "access denied" either way.
func init() { streams["c16pol"] = streamC16Pol }

func streamC16Pol(env *runEnv) {
	securityMu.Lock()
	defer securityMu.Unlock()
	e := newL1Env(2)
	allowed := e.pool[0].addr
	other := e.pool[1].addr
	for _, tok := range []bool{false, true} {
		for _, req := range []string{allowed, other} {
			for _, mode := range []string{"roundrobin", "unsigned", "signed", "any"} {
				security.Hosts = []string{allowed}
				security.HostSelection = mode
				security.VerifyClientIP = true
				tokhost := allowed
				// the decision, from the policy table (C03 is what checks the table itself)
				want := req == allowed
				switch mode {
				case "signed":
					want = false
				case "any":
					want = true
				}
				if tok && req != tokhost {
					want = false
				}
				ans := [4]bool{true, true, want, true}
				host, port := splitHostPort(req)
				ext := 0
				if tok {
					ext = 2
				}
				items := []item{
					{data: packet(ptHandshake, handshakeBody(1, 0, 0, ext)), ans: ans},
					{data: packet(ptTunnelCreate, tunnelCreateBody(0, "c", tok)), ans: ans},
					{data: packet(ptTunnelAuth, tunnelAuthBody("pc")), ans: ans},
					{data: packet(ptChannelCreate, channelCreateBody(host, port)), ans: ans},
					{eof: true},
				}
				cfg := procCfg{token: tok, cookieCb: tok, hostCb: true}
				tr := &trace{pool: e.pool}
				mt := &memTransport{items: items, tr: tr}
				gw := &protocol.Gateway{TokenAuth: tok}
				id := identity.NewUser()
				id.SetAttribute(identity.AttrClientIp, "192.0.2.7")
				id.SetUserName("bob")
				tun := protocol.VerifNewTunnel(mt, mt, id, "192.0.2.7:5555")
				ctx := context.WithValue(context.Background(), protocol.CtxTunnel, tun)
				ctx = context.WithValue(ctx, identity.CTXKey, identity.Identity(id))
				policy := protocol.CheckHostFunc(security.CheckHost)
				if tok {
					gw.CheckPAACookie = func(ctx context.Context, s string) (bool, error) {
						tr.add("AC:" + hx([]byte(s)) + ":1")
						tun.TargetServer = tokhost
						tun.RemoteAddr = "192.0.2.7"
						tun.User.SetUserName("bob")
						return true, nil
					}
					policy = security.CheckSession(security.CheckHost)
				}
				gw.CheckHost = func(ctx context.Context, h string) (bool, error) {
					ok, err := policy(ctx, h) // the error is handed on exactly as main() wires it
					tr.add("AH:" + hx([]byte(h)) + ":" + b01(ok))
					return ok, err
				}
				p := protocol.NewProcessor(gw, tun)
				obs := finishProcess(e, tr, mt, tun, func() error { return p.Process(ctx) })
				env.count("c16pol." + mode)
				env.emit("process16", cfg.bits(), redirBits(cfg.redir), "0", e.live(), itemsString(items), obs)
				for _, b := range e.pool {
					b.reset()
				}
			}
		}
	}
}
