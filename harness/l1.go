package main

// L1: the real protocol.Processor on an in-memory transport with scripted
// callbacks and loopback backends whose accepts are observed synchronously.

import (
	"context"
	"encoding/binary"
	"encoding/hex"
	"errors"
	"fmt"
	"io"
	"net"
	"os"
	"strconv"
	"strings"
	"sync"
	"syscall"
	"time"

	"github.com/bolkedebruin/rdpgw/cmd/rdpgw/identity"
	"github.com/bolkedebruin/rdpgw/cmd/rdpgw/protocol"
)

func hx(b []byte) string {
	if len(b) == 0 {
		return "-"
	}
	return hex.EncodeToString(b)
}

// ---------------------------------------------------------------- backends

type backendConn struct {
	c    net.Conn
	mu   sync.Mutex
	buf  []byte
	done chan struct{}
}

func (b *backendConn) bytes() []byte {
	b.mu.Lock()
	defer b.mu.Unlock()
	return append([]byte(nil), b.buf...)
}

// backend is a loopback listener whose pending connections are taken with a
// non-blocking accept, so that "was a connection made by now" is a synchronous
// question.
type backend struct {
	l     *net.TCPListener
	addr  string // "127.0.0.1:port"
	port  int
	conns []*backendConn
}

func newBackend() *backend {
	l, err := net.ListenTCP("tcp4", &net.TCPAddr{IP: net.IPv4(127, 0, 0, 1)})
	if err != nil {
		panic(err)
	}
	a := l.Addr().(*net.TCPAddr)
	return &backend{l: l, addr: a.String(), port: a.Port}
}

// poll accepts every pending connection and returns how many were new.
func (b *backend) poll() int {
	n := 0
	rc, err := b.l.SyscallConn()
	if err != nil {
		panic(err)
	}
	for {
		nfd := -1
		rc.Control(func(fd uintptr) {
			f, _, e := syscall.Accept4(int(fd), syscall.SOCK_NONBLOCK|syscall.SOCK_CLOEXEC)
			if e == nil {
				nfd = f
			}
		})
		if nfd < 0 {
			return n
		}
		f := os.NewFile(uintptr(nfd), "backend-conn")
		c, err := net.FileConn(f)
		f.Close()
		if err != nil {
			continue
		}
		bc := &backendConn{c: c, done: make(chan struct{})}
		b.conns = append(b.conns, bc)
		go func() {
			defer close(bc.done)
			buf := make([]byte, 65536)
			for {
				k, err := c.Read(buf)
				if k > 0 {
					bc.mu.Lock()
					bc.buf = append(bc.buf, buf[:k]...)
					bc.mu.Unlock()
				}
				if err != nil {
					return
				}
			}
		}()
		n++
	}
}

func (b *backend) reset() {
	for _, c := range b.conns {
		c.c.Close()
	}
	b.conns = nil
}

// refusedPort returns a loopback port that is bound but not listening, so a
// connection attempt is refused deterministically.
type refused struct {
	fd   int
	port int
}

func newRefused() *refused {
	fd, err := syscall.Socket(syscall.AF_INET, syscall.SOCK_STREAM, 0)
	if err != nil {
		panic(err)
	}
	sa := &syscall.SockaddrInet4{Port: 0, Addr: [4]byte{127, 0, 0, 1}}
	if err := syscall.Bind(fd, sa); err != nil {
		panic(err)
	}
	got, _ := syscall.Getsockname(fd)
	return &refused{fd: fd, port: got.(*syscall.SockaddrInet4).Port}
}

// ---------------------------------------------------------------- transport

type item struct {
	eof  bool
	data []byte
	ans  [4]bool // cookie, name, host, dial
}

func (it item) String() string {
	if it.eof {
		return "E"
	}
	a := ""
	for _, b := range it.ans {
		if b {
			a += "1"
		} else {
			a += "0"
		}
	}
	return "D:" + hx(it.data) + ":" + a
}

func itemsString(items []item) string {
	if len(items) == 0 {
		return "-"
	}
	s := make([]string, len(items))
	for i, it := range items {
		s[i] = it.String()
	}
	return strings.Join(s, ",")
}

// trace is the ordered observation log of one tunnel.
type trace struct {
	mu     sync.Mutex
	toks   []string
	pool   []*backend
	byAddr map[string]*backend
}

func (t *trace) sync() {
	for _, b := range t.pool {
		before := len(b.conns)
		if b.poll() > 0 {
			for range b.conns[before:] {
				t.toks = append(t.toks, "D:"+hx([]byte(b.addr)))
			}
		}
	}
}

func (t *trace) add(tok string) {
	t.mu.Lock()
	t.sync()
	t.toks = append(t.toks, tok)
	t.mu.Unlock()
}

type memTransport struct {
	items  []item
	pos    int
	reads  int
	tr     *trace
	closed bool
}

func (m *memTransport) ReadPacket() (int, []byte, error) {
	m.reads++
	if m.pos >= len(m.items) || m.items[m.pos].eof {
		if m.pos < len(m.items) {
			m.pos++
		}
		return 0, []byte{0, 0}, io.EOF
	}
	it := m.items[m.pos]
	m.pos++
	p := append([]byte(nil), it.data...)
	return len(p), p, nil
}

func (m *memTransport) current() item {
	if m.pos == 0 {
		return item{}
	}
	return m.items[m.pos-1]
}

func (m *memTransport) WritePacket(b []byte) (int, error) {
	m.tr.add(respToken(b))
	return len(b), nil
}

func (m *memTransport) Close() error { m.closed = true; return nil }

// respToken decodes type and status independently of the repository's code.
func respToken(b []byte) string {
	if len(b) < 8 {
		return "R0:x:" + hx(b)
	}
	ty := int(binary.LittleEndian.Uint16(b[0:2]))
	body := b[8:]
	off := 0
	if ty == 5 { // tunnel response: serverVersion u16 first
		off = 2
	}
	if ty == 10 { // data packet from the host
		return "R10:0:" + hx(b)
	}
	st := "x"
	if len(body) >= off+4 {
		st = strconv.FormatUint(uint64(binary.LittleEndian.Uint32(body[off:off+4])), 10)
	}
	return fmt.Sprintf("R%d:%s:%s", ty, st, hx(b))
}

type procCfg struct {
	token, smartcard, cookieCb, nameCb, hostCb bool
	redir                                      protocol.RedirectFlags
	idle                                       int
}

func b01(b bool) string {
	if b {
		return "1"
	}
	return "0"
}

func (c procCfg) bits() string {
	return b01(c.token) + b01(c.smartcard) + b01(c.cookieCb) + b01(c.nameCb) + b01(c.hostCb)
}

func redirBits(r protocol.RedirectFlags) string {
	return b01(r.Clipboard) + b01(r.Port) + b01(r.Drive) + b01(r.Printer) + b01(r.Pnp) + b01(r.DisableAll) + b01(r.EnableAll)
}

// l1env owns the backends of one worker.
type l1env struct {
	pool    []*backend
	refused *refused
}

func newL1Env(n int) *l1env {
	e := &l1env{refused: newRefused()}
	for i := 0; i < n; i++ {
		e.pool = append(e.pool, newBackend())
	}
	return e
}

// live lists the addresses that accept connections, for the model's environment.
func (e *l1env) live() string {
	var s []string
	for _, b := range e.pool {
		s = append(s, hx([]byte(b.addr)))
	}
	// an address with an empty host names the local host for the kernel: ":p" reaches the
	// listener on 127.0.0.1:p (the interpretation of address strings is the environment's)
	for _, b := range e.pool {
		s = append(s, hx([]byte(fmt.Sprintf(":%d", b.port))))
	}
	// likewise an IPv4 literal in brackets: Go's dialer takes "[127.0.0.1]:p" for 127.0.0.1:p
	for _, b := range e.pool {
		if strings.HasPrefix(b.addr, "127.0.0.1:") {
			s = append(s, hx([]byte(fmt.Sprintf("[127.0.0.1]:%d", b.port))))
		}
	}
	return strings.Join(s, ",")
}

type procResult struct {
	obs      string
	panicked string
}

// runProcess runs the real Processor.Process over the items and returns the
// canonical observation string.
func (e *l1env) runProcess(c procCfg, items []item) (res procResult) {
	tr := &trace{pool: e.pool}
	mt := &memTransport{items: items, tr: tr}
	gw := &protocol.Gateway{
		RedirectFlags: c.redir,
		IdleTimeout:   c.idle,
		SmartCardAuth: c.smartcard,
		TokenAuth:     c.token,
	}
	if c.cookieCb {
		gw.CheckPAACookie = func(ctx context.Context, s string) (bool, error) {
			ok := mt.current().ans[0]
			tr.add("AC:" + hx([]byte(s)) + ":" + b01(ok))
			if !ok {
				return false, errors.New("scripted refusal")
			}
			return true, nil
		}
	}
	if c.nameCb {
		gw.CheckClientName = func(ctx context.Context, s string) (bool, error) {
			ok := mt.current().ans[1]
			tr.add("AN:" + hx([]byte(s)) + ":" + b01(ok))
			return ok, nil
		}
	}
	if c.hostCb {
		gw.CheckHost = func(ctx context.Context, s string) (bool, error) {
			ok := mt.current().ans[2]
			tr.add("AH:" + hx([]byte(s)) + ":" + b01(ok))
			return ok, nil
		}
	}
	id := identity.NewUser()
	id.SetAttribute(identity.AttrClientIp, "192.0.2.1")
	tun := protocol.VerifNewTunnel(mt, mt, id, "192.0.2.1:1234")
	p := protocol.NewProcessor(gw, tun)

	res.obs = finishProcess(e, tr, mt, tun, func() error { return p.Process(context.Background()) })
	if strings.Contains(res.obs, "PANIC") {
		res.panicked = "panic"
	}
	return
}

// finishProcess runs the processor and assembles the canonical observation.
func finishProcess(e *l1env, tr *trace, mt *memTransport, tun *protocol.Tunnel, run func() error) string {
	var err error
	panicked := ""
	func() {
		defer func() {
			if r := recover(); r != nil {
				panicked = fmt.Sprint(r)
			}
		}()
		err = run()
	}()
	tr.mu.Lock()
	tr.sync()
	tr.mu.Unlock()
	if panicked != "" {
		tr.add("PANIC")
	} else if err == nil {
		tr.add("E:ok")
	} else {
		tr.add("E:err")
	}
	// let the backend see EOF so that all relayed bytes are collected
	if rwc := tun.VerifRwc(); rwc != nil {
		rwc.Close()
	}
	var host []byte
	for _, b := range e.pool {
		for _, bc := range b.conns {
			select {
			case <-bc.done:
			case <-time.After(3 * time.Second):
				tr.toks = append(tr.toks, "BACKEND-NOT-CLOSED")
			}
			host = append(host, bc.bytes()...)
		}
		b.reset()
	}
	// the listener is identified by its own address; when the dial string had an empty host
	// (":p") report the connection under the string that was dialed
	if ts := tun.TargetServer; strings.HasPrefix(ts, ":") {
		for i, t := range tr.toks {
			if t == "D:"+hx([]byte("127.0.0.1"+ts)) {
				tr.toks[i] = "D:" + hx([]byte(ts))
			}
		}
	}
	if ts := tun.TargetServer; strings.HasPrefix(ts, "[127.0.0.1]:") {
		for i, t := range tr.toks {
			if t == "D:"+hx([]byte("127.0.0.1"+strings.TrimPrefix(ts, "[127.0.0.1]"))) {
				tr.toks[i] = "D:" + hx([]byte(ts))
			}
		}
	}
	tr.toks = append(tr.toks, "H:"+hx(host))
	tr.toks = append(tr.toks, "N:"+strconv.Itoa(mt.reads))
	return strings.Join(tr.toks, " ")
}
