package main

import (
	"encoding/base64"
	"fmt"
	"math/rand"
	"path/filepath"
	"strconv"
	"time"
)

func init() {
	streams["c01"] = streamC01
	streams["replay"] = streamReplay
}

// symbol of the small-scope alphabet: produces the packet for one step.
type symbol struct {
	name string
	mk   func(e *l1env, dialOK bool) []byte
}

func alphabet(tok bool) []symbol {
	ext := 0
	if tok {
		ext = 2
	}
	return []symbol{
		{"HS", func(e *l1env, dialOK bool) []byte { return packet(ptHandshake, handshakeBody(1, 0, 0, ext)) }},
		{"HSbad", func(e *l1env, dialOK bool) []byte { return packet(ptHandshake, handshakeBody(1, 0, 0, 4)) }},
		// smart-card bit only: succeeds where smart-card authentication is enabled, and must not relax the cookie check
		{"HSsc", func(e *l1env, dialOK bool) []byte { return packet(ptHandshake, handshakeBody(1, 0, 0, 1)) }},
		{"TC", func(e *l1env, dialOK bool) []byte { return packet(ptTunnelCreate, tunnelCreateBody(0, "", false)) }},
		{"TCc", func(e *l1env, dialOK bool) []byte { return packet(ptTunnelCreate, tunnelCreateBody(0, "tok", true)) }},
		{"TA", func(e *l1env, dialOK bool) []byte { return packet(ptTunnelAuth, tunnelAuthBody("pc")) }},
		{"CC", func(e *l1env, dialOK bool) []byte {
			if dialOK {
				return packet(ptChannelCreate, channelCreateBody("127.0.0.1", e.pool[0].port))
			}
			return packet(ptChannelCreate, channelCreateBody("127.0.0.1", e.refused.port))
		}},
		{"DATA", func(e *l1env, dialOK bool) []byte { return packet(ptData, dataBody([]byte{0xde, 0xad})) }},
		{"KA", func(e *l1env, dialOK bool) []byte { return packet(ptKeepalive, nil) }},
		{"CLOSE", func(e *l1env, dialOK bool) []byte { return packet(ptCloseChannel, nil) }},
		{"UNK", func(e *l1env, dialOK bool) []byte { return packet(0x33, []byte{1, 2, 3}) }},
		{"CCempty", func(e *l1env, dialOK bool) []byte { return packet(ptChannelCreate, nil) }},
	}
}

var happy = []string{"HS", "TCc", "TA", "CC", "DATA"}

type c01job struct {
	cfg   procCfg
	syms  []int // indexes into the alphabet
	ans   [4]bool
	items []item // when non-nil, used instead of syms
	tag   string
}

func streamC01(env *runEnv) {
	r := rand.New(rand.NewSource(env.seed))
	var jobs []c01job
	cfgs := []procCfg{
		{token: true, cookieCb: true, hostCb: true},
		{token: false, cookieCb: false, hostCb: true},
		{token: true, smartcard: true, cookieCb: true, nameCb: true, hostCb: true},
		{token: false},
	}
	answers := [][4]bool{{true, true, true, true}, {false, true, true, true}, {true, true, false, true}, {true, true, true, false}, {true, false, true, true}}
	contLen := 2
	if env.thorough() {
		contLen = 3
	}
	// (a) exhaustive small scope: every valid prefix followed by every
	// continuation of length <= contLen over the 12-symbol alphabet
	for ci, cfg := range cfgs {
		al := alphabet(cfg.token)
		idx := map[string]int{}
		for i, s := range al {
			idx[s.name] = i
		}
		for pre := 0; pre <= len(happy); pre++ {
			var prefix []int
			for _, n := range happy[:pre] {
				prefix = append(prefix, idx[n])
			}
			var conts [][]int
			var rec func(cur []int)
			rec = func(cur []int) {
				conts = append(conts, append([]int(nil), cur...))
				if len(cur) == contLen {
					return
				}
				for i := range al {
					rec(append(cur, i))
				}
			}
			rec(nil)
			for _, cont := range conts {
				for ai, a := range answers {
					// answers other than all-true only matter where they are consulted
					if ai > 0 && ci == 3 {
						continue
					}
					if ai == 4 && !cfg.nameCb {
						continue
					}
					jobs = append(jobs, c01job{cfg: cfg, syms: append(append([]int(nil), prefix...), cont...), ans: a, tag: "small"})
				}
			}
		}
	}
	// (b) structured random: mutated valid exchanges with random bodies,
	// fragmentation and coalescing
	nb := 2000
	if env.thorough() {
		nb = 50000
	}
	for i := 0; i < nb; i++ {
		jobs = append(jobs, c01job{cfg: cfgs[r.Intn(len(cfgs))], tag: "mut", ans: [4]bool{true, true, true, true}, items: nil, syms: []int{-1 - r.Intn(1<<30)}})
	}
	parallel(jobs, func(e *l1env, j c01job) {
		var items []item
		if j.tag == "small" {
			al := alphabet(j.cfg.token)
			for _, s := range j.syms {
				a := j.ans
				if al[s].name == "CCempty" {
					a[3] = false // ":0" is never connectable
				}
				items = append(items, item{data: al[s].mk(e, j.ans[3]), ans: a})
			}
			items = append(items, item{eof: true})
		} else {
			items = mutatedExchange(rand.New(rand.NewSource(int64(j.syms[0]))), e, j.cfg)
		}
		res := e.runProcess(j.cfg, items)
		env.count("c01." + j.tag)
		env.count(fmt.Sprintf("c01.len.%d", len(items)))
		env.emit("process", j.cfg.bits(), redirBits(j.cfg.redir), strconv.Itoa(j.cfg.idle), e.live(), itemsString(items), res.obs)
	})
}

// mutatedExchange starts from a valid exchange and applies 0-3 mutations.
func mutatedExchange(r *rand.Rand, e *l1env, cfg procCfg) []item {
	ext := 0
	if cfg.token {
		ext = 2
	}
	if cfg.smartcard && r.Intn(2) == 0 {
		ext |= 1
	}
	live := r.Intn(6) != 0
	all := [4]bool{true, true, true, live}
	port := e.pool[r.Intn(len(e.pool))].port
	if !live {
		port = e.refused.port
	}
	isCC := func(d []byte) bool { return len(d) >= 2 && int(d[0])|int(d[1])<<8 == ptChannelCreate }
	pk := [][]byte{
		packet(ptHandshake, handshakeBody(byte(r.Intn(3)), byte(r.Intn(3)), 0, ext)),
		packet(ptTunnelCreate, tunnelCreateBody(uint32(r.Intn(64)), pick(r, []string{"", "a", "tok.en.x", "ünï"}), r.Intn(4) != 0)),
		packet(ptTunnelAuth, tunnelAuthBody(pick(r, []string{"pc", "", "CLIENT-01"}))),
		packet(ptChannelCreate, channelCreateBody("127.0.0.1", port)),
	}
	nd := r.Intn(4)
	for i := 0; i < nd; i++ {
		if r.Intn(3) == 0 {
			pk = append(pk, packet(ptKeepalive, nil))
		}
		pk = append(pk, packet(ptData, dataBody(randBytes(r, r.Intn(40)))))
	}
	if r.Intn(3) != 0 {
		pk = append(pk, packet(ptCloseChannel, nil))
	}
	var items []item
	for _, p := range pk {
		items = append(items, item{data: p, ans: all})
	}
	nm := r.Intn(4)
	for m := 0; m < nm && len(items) > 0; m++ {
		i := r.Intn(len(items))
		switch r.Intn(9) {
		case 0: // skip
			items = append(items[:i], items[i+1:]...)
		case 1: // repeat
			items = append(items[:i+1], items[i:]...)
		case 2: // swap
			j := r.Intn(len(items))
			items[i], items[j] = items[j], items[i]
		case 3: // insert foreign
			f := item{data: packet(pick(r, []int{2, 3, 5, 7, 9, 0xB, 0xC, 0x11, 0x33, 0xFFFF, ptData, ptKeepalive, ptCloseChannel, ptHandshake, ptTunnelCreate, ptTunnelAuth}), randBytes(r, r.Intn(12))), ans: all}
			items = append(items[:i], append([]item{f}, items[i:]...)...)
		case 4: // truncate body
			d := items[i].data
			if len(d) > 8 && !isCC(d) {
				k := 8 + r.Intn(len(d)-8)
				items[i].data = packetWithLen(int(d[0])|int(d[1])<<8, d[8:k], uint32(k))
			}
		case 5: // flip a body byte
			d := append([]byte(nil), items[i].data...)
			if len(d) > 8 && !isCC(d) {
				d[8+r.Intn(len(d)-8)] ^= byte(1 << uint(r.Intn(8)))
			}
			items[i].data = d
		case 6: // refuse one answer
			a := items[i].ans
			a[r.Intn(3)] = false
			items[i].ans = a
		case 7: // fragment into two reads
			d := items[i].data
			if len(d) > 1 {
				k := 1 + r.Intn(len(d)-1)
				a, b := item{data: d[:k], ans: items[i].ans}, item{data: d[k:], ans: items[i].ans}
				items = append(items[:i], append([]item{a, b}, items[i+1:]...)...)
			}
		case 8: // coalesce with the next read
			if i+1 < len(items) {
				items[i].data = cat(items[i].data, items[i+1].data)
				items = append(items[:i+1], items[i+2:]...)
			}
		}
	}
	items = append(items, item{eof: true})
	return items
}

// streamReplay re-runs the case lines of a replay file through the real code.
func streamReplay(env *runEnv) {
	replayLines(env)
}

// ---------------------------------------------------------------- L3: wiring of the callbacks in main()
//
// The real binary with Basic authentication (fake authentication service) over TLS,
// token authentication on (the default) and off: which checks guard the tunnel is
// decided in main(), not in the packet loop. No OpenID provider is configured, so no
// cookie can be a minted one: every presented cookie must be refused under token
// authentication. Compared with the processor model under Processor.wired.
func init() { streams["c01l3"] = streamC01L3 }

func streamC01L3(env *runEnv) {
	if rdpgwBinary == "" {
		return
	}
	users := map[string]string{"1": "pw1"}
	basic := "Basic " + base64.StdEncoding.EncodeToString([]byte("1:pw1"))
	for ci, tok := range []bool{true, false} {
		dir := filepath.Join(env.workdir, fmt.Sprintf("c01l3-%d", ci))
		mkdirAll(dir)
		sock := filepath.Join(dir, "a.sock")
		b := newTagBackend([]byte("<host-says-hello>"))
		other := newTagBackend([]byte("<other-host>"))
		gc := gwConfig{authSet: true, auth: []string{"local"}, hosts: []string{b.addr}, hostSelection: "roundrobin",
			authSocket: sock, tokenAuth: bp(tok)}
		gc.certFile, gc.keyFile = selfSigned(dir)
		fa := newFakeAuth(sock, users)
		yaml, ev := gc.render("file")
		g, ok := startGateway(dir, yaml, ev, true)
		if !ok {
			panic("C01 L3: gateway did not start: " + g.logs())
		}
		host, port := splitHostPort(b.addr)
		oh, op := splitHostPort(other.addr)
		ext := 0
		if tok {
			ext = 2
		}
		type sc struct {
			name string
			pk   [][]byte
		}
		full := func(cookie string, withCookie bool, h string, p int) [][]byte {
			return [][]byte{
				packet(ptHandshake, handshakeBody(1, 0, 0, ext)),
				packet(ptTunnelCreate, tunnelCreateBody(0, cookie, withCookie)),
				packet(ptTunnelAuth, tunnelAuthBody("pc")),
				packet(ptChannelCreate, channelCreateBody(h, p)),
				packet(ptData, dataBody([]byte("client-bytes"))),
				packet(ptCloseChannel, nil),
			}
		}
		scripts := []sc{
			{"garbage-cookie", full("this-is-not-a-token", true, host, port)},
			{"empty-cookie", full("", true, host, port)},
			{"no-cookie", full("", false, host, port)},
			{"unsigned-jwt", full("eyJhbGciOiJub25lIn0.eyJpc3MiOiJyZHBndyJ9.", true, host, port)},
			{"other-host", full("x", true, oh, op)},
			{"skip-tunnel-create", full("x", true, host, port)[:1]},
		}
		scripts[5].pk = append(scripts[5].pk, packet(ptTunnelAuth, tunnelAuthBody("pc")), packet(ptChannelCreate, channelCreateBody(host, port)))
		for si, s := range scripts {
			for _, tr := range []string{"ws", "legacy"} {
				a0, _, _ := b.snapshot()
				o0, _, _ := other.snapshot()
				res := runTunnel(g, tunnelScript{transport: tr, id: fmt.Sprintf("{c01l3-%d-%d-%s}", ci, si, tr), packets: s.pk, auth: basic})
				time.Sleep(50 * time.Millisecond)
				a1, _, _ := b.snapshot()
				o1, _, _ := other.snapshot()
				obs := "ERR:" + res.err
				if res.err == "" {
					obs = fmt.Sprintf("R=%s D=%d O=%d X=%s", respTokens(res.responses), a1-a0, o1-o0, b01(res.closed))
				}
				var items []item
				for _, p := range s.pk {
					items = append(items, item{data: p, ans: [4]bool{false, true, true, true}})
				}
				env.count("c01l3." + s.name)
				env.emit("wiring", b01(tok), hx([]byte(b.addr)), hx([]byte("1")), itemsString(items), obs)
			}
		}
		if !g.alive() {
			env.emit("alive", "c01l3-gateway", "process-exited")
		}
		g.stop()
		fa.stop()
		b.close()
		other.close()
	}
}
