package main

import (
	"encoding/binary"
	"fmt"
	"math/rand"
	"net"
	"strconv"
	"strings"
	"sync"
	"time"
)

func init() { streams["c07"] = streamC07 }

// tagBackend: one listener per tunnel; logs accepts and bytes; writes its own stream.
type tagBackend struct {
	l          net.Listener
	addr       string
	mu         sync.Mutex
	accepts    int
	got        []byte
	sends      []byte
	eof        bool
	conns      []net.Conn
	pace       time.Duration // pause between the backend's writes
	piece      int           // bytes per write (0: 1000)
	eofs       int           // connections that saw the end of their stream
	slowReader time.Duration // pause after every read (a host that drains its socket slowly)
	noRead     bool          // a host that sends but never reads what the client sends: it notices the end when a write fails
}

func newTagBackend(sends []byte) *tagBackend {
	l, err := net.Listen("tcp4", "127.0.0.1:0")
	for try := 0; err != nil && try < 100; try++ {
		// ports or descriptors are short for a moment (thousands of tunnels a second): wait for the kernel
		time.Sleep(100 * time.Millisecond)
		l, err = net.Listen("tcp4", "127.0.0.1:0")
	}
	if err != nil {
		panic("harness: cannot listen on loopback: " + err.Error())
	}
	b := &tagBackend{l: l, addr: l.Addr().String(), sends: sends}
	go func() {
		for {
			c, err := l.Accept()
			if err != nil {
				return
			}
			b.mu.Lock()
			b.accepts++
			b.conns = append(b.conns, c)
			b.mu.Unlock()
			go func() {
				if len(b.sends) > 0 {
					// several writes so that the relay sees several reads
					piece := b.piece
					if piece == 0 {
						piece = 1000
					}
					for off := 0; off < len(b.sends); off += piece {
						end := off + piece
						if end > len(b.sends) {
							end = len(b.sends)
						}
						if _, werr := c.Write(b.sends[off:end]); werr != nil && b.noRead {
							b.mu.Lock()
							b.eof = true
							b.eofs++
							b.mu.Unlock()
							return
						}
						if b.pace > 0 {
							time.Sleep(b.pace)
						}
					}
				}
			}()
			go func() {
				buf := make([]byte, 32768)
				if b.noRead {
					return
				}
				for {
					n, err := c.Read(buf)
					if b.slowReader > 0 {
						time.Sleep(b.slowReader)
					}
					b.mu.Lock()
					b.got = append(b.got, buf[:n]...)
					if err != nil {
						b.eof = true
						b.eofs++
					}
					b.mu.Unlock()
					if err != nil {
						return
					}
				}
			}()
		}
	}()
	return b
}

func (b *tagBackend) snapshot() (int, []byte, bool) {
	b.mu.Lock()
	defer b.mu.Unlock()
	return b.accepts, append([]byte(nil), b.got...), b.eof
}

// allReleased: every accepted connection has seen EOF.
func (b *tagBackend) allReleased() bool {
	b.mu.Lock()
	defer b.mu.Unlock()
	return b.eofs >= b.accepts
}

// hangUp: the host ends its connections; the listener stays.
func (b *tagBackend) hangUp() {
	b.mu.Lock()
	for _, c := range b.conns {
		c.Close()
	}
	b.mu.Unlock()
}

func (b *tagBackend) close() {
	b.l.Close()
	b.mu.Lock()
	for _, c := range b.conns {
		c.Close()
	}
	b.mu.Unlock()
}

func respTokens(rs [][]byte) string {
	var t []string
	for _, m := range rs {
		if len(m) < 8 {
			t = append(t, "short")
			continue
		}
		ty := int(binary.LittleEndian.Uint16(m[0:2]))
		off := 0
		if ty == 5 {
			off = 2
		}
		st := "x"
		if len(m) >= 8+off+4 {
			st = strconv.FormatUint(uint64(binary.LittleEndian.Uint32(m[8+off:8+off+4])), 10)
		}
		t = append(t, fmt.Sprintf("%d:%s", ty, st))
	}
	if len(t) == 0 {
		return "-"
	}
	return strings.Join(t, ",")
}

type c07tunnel struct {
	idx       int
	transport string
	user      string
	packets   [][]byte
	ans       [][4]bool
	backend   *tagBackend
}

// tunnelObservation renders what one tunnel's client, backend and callbacks saw.
func tunnelObservation(s *l2server, id string, res tunnelResult, b *tagBackend, all []*tagBackend) string {
	if res.err != "" {
		return "ERR:" + res.err
	}
	time.Sleep(50 * time.Millisecond)
	acc, got, _ := b.snapshot()
	cb := s.takeLog(id)
	cbs := "-"
	if len(cb) > 0 {
		cbs = strings.Join(cb, ",")
	}
	bb := "ok"
	if !strings.HasPrefix(string(b.sends), string(res.fromHost)) {
		bb = "foreign"
	}
	if res.badData {
		bb = "malformed"
	}
	return fmt.Sprintf("R=%s C=%s D=%d H=%s B=%s X=%s Z=%d", respTokens(res.responses), cbs, acc, hx(got), bb, b01(res.closed), res.afterEnd)
}

func streamC07(env *runEnv) {
	r := rand.New(rand.NewSource(env.seed))
	srv := newL2Server(true, 0)
	defer srv.close()
	rounds := []int{2, 8, 24}
	if env.thorough() {
		rounds = []int{2, 8, 64, 64, 32, 16, 8, 8, 8, 8}
	}
	caseN := 0
	for _, n := range rounds {
		var ts []*c07tunnel
		var backends []*tagBackend
		for i := 0; i < n; i++ {
			tag := fmt.Sprintf("<host-%d-%d>", caseN, i)
			b := newTagBackend([]byte(strings.Repeat(tag, 50+r.Intn(200))))
			backends = append(backends, b)
		}
		for i := 0; i < n; i++ {
			t := &c07tunnel{idx: i, transport: pick(r, []string{"ws", "legacy"}), user: fmt.Sprintf("user%d", i), backend: backends[i]}
			host, port := splitHostPort(backends[i].addr)
			cookie := "ok|" + t.user + "|" + backends[i].addr
			all := [4]bool{true, true, true, true}
			add := func(p []byte, a [4]bool) { t.packets = append(t.packets, p); t.ans = append(t.ans, a) }
			add(packet(ptHandshake, handshakeBody(1, 0, 0, 2)), all)
			switch r.Intn(8) {
			case 0: // refused cookie
				add(packet(ptTunnelCreate, tunnelCreateBody(0, "bad|"+t.user+"|x", true)), [4]bool{false, true, true, true})
			default:
				add(packet(ptTunnelCreate, tunnelCreateBody(0, cookie, true)), all)
			}
			add(packet(ptTunnelAuth, tunnelAuthBody("pc")), all)
			switch r.Intn(8) {
			case 0: // ask for ANOTHER tunnel's host: must be refused by this tunnel's token host
				oh, op := splitHostPort(backends[(i+1)%n].addr)
				add(packet(ptChannelCreate, channelCreateBody(oh, op)), all)
			case 1: // out of order: data before the channel exists
				add(packet(ptData, dataBody([]byte("early"))), all)
			default:
				add(packet(ptChannelCreate, channelCreateBody(host, port)), all)
			}
			for k := 0; k < 1+r.Intn(4); k++ {
				add(packet(ptData, dataBody([]byte(fmt.Sprintf("<client-%d-%d-%d>", caseN, i, k)))), all)
				if r.Intn(4) == 0 {
					add(packet(ptKeepalive, nil), all)
				}
			}
			if r.Intn(2) == 0 {
				add(packet(ptCloseChannel, nil), all)
			}
			// whatever happened before: two more packets; they must have no effect once the tunnel ended
			add(packet(ptKeepalive, nil), all)
			add(packet(ptData, dataBody([]byte(fmt.Sprintf("<late-%d-%d>", caseN, i)))), all)
			ts = append(ts, t)
		}
		// all tunnels at once
		var wg sync.WaitGroup
		results := make([]tunnelResult, n)
		ids := make([]string, n)
		for i, t := range ts {
			ids[i] = fmt.Sprintf("{c07-%d-%d-%d}", env.seed, caseN, i)
			wg.Add(1)
			go func(i int, t *c07tunnel) {
				defer wg.Done()
				time.Sleep(time.Duration(r.Intn(5)) * time.Millisecond)
				results[i] = runTunnel(srv.inst, tunnelScript{transport: t.transport, id: ids[i], packets: t.packets, end: "close", returnCookie: i%3 == 1})
			}(i, t)
		}
		wg.Wait()
		for i, t := range ts {
			var items []item
			for k, p := range t.packets {
				items = append(items, item{data: p, ans: t.ans[k]})
			}
			obs := tunnelObservation(srv, ids[i], results[i], t.backend, backends)
			env.count("c07.tunnels." + t.transport)
			env.emit("tunnel", "10101", t.transport, hx([]byte(t.user)), hx([]byte(t.backend.addr)), itemsString(items), obs)
		}
		for _, b := range backends {
			b.close()
		}
		caseN++
	}
	// a client that returns a session cookie sets up its tunnel in the middle of another client's set-up:
	// each tunnel keeps its own identity (user as its own cookie check set it)
	{
		ba, bb := newTagBackend(nil), newTagBackend(nil)
		idA := fmt.Sprintf("{c07-ident-a-%d}", env.seed)
		idB := fmt.Sprintf("{c07-ident-b-%d}", env.seed)
		hostA, portA := splitHostPort(ba.addr)
		pkA := [][]byte{
			packet(ptHandshake, handshakeBody(1, 0, 0, 2)),
			packet(ptTunnelCreate, tunnelCreateBody(0, "ok|identA|"+ba.addr, true)),
			packet(ptTunnelAuth, tunnelAuthBody("pc")),
			packet(ptChannelCreate, channelCreateBody(hostA, portA)),
			packet(ptData, dataBody([]byte("<a>"))),
		}
		var resA tunnelResult
		cookieB := visitCookie(srv.inst) // B has been here before A arrives
		a, errA := openTunnel(srv.inst, tunnelScript{transport: "ws", id: idA})
		if errA != nil {
			resA.err = errA.Error()
		} else {
			step := func(c tclient, p []byte) {
				c.send(p)
				if m, e := c.recv(3 * time.Second); e == nil && !(len(m) >= 2 && int(m[0])|int(m[1])<<8 == ptData) {
					resA.responses = append(resA.responses, m)
				}
			}
			for _, p := range pkA[:3] {
				step(a, p)
			}
			if b, errB := openTunnel(srv.inst, tunnelScript{transport: "ws", id: idB, cookieHdr: cookieB}); errB == nil {
				b.send(packet(ptHandshake, handshakeBody(1, 0, 0, 2)))
				b.recv(3 * time.Second)
				b.send(packet(ptTunnelCreate, tunnelCreateBody(0, "ok|identB|"+bb.addr, true)))
				b.recv(3 * time.Second)
				defer b.close()
			}
			step(a, pkA[3])
			a.send(pkA[4])
			time.Sleep(150 * time.Millisecond)
			a.close()
		}
		var items []item
		for _, p := range pkA {
			items = append(items, item{data: p, ans: [4]bool{true, true, true, true}})
		}
		srv.takeLog(idB)
		obs := tunnelObservation(srv, idA, resA, ba, nil)
		env.count("c07.identity-kept")
		env.emit("tunnel", "10101", "ws", hx([]byte("identA")), hx([]byte(ba.addr)), itemsString(items), obs)
		ba.close()
		bb.close()
	}
	// websocket tunnels do not pair up: a second websocket request that carries the connection id of a
	// websocket tunnel that is still open is a tunnel of its own (the identifier matters for the legacy
	// transport's pairing only); afterwards the first one still works
	{
		bks := []*tagBackend{newTagBackend(nil), newTagBackend(nil)}
		id := fmt.Sprintf("{c07-same-id-%d}", env.seed)
		verdict := "own-bytes-only"
		setup := func(c tclient, i int) bool {
			host, port := splitHostPort(bks[i].addr)
			for _, p := range [][]byte{
				packet(ptHandshake, handshakeBody(1, 0, 0, 2)),
				packet(ptTunnelCreate, tunnelCreateBody(0, fmt.Sprintf("ok|same%d|%s", i, bks[i].addr), true)),
				packet(ptTunnelAuth, tunnelAuthBody("pc")),
				packet(ptChannelCreate, channelCreateBody(host, port)),
			} {
				c.send(p)
				m, err := c.recv(3 * time.Second)
				if err != nil || len(m) < 12 {
					return false
				}
			}
			return true
		}
		a, errA := openTunnel(srv.inst, tunnelScript{transport: "ws", id: id})
		if errA != nil || !setup(a, 0) {
			verdict = "first-tunnel-setup-failed"
		} else {
			b, errB := openTunnel(srv.inst, tunnelScript{transport: "ws", id: id})
			if errB != nil || !setup(b, 1) {
				verdict = "second-tunnel-setup-failed"
			} else {
				a.send(packet(ptData, dataBody([]byte("<from-client-A>"))))
				b.send(packet(ptData, dataBody([]byte("<from-client-B>"))))
				time.Sleep(200 * time.Millisecond)
				_, gotA, _ := bks[0].snapshot()
				_, gotB, _ := bks[1].snapshot()
				if string(gotA) != "<from-client-A>" || string(gotB) != "<from-client-B>" {
					verdict = fmt.Sprintf("host-A-got-%q-host-B-got-%q", gotA, gotB)
				}
				b.close()
			}
			a.close()
		}
		srv.takeLog(id)
		env.count("c07.same-id-ws")
		env.emit("isolation", "two-websocket-tunnels-with-one-connection-id", verdict)
		bks[0].close()
		bks[1].close()
	}
	// bulk isolation: every host streams megabytes of its own tag at once while some clients read
	// slowly (their writes stall inside the gateway); every byte a client gets must be its own host's
	{
		nb := 4
		size := 24 << 20
		if env.thorough() {
			nb, size = 8, 48<<20
		}
		for i, v := range bulkProbe(srv, nb, size, fmt.Sprintf("c07-bulk-%d", env.seed), true) {
			env.count("c07.bulk." + v)
			env.emit("isolation", fmt.Sprintf("bulk-tunnel-%d-of-%d", i, nb), v)
		}
	}
	// one client stops reading while its host keeps sending: the gateway's writes to it stall for good;
	// other tunnels (both transports) are set up and served meanwhile
	for _, stalledTr := range []string{"ws", "legacy"} {
		stuck := newTagBackend([]byte(strings.Repeat("<to-the-client-that-does-not-read>", 2000000)))
		stuck.piece = 65536
		hostS, portS := splitHostPort(stuck.addr)
		verdict := "own-bytes-only"
		a, errA := openTunnel(srv.inst, tunnelScript{transport: stalledTr, id: fmt.Sprintf("{c07-stalled-%s-%d}", stalledTr, env.seed)})
		if errA != nil {
			verdict = "ERR:" + errA.Error()
		} else {
			for _, p := range [][]byte{
				packet(ptHandshake, handshakeBody(1, 0, 0, 2)),
				packet(ptTunnelCreate, tunnelCreateBody(0, fmt.Sprintf("ok|stalled|%s", stuck.addr), true)),
				packet(ptTunnelAuth, tunnelAuthBody("pc")),
				packet(ptChannelCreate, channelCreateBody(hostS, portS)),
			} {
				a.send(p)
				if stalledTr == "legacy" {
					time.Sleep(15 * time.Millisecond)
				}
				a.recv(2 * time.Second)
			}
			time.Sleep(700 * time.Millisecond) // a is not read from any more; the relay towards it is blocked by now
			for _, tr := range []string{"ws", "legacy"} {
				other := newTagBackend([]byte("<hello-from-the-other-host>"))
				hostO, portO := splitHostPort(other.addr)
				b, errB := openTunnel(srv.inst, tunnelScript{transport: tr, id: fmt.Sprintf("{c07-beside-stalled-%s-%s-%d}", stalledTr, tr, env.seed)})
				if errB != nil {
					verdict = "other-tunnel-not-accepted-" + tr
					other.close()
					continue
				}
				var got []byte
				for i, p := range [][]byte{
					packet(ptHandshake, handshakeBody(1, 0, 0, 2)),
					packet(ptTunnelCreate, tunnelCreateBody(0, fmt.Sprintf("ok|beside|%s", other.addr), true)),
					packet(ptTunnelAuth, tunnelAuthBody("pc")),
					packet(ptChannelCreate, channelCreateBody(hostO, portO)),
				} {
					b.send(p)
					if tr == "legacy" {
						time.Sleep(15 * time.Millisecond)
					}
					if _, err := b.recv(3 * time.Second); err != nil && verdict == "own-bytes-only" {
						verdict = fmt.Sprintf("%s-tunnel-gets-no-answer-to-request-%d-while-a-%s-client-does-not-read", tr, i, stalledTr)
					}
				}
				for dl := time.Now().Add(2 * time.Second); time.Now().Before(dl) && len(got) < len(other.sends); {
					m, err := b.recv(500 * time.Millisecond)
					if err == nil && len(m) > 10 && int(m[0])|int(m[1])<<8 == ptData {
						got = append(got, m[10:]...)
					}
				}
				if verdict == "own-bytes-only" && string(got) != string(other.sends) {
					verdict = fmt.Sprintf("%s-tunnel-gets-no-host-data-while-a-%s-client-does-not-read", tr, stalledTr)
				}
				b.close()
				other.close()
			}
			a.close()
		}
		stuck.close()
		env.count("c07.stalled-client." + strings.SplitN(verdict, "-", 2)[0])
		env.emit("isolation", "other-tunnels-while-a-"+stalledTr+"-client-does-not-read", verdict)
	}
	// an inbound request without a connection id joins nothing, whoever else is waiting for an inbound request
	{
		b := newTagBackend(nil)
		idA := fmt.Sprintf("{c07-noid-a-%d}", env.seed)
		verdict := "own-bytes-only"
		out, outBr, st, err := legacyOpenOut(srv.inst, idA, nil)
		if err != nil || st != 200 {
			verdict = fmt.Sprintf("out-status-%d", st)
		} else {
			if in0, _, st0, err0 := legacyOpenIn(srv.inst, "", nil); err0 == nil {
				if st0 == 200 {
					verdict = "inbound-request-without-connection-id-accepted"
				}
				in0.Close()
			}
			in, inBr, st2, err2 := legacyOpenIn(srv.inst, idA, nil)
			if err2 != nil || st2 != 200 {
				if verdict == "own-bytes-only" {
					verdict = fmt.Sprintf("own-inbound-request-refused-%d", st2)
				}
			} else {
				l := &legacyConn{out: out, outBr: outBr, in: in, inBr: inBr}
				l.in.Write([]byte("preamble-to-be-drained"))
				time.Sleep(60 * time.Millisecond)
				l.send(packet(ptHandshake, handshakeBody(1, 0, 0, 2)))
				if m, e := l.recv(2 * time.Second); (e != nil || len(m) < 2 || int(m[0])|int(m[1])<<8 != 2) && verdict == "own-bytes-only" {
					verdict = "own-tunnel-not-served-after-the-id-less-request"
				}
				in.Close()
			}
			out.Close()
		}
		b.close()
		env.count("c07.noid." + strings.SplitN(verdict, "-", 2)[0])
		env.emit("isolation", "inbound-request-without-connection-id-while-a-tunnel-waits", verdict)
	}
	// legacy pairing: IN attaches to the OUT with the same connection id only
	for k := 0; k < 6; k++ {
		b := newTagBackend([]byte("<pair-host>"))
		idOut := fmt.Sprintf("{pair-out-%d-%d}", env.seed, k)
		idIn := idOut
		if k%2 == 1 {
			idIn = fmt.Sprintf("{pair-in-%d-%d}", env.seed, k)
		}
		out, outBr, st1, err := legacyOpenOut(srv.inst, idOut, nil)
		obs := "out-failed"
		if err == nil && st1 == 200 {
			in, _, st2, err := legacyOpenIn(srv.inst, idIn, nil)
			obs = "in-refused"
			if err == nil && st2 == 200 {
				in.Write([]byte("preamble"))
				time.Sleep(60 * time.Millisecond)
				hs := packet(ptHandshake, handshakeBody(1, 0, 0, 2))
				in.Write([]byte(fmt.Sprintf("%x\r\n%s\r\n", len(hs), hs)))
				out.SetReadDeadline(time.Now().Add(700 * time.Millisecond))
				h := make([]byte, 8)
				_, e := readFull(outBr, h)
				if e == nil {
					obs = "answered-on-out"
				} else {
					obs = "no-answer-on-out"
				}
			}
			if in != nil {
				in.Close() // also when refused: the server drains a refused request's body until the client goes away
			}
			out.Close()
		}
		env.count("c07.pairing")
		env.emit("pairing", b01(idIn == idOut), obs)
		b.close()
	}
	inAgainCases(env, srv)
}

func init() {
	streams["c01gw"] = func(env *runEnv) { srv := newL2Server(true, 0); defer srv.close(); inAgainCases(env, srv) }
}

func inAgainCases(env *runEnv, srv *l2server) {
	// a websocket request that carries the connection id of a live legacy tunnel starts from the beginning:
	// DATA as its first packet is refused and nothing reaches the legacy tunnel's host
	{
		b := newTagBackend(nil)
		host, port := splitHostPort(b.addr)
		id := fmt.Sprintf("{shared-id-%d}", env.seed)
		obs := "setup-failed"
		if l, err := legacyDial(srv.inst, id, nil); err == nil {
			send := func(p []byte) { l.send(p); time.Sleep(15 * time.Millisecond); l.recv(2 * time.Second) }
			send(packet(ptHandshake, handshakeBody(1, 0, 0, 2)))
			send(packet(ptTunnelCreate, tunnelCreateBody(0, "ok|u|"+b.addr, true)))
			send(packet(ptTunnelAuth, tunnelAuthBody("pc")))
			send(packet(ptChannelCreate, channelCreateBody(host, port)))
			_, before, _ := b.snapshot()
			obs = "second-in-refused"
			if ws, st, _, err := wsDial(srv.inst, wsOpts{connID: id}); err == nil && st == 101 {
				ws.send(packet(ptData, dataBody([]byte("<without-any-sequence>"))))
				ws.send(packet(ptCloseChannel, nil))
				if m, e := ws.recv(time.Second); e == nil && len(m) >= 2 && int(m[0])|int(m[1])<<8 == 0x11 {
					obs = "close-answered-without-sequence"
				}
				time.Sleep(100 * time.Millisecond)
				ws.close()
			}
			if _, after, _ := b.snapshot(); len(after) > len(before) {
				obs = "relayed-without-sequence"
			}
			l.close()
		}
		env.count("c07.shared-id")
		env.emit("inagain", "websocket-with-the-id-of-a-live-legacy-tunnel", obs)
		b.close()
	}
	// an inbound request that arrives before its outbound channel exists is refused at once and stays
	// refused: it must not be attached to whichever outbound channel opens next
	for k := 0; k < 2; k++ {
		b := newTagBackend(nil)
		idA := fmt.Sprintf("{early-a-%d-%d}", env.seed, k)
		idB := fmt.Sprintf("{early-b-%d-%d}", env.seed, k)
		type inRes struct {
			st   int
			err  error
			conn net.Conn
			took time.Duration
		}
		early := make(chan inRes, 1)
		go func() {
			t0 := time.Now()
			c, _, st, err := legacyOpenIn(srv.inst, idB, nil)
			early <- inRes{st, err, c, time.Since(t0)}
		}()
		time.Sleep(150 * time.Millisecond)
		obs := "a-out-failed"
		outA, outBr, st, err := legacyOpenOut(srv.inst, idA, nil)
		if err == nil && st == 200 {
			var rb inRes
			select {
			case rb = <-early:
			case <-time.After(6 * time.Second):
				rb = inRes{st: -1}
			}
			bObs := fmt.Sprintf("b-status-%d", rb.st)
			if rb.st == 400 && rb.took < time.Second {
				bObs = "b-refused"
			}
			aObs := "a-in-refused"
			inA, _, st2, err2 := legacyOpenIn(srv.inst, idA, nil)
			if err2 == nil && st2 == 200 {
				inA.Write([]byte("preamble"))
				time.Sleep(60 * time.Millisecond)
				hs := packet(ptHandshake, handshakeBody(1, 0, 0, 2))
				inA.Write([]byte(fmt.Sprintf("%x\r\n%s\r\n", len(hs), hs)))
				outA.SetReadDeadline(time.Now().Add(time.Second))
				h := make([]byte, 8)
				if _, e := readFull(outBr, h); e == nil {
					aObs = "a-answered"
				} else {
					aObs = "a-not-answered"
				}
			}
			if inA != nil {
				inA.Close()
			}
			if rb.conn != nil {
				rb.conn.Close()
			}
			outA.Close()
			obs = bObs + " " + aObs
		}
		env.count("c07.in-before-out")
		env.emit("inbeforeout", obs)
		b.close()
	}
	// a tunnel's inbound channel is attached once: after the tunnel ended (by a refused step or by a close)
	// another RDG_IN_DATA with the same connection id must not start a second packet loop on it
	for k, ending := range []string{"error", "close", "leave-open"} {
		b := newTagBackend(nil)
		host, port := splitHostPort(b.addr)
		id := fmt.Sprintf("{again-%d-%d}", env.seed, k)
		obs := "setup-failed"
		l, err := legacyDial(srv.inst, id, nil)
		if err == nil {
			send := func(c net.Conn, p []byte) {
				c.Write([]byte(fmt.Sprintf("%x\r\n%s\r\n", len(p), p)))
				time.Sleep(15 * time.Millisecond)
			}
			send(l.in, packet(ptHandshake, handshakeBody(1, 0, 0, 2)))
			l.recv(2 * time.Second)
			switch ending {
			case "error":
				send(l.in, packet(ptChannelCreate, channelCreateBody(host, port))) // out of order: ends the tunnel
				l.recv(2 * time.Second)
			case "close":
				send(l.in, packet(ptTunnelCreate, tunnelCreateBody(0, "ok|u|"+b.addr, true)))
				l.recv(2 * time.Second)
				send(l.in, packet(ptTunnelAuth, tunnelAuthBody("pc")))
				l.recv(2 * time.Second)
				send(l.in, packet(ptChannelCreate, channelCreateBody(host, port)))
				l.recv(2 * time.Second)
				send(l.in, packet(ptCloseChannel, nil))
				l.recv(2 * time.Second)
			}
			time.Sleep(100 * time.Millisecond)
			acc0, _, _ := b.snapshot()
			// the second inbound request with the same identifier, and a whole exchange on it
			obs = "second-in-refused"
			in2, _, st2, err2 := legacyOpenIn(srv.inst, id, nil)
			if err2 == nil && st2 == 200 {
				in2.Write([]byte("preamble"))
				time.Sleep(60 * time.Millisecond)
				for _, p := range [][]byte{
					packet(ptHandshake, handshakeBody(1, 0, 0, 2)),
					packet(ptTunnelCreate, tunnelCreateBody(0, "ok|u|"+b.addr, true)),
					packet(ptTunnelAuth, tunnelAuthBody("pc")),
					packet(ptChannelCreate, channelCreateBody(host, port)),
				} {
					send(in2, p)
				}
				time.Sleep(200 * time.Millisecond)
				acc1, _, _ := b.snapshot()
				obs = "second-in-accepted"
				if acc1 > acc0 {
					obs = "second-in-accepted-and-backend-connected"
				}
			}
			if in2 != nil {
				in2.Close()
			}
			l.close()
		}
		env.count("c07.in-again")
		env.emit("inagain", ending, obs)
		b.close()
	}
}

// bulkProbe: nb tunnels at once (both transports, half of the clients reading slowly through a small
// receive buffer), every host streaming size bytes of its own tag in full-size relay packets. Returns one
// verdict per tunnel: "own-bytes-only" or what went wrong.
func bulkProbe(srv *l2server, nb, size int, prefix string, tok bool) []string {
	var backends []*tagBackend
	for i := 0; i < nb; i++ {
		tag := fmt.Sprintf("<%s-%d>", prefix, i)
		nbk := newTagBackend([]byte(strings.Repeat(tag, size/len(tag))))
		nbk.piece = 65536 // full-size relay packets
		backends = append(backends, nbk)
	}
	ext := 0
	if tok {
		ext = 2
	}
	res := make([]string, nb)
	var wg sync.WaitGroup
	for i := 0; i < nb; i++ {
		wg.Add(1)
		go func(i int) {
			defer wg.Done()
			b := backends[i]
			slow := i%2 == 0
			transport := []string{"ws", "legacy"}[i%2]
			if slow {
				transport = []string{"legacy", "ws"}[(i/2)%2]
			}
			host, port := splitHostPort(b.addr)
			c, err := openTunnel(srv.inst, tunnelScript{transport: transport, id: fmt.Sprintf("{%s-%d}", prefix, i)})
			if err != nil {
				res[i] = "ERR:" + err.Error()
				return
			}
			defer c.close()
			if slow {
				// a small receive buffer: the gateway's writes to this client stall soon
				switch cc := c.(type) {
				case *wsConn:
					if tc, ok := cc.c.(*net.TCPConn); ok {
						tc.SetReadBuffer(65536)
					}
				case *legacyConn:
					if tc, ok := cc.out.(*net.TCPConn); ok {
						tc.SetReadBuffer(65536)
					}
				}
			}
			for _, p := range [][]byte{
				packet(ptHandshake, handshakeBody(1, 0, 0, ext)),
				packet(ptTunnelCreate, tunnelCreateBody(0, fmt.Sprintf("ok|bulk%d|%s", i, b.addr), tok)),
				packet(ptTunnelAuth, tunnelAuthBody("pc")),
				packet(ptChannelCreate, channelCreateBody(host, port)),
			} {
				c.send(p)
				if transport == "legacy" {
					time.Sleep(15 * time.Millisecond)
				}
			}
			got := 0
			verdict := "own-bytes-only"
			deadline := time.Now().Add(20 * time.Second)
			for got < len(b.sends) && time.Now().Before(deadline) {
				m, err := c.recv(4 * time.Second)
				if err != nil {
					verdict = "stream-ended-early"
					break
				}
				if len(m) < 8 || int(m[0])|int(m[1])<<8 != ptData {
					continue
				}
				body := m[8:]
				if len(body) < 2 || int(body[0])|int(body[1])<<8 != len(body)-2 {
					verdict = "malformed-data-packet"
					break
				}
				pl := body[2:]
				if got+len(pl) > len(b.sends) || string(b.sends[got:got+len(pl)]) != string(pl) {
					verdict = "bytes-of-another-tunnel-or-altered"
					break
				}
				got += len(pl)
				if slow {
					time.Sleep(200 * time.Microsecond) // the gateway's writes to this client stall now and then
				}
			}
			res[i] = verdict
		}(i)
	}
	wg.Wait()
	for _, b := range backends {
		b.close()
	}
	return res
}
