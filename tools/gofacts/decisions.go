package main

// Decision facts: for the functions whose logic the models transcribe by hand, the
// conditions and case labels of the function in source order. The property files pin
// them (theorems by reflexivity over the regenerated table), so an edit to a guard,
// a widened condition, a reordered test or a new case changes a proof obligation of
// the property the function belongs to, whether or not a generated input shows it.

import (
	"go/ast"
	"strings"
)

func decisionsOf(fn *ast.FuncDecl) []string {
	var out []string
	ast.Inspect(fn.Body, func(n ast.Node) bool {
		switch x := n.(type) {
		case *ast.IfStmt:
			init := ""
			if a, ok := x.Init.(*ast.AssignStmt); ok {
				var l, r []string
				for _, e := range a.Lhs {
					l = append(l, exprString(e))
				}
				for _, e := range a.Rhs {
					r = append(r, exprString(e))
				}
				init = strings.Join(l, ",") + a.Tok.String() + strings.Join(r, ",") + "; "
			}
			out = append(out, "if "+init+exprString(x.Cond))
		case *ast.ReturnStmt:
			var r []string
			for _, e := range x.Results {
				r = append(r, exprString(e))
			}
			out = append(out, strings.TrimSpace("return "+strings.Join(r, ",")))
		case *ast.BranchStmt:
			out = append(out, x.Tok.String())
		case *ast.GoStmt:
			out = append(out, "go "+exprString(x.Call.Fun))
		case *ast.DeferStmt:
			out = append(out, "defer "+exprString(x.Call.Fun))
		case *ast.ForStmt:
			if x.Cond != nil {
				out = append(out, "for "+exprString(x.Cond))
			}
		case *ast.SwitchStmt:
			if x.Tag != nil {
				out = append(out, "switch "+exprString(x.Tag))
			} else {
				out = append(out, "switch")
			}
		case *ast.CaseClause:
			if x.List == nil {
				out = append(out, "default")
			} else {
				var l []string
				for _, e := range x.List {
					l = append(l, exprString(e))
				}
				out = append(out, "case "+strings.Join(l, ","))
			}
		}
		return true
	})
	return out
}

type decisionTarget struct{ name, file, recv, fn string }

var decisionTargets = []decisionTarget{
	{"Process", "cmd/rdpgw/protocol/process.go", "Processor", "Process"},
	{"matchAuth", "cmd/rdpgw/protocol/process.go", "Processor", "matchAuth"},
	{"makeRedirectFlags", "cmd/rdpgw/protocol/process.go", "", "makeRedirectFlags"},
	{"tunnelAuthResponse", "cmd/rdpgw/protocol/process.go", "Processor", "tunnelAuthResponse"},
	{"tunnelRequest", "cmd/rdpgw/protocol/process.go", "Processor", "tunnelRequest"},
	{"channelRequest", "cmd/rdpgw/protocol/process.go", "Processor", "channelRequest"},
	{"DecodeUTF16", "cmd/rdpgw/protocol/utf16.go", "", "DecodeUTF16"},
	{"NTLMAuth", "cmd/rdpgw/web/ntlm.go", "NTLMAuthHandler", "NTLMAuth"},
	{"readMessage", "cmd/rdpgw/protocol/common.go", "", "readMessage"},
	{"receive", "cmd/rdpgw/protocol/common.go", "", "receive"},
	{"forward", "cmd/rdpgw/protocol/common.go", "", "forward"},
	{"HandleGatewayProtocol", "cmd/rdpgw/protocol/gateway.go", "Gateway", "HandleGatewayProtocol"},
	{"handleLegacyProtocol", "cmd/rdpgw/protocol/gateway.go", "Gateway", "handleLegacyProtocol"},
	{"handleWebsocketProtocol", "cmd/rdpgw/protocol/gateway.go", "Gateway", "handleWebsocketProtocol"},
	{"TunnelClose", "cmd/rdpgw/protocol/tunnel.go", "Tunnel", "Close"},
	{"TunnelWrite", "cmd/rdpgw/protocol/tunnel.go", "Tunnel", "Write"},
	{"CheckHost", "cmd/rdpgw/security/basic.go", "", "CheckHost"},
	{"CheckSession", "cmd/rdpgw/security/jwt.go", "", "CheckSession"},
	{"CheckPAACookie", "cmd/rdpgw/security/jwt.go", "", "CheckPAACookie"},
	{"GeneratePAAToken", "cmd/rdpgw/security/jwt.go", "", "GeneratePAAToken"},
	{"UserInfo", "cmd/rdpgw/security/jwt.go", "", "UserInfo"},
	{"QueryInfo", "cmd/rdpgw/security/jwt.go", "", "QueryInfo"},
	{"EnrichContext", "cmd/rdpgw/web/context.go", "", "EnrichContext"},
	{"getHost", "cmd/rdpgw/web/web.go", "Handler", "getHost"},
	{"HandleDownload", "cmd/rdpgw/web/web.go", "Handler", "HandleDownload"},
	{"HandleCallback", "cmd/rdpgw/web/oidc.go", "OIDC", "HandleCallback"},
	{"Authenticated", "cmd/rdpgw/web/oidc.go", "OIDC", "Authenticated"},
	{"BasicAuth", "cmd/rdpgw/web/basic.go", "BasicAuthHandler", "BasicAuth"},
	{"NTLMauthenticate", "cmd/rdpgw/web/ntlm.go", "NTLMAuthHandler", "authenticate"},
	{"TokenInfo", "cmd/rdpgw/web/token.go", "", "TokenInfo"},
	{"ntlmAuthenticate", "cmd/auth/ntlm/ntlm.go", "NTLMAuth", "Authenticate"},
	{"ntlmGetContext", "cmd/auth/ntlm/ntlm.go", "NTLMAuth", "getContext"},
	{"ntlmCtxAuthenticate", "cmd/auth/ntlm/ntlm.go", "ntlmContext", "Authenticate"},
	{"ntlmCtxNegotiate", "cmd/auth/ntlm/ntlm.go", "ntlmContext", "negotiate"},
	{"ntlmCtxAuthenticateMsg", "cmd/auth/ntlm/ntlm.go", "ntlmContext", "authenticate"},
	{"kdcHandler", "cmd/rdpgw/kdcproxy/proxy.go", "KerberosProxy", "Handler"},
	{"kdcForward", "cmd/rdpgw/kdcproxy/proxy.go", "KerberosProxy", "forward"},
	{"rdpUnmarshal", "cmd/rdpgw/rdp/koanf/parsers/rdp/rdp.go", "RDP", "Unmarshal"},
	{"rdpMarshal", "cmd/rdpgw/rdp/koanf/parsers/rdp/rdp.go", "RDP", "Marshal"},
	{"main", "cmd/rdpgw/main.go", "", "main"},
	{"configLoad", "cmd/rdpgw/config/configuration.go", "", "Load"},
}

func writeDecisions() string {
	var b strings.Builder
	b.WriteString("\n(* decision facts: conditions and case labels of the hand-transcribed functions, in source order *)\n")
	for _, t := range decisionTargets {
		var fn *ast.FuncDecl
		if t.recv != "" {
			fn = findMethod(t.file, t.recv, t.fn)
		} else {
			fn = findFunc(t.file, t.fn)
		}
		ds := decisionsOf(fn)
		b.WriteString(coqByteList("DECISIONS_"+t.name, ds))
		for _, d := range ds {
			anchors = append(anchors, "DECISION "+t.name+" "+d)
		}
	}
	return b.String()
}
