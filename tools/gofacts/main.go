// gofacts: the translator half of the tie between /repo's source and the Coq
// model. It reads the Go sources syntactically (go/parser only) and writes
//
//	Gen/Consts.v  - every named constant, anchored literal, string and table
//	                the models depend on
//	Gen/Facts.v   - shared-state access facts (C09) and cleanup facts (C11)
//
// It fails (exit 2, message naming the anchor) when an anchor is not found.
package main

import (
	"flag"
	"fmt"
	"go/ast"
	"go/constant"
	"go/parser"
	"go/token"
	"os"
	"path/filepath"
	"sort"
	"strconv"
	"strings"
)

var repo string
var fset = token.NewFileSet()
var files = map[string]*ast.File{}
var out strings.Builder
var facts strings.Builder
var anchors []string // log of anchors found, for evidence

func die(format string, a ...interface{}) {
	fmt.Fprintf(os.Stderr, "gofacts: ANCHOR-MISSING "+format+"\n", a...)
	os.Exit(2)
}

func load(rel string) *ast.File {
	if f, ok := files[rel]; ok {
		return f
	}
	f, err := parser.ParseFile(fset, filepath.Join(repo, rel), nil, parser.SkipObjectResolution)
	if err != nil {
		die("%s: cannot parse: %v", rel, err)
	}
	files[rel] = f
	return f
}

func coqBytes(s string) string {
	var b strings.Builder
	b.WriteString("[")
	for i := 0; i < len(s); i++ {
		if i > 0 {
			b.WriteString("; ")
		}
		fmt.Fprintf(&b, "x%02x", s[i])
	}
	b.WriteString("]")
	return b.String()
}

func emitN(name string, v string) {
	fmt.Fprintf(&out, "Definition %s : N := %s.\n", name, v)
	anchors = append(anchors, name+"="+v)
}
func emitZ(name string, v string) {
	fmt.Fprintf(&out, "Definition %s : Z := (%s)%%Z.\n", name, v)
	anchors = append(anchors, name+"="+v)
}
func emitS(name string, v string) {
	fmt.Fprintf(&out, "Definition %s : bytes := %s. (* %q *)\n", name, coqBytes(v), v)
	anchors = append(anchors, name+"="+strconv.Quote(v))
}
func emitB(name string, v bool) {
	fmt.Fprintf(&out, "Definition %s : bool := %v.\n", name, v)
	anchors = append(anchors, fmt.Sprintf("%s=%v", name, v))
}
func emitSL(name string, vs []string) {
	parts := make([]string, len(vs))
	for i, v := range vs {
		parts[i] = coqBytes(v)
	}
	fmt.Fprintf(&out, "Definition %s : list bytes := [%s]. (* %q *)\n", name, strings.Join(parts, "; "), vs)
	anchors = append(anchors, fmt.Sprintf("%s=%q", name, vs))
}

// ---------------------------------------------------------------- constants

type env map[string]constant.Value

var durations = map[string]int64{"Nanosecond": 1, "Microsecond": 1e3, "Millisecond": 1e6, "Second": 1e9, "Minute": 60e9, "Hour": 3600e9}

func eval(e ast.Expr, en env, iota int64) (constant.Value, bool) {
	switch x := e.(type) {
	case *ast.BasicLit:
		v := constant.MakeFromLiteral(x.Value, x.Kind, 0)
		return v, v.Kind() != constant.Unknown
	case *ast.Ident:
		if x.Name == "iota" {
			return constant.MakeInt64(iota), true
		}
		if x.Name == "true" {
			return constant.MakeBool(true), true
		}
		if x.Name == "false" {
			return constant.MakeBool(false), true
		}
		v, ok := en[x.Name]
		return v, ok
	case *ast.ParenExpr:
		return eval(x.X, en, iota)
	case *ast.SelectorExpr:
		if id, ok := x.X.(*ast.Ident); ok && id.Name == "time" {
			if d, ok := durations[x.Sel.Name]; ok {
				return constant.MakeInt64(d), true
			}
		}
		return nil, false
	case *ast.BinaryExpr:
		a, ok1 := eval(x.X, en, iota)
		b, ok2 := eval(x.Y, en, iota)
		if !ok1 || !ok2 {
			return nil, false
		}
		if x.Op == token.SHL || x.Op == token.SHR {
			s, _ := constant.Uint64Val(b)
			return constant.Shift(a, x.Op, uint(s)), true
		}
		return constant.BinaryOp(a, x.Op, b), true
	case *ast.UnaryExpr:
		a, ok := eval(x.X, en, iota)
		if !ok {
			return nil, false
		}
		return constant.UnaryOp(x.Op, a, 0), true
	case *ast.CallExpr: // conversions like uint32(x), time.Duration(x)
		if len(x.Args) == 1 {
			return eval(x.Args[0], en, iota)
		}
	}
	return nil, false
}

// constsOf evaluates every package-level const of a file.
func constsOf(rel string) env {
	f := load(rel)
	en := env{}
	for _, d := range f.Decls {
		gd, ok := d.(*ast.GenDecl)
		if !ok || gd.Tok != token.CONST {
			continue
		}
		var last []ast.Expr
		for i, sp := range gd.Specs {
			vs := sp.(*ast.ValueSpec)
			vals := vs.Values
			if len(vals) == 0 {
				vals = last
			} else {
				last = vals
			}
			for j, n := range vs.Names {
				if j < len(vals) {
					if v, ok := eval(vals[j], en, int64(i)); ok {
						en[n.Name] = v
					}
				}
			}
		}
	}
	return en
}

func emitConsts(rel, prefix string, want []string, asSeconds map[string]bool) {
	en := constsOf(rel)
	names := want
	if names == nil {
		for k := range en {
			names = append(names, k)
		}
		sort.Strings(names)
	}
	for _, n := range names {
		v, ok := en[n]
		if !ok {
			die("%s: constant %s", rel, n)
		}
		switch v.Kind() {
		case constant.Int:
			if asSeconds[n] {
				i, _ := constant.Int64Val(v)
				emitN(prefix+n+"_SECONDS", strconv.FormatInt(i/1e9, 10))
			} else if constant.Sign(v) < 0 {
				emitZ(prefix+n, v.ExactString())
			} else {
				emitN(prefix+n, v.ExactString())
			}
		case constant.String:
			emitS(prefix+n, constant.StringVal(v))
		}
	}
}

// ---------------------------------------------------------------- anchors

func findFunc(rel, name string) *ast.FuncDecl {
	f := load(rel)
	for _, d := range f.Decls {
		if fd, ok := d.(*ast.FuncDecl); ok && fd.Name.Name == name && fd.Body != nil {
			return fd
		}
	}
	die("%s: func %s", rel, name)
	return nil
}

func exprString(e ast.Expr) string {
	switch x := e.(type) {
	case *ast.Ident:
		return x.Name
	case *ast.SelectorExpr:
		return exprString(x.X) + "." + x.Sel.Name
	case *ast.BasicLit:
		return x.Value
	case *ast.CallExpr:
		args := []string{}
		for _, a := range x.Args {
			args = append(args, exprString(a))
		}
		return exprString(x.Fun) + "(" + strings.Join(args, ",") + ")"
	case *ast.ArrayType:
		return "[]" + exprString(x.Elt)
	case *ast.StarExpr:
		return "*" + exprString(x.X)
	case *ast.UnaryExpr:
		return x.Op.String() + exprString(x.X)
	case *ast.BinaryExpr:
		return exprString(x.X) + x.Op.String() + exprString(x.Y)
	case *ast.ParenExpr:
		return "(" + exprString(x.X) + ")"
	case *ast.IndexExpr:
		return exprString(x.X) + "[" + exprString(x.Index) + "]"
	case *ast.SliceExpr:
		lo, hi := "", ""
		if x.Low != nil {
			lo = exprString(x.Low)
		}
		if x.High != nil {
			hi = exprString(x.High)
		}
		return exprString(x.X) + "[" + lo + ":" + hi + "]"
	case *ast.CompositeLit:
		el := []string{}
		for _, a := range x.Elts {
			el = append(el, exprString(a))
		}
		return exprString(x.Type) + "{" + strings.Join(el, ",") + "}"
	case *ast.KeyValueExpr:
		return exprString(x.Key) + ":" + exprString(x.Value)
	case *ast.MapType:
		return "map[" + exprString(x.Key) + "]" + exprString(x.Value)
	case *ast.InterfaceType:
		return "interface{}"
	}
	return fmt.Sprintf("<%T>", e)
}

// makeByteLens returns the literal sizes of every make([]byte, LIT) in fn.
func makeByteLens(fn *ast.FuncDecl) []string {
	var r []string
	ast.Inspect(fn.Body, func(n ast.Node) bool {
		if c, ok := n.(*ast.CallExpr); ok {
			if id, ok := c.Fun.(*ast.Ident); ok && id.Name == "make" && len(c.Args) == 2 {
				if exprString(c.Args[0]) == "[]byte" {
					if v, ok := eval(c.Args[1], env{}, 0); ok {
						r = append(r, v.ExactString())
					}
				}
			}
		}
		return true
	})
	return r
}

// cmpLits returns "<op> <lit>" for every comparison of `lhs` with a literal.
func cmpLits(fn *ast.FuncDecl, lhs string) []string {
	var r []string
	ast.Inspect(fn.Body, func(n ast.Node) bool {
		if b, ok := n.(*ast.BinaryExpr); ok {
			switch b.Op {
			case token.LSS, token.LEQ, token.GTR, token.GEQ, token.EQL, token.NEQ:
				if exprString(b.X) == lhs {
					if v, ok := eval(b.Y, env{}, 0); ok {
						r = append(r, b.Op.String()+" "+v.ExactString())
					}
				}
			}
		}
		return true
	})
	return r
}

func stringLits(n ast.Node) []string {
	var r []string
	ast.Inspect(n, func(n ast.Node) bool {
		if b, ok := n.(*ast.BasicLit); ok && b.Kind == token.STRING {
			s, err := strconv.Unquote(b.Value)
			if err == nil {
				r = append(r, s)
			}
		}
		return true
	})
	return r
}

// compositeOf finds composite literals whose type prints as typ inside n and
// returns the printed elements of each.
func compositeOf(n ast.Node, typ string) [][]string {
	var r [][]string
	ast.Inspect(n, func(n ast.Node) bool {
		if c, ok := n.(*ast.CompositeLit); ok && c.Type != nil && exprString(c.Type) == typ {
			var el []string
			for _, e := range c.Elts {
				el = append(el, exprString(e))
			}
			r = append(r, el)
		}
		return true
	})
	return r
}

// kvInComposite finds `Key: value` pairs in composite literals in n.
func kvIn(n ast.Node, key string) []ast.Expr {
	var r []ast.Expr
	ast.Inspect(n, func(n ast.Node) bool {
		if kv, ok := n.(*ast.KeyValueExpr); ok && exprString(kv.Key) == key {
			r = append(r, kv.Value)
		}
		return true
	})
	return r
}

func callsTo(n ast.Node, fun string) []*ast.CallExpr {
	var r []*ast.CallExpr
	ast.Inspect(n, func(n ast.Node) bool {
		if c, ok := n.(*ast.CallExpr); ok && exprString(c.Fun) == fun {
			r = append(r, c)
		}
		return true
	})
	return r
}

func one(xs []string, what string) string {
	if len(xs) != 1 {
		die("%s: expected exactly one, found %v", what, xs)
	}
	return xs[0]
}

func secondsOf(e ast.Expr, what string) string {
	v, ok := eval(e, env{}, 0)
	if !ok {
		die("%s: not a constant duration: %s", what, exprString(e))
	}
	i, _ := constant.Int64Val(v)
	return strconv.FormatInt(i/1e9, 10)
}

func protocolAnchors() {
	const common = "cmd/rdpgw/protocol/common.go"
	emitN("FORWARD_BUF", one(makeByteLens(findFunc(common, "forward")), "forward: make([]byte, N)"))
	emitN("READMSG_BUF", one(makeByteLens(findFunc(common, "readMessage")), "readMessage: make([]byte, N)"))
	c := cmpLits(findFunc(common, "readHeader"), "len(data)")
	if len(c) < 1 || !strings.HasPrefix(c[0], "< ") {
		die("readHeader: len(data) < N: %v", c)
	}
	emitN("HEADER_MIN", strings.TrimPrefix(c[0], "< "))
	emitN("LEGACY_READ_BUF", one(makeByteLens(findFunc("cmd/rdpgw/transport/legacy.go", "ReadPacket")), "legacy ReadPacket: make([]byte, N)"))

	const process = "cmd/rdpgw/protocol/process.go"
	en := constsOf(process)
	if v, ok := en["tunnelId"]; ok {
		emitN("TUNNEL_ID", v.ExactString())
	} else {
		die("process.go: const tunnelId")
	}
	// channel id: the uint32(LIT) written by channelResponse (the only uint32 of a literal)
	var ids []string
	for _, c := range callsTo(findFunc(process, "channelResponse"), "uint32") {
		if l, ok := c.Args[0].(*ast.BasicLit); ok {
			ids = append(ids, l.Value)
		}
	}
	emitN("CHANNEL_ID", one(ids, "channelResponse: uint32(LIT)"))
	ids = nil
	for _, c := range callsTo(findFunc(process, "channelCloseResponse"), "uint32") {
		if l, ok := c.Args[0].(*ast.BasicLit); ok {
			ids = append(ids, l.Value)
		}
	}
	emitN("CLOSE_CHANNEL_ID", one(ids, "channelCloseResponse: uint32(LIT)"))
	// dial timeout
	d := callsTo(findFunc(process, "Process"), "net.DialTimeout")
	if len(d) != 1 || len(d[0].Args) != 3 {
		die("Process: exactly one net.DialTimeout(network, host, timeout)")
	}
	emitN("DIAL_TIMEOUT_SECONDS", secondsOf(d[0].Args[2], "Process: DialTimeout"))
	emitS("DIAL_HOST_ARG", exprString(d[0].Args[1]))
}

func algNames(el []string) []string {
	var r []string
	for _, e := range el {
		r = append(r, strings.TrimPrefix(e, "jose."))
	}
	return r
}

func securityAnchors() {
	const jwt = "cmd/rdpgw/security/jwt.go"
	chk := findFunc(jwt, "CheckPAACookie")
	sa := compositeOf(chk, "[]jose.SignatureAlgorithm")
	if len(sa) != 1 {
		die("CheckPAACookie: one []jose.SignatureAlgorithm literal, found %v", sa)
	}
	emitSL("PAA_SIG_ALGS", algNames(sa[0]))
	iss := kvIn(chk, "Issuer")
	if len(iss) != 1 {
		die("CheckPAACookie: Issuer in jwt.Expected")
	}
	emitS("PAA_CHECK_ISSUER", one(stringLits(iss[0]), "CheckPAACookie issuer"))

	gen := findFunc(jwt, "GeneratePAAToken")
	c := cmpLits(gen, "len(SigningKey)")
	emitN("PAA_MIN_KEY", strings.TrimPrefix(one(c, "GeneratePAAToken: len(SigningKey) < N"), "< "))
	exp := kvIn(gen, "Expiry")
	if len(exp) != 1 {
		die("GeneratePAAToken: Expiry")
	}
	adds := callsTo(exp[0], "time.Now().Add")
	if len(adds) != 1 {
		die("GeneratePAAToken: time.Now().Add(d)")
	}
	emitN("PAA_EXPIRY_SECONDS", secondsOf(adds[0].Args[0], "GeneratePAAToken expiry"))
	emitS("PAA_MINT_ISSUER", one(stringLits(kvIn(gen, "Issuer")[0]), "GeneratePAAToken issuer"))
	alg := kvIn(gen, "Algorithm")
	if len(alg) != 1 {
		die("GeneratePAAToken: SigningKey Algorithm")
	}
	emitS("PAA_MINT_ALG", strings.TrimPrefix(exprString(alg[0]), "jose."))

	ut := findFunc(jwt, "GenerateUserToken")
	emitN("USER_MIN_ENC_KEY", strings.TrimPrefix(one(cmpLits(ut, "len(UserEncryptionKey)"), "GenerateUserToken: len(UserEncryptionKey) < N"), "< "))
	adds = callsTo(kvIn(ut, "Expiry")[0], "time.Now().Add")
	emitN("USER_EXPIRY_SECONDS", secondsOf(adds[0].Args[0], "GenerateUserToken expiry"))
	emitS("USER_MINT_ISSUER", one(stringLits(kvIn(ut, "Issuer")[0]), "GenerateUserToken issuer"))

	ui := findFunc(jwt, "UserInfo")
	ka := compositeOf(ui, "[]jose.KeyAlgorithm")
	ce := compositeOf(ui, "[]jose.ContentEncryption")
	sg := compositeOf(ui, "[]jose.SignatureAlgorithm")
	if len(ka) != 2 || len(ce) != 2 || len(sg) != 1 {
		die("UserInfo: algorithm allow-lists %v %v %v", ka, ce, sg)
	}
	emitSL("USER_KEY_ALGS_SIGNED", algNames(ka[0]))
	emitSL("USER_KEY_ALGS_ENC", algNames(ka[1]))
	emitSL("USER_CONTENT_ENC_SIGNED", algNames(ce[0]))
	emitSL("USER_CONTENT_ENC_ENC", algNames(ce[1]))
	emitSL("USER_SIG_ALGS", algNames(sg[0]))
	emitS("USER_CHECK_ISSUER", one(stringLits(kvIn(ui, "Issuer")[0]), "UserInfo issuer"))

	qi := findFunc(jwt, "QueryInfo")
	qa := compositeOf(qi, "[]jose.SignatureAlgorithm")
	if len(qa) != 1 {
		die("QueryInfo: []jose.SignatureAlgorithm")
	}
	emitSL("QUERY_SIG_ALGS", algNames(qa[0]))

	// package-level defaults
	f := load(jwt)
	for _, d := range f.Decls {
		if gd, ok := d.(*ast.GenDecl); ok && gd.Tok == token.VAR {
			for _, sp := range gd.Specs {
				vs := sp.(*ast.ValueSpec)
				for i, n := range vs.Names {
					if n.Name == "VerifyClientIP" && i < len(vs.Values) {
						emitB("SECURITY_VERIFY_CLIENT_IP_DEFAULT", exprString(vs.Values[i]) == "true")
					}
				}
			}
		}
	}

	const basic = "cmd/rdpgw/security/basic.go"
	ch := findFunc(basic, "CheckHost")
	var modes []string
	ast.Inspect(ch.Body, func(n ast.Node) bool {
		if cc, ok := n.(*ast.CaseClause); ok {
			var ms []string
			for _, e := range cc.List {
				ms = append(ms, stringLits(e)...)
			}
			modes = append(modes, strings.Join(ms, "|"))
		}
		return true
	})
	emitSL("CHECKHOST_CASES", modes)
	rep := callsTo(ch, "strings.Replace")
	if len(rep) != 1 || len(rep[0].Args) != 4 {
		die("CheckHost: strings.Replace(h, placeholder, user, 1)")
	}
	emitS("HOST_PLACEHOLDER", one(stringLits(rep[0].Args[1]), "CheckHost placeholder"))
	emitN("HOST_PLACEHOLDER_COUNT", exprString(rep[0].Args[3]))
}

func main() {
	outDir := flag.String("out", "", "output directory (Gen)")
	flag.StringVar(&repo, "repo", "/repo", "repository root")
	flag.Parse()
	if *outDir == "" {
		die("no -out")
	}

	out.WriteString("(* GENERATED by tools/gofacts from the current /repo working tree. Do not edit. *)\n")
	out.WriteString("From Coq Require Import List NArith ZArith.\nFrom Coq.Strings Require Import Byte.\nFrom RDPGW Require Import Lib.Bytes.\nImport ListNotations.\nOpen Scope N_scope.\n\n")

	emitConsts("cmd/rdpgw/protocol/types.go", "", nil, nil)
	emitConsts("cmd/rdpgw/protocol/errors.go", "", nil, nil)
	emitConsts("cmd/rdpgw/protocol/gateway.go", "GW_", []string{"rdgConnectionIdKey", "MethodRDGIN", "MethodRDGOUT"}, nil)
	protocolAnchors()
	securityAnchors()
	moreAnchors()

	if err := os.MkdirAll(*outDir, 0o755); err != nil {
		die("%v", err)
	}
	writeIfChanged(filepath.Join(*outDir, "Consts.v"), out.String())
	writeFacts(*outDir)
	// anchor log for evidence
	writeIfChanged(filepath.Join(*outDir, "anchors.txt"), strings.Join(anchors, "\n")+"\n")
	fmt.Printf("gofacts: %d anchors\n", len(anchors))
}

func writeIfChanged(path, content string) {
	old, err := os.ReadFile(path)
	if err == nil && string(old) == content {
		return
	}
	if err := os.WriteFile(path, []byte(content), 0o644); err != nil {
		die("%v", err)
	}
}
