package main

import (
	"fmt"
	"go/ast"
	"path/filepath"
	"reflect"
	"sort"
	"strconv"
	"strings"
)

// moreAnchors: anchors of the web, config, kdcproxy, ntlm and rdp packages.
func moreAnchors() {
	rdpAnchors()
	configAnchors()
	emitConsts("cmd/rdpgw/web/oidc.go", "oidc_", []string{"CacheExpiration", "CleanupInterval"}, map[string]bool{"CacheExpiration": true, "CleanupInterval": true})
	emitConsts("cmd/rdpgw/web/session.go", "session_", []string{"rdpGwSession", "MaxAge", "identityKey", "maxSessionLength"}, nil)
	emitConsts("cmd/rdpgw/kdcproxy/proxy.go", "kdc_", []string{"maxLength", "timeout"}, map[string]bool{"timeout": true})
	emitConsts("cmd/auth/ntlm/ntlm.go", "ntlm_", []string{"cacheExpiration"}, map[string]bool{"cacheExpiration": true})
	// the user-name claims looked at, in order
	fu := findFunc("cmd/rdpgw/web/oidc.go", "findUsernameInClaims")
	cl := compositeOf(fu, "[]string")
	if len(cl) != 1 {
		die("findUsernameInClaims: candidates list")
	}
	var names []string
	for _, c := range cl[0] {
		names = append(names, strings.Trim(c, "\""))
	}
	emitSL("OIDC_USERNAME_CLAIMS", names)
	// HandleCallback: every `if userName == "" { http.Error(...) ... }` must return
	hc := findFunc("cmd/rdpgw/web/oidc.go", "HandleCallback")
	ret := false
	ast.Inspect(hc.Body, func(n ast.Node) bool {
		if is, ok := n.(*ast.IfStmt); ok && exprString(is.Cond) == "userName==\"\"" {
			for _, st := range is.Body.List {
				if _, ok := st.(*ast.ReturnStmt); ok {
					ret = true
				}
			}
		}
		return true
	})
	emitB("OIDC_EMPTY_USERNAME_RETURNS", ret)
}

// configAnchors: the key-length tests, the fatal checks and the default map of config.Load.
func configAnchors() {
	const cfg = "cmd/rdpgw/config/configuration.go"
	ld := findFunc(cfg, "Load")
	// every `len(Conf.X.Key) != N` test
	var lens []string
	var keys []string
	ast.Inspect(ld.Body, func(n ast.Node) bool {
		if b, ok := n.(*ast.BinaryExpr); ok && b.Op.String() == "!=" {
			l := exprString(b.X)
			if strings.HasPrefix(l, "len(Conf.") {
				if v, ok := eval(b.Y, env{}, 0); ok {
					lens = append(lens, v.ExactString())
					keys = append(keys, strings.TrimSuffix(strings.TrimPrefix(l, "len(Conf."), ")"))
				}
			}
		}
		return true
	})
	if len(lens) == 0 {
		die("config.Load: len(Conf.<key>) != N tests")
	}
	for _, l := range lens {
		if l != lens[0] {
			die("config.Load: key length tests disagree: %v", lens)
		}
	}
	emitN("CONFIG_KEY_LEN", lens[0])
	emitSL("CONFIG_SUBSTITUTED_KEYS", keys)
	// the conditions guarding log.Fatalf
	var fatals []string
	ast.Inspect(ld.Body, func(n ast.Node) bool {
		if is, ok := n.(*ast.IfStmt); ok {
			for _, st := range is.Body.List {
				if es, ok := st.(*ast.ExprStmt); ok {
					if c, ok := es.X.(*ast.CallExpr); ok && exprString(c.Fun) == "log.Fatalf" {
						cond := exprString(is.Cond)
						if !strings.Contains(cond, "err") {
							fatals = append(fatals, cond)
						}
					}
				}
			}
		}
		return true
	})
	emitSL("CONFIG_FATAL_CONDITIONS", fatals)
	// defaults
	var defs []string
	ast.Inspect(ld.Body, func(n ast.Node) bool {
		if cl, ok := n.(*ast.CompositeLit); ok && exprString(cl.Type) == "map[string]interface{}" {
			for _, e := range cl.Elts {
				if kv, ok := e.(*ast.KeyValueExpr); ok {
					defs = append(defs, strings.Trim(exprString(kv.Key), "\"")+"="+strings.Trim(exprString(kv.Value), "\""))
				}
			}
		}
		return true
	})
	sort.Strings(defs)
	emitSL("CONFIG_DEFAULTS", defs)
	nh := findFunc("cmd/rdpgw/web/web.go", "NewHandler")
	c := cmpLits(nh, "len(c.Hosts)")
	emitS("NEWHANDLER_HOSTS_TEST", one(c, "NewHandler: len(c.Hosts) < N"))
	is := findFunc("cmd/rdpgw/web/session.go", "InitStore")
	emitSL("INITSTORE_KEY_TESTS", append(cmpLits(is, "len(sessionKey)"), cmpLits(is, "len(encryptionKey)")...))
}

// rdpAnchors regenerates the settings table from the struct tags of RdpSettings
// and the literals of the parser/marshaller.
func rdpAnchors() {
	const rdpgo = "cmd/rdpgw/rdp/rdp.go"
	f := load(rdpgo)
	var st *ast.StructType
	ast.Inspect(f, func(n ast.Node) bool {
		if ts, ok := n.(*ast.TypeSpec); ok && ts.Name.Name == "RdpSettings" {
			st, _ = ts.Type.(*ast.StructType)
		}
		return true
	})
	if st == nil {
		die("rdp.go: type RdpSettings struct")
	}
	var rows []string
	for _, fld := range st.Fields.List {
		if fld.Tag == nil || len(fld.Names) != 1 {
			die("rdp.go: RdpSettings field without tag")
		}
		raw, _ := strconv.Unquote(fld.Tag.Value)
		tag := reflect.StructTag(raw)
		name, ok := tag.Lookup("rdp")
		if !ok {
			die("rdp.go: RdpSettings.%s has no rdp tag", fld.Names[0].Name)
		}
		def, hasDef := tag.Lookup("default")
		kind := exprString(fld.Type)
		k := map[string]string{"bool": "KBool", "int": "KInt", "string": "KStr"}[kind]
		if k == "" {
			die("rdp.go: RdpSettings.%s has unsupported type %s", fld.Names[0].Name, kind)
		}
		d := "None"
		if hasDef && def != "" {
			d = "Some " + coqBytes(def)
		}
		rows = append(rows, fmt.Sprintf("  (%s, %s, %s, %s) (* %s %q *)", coqBytes(fld.Names[0].Name), coqBytes(name), k, d, fld.Names[0].Name, name))
		anchors = append(anchors, "RDP_TABLE."+fld.Names[0].Name+"="+name+":"+kind+":"+def)
	}
	out.WriteString("Inductive rdp_kind := KBool | KInt | KStr.\n")
	out.WriteString("Definition RDP_TABLE : list (bytes * bytes * rdp_kind * option bytes) := [\n" + strings.Join(rows, ";\n") + "\n].\n")
	en := constsOf(rdpgo)
	for _, n := range []string{"SourceNTLM", "SourceSmartCard", "SourceCurrent", "SourceBasic", "SourceUserSelect", "SourceCookie"} {
		if v, ok := en[n]; ok {
			emitN("RDP_"+n, v.ExactString())
		} else {
			die("rdp.go: const %s", n)
		}
	}
	emitS("RDP_CRLF", mustString(en, "CRLF", rdpgo))

	// forced settings of the download handler: d.Settings.X = ... assignments
	hd := findFunc("cmd/rdpgw/web/web.go", "HandleDownload")
	var forced []string
	ast.Inspect(hd.Body, func(n ast.Node) bool {
		if as, ok := n.(*ast.AssignStmt); ok && len(as.Lhs) == 1 {
			l := exprString(as.Lhs[0])
			if strings.HasPrefix(l, "d.Settings.") {
				forced = append(forced, strings.TrimPrefix(l, "d.Settings.")+"="+exprString(as.Rhs[0]))
			}
		}
		return true
	})
	emitSL("DOWNLOAD_FORCED", forced)
}

func mustString(en env, name, file string) string {
	v, ok := en[name]
	if !ok {
		die("%s: const %s", file, name)
	}
	s, _ := strconv.Unquote(v.ExactString())
	return s
}

func writeFacts(outDir string) {
	facts.WriteString("(* GENERATED by tools/gofacts from the current /repo working tree. Do not edit. *)\n")
	facts.WriteString("From Coq Require Import List NArith.\nFrom Coq.Strings Require Import Byte.\nFrom RDPGW Require Import Lib.Bytes.\nImport ListNotations.\n\n")
	writeIfChanged(filepath.Join(outDir, "Facts.v"), facts.String())
}
