package main

import (
	"fmt"
	"go/ast"
	"os"
	"path/filepath"
	"reflect"
	"sort"
	"strconv"
	"strings"
)

// moreAnchors: anchors of the web, config, kdcproxy, ntlm and rdp packages.
func moreAnchors() {
	rdpAnchors()
	configAnchors()
	emitConsts("cmd/rdpgw/web/oidc.go", "oidc_", []string{"CacheExpiration", "CleanupInterval"}, map[string]bool{"CacheExpiration": true, "CleanupInterval": true})
	emitConsts("cmd/rdpgw/web/session.go", "session_", []string{"rdpGwSession", "MaxAge", "identityKey", "maxSessionLength"}, nil)
	emitConsts("cmd/rdpgw/kdcproxy/proxy.go", "kdc_", []string{"maxLength", "timeout"}, map[string]bool{"timeout": true})
	emitConsts("cmd/auth/ntlm/ntlm.go", "ntlm_", []string{"cacheExpiration"}, map[string]bool{"cacheExpiration": true})
	// the user-name claims looked at, in order
	fu := findFunc("cmd/rdpgw/web/oidc.go", "findUsernameInClaims")
	cl := compositeOf(fu, "[]string")
	if len(cl) != 1 {
		die("findUsernameInClaims: candidates list")
	}
	var names []string
	for _, c := range cl[0] {
		names = append(names, strings.Trim(c, "\""))
	}
	emitSL("OIDC_USERNAME_CLAIMS", names)
	// HandleCallback: every `if userName == "" { http.Error(...) ... }` must return
	hc := findFunc("cmd/rdpgw/web/oidc.go", "HandleCallback")
	ret := false
	ast.Inspect(hc.Body, func(n ast.Node) bool {
		if is, ok := n.(*ast.IfStmt); ok && exprString(is.Cond) == "userName==\"\"" {
			for _, st := range is.Body.List {
				if _, ok := st.(*ast.ReturnStmt); ok {
					ret = true
				}
			}
		}
		return true
	})
	emitB("OIDC_EMPTY_USERNAME_RETURNS", ret)
	// which duration is the lifetime of an issued state value: cache.New(<lifetime>, <cleanup>) in OIDCConfig.New
	var args []string
	for _, c := range callsTo(findMethod("cmd/rdpgw/web/oidc.go", "OIDCConfig", "New"), "cache.New") {
		for _, a := range c.Args {
			args = append(args, exprString(a))
		}
	}
	emitSL("OIDC_STATE_CACHE_ARGS", args)
	// the ID-token verifier is configured with the client id only (no clock override, no skipped checks)
	var fields []string
	ast.Inspect(findFunc("cmd/rdpgw/main.go", "initOIDC"), func(n ast.Node) bool {
		if cl, ok := n.(*ast.CompositeLit); ok && exprString(cl.Type) == "oidc.Config" {
			for _, e := range cl.Elts {
				if kv, ok := e.(*ast.KeyValueExpr); ok {
					fields = append(fields, exprString(kv.Key))
				}
			}
		}
		return true
	})
	emitSL("OIDC_VERIFIER_CONFIG_FIELDS", fields)
	// likewise for the NTLM verifier's per-session contexts
	var nargs []string
	for _, c := range callsTo(findFunc("cmd/auth/ntlm/ntlm.go", "NewNTLMAuth"), "cache.New") {
		for _, a := range c.Args {
			nargs = append(nargs, exprString(a))
		}
	}
	emitSL("NTLM_CONTEXT_CACHE_ARGS", nargs)
	// the cache in which a legacy tunnel waits for its second request: how it is made, and every use of it in
	// the protocol package (a use other than Get/Set/ItemCount - an eviction hook, a flush - would act on
	// tunnels that may be live)
	var init []string
	uses := map[string]bool{}
	for _, rel := range []string{"cmd/rdpgw/protocol/gateway.go", "cmd/rdpgw/protocol/tunnel.go", "cmd/rdpgw/protocol/track.go", "cmd/rdpgw/protocol/common.go", "cmd/rdpgw/protocol/process.go"} {
		f := load(rel)
		for _, d := range f.Decls {
			if gd, ok := d.(*ast.GenDecl); ok {
				for _, sp := range gd.Specs {
					if vs, ok := sp.(*ast.ValueSpec); ok && len(vs.Names) == 1 && vs.Names[0].Name == "c" && len(vs.Values) == 1 {
						init = append(init, exprString(vs.Values[0]))
					}
				}
			}
		}
		ast.Inspect(f, func(n ast.Node) bool {
			if se, ok := n.(*ast.SelectorExpr); ok {
				if id, ok := se.X.(*ast.Ident); ok && id.Name == "c" && rel == "cmd/rdpgw/protocol/gateway.go" {
					uses[se.Sel.Name] = true
				}
			}
			return true
		})
	}
	var ul []string
	for u := range uses {
		ul = append(ul, u)
	}
	sort.Strings(ul)
	emitSL("TUNNEL_CACHE_INIT", init)
	emitSL("TUNNEL_CACHE_USES", ul)
}

// configAnchors: the key-length tests, the fatal checks and the default map of config.Load.
func configAnchors() {
	const cfg = "cmd/rdpgw/config/configuration.go"
	ld := findFunc(cfg, "Load")
	// every `len(Conf.X.Key) != N` test
	var lens []string
	var keys []string
	ast.Inspect(ld.Body, func(n ast.Node) bool {
		if b, ok := n.(*ast.BinaryExpr); ok && b.Op.String() == "!=" {
			l := exprString(b.X)
			if strings.HasPrefix(l, "len(Conf.") {
				if v, ok := eval(b.Y, env{}, 0); ok {
					lens = append(lens, v.ExactString())
					keys = append(keys, strings.TrimSuffix(strings.TrimPrefix(l, "len(Conf."), ")"))
				}
			}
		}
		return true
	})
	if len(lens) == 0 {
		die("config.Load: len(Conf.<key>) != N tests")
	}
	for _, l := range lens {
		if l != lens[0] {
			die("config.Load: key length tests disagree: %v", lens)
		}
	}
	emitN("CONFIG_KEY_LEN", lens[0])
	emitSL("CONFIG_SUBSTITUTED_KEYS", keys)
	// the conditions guarding log.Fatalf
	var fatals []string
	ast.Inspect(ld.Body, func(n ast.Node) bool {
		if is, ok := n.(*ast.IfStmt); ok {
			for _, st := range is.Body.List {
				if es, ok := st.(*ast.ExprStmt); ok {
					if c, ok := es.X.(*ast.CallExpr); ok && exprString(c.Fun) == "log.Fatalf" {
						cond := exprString(is.Cond)
						if !strings.Contains(cond, "err") {
							fatals = append(fatals, cond)
						}
					}
				}
			}
		}
		return true
	})
	emitSL("CONFIG_FATAL_CONDITIONS", fatals)
	// defaults
	var defs []string
	ast.Inspect(ld.Body, func(n ast.Node) bool {
		if cl, ok := n.(*ast.CompositeLit); ok && exprString(cl.Type) == "map[string]interface{}" {
			for _, e := range cl.Elts {
				if kv, ok := e.(*ast.KeyValueExpr); ok {
					defs = append(defs, strings.Trim(exprString(kv.Key), "\"")+"="+strings.Trim(exprString(kv.Value), "\""))
				}
			}
		}
		return true
	})
	sort.Strings(defs)
	emitSL("CONFIG_DEFAULTS", defs)
	nh := findFunc("cmd/rdpgw/web/web.go", "NewHandler")
	c := cmpLits(nh, "len(c.Hosts)")
	emitS("NEWHANDLER_HOSTS_TEST", one(c, "NewHandler: len(c.Hosts) < N"))
	is := findFunc("cmd/rdpgw/web/session.go", "InitStore")
	emitSL("INITSTORE_KEY_TESTS", append(cmpLits(is, "len(sessionKey)"), cmpLits(is, "len(encryptionKey)")...))
}

// rdpAnchors regenerates the settings table from the struct tags of RdpSettings
// and the literals of the parser/marshaller.
func rdpAnchors() {
	const rdpgo = "cmd/rdpgw/rdp/rdp.go"
	f := load(rdpgo)
	var st *ast.StructType
	ast.Inspect(f, func(n ast.Node) bool {
		if ts, ok := n.(*ast.TypeSpec); ok && ts.Name.Name == "RdpSettings" {
			st, _ = ts.Type.(*ast.StructType)
		}
		return true
	})
	if st == nil {
		die("rdp.go: type RdpSettings struct")
	}
	var rows []string
	for _, fld := range st.Fields.List {
		if fld.Tag == nil || len(fld.Names) != 1 {
			die("rdp.go: RdpSettings field without tag")
		}
		raw, _ := strconv.Unquote(fld.Tag.Value)
		tag := reflect.StructTag(raw)
		name, ok := tag.Lookup("rdp")
		if !ok {
			die("rdp.go: RdpSettings.%s has no rdp tag", fld.Names[0].Name)
		}
		def, hasDef := tag.Lookup("default")
		kind := exprString(fld.Type)
		k := map[string]string{"bool": "KBool", "int": "KInt", "string": "KStr"}[kind]
		if k == "" {
			die("rdp.go: RdpSettings.%s has unsupported type %s", fld.Names[0].Name, kind)
		}
		d := "None"
		if hasDef && def != "" {
			d = "Some " + coqBytes(def)
		}
		rows = append(rows, fmt.Sprintf("  (%s, %s, %s, %s) (* %s %q *)", coqBytes(fld.Names[0].Name), coqBytes(name), k, d, fld.Names[0].Name, name))
		anchors = append(anchors, "RDP_TABLE."+fld.Names[0].Name+"="+name+":"+kind+":"+def)
	}
	out.WriteString("Inductive rdp_kind := KBool | KInt | KStr.\n")
	out.WriteString("Definition RDP_TABLE : list (bytes * bytes * rdp_kind * option bytes) := [\n" + strings.Join(rows, ";\n") + "\n].\n")
	en := constsOf(rdpgo)
	for _, n := range []string{"SourceNTLM", "SourceSmartCard", "SourceCurrent", "SourceBasic", "SourceUserSelect", "SourceCookie"} {
		if v, ok := en[n]; ok {
			emitN("RDP_"+n, v.ExactString())
		} else {
			die("rdp.go: const %s", n)
		}
	}
	emitS("RDP_CRLF", mustString(en, "CRLF", rdpgo))

	// forced settings of the download handler: d.Settings.X = ... assignments
	hd := findFunc("cmd/rdpgw/web/web.go", "HandleDownload")
	var forced []string
	ast.Inspect(hd.Body, func(n ast.Node) bool {
		if as, ok := n.(*ast.AssignStmt); ok && len(as.Lhs) == 1 {
			l := exprString(as.Lhs[0])
			if strings.HasPrefix(l, "d.Settings.") {
				forced = append(forced, strings.TrimPrefix(l, "d.Settings.")+"="+exprString(as.Rhs[0]))
			}
		}
		return true
	})
	emitSL("DOWNLOAD_FORCED", forced)
}

func mustString(en env, name, file string) string {
	v, ok := en[name]
	if !ok {
		die("%s: const %s", file, name)
	}
	s, _ := strconv.Unquote(v.ExactString())
	return s
}

// ---- C09: shared-state access facts of package protocol

type accessFact struct {
	fn    string
	loc   string
	write bool
	held  []string
}

var sharedLocs = []string{"Connections", "BytesSent", "transportOut.WritePacket", "IdleTimeout"}

func lockCall(s ast.Stmt, method string) (string, bool) {
	es, ok := s.(*ast.ExprStmt)
	if !ok {
		return "", false
	}
	c, ok := es.X.(*ast.CallExpr)
	if !ok {
		return "", false
	}
	sel, ok := c.Fun.(*ast.SelectorExpr)
	if !ok || sel.Sel.Name != method {
		return "", false
	}
	return exprString(sel.X), true
}

func accessesIn(n ast.Node) (out []struct {
	loc   string
	write bool
}) {
	writes := map[ast.Node]bool{}
	ast.Inspect(n, func(n ast.Node) bool {
		switch x := n.(type) {
		case *ast.AssignStmt:
			for _, l := range x.Lhs {
				ast.Inspect(l, func(m ast.Node) bool {
					if m != nil {
						writes[m] = true
					}
					return true
				})
			}
		case *ast.IncDecStmt:
			ast.Inspect(x.X, func(m ast.Node) bool {
				if m != nil {
					writes[m] = true
				}
				return true
			})
		case *ast.CallExpr:
			if id, ok := x.Fun.(*ast.Ident); ok && id.Name == "delete" && len(x.Args) > 0 {
				ast.Inspect(x.Args[0], func(m ast.Node) bool {
					if m != nil {
						writes[m] = true
					}
					return true
				})
			}
		}
		return true
	})
	ast.Inspect(n, func(n ast.Node) bool {
		switch x := n.(type) {
		case *ast.Ident:
			if x.Name == "Connections" {
				out = append(out, struct {
					loc   string
					write bool
				}{"Connections", writes[x]})
			}
		case *ast.SelectorExpr:
			switch x.Sel.Name {
			case "BytesSent", "IdleTimeout":
				out = append(out, struct {
					loc   string
					write bool
				}{x.Sel.Name, writes[x] || writes[x.Sel]})
			}
		case *ast.CallExpr:
			if strings.HasSuffix(exprString(x.Fun), "transportOut.WritePacket") {
				out = append(out, struct {
					loc   string
					write bool
				}{"transportOut.WritePacket", true})
			}
		}
		return true
	})
	return
}

func accessFacts() []accessFact {
	var facts []accessFact
	dir := filepath.Join(repo, "cmd/rdpgw/protocol")
	ents, err := os.ReadDir(dir)
	if err != nil {
		die("cmd/rdpgw/protocol: %v", err)
	}
	for _, e := range ents {
		if !strings.HasSuffix(e.Name(), ".go") || strings.HasSuffix(e.Name(), "_test.go") {
			continue
		}
		src, _ := os.ReadFile(filepath.Join(dir, e.Name()))
		if strings.Contains(string(src), "//go:build verif") {
			continue
		}
		f := load("cmd/rdpgw/protocol/" + e.Name())
		for _, d := range f.Decls {
			fd, ok := d.(*ast.FuncDecl)
			if !ok || fd.Body == nil {
				continue
			}
			name := fd.Name.Name
			if fd.Recv != nil && len(fd.Recv.List) == 1 {
				name = strings.TrimPrefix(exprString(fd.Recv.List[0].Type), "*") + "." + name
			}
			if strings.HasPrefix(name, "ClientConfig.") {
				continue // client.go is the gateway's own RDG client, not part of the server
			}
			held := map[string]bool{}
			for _, st := range fd.Body.List {
				if x, ok := lockCall(st, "Lock"); ok {
					held[x] = true
					continue
				}
				if x, ok := lockCall(st, "Unlock"); ok {
					delete(held, x)
					continue
				}
				var hs []string
				for h := range held {
					hs = append(hs, h)
				}
				sort.Strings(hs)
				for _, a := range accessesIn(st) {
					facts = append(facts, accessFact{fn: name, loc: a.loc, write: a.write, held: hs})
				}
			}
		}
	}
	return facts
}

// ---- C11: cleanup facts

func deferCalls(fn *ast.FuncDecl) []string {
	var r []string
	ast.Inspect(fn.Body, func(n ast.Node) bool {
		if d, ok := n.(*ast.DeferStmt); ok {
			r = append(r, exprString(d.Call))
		}
		return true
	})
	return r
}

func closeCalls(fn *ast.FuncDecl) []string {
	var r []string
	ast.Inspect(fn.Body, func(n ast.Node) bool {
		if c, ok := n.(*ast.CallExpr); ok && strings.HasSuffix(exprString(c.Fun), ".Close") {
			r = append(r, exprString(c))
		}
		return true
	})
	return r
}

func coqByteList(name string, vs []string) string {
	parts := make([]string, len(vs))
	for i, v := range vs {
		parts[i] = coqBytes(v)
	}
	return fmt.Sprintf("Definition %s : list bytes := [%s]. (* %q *)\n", name, strings.Join(parts, "; "), vs)
}

func findMethod(rel, recv, name string) *ast.FuncDecl {
	f := load(rel)
	for _, d := range f.Decls {
		if fd, ok := d.(*ast.FuncDecl); ok && fd.Name.Name == name && fd.Body != nil && fd.Recv != nil &&
			strings.TrimPrefix(exprString(fd.Recv.List[0].Type), "*") == recv {
			return fd
		}
	}
	die("%s: method %s.%s", rel, recv, name)
	return nil
}

func writeFacts(outDir string) {
	facts.WriteString("(* GENERATED by tools/gofacts from the current /repo working tree. Do not edit. *)\n")
	facts.WriteString("From Coq Require Import List NArith.\nFrom Coq.Strings Require Import Byte.\nFrom RDPGW Require Import Lib.Bytes.\nImport ListNotations.\nOpen Scope N_scope.\n\n")
	// C09
	af := accessFacts()
	locID := map[string]int{}
	for i, l := range sharedLocs {
		locID[l] = i + 1
		fmt.Fprintf(&facts, "Definition LOC_%s : N := %d.\n", strings.ReplaceAll(l, ".", "_"), i+1)
	}
	lockID := map[string]int{}
	var lockNames []string
	for _, a := range af {
		for _, h := range a.held {
			if _, ok := lockID[h]; !ok {
				lockID[h] = len(lockID) + 1
				lockNames = append(lockNames, h)
			}
		}
	}
	var rows []string
	for _, a := range af {
		var hs []string
		for _, h := range a.held {
			hs = append(hs, fmt.Sprint(lockID[h]))
		}
		rows = append(rows, fmt.Sprintf("  (%s, %d, %v, [%s]) (* %s %s write=%v held=%v *)", coqBytes(a.fn), locID[a.loc], a.write, strings.Join(hs, "; "), a.fn, a.loc, a.write, a.held))
		anchors = append(anchors, fmt.Sprintf("ACCESS %s %s write=%v held=%v", a.fn, a.loc, a.write, a.held))
	}
	fmt.Fprintf(&facts, "(* locks: %v *)\n", lockNames)
	facts.WriteString("Definition ACCESS_FACTS : list (bytes * N * bool * list N) := [\n" + strings.Join(rows, ";\n") + "\n].\n\n")
	// C11
	const gwgo = "cmd/rdpgw/protocol/gateway.go"
	facts.WriteString(coqByteList("WS_DEFERS", deferCalls(findMethod(gwgo, "Gateway", "handleWebsocketProtocol"))))
	facts.WriteString(coqByteList("LEGACY_DEFERS", deferCalls(findMethod(gwgo, "Gateway", "handleLegacyProtocol"))))
	facts.WriteString(coqByteList("UPGRADE_DEFERS", deferCalls(findMethod(gwgo, "Gateway", "HandleGatewayProtocol"))))
	tc := []string{}
	f := load("cmd/rdpgw/protocol/tunnel.go")
	for _, d := range f.Decls {
		if fd, ok := d.(*ast.FuncDecl); ok && fd.Name.Name == "Close" && fd.Recv != nil {
			tc = closeCalls(fd)
		}
	}
	facts.WriteString(coqByteList("TUNNEL_CLOSE_CALLS", tc))
	facts.WriteString(coqByteList("FORWARD_DEFERS", deferCalls(findFunc("cmd/rdpgw/protocol/common.go", "forward"))))
	facts.WriteString(writeSites())
	facts.WriteString(writeDecisions())
	writeIfChanged(filepath.Join(outDir, "Facts.v"), facts.String())
}
