module gofacts

go 1.22
