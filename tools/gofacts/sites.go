package main

// C10: index/slice sites with the guards that dominate them.
//
// For every function that handles client-controlled bytes, each index or slice
// expression is emitted together with
//   - the conditions of the early exits that precede it ("!cond": an
//     `if cond { ...; return|continue|break|panic }` earlier in an enclosing block),
//   - the conditions of the if/for statements that enclose it ("cond").
// The Coq side states, per site, the arithmetic fact that these guards imply the
// index is in range (Properties/C10.v); a guard that disappears from the source
// changes the generated table and the theorem that pins it no longer checks.

import (
	"fmt"
	"go/ast"
	"go/token"
	"strings"
)

type site struct {
	expr   string
	guards []string
}

func exits(b *ast.BlockStmt) bool {
	if b == nil || len(b.List) == 0 {
		return false
	}
	switch s := b.List[len(b.List)-1].(type) {
	case *ast.ReturnStmt:
		return true
	case *ast.BranchStmt:
		return s.Tok == token.CONTINUE || s.Tok == token.BREAK || s.Tok == token.GOTO
	case *ast.ExprStmt:
		if c, ok := s.X.(*ast.CallExpr); ok {
			f := exprString(c.Fun)
			return f == "panic" || f == "log.Fatal" || f == "log.Fatalf" || f == "os.Exit"
		}
	}
	return false
}

func sitesOf(fn *ast.FuncDecl) []site { return sitesOfCalls(fn, "") }

// sitesOfCalls: with callee != "" the "sites" are the calls of that function (expression text of the
// whole call) instead of index/slice expressions.
func sitesOfCalls(fn *ast.FuncDecl, callee string) []site {
	var out []site
	var walkStmts func(list []ast.Stmt, guards []string)
	var walkStmt func(s ast.Stmt, guards []string)
	var scanExpr func(n ast.Node, guards []string)
	scanExpr = func(n ast.Node, guards []string) {
		if n == nil || n == ast.Node((*ast.BlockStmt)(nil)) {
			return
		}
		if e, ok := n.(ast.Expr); ok && e == nil {
			return
		}
		ast.Inspect(n, func(n ast.Node) bool {
			switch x := n.(type) {
			case *ast.BinaryExpr:
				// short-circuit operators guard their right operand
				if x.Op == token.LAND {
					scanExpr(x.X, guards)
					scanExpr(x.Y, append(append([]string{}, guards...), exprString(x.X)))
					return false
				}
				if x.Op == token.LOR {
					scanExpr(x.X, guards)
					scanExpr(x.Y, append(append([]string{}, guards...), "!"+exprString(x.X)))
					return false
				}
			case *ast.FuncLit:
				walkStmts(x.Body.List, append([]string{}, guards...))
				return false
			case *ast.CallExpr:
				if callee != "" && exprString(x.Fun) == callee {
					out = append(out, site{exprString(x), append([]string{}, guards...)})
				}
			case *ast.SliceExpr:
				if callee == "" {
					out = append(out, site{exprString(x), append([]string{}, guards...)})
				}
			case *ast.IndexExpr:
				// map lookups never panic; they are recognised by name below
				if callee == "" {
					out = append(out, site{exprString(x), append([]string{}, guards...)})
				}
			}
			return true
		})
	}
	walkStmt = func(s ast.Stmt, guards []string) {
		switch x := s.(type) {
		case *ast.BlockStmt:
			walkStmts(x.List, guards)
		case *ast.IfStmt:
			if x.Init != nil {
				walkStmt(x.Init, guards)
			}
			scanExpr(x.Cond, guards)
			walkStmts(x.Body.List, append(append([]string{}, guards...), exprString(x.Cond)))
			if x.Else != nil {
				walkStmt(x.Else, append(append([]string{}, guards...), "!"+exprString(x.Cond)))
			}
		case *ast.ForStmt:
			if x.Init != nil {
				walkStmt(x.Init, guards)
			}
			g := guards
			if x.Cond != nil {
				scanExpr(x.Cond, guards)
				g = append(append([]string{}, guards...), exprString(x.Cond))
			}
			if x.Post != nil {
				walkStmt(x.Post, g)
			}
			walkStmts(x.Body.List, g)
		case *ast.RangeStmt:
			scanExpr(x.X, guards)
			walkStmts(x.Body.List, append(append([]string{}, guards...), "range "+exprString(x.X)))
		case *ast.SwitchStmt:
			if x.Init != nil {
				walkStmt(x.Init, guards)
			}
			if x.Tag != nil {
				scanExpr(x.Tag, guards)
			}
			for _, c := range x.Body.List {
				cc := c.(*ast.CaseClause)
				lab := []string{}
				for _, e := range cc.List {
					lab = append(lab, exprString(e))
				}
				g := append(append([]string{}, guards...), "case "+exprString(x.Tag)+"=="+strings.Join(lab, "|"))
				walkStmts(cc.Body, g)
			}
		case *ast.TypeSwitchStmt:
			for _, c := range x.Body.List {
				walkStmts(c.(*ast.CaseClause).Body, guards)
			}
		case *ast.SelectStmt:
			for _, c := range x.Body.List {
				cc := c.(*ast.CommClause)
				if cc.Comm != nil {
					walkStmt(cc.Comm, guards)
				}
				walkStmts(cc.Body, guards)
			}
		case *ast.LabeledStmt:
			walkStmt(x.Stmt, guards)
		default:
			scanExpr(s, guards)
		}
	}
	walkStmts = func(list []ast.Stmt, guards []string) {
		g := append([]string{}, guards...)
		for _, s := range list {
			walkStmt(s, g)
			if ifs, ok := s.(*ast.IfStmt); ok && ifs.Else == nil && exits(ifs.Body) {
				g = append(g, "!"+exprString(ifs.Cond))
			}
		}
	}
	walkStmts(fn.Body.List, nil)
	return out
}

func coqSites(name string, ss []site) string {
	var rows []string
	for _, s := range ss {
		gs := make([]string, len(s.guards))
		for i, g := range s.guards {
			gs[i] = coqBytes(g)
		}
		rows = append(rows, fmt.Sprintf("  (%s, [%s]) (* %s  under %q *)", coqBytes(s.expr), strings.Join(gs, "; "), s.expr, s.guards))
		anchors = append(anchors, fmt.Sprintf("SITE %s %s under %q", name, s.expr, s.guards))
	}
	return fmt.Sprintf("Definition %s : list (bytes * list bytes) := [\n%s\n].\n", name, strings.Join(rows, ";\n"))
}

func writeSites() string {
	var b strings.Builder
	b.WriteString("\n(* C10: index and slice sites of the client-facing byte handlers *)\n")
	const common = "cmd/rdpgw/protocol/common.go"
	b.WriteString(coqSites("SITES_readHeader", sitesOf(findFunc(common, "readHeader"))))
	b.WriteString(coqSites("SITES_readMessage", sitesOf(findFunc(common, "readMessage"))))
	b.WriteString(coqSites("SITES_receive", sitesOf(findFunc(common, "receive"))))
	b.WriteString(coqSites("SITES_forward", sitesOf(findFunc(common, "forward"))))
	b.WriteString(coqSites("SITES_DecodeUTF16", sitesOf(findFunc("cmd/rdpgw/protocol/utf16.go", "DecodeUTF16"))))
	b.WriteString(coqSites("SITES_getAuthPayload", sitesOf(findMethod("cmd/rdpgw/web/ntlm.go", "NTLMAuthHandler", "getAuthPayload"))))
	const kdc = "cmd/rdpgw/kdcproxy/proxy.go"
	b.WriteString(coqSites("SITES_kdcForward", sitesOf(findMethod(kdc, "KerberosProxy", "forward"))))
	b.WriteString(coqSites("SITES_kdcAwaitReply", sitesOf(findFunc(kdc, "awaitReply"))))
	// C05: which challenge is registered under which configuration test (main.go)
	b.WriteString(coqSites("CHALLENGES_registered", sitesOfCalls(findFunc("cmd/rdpgw/main.go", "main"), "auth.Register")))
	b.WriteString(coqSites("SITES_legacyReadPacket", sitesOf(findMethod("cmd/rdpgw/transport/legacy.go", "LegacyPKT", "ReadPacket"))))
	return b.String()
}
