#!/usr/bin/env python3
"""Refresh the thm / cases / layer columns of DESIGN.md section 0.2 from a bin/check-all log."""
import re, sys, os
V = os.path.dirname(os.path.dirname(os.path.abspath(__file__)))
log = open(sys.argv[1]).read()
nums = {}
for m in re.finditer(r"check (C\d\d) tier=quick seed=\d+: (\d+) theorems, (\d+) cases", log):
    nums[m.group(1)] = (int(m.group(2)), int(m.group(3)))
layer = {"C01": "L1 + L3", "C02": "L2 + L3", "C03": "L1 + real `security` callbacks", "C04": "L1/L2/L3", "C05": "L3", "C06": "L1 + L2",
         "C07": "L2", "C08": "L1 + L2", "C09": "L2 `-race` + L3", "C10": "L1/L2/L3", "C11": "L2", "C12": "L3", "C13": "L3",
         "C14": "L2 (service package)", "C15": "L2 + L3", "C16": "L1 + L3", "C17": "L1 + L3", "C18": "L3", "C19": "L2 + L3", "C20": "L2 + L3"}
p = os.path.join(V, "DESIGN.md")
out = []
for line in open(p):
    m = re.match(r"^\| (C\d\d)( \(partial\))? \|", line)
    f = line.rstrip("\n").split("|")
    if m and len(f) == 8 and m.group(1) in nums:
        t, c = nums[m.group(1)]
        f[3] = " %d " % t
        f[4] = " " + format(c, ",").replace(",", " ") + " "
        f[5] = " " + layer[m.group(1)] + " "
        line = "|".join(f) + "\n"
    out.append(line)
open(p, "w").write("".join(out))
print("updated", sorted(nums))
