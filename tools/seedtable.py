#!/usr/bin/env python3
"""Render seeded/RESULTS.tsv (+ meta.json titles) as the markdown table of DESIGN.md section 12."""
import json, os, sys
V = os.path.dirname(os.path.dirname(os.path.abspath(__file__)))
rows = []
for line in open(os.path.join(V, "seeded", "RESULTS.tsv")):
    f = line.rstrip("\n").split("\t")
    if len(f) < 4:
        continue
    pid, n, chk, outcome = f[:4]
    what = f[4] if len(f) > 4 else ""
    sig = ""
    if "signature=" in what:
        sig = what.split("signature=")[1].split(" broken=")[0]
    broken = what.split("broken=")[1] if "broken=" in what else ""
    try:
        m = json.load(open(os.path.join(V, "seeded", pid, n, "meta.json")))
    except Exception:
        m = {}
    title = (m.get("title") or "").replace("|", "/")
    how = {"caught-with-input": "violation with replayable input", "caught-proof-or-correspondence-only": "proof/translator obligation broke, no failing input in the quick tier",
           "missed": "**not caught**", "check-error": "check error"}.get(outcome, outcome)
    detail = sig if sig and sig != "None" else ""
    if broken and broken != "[]":
        detail += (" + " if detail else "") + "broken " + broken
    rows.append("| %s/%s | %s | %s%s | %s |" % (pid, n, title[:150], how, "" if chk == pid else " (check %s)" % chk, detail[:110]))
print("| change | what was changed | outcome of `bin/check %s` (quick) | signature / broken obligation |".replace("%s", "<its property>"))
print("|---|---|---|---|")
print("\n".join(rows))
