"""Regenerates MANIFEST.json from the table below (python3 lib/manifest.py)."""
import json
import os

VERIF = os.path.dirname(os.path.dirname(os.path.abspath(__file__)))

LEVEL_NOTE = ("Trusted: Coq 8.16.1 kernel (no axioms: Print Assumptions reports 'Closed under the global context' for every "
              "property theorem; no native_compute; thorough tier: coqchk -o and an in-Coq re-evaluation of a case sample), "
              "the gofacts translator (constants, access/cleanup/guard facts and the decision text of the transcribed "
              "functions, all regenerated and pinned by theorems on every run), extraction with ExtrOcamlBasic only plus "
              "the OCaml driver, the Go harness/fakes/comparator. Models are hand transcriptions tied to the code by those "
              "facts and by the per-run correspondence. Modelled, not verified: ")

CHECKS = {
    "C17": dict(
        text="Theorems over all client capability values (N), all four server settings and all version bytes: matchAuth "
             "succeeds iff both sides are empty or share a bit; success advertises exactly the enabled mechanisms, echoes the "
             "version bytes and is a well-formed packet under an independent decoder; failure answers capability-mismatch and "
             "ends the tunnel. Tied to the code by the regenerated constants and by differential correspondence with the real "
             "matchAuth table and real Processor.Process handshakes; the extracted spec is also the oracle on the "
             "implementation's responses."
             " The handshake against the real binary (7 configurations x 6 client words x both transports) is compared with the same model; a refused handshake must end the legacy outbound connection too.",
        design="7/C17", technique="Coq proof (iff by case analysis on N.land) + extracted-model correspondence",
        modelled="matchAuth, handshakeRequest/Response, createPacket, the handshake case of Process (transcribed by hand)."),
}

CHECKS["C01"] = dict(
    text="The specification is a monitor automaton over the tunnel's observable events (Spec/TunnelOrder.v). Theorems, for every "
         "configuration, every list of transport reads (any bytes, any fragmentation, read errors) and every behaviour of the "
         "cookie check, host policy and dial: the monitor accepts every run of the transcription of Processor.Process "
         "(simulation + induction); hence every connection attempt is preceded in order by the four success responses, the "
         "accepted cookie and the policy approval of that very host; at most one attempt per tunnel; payload only after a "
         "successful dial and channel success; out-of-order packets never get success; an error response is followed by the "
         "end; nothing after the end. The same extracted monitor is run over traces of the real Processor.Process.",
    design="7/C01", technique="Coq proof (monitor + simulation relation, induction over read lists) + extracted-model correspondence",
    modelled="Processor.Process, readMessage/readHeader, parsers and builders (hand transcription); callbacks, dial outcome and "
             "transport reads are environment answers; websocket/legacy transports and main() wiring are outside this check.")

CHECKS["C16"] = dict(
    text="Theorems for every configuration and every run: each response decodes under independent reference decoders (written "
         "from MS-TSGU) to its own type, a length field equal to the bytes sent, exactly the announced optional fields and "
         "nothing left over, and the status the step decided; status 0 iff the phase moved; cookie rejection and host denial "
         "carry 0x800759F8 / 0x800759DA; the redirection word for all 2^7 switch combinations (case analysis inside the proof) "
         "and the idle field = max 0 t over the int32 range. The extracted decoder/oracle is run over the real responses."
         " The handshake and the tunnel-authorization response of the real binary are compared with the same model for 7 + 13 configurations given by file, environment or both.",
    design="7/C16", technique="Coq proof (builders vs reference decoders, finite case analysis in-proof) + extracted-model correspondence",
    modelled="the five response builders, createPacket, makeRedirectFlags (hand transcription); main.go's config-to-flags mapping "
             "is covered by C18's real-binary runs.")

CHECKS["C08"] = dict(
    text="Specification frame (Spec/Framing.v) vs the transcription of readMessage/readHeader as a per-read state machine. "
         "Proved for all well-formed packet sequences and all segmentations delivering each packet alone in a read or cut once "
         "with a first part <= 4096: processed packets = framed packets (C08_partial); a length field below the header size and a "
         "never-completed packet end the tunnel with an error. The full statement is refuted on the pinned code by three "
         "vm_compute witnesses (coalesced packets, >= 3 fragments, first fragment > 4096), recorded as known findings with narrow "
         "signatures; the real Processor is run segmented and unsegmented on every case and compared.",
    design="7/C08", technique="Coq proof (partial theorem by induction over packets + refutation witnesses) + extracted-model correspondence",
    modelled="readMessage, readHeader (hand transcription). Partial: the full-strength statement is false of the pinned code "
             "(known findings); websocket/legacy read granularity is not driven at this layer.")

CHECKS["C06"] = dict(
    text="Theorems: for every list of host reads of at most FORWARD_BUF bytes (i.e. every segmentation of the host stream) each "
         "packet sent to the client is one well-formed DATA packet under the reference decoder and the concatenated payloads are "
         "the host stream; FORWARD_BUF < 65536 is re-checked against the regenerated constant; what receive() writes to the host "
         "is exactly the declared payload of the DATA body (the bytes carried when the length field exceeds them); every "
         "interleaving of the two directions decomposes into its projections. The real forward()/receive() are run concurrently "
         "over net.Pipe on boundary sizes, bad length fields and MiB streams; the extracted specification is the oracle.",
    design="7/C06", technique="Coq proof (decoder-after-encoder lemmas, induction over chunk lists and op interleavings) + extracted-model correspondence",
    modelled="forward(), receive(), createPacket (hand transcription); kernel TCP segmentation replaced by net.Pipe hand-over.")

CHECKS["C03"] = dict(
    text="Theorems: the policy as wired by main() (CheckSession o CheckHost under token auth, CheckHost otherwise) is equivalent to "
         "the declarative policy (token host equality, address binding, list membership after placeholder substitution with a "
         "non-empty user; 'signed' and unknown modes allow nothing; only 'any' allows arbitrary hosts); on every run with any "
         "reachable-address set, every connection goes to the address named by the channel-create packet being processed, in "
         "the tunnel-authorized phase, and only if the declarative policy allows it; a refused host gets E_PROXY_RAP_ACCESSDENIED, "
         "the tunnel ends and there is no connection attempt; every near miss is refused. The real security callbacks run inside "
         "the real Processor with allowed entries on live listeners; the extracted declarative policy is the oracle on every "
         "policy decision and every accept.",
    design="7/C03", technique="Coq proof (policy iff declarative spec; dial provenance by induction over runs) + extracted-model correspondence",
    modelled="CheckHost, CheckSession, DecodeUTF16, JoinHostPort, channelRequest (hand transcription); cookie acceptance is scripted; "
             "main()'s wiring is replicated by the harness and checked on the real binary by C12.")
CHECKS["C04"] = dict(
    text="Theorems: with verification on the wired policy passes only if the token's recorded address equals the presenting "
         "client's address (string equality) and from any other address no run contains a connection attempt; with verification "
         "off the decision is independent of both addresses; the client address is the trimmed first X-Forwarded-For element when "
         "the header is non-empty and the TCP peer host otherwise; the default is on (regenerated constant). The real "
         "web.EnrichContext and security.CheckSession are run on address forms, header chains and all issuing x presenting pairs.",
    design="7/C04", technique="Coq proof (binding theorem + no-dial corollary over runs) + extracted-model correspondence",
    modelled="EnrichContext's client address (ASCII blanks), CheckSession (hand transcription); issuance side covered by C12.")

CHECKS["C02"] = dict(
    text="Symbolic-cryptography model (terms record algorithm and key of the MAC). Theorems for every presented term, time and IdP "
         "behaviour: CheckPAACookie accepts iff compact JWS + HS256 + configured signing key + issuer rdpgw + time claims within "
         "the 60 s leeway + IdP honours the embedded access token, and then sets exactly the token's host/address and the IdP's "
         "subject; the IdP is consulted only after MAC/issuer/time passed; minted tokens expire at issue+300 s, are accepted up "
         "to issue+360 s and rejected afterwards; rejection maps to E_PROXY_COOKIE_AUTHENTICATION_ACCESS_DENIED and ends the "
         "tunnel. The real CheckPAACookie/GeneratePAAToken with real go-jose run against a scriptable IdP on token families, "
         "every-position mutations and noise; an independent decoder (own base64/JSON/HMAC) maps each string to its term.",
    design="7/C02", technique="Coq proof over symbolic tokens (iff characterisation, lifetime arithmetic) + extracted-model correspondence",
    modelled="CheckPAACookie, GeneratePAAToken (symbolic); go-jose parsing, HMAC-SHA256, go-oidc UserInfo are assumed and exercised by correspondence only.")
CHECKS["C15"] = dict(
    text="Symbolic-cryptography model of user tokens. Theorems: UserInfo succeeds only for a token encrypted under the configured "
         "encryption key and (when configured) signed under the configured signing key with an allowed algorithm, issuer rdpgw, "
         "unexpired, and yields its subject; a token minted for U verifies within its lifetime and yields U; encrypt-only and "
         "sign-and-encrypt tokens are mutually rejected; the endpoint's 405/400/403/200 mapping; allow-lists equal {HS256}, "
         "{direct}, {A128CBC-HS256} (regenerated). The real GenerateUserToken/UserInfo/TokenInfo run on minted, cross-mode, "
         "foreign-key, foreign-algorithm, expired and per-segment-mutated tokens."
         " The token-info endpoint of the real binary (keys and issuer as main() wires them), re-encoded token texts, form POSTs and the subject of the token inside a connection file are exercised too.",
    design="7/C15", technique="Coq proof over symbolic tokens + extracted-model correspondence",
    modelled="GenerateUserToken, UserInfo, TokenInfo status mapping (symbolic); go-jose JWE/JWS and the ciphers are assumed; opacity of the token text is checked textually only.")

CHECKS["C19"] = dict(
    text="Theorems over the transcription of the RDP reader/writer and of the Builder on the regenerated ~60-row settings table: "
         "parse(marshal m) = m as maps for every map of int64 integers and strings (C19_parse_marshal_partial: keys and string "
         "values with ASCII non-blank first/last bytes, arbitrary interior incl. ':' and non-ASCII); every emitted file is "
         "CRLF-terminated name:type:value lines with pairwise distinct names; load(emit s) = s for every typed assignment to the "
         "settings (builder round trip, by induction over the table with the table's side conditions discharged by computation); "
         "malformed lines make the parse fail; Atoi inverts %d on the whole int64 range. The real Unmarshal/Marshal/Builder/"
         "NewBuilderFromFile run on random maps, 35 malformed line shapes, random settings and templates.",
    design="7/C19", technique="Coq proof (string-function lemmas, induction over lines and over the settings table) + extracted-model correspondence",
    modelled="rdp.Unmarshal/Marshal, Builder.String, isZero/initStruct, NewBuilderFromFile (hand transcription; strings.TrimSpace with "
             "all Unicode blanks). Partial: round trips proved for ASCII-edged strings; mapstructure's case-insensitive matching "
             "and cross-typed template values are outside the model; the forced settings of the download handler are C12.")

CHECKS["C14"] = dict(
    text="Symbolic model of the verifier's context cache and exchange. Theorems for every user database and every history of "
         "(time, session, message) triples over any number of sessions: a step reports user u authenticated only if u's "
         "configured password is non-empty, the message is an authenticate message naming u that carries the response of that "
         "password to challenge ch, and an earlier negotiate of the same session was answered with that very ch (invariant over "
         "reachable states: stored challenges are fresh nonces issued in their own session); the exact local iff; the honest "
         "exchange always succeeds. The real NTLMAuth.Authenticate is driven with go-ntlm's own client over exhaustive short "
         "histories and random histories with replays, cross-session responses, forged identities and garbage.",
    design="7/C14", technique="Coq proof (invariant over histories of a symbolic state machine) + extracted-model correspondence",
    modelled="NTLMAuth.Authenticate and its context cache (symbolic); go-ntlm parsing and NTLMv2 are assumed; cmd/auth/auth.go (gRPC, PAM) "
             "cannot be built here and is not exercised.")

CHECKS["C18"] = dict(
    text="Theorems over the transcription of config.Load's checks and main()'s fatal paths: a started gateway has none of the six "
         "unsafe combinations and each of them refuses the start in every environment; every configuration free of them starts "
         "when the IdP and the Kerberos files are usable; a started instance runs each of the five keys with exactly 32 characters, "
         "the configured one iff it has length 32 and a fresh one otherwise; tokens minted under one signing key are rejected "
         "under any other (via the C02 model). The source's fatal conditions, substituted keys, size tests and defaults are "
         "regenerated as text and pinned by a theorem. The real binary is started on ~90 (quick) / ~500 (thorough) configurations "
         "given by file, environment or both, and pairs of instances exchange tokens and session cookies."
         " A started instance is probed for what it serves (OpenID routes, Basic/NTLM/Negotiate challenges) against Model.Config.serves (C18_served_is_safe); the decisions of main() and config.Load are pinned.",
    design="7/C18", technique="Coq proof (decision-logic equivalences, source text pinned by reflexivity) + real-binary correspondence",
    modelled="config.Load checks and key substitution, NewHandler/InitStore/initOIDC/keytab fatal paths (hand transcription); koanf, "
             "mapstructure, yaml, env mapping and TLS setup are exercised only.")

CHECKS["C13"] = dict(
    text="State-machine model of the login (state cache, callback sequence, sessions) with the IdP's answers attached to each "
         "callback. Theorem over every history of /connect and /callback requests on any number of browser sessions: a session "
         "is authenticated with name u only if u is non-empty and an earlier callback of that session carried a state this "
         "gateway issued to a /connect request less than 120 s before, the code was exchanged, the ID token verified and its "
         "user-name claim is u (two invariants over reachable states); a callback completes a login iff all steps succeed; a "
         "failing callback changes no session; only authenticated sessions get a file. The regenerated source facts (return "
         "after the missing-claim error, 120 s) are pinned. The real binary runs with both session stores on every failure "
         "point x session state, random histories, every-k-th-position cookie mutations, identity gob round trips.",
    design="7/C13", technique="Coq proof (history invariants of a state machine) + real-binary correspondence",
    modelled="OIDC.Authenticated/HandleCallback/state cache/session identity (hand-written state machine); oauth2, go-oidc, gorilla "
             "sessions/securecookie, gob are assumed and exercised only.")

CHECKS["C12"] = dict(
    text="Theorems over the transcription of getHost/HandleDownload composed with the token, policy and login models: a file is "
         "issued only to an authenticated session (any other /connect is redirected to the IdP); the target is the requested value "
         "only in 'any' mode, a configured entry equal to the request in 'unsigned', the subject of a query token that verifies "
         "(key, issuer, expiry) and is a configured entry in 'signed', a configured entry otherwise; the token's claims are exactly "
         "(address with the user substituted, user name without domain part when splitting, requesting client address, session "
         "access token), expiry +300 s; under round-robin/unsigned/any the issued host+token pass the gateway's own cookie check "
         "and host policy from the same address within the lifetime (hypotheses on the IdP subject stated); forced settings pinned "
         "from the source. The real binary is driven end to end (login, /connect, independent file reader and token decoder, "
         "websocket replay from the same and another address).",
    design="7/C12", technique="Coq proof (composition of download, token and policy models) + real-binary end-to-end correspondence",
    modelled="getHost, HandleDownload (hand transcription); random picker as environment answer; ServeContent, URL parsing, session "
             "middleware exercised only; user tokens switched off (C15).")

CHECKS["C05"] = dict(
    text="Theorems over the transcription of main()'s route table on the gateway prefix and the Basic/NTLM middlewares, for all "
         "mechanism subsets, all lists of Authorization values and all backend answers: the tunnel handler runs only if the first "
         "Authorization value carries credentials of an enabled scheme that the backend confirmed, with the confirmed name as the "
         "tunnel's identity; no header (or an empty first value) gives 401 with one challenge per registered scheme in order; "
         "OpenID alone leaves the endpoint open; confirmed NTLM credentials always reach the handler and confirmed Basic "
         "credentials do when no Authorization value contains an earlier route's keyword (C05_confirmed_basic_reaches_partial); "
         "the unrestricted converse is refuted by a witness (known finding route-shadowing). The real binary runs 12 mechanism "
         "subsets against a scriptable gRPC authentication service with ~37 header shapes x 4 methods, NTLM sequences on one and "
         "on different connections.",
    design="7/C05", technique="Coq proof (case analysis over the route table; refutation witness) + real-binary correspondence",
    modelled="route table, NoAuthz/AuthMux, BasicAuth, NTLMAuth (hand transcription; mux patterns as unanchored substring tests); "
             "SPNEGO only as 'does not reach the handler'; cmd/auth/auth.go not buildable here.")

CHECKS["C07"] = dict(
    text="Theorems over a model of the connection-id cache with one tunnel and processor per connection: for any number of "
         "tunnels and any interleaving of their opens and reads, the outputs a tunnel sees (responses, bytes to its host, "
         "connection attempts, end) equal those of its own operations run alone (non-interference, by induction with a locality "
         "lemma); a legacy inbound request is attached iff an outbound channel with the same connection id exists. N up to 24 "
         "(quick) / 64 (thorough) real tunnels run concurrently through the real handlers over both transports with per-tunnel "
         "users, cookies, token hosts and tagged backends; each tunnel's projected observation is compared with the model's solo "
         "run.",
    design="7/C07", technique="Coq proof (non-interference by induction over interleavings) + concurrent gateway-level correspondence",
    modelled="HandleGatewayProtocol's tunnel lookup/creation and handleLegacyProtocol's attach rules (hand model over the Processor "
             "model); each operation atomic (goroutine-level interleavings are C09).")
CHECKS["C09"] = dict(
    text="PARTIAL BY NATURE. Theorem: for any number of threads that each follow the locking discipline (every access to a shared "
         "location under that location's mutex) no reachable state of the interleaving semantics is a data race; closed "
         "disciplined blocks compose. Per-run obligation: the access facts regenerated from package protocol (registry, "
         "Tunnel.BytesSent, outgoing WritePacket, Gateway.IdleTimeout with the mutexes syntactically held) satisfy the discipline, "
         "so any goroutines executing any sequences of those accesses never race on them. The runtime half runs the real "
         "handlers under the Go race detector with 4 and 32 concurrent tunnels doing setup, bidirectional data, keep-alives, close "
         "/ protocol error / disconnect while the host is sending, and checks frame integrity at the clients."
         " The assembled binary, built with -race, is put under connection churn (16 clients, fresh connections, tunnels hijacked and torn down) and must neither report a race nor abort.",
    design="7/C09", technique="Coq proof (lockset soundness, invariant over interleavings) on translator-extracted facts + race-detector soak",
    modelled="only the syntactically extracted locking discipline of four locations; library internals, other locations and the Go "
             "memory model are explored by the race detector, not proved.")

CHECKS["C11"] = dict(
    text="PARTIAL. Theorems: from the regenerated cleanup facts (deferred calls of both transport handlers, calls of Tunnel.Close, "
         "deferred calls of the relay) every resource a tunnel can hold at any point of the exchange - backend connection, relay "
         "goroutine, inbound and outbound client connections, registry entry, gauge - is released when the packet loop returns; "
         "and every way the client side ends (read error, unframeable bytes, out-of-order packet, channel close) makes the packet "
         "loop return (Processor model). The source text of the cleanup is pinned. The real handlers run all 96 cells (8 points x "
         "7 ways of ending x 2 transports) and within 2 s must show EOF at the backend, closed client-facing connections, "
         "registry size, gauges and gateway goroutine count back at the baseline. Known finding: legacy OUT closed with a silent "
         "host.",
    design="7/C11", technique="Coq proof (cleanup completeness on translator-extracted facts + termination of the packet loop per end cause) + gateway-level fault enumeration",
    modelled="handleWebsocketProtocol/handleLegacyProtocol defers, Tunnel.Close, forward's exit rule (facts); bounded time, goroutine "
             "termination and socket states are measured, not proved.")

CHECKS["C20"] = dict(
    text="PARTIAL. Theorems over the transcription of the KDC proxy: the DER codec of KDC-PROXY-MESSAGE (definite minimal "
         "lengths) round-trips for messages up to 1 MiB and the wrapped reply decodes to exactly the KDC's reply; requests that "
         "are not POST, declare no length or exceed 128 KiB get 405/411/413 from the headers alone and undecodable bodies get 400 "
         "whatever the KDCs would do (nothing is sent); what a TCP KDC receives is the embedded message; when a KDC of the realm "
         "replies the response is that reply wrapped, and it came from one of the realm's KDCs; when none replies the answer is "
         "503; the handler is total and every wait carries the 5 s deadline. The real handler runs against fake TCP/UDP KDCs "
         "with 9 behaviour sets, payload sizes to 128 KiB, four realm cases and the malformed-body stream; latency is measured."
         " The KDC-proxy route of the real binary (Kerberos alone and stacked with OpenID) is exercised with replying, silent, partial, trickling and refusing KDCs.",
    design="7/C20", technique="Coq proof (DER round trip with arithmetic on length encodings, relay exactness) + correspondence against fake KDCs",
    modelled="KerberosProxy.Handler, decode/encode, forward/awaitReply (hand transcription of the repaired code); gofork asn1 beyond "
             "this message shape, gokrb5's config parser and KDC ordering, sockets and timers are exercised only; wall-clock bounds measured.")

CHECKS["C10"] = dict(
    text="PARTIAL. The index and slice operations of the client-facing byte handlers are modelled as partial operations that "
         "panic when out of range, each guarded exactly by the guards the table regenerated from the source shows in front of "
         "it. Theorems: with those guards readHeader, DecodeUTF16, getAuthPayload and the KDC proxy's UDP leg never panic for "
         "any input and compute what the models of the other properties compute; without a guard an input panics (refuted "
         "variants, so the statements are not vacuous); every slice or index expression in those functions is a classified "
         "one; in every reachable gateway state an attached inbound legacy channel has its outbound channel; what one tunnel is "
         "served is independent of every other client's input. The real functions, the real handler and the real binary (TLS "
         "on/off x buffer tuning) are driven with hostile inputs, each followed by a liveness probe and a log scan.",
    design="7/C10", technique="Coq proof (partial operations, guards from regenerated site table, invariant over attach orders) + hostile-input correspondence and liveness probes",
    modelled="guarded sites of readHeader/DecodeUTF16/getAuthPayload/kdcproxy.forward and legacy attach order; reflection in "
             "setSendReceiveBuffers, go-ntlm parsers, net/http, websocket library and the scheduler are exercised only.")

NOT_YET = {}


def main():
    props = [json.loads(l) for l in open(os.path.join(VERIF, "properties.jsonl"))]
    checks = []
    na = []
    for p in props:
        pid = p["id"]
        if pid in CHECKS:
            c = CHECKS[pid]
            checks.append({
                "property_id": pid,
                "quick_cmd": "bin/check %s --tier quick" % pid,
                "thorough_cmd": "bin/check %s --tier thorough" % pid,
                "evidence_file": "/verif/evidence/%s.json" % pid,
                "replay_cmd_template": "bin/check %s --replay {path}" % pid,
                "engine": "coq-model+correspondence",
                "level_claimed": {"category": "proof", "text": c["text"], "design_ref": "DESIGN.md section " + c["design"]},
                "level_note": LEVEL_NOTE + c["modelled"],
                "technique": c["technique"],
            })
        else:
            na.append({"property_id": pid, "reason": NOT_YET.get(pid, "check not built yet in this session (planned, see DESIGN.md section 7)")})
    m = {
        "version": 1,
        "setup_cmd": "bin/setup",
        "hooks": {
            "guard": "verif",
            "enable": "go build -tags verif (the harness module replaces github.com/bolkedebruin/rdpgw with /repo)",
            "baseline_off_cmd": "cd /repo && GOFLAGS=-mod=mod GOPROXY=off go test -vet=off -count=1 ./...",
            "source_commits": json.load(open(os.path.join(VERIF, "MANIFEST.hooks"))),
            "add_only": True,
        },
        "engines": [{
            "name": "coq-model+correspondence", "path": "bin/check",
            "serves_properties": sorted(CHECKS.keys()),
            "kind_free_text": "hand-written Gallina models with machine-checked theorems (coq/theories), constants/facts regenerated "
                              "from /repo by tools/gofacts on every run, differential correspondence between the extracted model "
                              "(coq/extract) and the real code driven by harness/, extracted specifications as oracles",
        }],
        "checks": checks,
        "not_applicable": na,
        "notes": "See DESIGN.md. known_findings.txt lists recorded findings and fixes.",
    }
    if not na:
        del m["not_applicable"]
    with open(os.path.join(VERIF, "MANIFEST.json"), "w") as f:
        json.dump(m, f, indent=1)


if __name__ == "__main__":
    main()
