"""In-Coq re-evaluation of a sample of cases (thorough tier).

The OCaml runner extracted from the Coq development is what evaluates the model on
every case. To cross-check extraction and the runner's glue, a sample of the cases
is evaluated once more *inside Coq* with vm_compute: this module writes a file
build/cases/Cases_<prop>.v in which every sampled case is a boolean
  bytes_eqb (<Show function> <inputs as Coq literals>) <the runner's output as a byte list>
and asks Coq for the list of identifiers whose boolean is false.

Supported kinds are those whose model observation is produced by Spec/Show.v:
process, process16, procrelay, policy, hdrc, utf16c, authpayload, matchauth, clientip.
"""
import os
import re

import core

KINDS = ("process", "process16", "procrelay", "policy", "hdrc", "utf16c", "authpayload", "matchauth", "clientip",
         "paa", "usertok", "handshake", "tunnel", "config", "ntlm", "relay", "segment", "oidc", "serving", "handshakegw", "tunnelauthgw")
MAX_LINE = 1500      # characters of a case line: keeps the generated file small
SAMPLE = 150


def blist(b):
    """bytes -> Coq list byte literal"""
    return "[" + "; ".join("x%02x" % x for x in b) + "]"


def hexf(s):
    return b"" if s in ("-", "") else bytes.fromhex(s)


def coq_bool(ch):
    return "true" if ch in ("1", True) else "false"


def coq_items(s):
    if s == "-":
        return "[]"
    out = []
    for t in s.split(","):
        p = t.split(":")
        if p[0] == "E":
            out.append("RErr")
        else:
            a = p[2]
            out.append("RData %s {| a_cookie := %s; a_name := %s; a_host := %s; a_dial := %s |}" % (
                blist(hexf(p[1])), coq_bool(a[0]), coq_bool(a[1]), coq_bool(a[2]), coq_bool(a[3])))
    return "[" + "; ".join(out) + "]"


def coq_hexlist(s):
    if s in ("-", ""):
        return "[]"
    return "[" + "; ".join(blist(hexf(x)) for x in s.split(",")) + "]"


def coq_cfg(bits, redir, idle):
    return ("{| c_token_auth := %s; c_smartcard := %s; c_cookie_cb := %s; c_name_cb := %s; c_host_cb := %s; "
            "c_redir := {| rf_clipboard := %s; rf_port := %s; rf_drive := %s; rf_printer := %s; rf_pnp := %s; "
            "rf_disable_all := %s; rf_enable_all := %s |}; c_idle := (%s)%%Z |}") % tuple(
        [coq_bool(b) for b in bits[:5]] + [coq_bool(b) for b in redir[:7]] + [idle])


KEYS = {"S": "53", "O": "4f", "X": "58", "E": "45", "Q": "51", "T": "54"}
ALGS = {"HS256": "HS256", "HS384": "HS384", "HS512": "HS512", "RS256": "RS256", "none": "AlgNone"}


def coq_key(name):
    return blist(bytes.fromhex(KEYS.get(name, "3f")))


def coq_zopt(s):
    return "None" if s == "-" else "(Some (%s)%%Z)" % s


def coq_claims(f):
    iss, exp, nbf, iat, host, ip, at = f[:7]
    sub = f[7] if len(f) > 7 else "-"
    return ("{| cl_iss := %s; cl_sub := %s; cl_exp := %s; cl_nbf := %s; cl_iat := %s; cl_host := %s; cl_ip := %s; cl_at := %s |}"
            % (blist(hexf(iss)), blist(hexf(sub)), coq_zopt(exp), coq_zopt(nbf), coq_zopt(iat), blist(hexf(host)), blist(hexf(ip)),
               blist(hexf(at))))


def coq_jws(t):
    p = t.split(":")
    if p == ["E"]:
        return "JEmpty"
    if p == ["U"]:
        return "JUnparseable"
    if p[0] == "C" and len(p) >= 10:
        return "(JCompact %s %s %s)" % (ALGS.get(p[1], "AlgOther"), coq_key(p[2]), coq_claims(p[3:]))
    return None


def coq_jwe(t):
    p = t.split(":")
    if p == ["U"]:
        return "EUnparseable"
    if p[0] == "X" and len(p) >= 6:
        rest = p[5:]
        if rest[0] == "P" and len(rest) >= 8:
            inner = "(InClaims %s)" % coq_claims(rest[1:])
        elif rest[0] == "S" and len(rest) >= 10:
            inner = "(InSigned %s %s %s)" % (ALGS.get(rest[1], "AlgOther"), coq_key(rest[2]), coq_claims(rest[3:]))
        else:
            inner = "InOther"
        return "(EEnc %s %s %s %s %s)" % (blist(p[1].encode()), blist(p[2].encode()), coq_key(p[3]), coq_bool(p[4]), inner)
    return None


def term(c):
    f = c.fields
    k = c.kind
    if k in ("process", "process16", "procrelay"):
        return "process_obs (%s) %s %s" % (coq_cfg(f[0], f[1], f[2]), coq_hexlist(f[3]), coq_items(f[4]))
    if k == "policy":
        t = "{| t_target := %s; t_remote := %s; t_user := %s |}" % (blist(hexf(f[4])), blist(hexf(f[5])), blist(hexf(f[6])))
        return "policy_obs %s %s %s %s (%s) %s %s %s" % (coq_bool(f[0]), coq_bool(f[1]), blist(hexf(f[2])), coq_hexlist(f[3]),
                                                       t, blist(hexf(f[7])), coq_hexlist(f[8]), coq_items(f[9]))
    if k == "hdrc":
        return "hdrc_obs %s" % blist(hexf(f[0]))
    if k == "utf16c":
        return "utf16c_obs %s" % blist(hexf(f[0]))
    if k == "authpayload":
        return "authpayload_obs %s" % blist(hexf(f[0]))
    if k == "matchauth":
        return "matchauth_obs %s %s %s%%N" % (coq_bool(f[0]), coq_bool(f[1]), f[2])
    if k == "clientip":
        return "clientip_obs %s %s" % (blist(hexf(f[0])), blist(hexf(f[1])))
    if k == "paa":
        tok = coq_jws(f[2])
        if tok is None or not re.match(r"^-?\d+$", f[0]):
            return None
        idp = f[1].split(":")
        sub = "(Some %s)" % blist(hexf(idp[1])) if idp[0] == "valid" and len(idp) == 2 else "None"
        return "paa_obs (%s)%%Z %s %s" % (f[0], sub, tok)
    if k == "tunnelauthgw":
        rd = f[0]
        redir = ("{| rf_clipboard := %s; rf_port := %s; rf_drive := %s; rf_printer := %s; rf_pnp := %s; rf_disable_all := %s; "
                 "rf_enable_all := %s |}") % tuple(coq_bool(ch) for ch in rd[:7])
        return "tunnelauthgw_obs %s (%s)%%Z %s" % (redir, f[1], coq_hexlist(f[2]))
    if k == "serving":
        m = f[0]
        return "serving_obs %s %s %s %s %s" % tuple(coq_bool(ch) for ch in m[:5])
    if k == "handshakegw":
        return "handshakegw_obs %s %s %s" % (coq_bool(f[0]), coq_bool(f[1]), blist(hexf(f[3])))
    if k == "handshake":
        return "handshake_obs %s %s %s" % (coq_bool(f[0]), coq_bool(f[1]), blist(hexf(f[2])))
    if k == "tunnel":
        # bits, transport, user (hex text, used verbatim), own address, items
        return "tunnel_obs (%s) %s %s %s" % (coq_cfg(f[0], "0000000", "0"), blist(f[2].encode()), blist(hexf(f[3])), coq_items(f[4]))
    if k == "config":
        mech, hostsel, qk, hosts, flags, lens, envb = f[0], f[1], f[2], f[3], f[4], f[5].split(","), f[6]
        r = ("{| r_openid := %s; r_kerberos := %s; r_local := %s; r_ntlm := %s; r_tls_disable := %s; r_hostsel := %s; "
             "r_querykey_len := %s%%N; r_hosts := %s%%N; r_keytab_set := %s; r_tokenauth := %s; r_enable_usertoken := %s; "
             "r_paa_enc_len := %s%%N; r_paa_sign_len := %s%%N; r_user_enc_len := %s%%N; r_session_len := %s%%N; "
             "r_session_enc_len := %s%%N |}") % (coq_bool(mech[0]), coq_bool(mech[1]), coq_bool(mech[2]), coq_bool(mech[3]),
                                                coq_bool(mech[4]), blist(hexf(hostsel)), qk, hosts, coq_bool(flags[0]),
                                                coq_bool(flags[1]), coq_bool(flags[2]), lens[0], lens[1], lens[2], lens[3], lens[4])
        e = "{| e_idp_ok := %s; e_keytab_loadable := %s; e_krb5conf_ok := %s |}" % (coq_bool(envb[0]), coq_bool(envb[1]), coq_bool(envb[2]))
        return "config_obs %s %s" % (r, e)
    if k == "oidc":
        ops = []
        for o in f[1].split(","):
            p = o.split(":")
            if p[0] == "c" and len(p) == 3:
                ops.append("OConnect %s%%N (%s)%%Z" % (p[1], p[2]))
            elif p[0] == "b" and len(p) == 6:
                kind = p[3]
                okk = kind == "ok"
                e = ("{| cb_exchange_ok := %s; cb_has_idtoken := %s; cb_verify_ok := %s; cb_username := %s; cb_access_token := [] |}"
                     % (coq_bool(kind != "refuse"), coq_bool(kind != "noidtoken"),
                        coq_bool(okk or kind in ("noname", "refuse", "noidtoken")),
                        "[]" if kind == "noname" else blist(hexf(p[4]))))
                ops.append("OCallback %s%%N %s%%N %s (%s)%%Z" % (p[1], p[2], e, p[5]))
            else:
                return None
        return "oidc_obs [%s]" % "; ".join(ops)
    if k == "relay":
        return "relay_obs %s %s" % (coq_hexlist(f[0]), coq_hexlist(f[1]))
    if k == "segment":
        # bits, live, class, whole, seg
        return "segment_obs (%s) %s %s %s" % (coq_cfg(f[0], "0000000", "0"), coq_hexlist(f[1]), coq_items(f[4]), coq_items(f[3]))
    if k == "ntlm":
        db = "[]" if f[0] == "-" else "[" + "; ".join(
            "(%s, %s)" % (blist(hexf(e.split("=")[0])), blist(hexf(e.split("=")[1]))) for e in f[0].split(";")) + "]"
        t = 0
        negcount = 0
        nonce = {}
        ops = []
        for idx, o in enumerate(f[1].split(","), 1):
            w, sess, m = o.split("|")
            t += int(w)
            p = m.split(":")
            if p == ["neg"]:
                if hexf(sess):
                    negcount += 1
                    nonce[idx] = negcount
                msg = "NNegotiate"
            elif p == ["negbad"]:
                msg = "NNegotiateBad"
            elif p[0] == "auth" and len(p) == 4:
                msg = "(NAuth %s (RespFor %s %s %d%%N))" % (blist(hexf(p[1])), blist(hexf(p[1])), blist(hexf(p[2])), nonce.get(int(p[3]), 0))
            elif p[0] == "authas" and len(p) == 5:
                msg = "(NAuth %s (RespFor %s %s %d%%N))" % (blist(hexf(p[1])), blist(hexf(p[2])), blist(hexf(p[3])), nonce.get(int(p[4]), 0))
            elif p[0] == "authbad" and len(p) == 2:
                msg = "(NAuth %s RespBad)" % blist(hexf(p[1]))
            elif p == ["b64bad"]:
                msg = "NBadBase64"
            elif p == ["garbage"]:
                msg = "NGarbage"
            elif p == ["empty"]:
                msg = "NEmpty"
            else:
                return None
            ops.append("((%d)%%Z, %s, %s)" % (t, blist(hexf(sess)), msg))
        return "ntlm_obs %s [%s]" % (db, "; ".join(ops))
    if k == "usertok":
        tok = coq_jwe(f[3])
        if tok is None or not re.match(r"^-?\d+$", f[2]):
            return None
        ek = "[]" if f[0] == "-" else coq_key(f[0])
        sk = "[]" if f[1] == "-" else coq_key(f[1])
        return "usertok_obs %s %s (%s)%%Z %s" % (ek, sk, f[2], tok)
    return None


def sample(cases):
    cs = [c for c in cases if c.kind in KINDS and c.model is not None and len(c.line()) <= MAX_LINE
          and not c.model.startswith("DRIVER-ERROR") and term(c) is not None]
    if len(cs) <= SAMPLE:
        return cs
    # every kind present gets its share (at least 12 cases), evenly spaced within the kind
    by = {}
    for c in cs:
        by.setdefault(c.kind, []).append(c)
    out = []
    for k in sorted(by):
        l = by[k]
        n = max(12, int(SAMPLE * len(l) / float(len(cs))))
        n = min(n, len(l), SAMPLE)
        step = len(l) / float(n)
        out.extend(l[int(i * step)] for i in range(n))
    return out


def run(prop, cases, log):
    """Returns (evaluated, mismatching ids, error text or None)."""
    cs = sample(cases)
    if not cs:
        return 0, [], None
    d = os.path.join(core.BUILD, "cases")
    os.makedirs(d, exist_ok=True)
    name = "Cases_%s" % prop
    path = os.path.join(d, name + ".v")
    with open(path, "w") as f:
        f.write("(* generated by lib/coqcases.py: %d sampled cases of %s re-evaluated inside Coq *)\n" % (len(cs), prop))
        f.write("From Coq Require Import List NArith ZArith Bool.\nFrom Coq.Strings Require Import Byte.\n")
        f.write("From RDPGW Require Import Lib.Bytes Gen.Consts Model.Packets Model.Processor Model.Policy Model.Token Model.Config Model.Ntlm Model.Relay Model.Oidc Spec.Show.\n")
        f.write("Import ListNotations.\n\n")
        for i, c in enumerate(cs):
            f.write("Definition c%d : bool := bytes_eqb (%s) %s.\n" % (i, term(c), blist(c.model.encode())))
        f.write("\nDefinition mismatches : list nat := Eval vm_compute in\n  map fst (filter (fun p => negb (snd p)) [%s]).\n" %
                "; ".join("(%d%%nat, c%d)" % (i, i) for i in range(len(cs))))
        f.write("Print mismatches.\n")
    with core.Lock():
        rc, out = core.sh(["timeout", "1200", "coqc", "-Q", os.path.join(core.COQ, "theories"), "RDPGW", path], cwd=d)
    log.append(("coqc build/cases/%s.v (%d cases)" % (name, len(cs)), rc))
    for ext in (".vo", ".vok", ".vos", ".glob"):
        try:
            os.remove(os.path.join(d, name + ext))
        except OSError:
            pass
    if rc != 0:
        return len(cs), [], core.tail(out, 12)
    m = re.search(r"mismatches\s*=\s*\[(.*?)\]", out, re.S)
    if not m:
        return len(cs), [], "no result printed:\n" + core.tail(out, 12)
    ids = [int(x) for x in re.findall(r"\d+", m.group(1))]
    return len(cs), [cs[i].id for i in ids], None
