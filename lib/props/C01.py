import os
import core

STREAMS = ["c01", "c01l3", "c01gw"]
NEEDS_BINARY = True
HARNESS_ARGS = ("-rdpgw", os.path.join(core.BUILD, "rdpgw"))
RULE = ("(a) exhaustive small scope: every valid prefix (0..5 steps) followed by every continuation of length <= 2 (quick) / 3 "
        "(thorough) over a 12-symbol packet alphabet x 4 callback configurations x the answer vectors the history can consult; "
        "(b) mutated valid exchanges (skip, repeat, swap, insert foreign type, truncate, bit flip, refused answer, fragmentation, "
        "coalescing, refused dial target); all through the real Processor.Process on an in-memory transport with scripted "
        "callbacks and loopback backends. distinct = distinct (configuration, read list); non-trivial = at least one response "
        "was produced")
MODELLED = ("Processor.Process, readMessage/readHeader, the request parsers and response builders are transcribed by hand "
            "(Model/Packets.v, Model/Processor.v); callbacks, dial outcome and transport reads are environment answers; the "
            "websocket/legacy transports and main()'s callback wiring are exercised by other checks (C07, C04, C12)")
ASSUMPTIONS = ["bytes received by the backend are attributed to the earliest point the property allows (after the channel-create "
               "success); their order relative to later responses is not observed at L1"]


def nontrivial(c):
    return c.kind in ("inagain", "inbeforeout") or " R" in (" " + c.impl)


def signature(c):
    return c.verdict or "unclassified"
