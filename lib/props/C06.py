STREAMS = ["c06", "c06proc", "c06gw", "c08gw"]
RULE = ("pairs of byte streams relayed by the real forward() and receive() over net.Pipe, both directions concurrently: "
        "payload sizes {0,1,2,4085,4086,4087,4096,8192,65535}, all byte values, DATA bodies whose length field is shorter or "
        "longer than the bytes carried, random splits into DATA packets and host writes, streams up to 1 MiB (quick) / 8 MiB "
        "(thorough). distinct = distinct (bodies, writes); non-trivial = at least one byte relayed in some direction")
MODELLED = ("forward() and receive() transcribed (Model/Packets.v data_packet/receive_payload, Model/Relay.v); how the kernel "
            "segments a TCP stream into reads is replaced by net.Pipe's hand-over (every chunk list is covered by the theorem); "
            "the websocket/legacy transports' own framing is exercised by C07's gateway-level runs")
ASSUMPTIONS = ["ordering between the two directions is not observable and not constrained (C06_interleaving_independent)"]


def nontrivial(c):
    if c.kind in ("exact", "tunnel"):
        return True
    return c.impl.strip() != "- | -"


def signature(c):
    return c.verdict or "unclassified"
