import os
import core

STREAMS = ["c18"]
NEEDS_BINARY = True
HARNESS_ARGS = ("-rdpgw", os.path.join(core.BUILD, "rdpgw"))
RULE = ("the real rdpgw binary (rebuilt from /repo) started with generated configurations given by file, by RDPGW_ environment "
        "variables, or split between the two: all 16 mechanism subsets x TLS on/off, each refusal rule over its own dimensions "
        "(keytab unset/loadable/missing, krb5.conf missing, 6 host-selection spellings x query key 0/1/32, hosts 0/1/3, tokenauth "
        "x openid, unreachable IdP, 'basic' as alias of local), random key lengths {absent,0,1,31,32,33} for the five keys; "
        "observed: listening vs exit, substitution log lines; then pairs of instances with equal key settings: OpenID login on A, "
        "token of A presented to A and B over the websocket transport, session cookie of A presented to B. distinct = distinct "
        "configuration; non-trivial = every case (each is a start of the real binary)")
MODELLED = ("config.Load's consistency checks and key substitution and main()'s fatal paths (Model/Config.v); koanf/mapstructure/"
            "yaml decoding, the environment-variable mapping and TLS setup are exercised by the runs, not modelled")
ASSUMPTIONS = ["a key given in both file and environment under differently-cased names is excluded (decided by Go map order)",
               "fresh keys are independent random strings (crypto/rand)"]


def nontrivial(c):
    return True


def signature(c):
    return c.verdict or "unclassified"
