import os
import core

STREAMS = ["c20", "c20gw"]
NEEDS_BINARY = True
HARNESS_ARGS = ("-rdpgw", os.path.join(core.BUILD, "rdpgw"))
RULE = ("the real KerberosProxy.Handler (krb5.conf with generated KDC lists) against fake KDCs listening on TCP and UDP: 9 KDC "
        "sets (reply+close, reply+hold, UDP reply, partial reply, close, silence, refusal, silent+replying, three KDCs of which "
        "one replies) x Kerberos payloads of 0, 1, 5, 1 KiB, 60 000 and 128 KiB - 64 bytes, messages shorter than their length "
        "prefix, realms {default, configured, unknown, configured without KDC}; non-POST methods, chunked body without length, "
        "bodies over 128 KiB, every third truncation of a valid body, trailing byte, doubled body, flipped tag bits, non-minimal "
        "length, random bytes; every response's status, decoded reply, latency bound, and what the KDCs received; 16 concurrent clients x 12 (thorough 120) requests answered over UDP by a KDC whose reply echoes the request. distinct = "
        "distinct request; non-trivial = POST requests with a decodable body")
MODELLED = ("KerberosProxy.Handler's validation, decode/encode for the gateway's own message shape, and forward's fan-out "
            "(Model/Kdc.v); gofork's asn1 in general, gokrb5's krb5.conf parser and KDC ordering, UDP/TCP sockets and timers are "
            "exercised only; with several replying KDCs the winner is not modelled (at most one KDC replies per set)")
ASSUMPTIONS = ["partial: 'within a bounded time' is measured (11 s), each wait is bounded by the modelled 5 s deadline"]


def nontrivial(c):
    if c.kind == "exact":
        return True
    return c.kind == "kdc" and c.fields[0] == "POST" and "st=400" not in c.impl


def signature(c):
    return c.verdict or "unclassified"
