STREAMS = ["c07", "c02"]
RULE = ("(the C02 stream is run as well: its histories present two cookies that carry one access token and different hosts, i.e. two tunnels of one user; each must get its own token's host and address) N in {2, 8, 24} (quick) / up to 64 (thorough) simultaneous tunnels through the real Gateway.HandleGatewayProtocol behind "
        "web.EnrichContext in one in-process server, websocket and legacy transports mixed, each with its own user, cookie, token "
        "host and tagged backend; scripts include refused cookies, requests for ANOTHER tunnel's host, out-of-order data, "
        "keep-alives, close; every tunnel's responses, callback log (with the user the policy saw), accepts and bytes at its "
        "backend, bytes from its host, end of stream and silence after the end are compared with the model's solo run of that "
        "tunnel; legacy RDG_IN_DATA with the same / another connection id, a second RDG_IN_DATA after the tunnel ended or while it is open, an RDG_IN_DATA that arrives before any RDG_OUT_DATA while another connection's RDG_OUT_DATA opens right after; 4 (thorough 8) tunnels whose hosts stream 24 MiB each at once, half of the clients reading slowly: every byte a client gets must be its own host's. The host check under token authentication is the real security.CheckSession, built once for all tunnels. distinct = distinct tunnel; non-trivial = tunnels "
        "that got at least one response")
MODELLED = ("the connection-id cache and the per-connection Tunnel/Processor (Model/System.v) over the Processor model; HTTP "
            "hijacking, gorilla/websocket and the chunked reader are exercised by the runs; goroutine-level interleavings are C09")
ASSUMPTIONS = ["connection identifiers are pairwise distinct across tunnels (the property's quantifier)"]


def nontrivial(c):
    if c.kind in ("paa", "process", "process16", "isolation", "inagain", "inbeforeout"):
        return True
    return c.kind == "pairing" or "R=-" not in c.impl


def signature(c):
    return c.verdict or "unclassified"
