import os
import core

STREAMS = ["c16", "c16pol", "c17gw", "c16gw", "c16order"]
NEEDS_BINARY = True
HARNESS_ARGS = ("-rdpgw", os.path.join(core.BUILD, "rdpgw"))
RULE = ("all 128 combinations of the seven redirect switches x idle timeouts {-2^31, -1, 0, 1, 30, 2^31-1} (more in thorough) x "
        "four capability settings through a full exchange with the real Processor.Process, every request outcome (accepted, "
        "capability mismatch, rejected cookie, denied host, unreachable host, wrong phase) and mutated exchanges with random "
        "policy; each response decoded by the extracted reference decoders; and exchanges whose host policy is the real security.CheckHost / CheckSession(CheckHost) (4 selection modes x allowed / other host x token authentication on/off), whose refusals come with and without an error value. distinct = distinct (configuration, read list); "
        "non-trivial = at least one response")
MODELLED = ("the five response builders, createPacket and makeRedirectFlags are transcribed (Model/Packets.v); the reference decoders "
            "(Spec/Wire.v) are written from the MS-TSGU field lists; main.go's mapping of configuration keys to RedirectFlags is "
            "exercised by C18's real-binary runs, not here")
ASSUMPTIONS = ["idle timeouts outside the int32 range are reported modulo 2^32 (outside the property's quantifier)"]


def nontrivial(c):
    return c.kind in ("tunnelauthgw", "handshakegw", "exact") or " R" in (" " + c.impl)


def signature(c):
    return c.verdict or "unclassified"
