import os
import core

STREAMS = ["c19", "c12"]
NEEDS_BINARY = True
HARNESS_ARGS = ("-rdpgw", os.path.join(core.BUILD, "rdpgw"))
RULE = ("(the C12 stream is run as well: files served by the real binary, two configurations with a client template that sets every gateway-controlled setting to something else) (a) random maps of integers (incl. int64 extremes) and strings (with ':', '#', non-ASCII, Unicode blanks inside, up to "
        "4 KiB) through the real Marshal and back through Unmarshal; (b) byte strings offered to the real parser: files built from "
        "35 line shapes (every malformed form: missing fields, unknown type, non-integer, overflow, blank/comment/CR variants, "
        "Unicode blanks, duplicates) with mixed line endings, and noise; (c) random assignments to the ~60 settings through the "
        "real Builder.String(), re-read with NewBuilderFromFile and compared field by field; (d) templates of known settings with "
        "default and non-default values and unknown keys. distinct = distinct input; non-trivial = input has at least one entry")
MODELLED = ("rdp.Unmarshal/Marshal, Builder.String, initStruct/isZero and NewBuilderFromFile over the regenerated settings table "
            "(Model/RdpFile.v); koanf's merge and mapstructure's weak decoding are modelled only for values of the field's own "
            "type (bool fields from integers); mapstructure's case-insensitive key matching and bufio.Scanner's 64 KiB line "
            "limit are outside the model")
ASSUMPTIONS = ["template keys are spelled exactly as the settings table spells them (mapstructure would also match other cases)",
               "lines shorter than 64 KiB"]


def nontrivial(c):
    if c.kind in ("download", "exact"):
        return True
    return c.fields[0] not in ("empty", "-", "")


def signature(c):
    return c.verdict or "unclassified"
