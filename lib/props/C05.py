import os
import core

STREAMS = ["c05"]
NEEDS_BINARY = True
HARNESS_ARGS = ("-rdpgw", os.path.join(core.BUILD, "rdpgw"))
RULE = ("the real rdpgw binary started with 14 mechanism subsets (two spell the local mechanism 'basic') (every startable one: local needs TLS, kerberos needs keytab and "
        "krb5.conf, openid needs the IdP; plus OpenID alone and none) against a scriptable authentication service on a unix "
        "socket (Basic verdict table; NTLM through the real verifier) x methods {RDG_OUT_DATA with upgrade, GET, POST, RDG_IN_DATA} "
        "x ~37 Authorization shapes: absent, empty, bare keywords, truncated and wrong-case schemes, disabled schemes, malformed "
        "base64, credentials without colon, wrong / unknown / correct credentials, a user name containing ':', backend failure, "
        "several headers in both orders, a Basic credential whose base64 text contains NTLM, NTLM type-1 only, full NTLM and "
        "Negotiate exchanges (right, wrong, unknown), type-3 without type-1 and type-3 answering another connection's challenge; "
        "for the Basic-only configurations: tunnels opened as users 1, DOM\\1 and 9@corp asking for the host entries 127.0.0.<name>:3389 of the confirmed name and of its stripped forms (the policy's verdict shows which name the tunnel runs under); a liveness probe after each subset. distinct = distinct (subset, method, headers); non-trivial = requests carrying an "
        "Authorization header")
MODELLED = ("main()'s route table on the gateway prefix, web.NoAuthz/AuthMux, BasicAuth and NTLMAuth middlewares "
            "(Model/HttpAuth.v); gorilla/mux matching is modelled for these literal patterns (unanchored, any header value), "
            "r.BasicAuth()'s decoding and the backend's verdict are inputs; the SPNEGO middleware is modelled only as 'does not "
            "reach the handler' (negative cases); cmd/auth/auth.go cannot be built here (its NTLM package is used through the "
            "fake service)")
ASSUMPTIONS = ["known finding route-shadowing: valid Basic credentials whose text contains another route's keyword are answered "
               "401 when that mechanism is also enabled (C05_converse_refuted)"]


def nontrivial(c):
    if c.kind in ("authuser", "pathprobe", "exact"):
        return True
    return c.fields[2] != "none"


def signature(c):
    return c.verdict or "unclassified"
