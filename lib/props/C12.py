import os
import core

STREAMS = ["c12"]
NEEDS_BINARY = True
HARNESS_ARGS = ("-rdpgw", os.path.join(core.BUILD, "rdpgw"))
RULE = ("the real rdpgw binary end to end against the scriptable IdP and live backends: 9 (quick) / 12 (thorough) configurations "
        "(round-robin, unsigned, any, signed; 1-3 hosts with and without the user placeholder; domain splitting; user-name "
        "template with and without placeholder; suppressed user name; address verification off) x 6 users (plain, with domain "
        "part, equal to the placeholder text, IdP subject different from the login name) x host query {absent, listed, listed-2, "
        "unlisted, empty} and, for signed selection, valid / unlisted-subject / wrong-key / wrong-issuer / expired / garbage query "
        "tokens; sessions {logged in, never logged in, failed login}. For every issued file: fields read by an independent "
        "reader, token claims by an independent decoder, then host+token replayed on the websocket tunnel from the same and from "
        "another client address. distinct = distinct request; non-trivial = requests of logged-in sessions")
MODELLED = ("Handler.getHost/HandleDownload (Model/Download.v) composed with the token, policy and login models; the random host "
            "picker is an environment answer; http.ServeContent, url parsing and the session middleware are exercised only; user "
            "tokens ({{ token }}) are C15's subject and switched off here")
ASSUMPTIONS = ["user-name templates without '%' (the handler passes the template through fmt.Sprintf)",
               "the file's address is of the form host:port that net.SplitHostPort/JoinHostPort round-trip"]


def nontrivial(c):
    if c.kind != "download":
        return True
    return c.fields[5] == "ok"


def signature(c):
    return c.verdict or "unclassified"
