KNOWN_MUST_MATCH_MODEL = True
STREAMS = ["c08", "c08gw"]
RULE = ("packet sequences (setup exchange + DATA packets with payload sizes around 0, 1, 4086-4088, 4095-4097, 8183-8185, ... + "
        "keep-alives + close) delivered (0) one packet per read, (1) with one cut, (2) two cuts inside a packet, (3) 2..n packets "
        "coalesced, (4) random multi-cut independent of packet boundaries, (5) 4096-byte pieces, (6) every packet cut once; each "
        "run twice through the real Processor.Process (segmented and unsegmented) and compared. distinct = distinct "
        "(packets, reads); non-trivial = the segmentation differs from one-packet-per-read")
MODELLED = ("readMessage/readHeader transcribed as a per-read state machine (Model/Packets.v fstep, Model/Framer.v); the "
            "websocket and legacy transports' read granularity is not part of this L1 stream")
ASSUMPTIONS = ["known findings: coalesced packets, packets over >= 3 reads and first fragments > 4096 bytes are mis-framed by the "
               "pinned one-shot defragmenter (C08_*_refuted)"]


def nontrivial(c):
    if c.kind == "tunnel":
        return True
    return c.fields[3] != c.fields[4]


def signature(c):
    v = c.verdict or ""
    if v.startswith("fail:"):
        return v[5:]
    # a disagreement between model and implementation: classify by the case's class
    return "correspondence"
