import os
import core

STREAMS = ["c10", "c20"]
NEEDS_BINARY = True
HARNESS_ARGS = ("-rdpgw", os.path.join(core.BUILD, "rdpgw"))
RULE = ("checked handlers of the model against the real functions: readHeader on every length 0..20 x 22 size fields "
        "(0, 1, 7..10, 15..17, 4095..4097, 65535..65537, 2^31-1, 2^31, 2^32-1, len-1, len, len+1) plus random buffers; DATA packets of 100..12000 bytes delivered in two reads with the first read of 1..4096 bytes through the real packet loop; "
        "DecodeUTF16 on every string of length 0..3 over 11 boundary bytes plus random strings of both parities; the real NTLM "
        "middleware (scripted authentication service) on every Authorization value of length 0..3 over {N,T,L,M,space,e,g}, every "
        "prefix of 12 scheme-like values and random payloads. Survival questions of the real code: the NTLM verifier on every "
        "truncation of a negotiate and an authenticate message and on every payload descriptor set to 4 lengths x 9 offsets "
        "(first and second position of the exchange) plus random corruptions; setSendReceiveBuffers on a TCP and a TLS "
        "connection for 5 buffer sizes and a websocket tunnel over plain HTTP with that tuning; every sequence of up to 3 legacy "
        "channel requests over two connection ids followed by a fresh tunnel; the real binary with TLS on/off x buffers 0/65536: "
        "authenticated tunnel, random bytes, a 1 MiB header, inbound-first legacy request, bare scheme keywords, truncated DER to "
        "/KdcProxy, seven hostile packets inside authenticated tunnels, each followed by a liveness probe and a scan of the log "
        "for recovered panics. distinct = distinct input; non-trivial = inputs that reach a guarded slice, a parser or a tunnel")
MODELLED = ("the index and slice sites of readHeader, DecodeUTF16, getAuthPayload and the KDC proxy's UDP leg with the guards "
            "the regenerated table shows in front of them, and the legacy attach order (Model/Partial.v, Model/System.v); all "
            "other sites of the client-facing byte handlers are classified by expression (bounded by the count the producing "
            "call returned). Not modelled, exercised only: setSendReceiveBuffers' reflection, go-ntlm's message parsers, "
            "net/http, gorilla/websocket, the Go scheduler (deadlock/wedging is observed by probes with time-outs)")
ASSUMPTIONS = ["partial: absence of panics below the modelled sites (third-party parsers, reflection, runtime) is tested, not proved",
               "a handler panic recovered by net/http counts as a violation even though the process survives"]


def nontrivial(c):
    if c.kind in ("process", "kdc", "kdcrecv", "exact"):
        return True
    if c.kind == "hdrc":
        return len(c.fields[0]) >= 16
    if c.kind == "utf16c":
        return len(c.fields[0]) >= 2
    if c.kind == "authpayload":
        return c.impl != "none"
    return True


def signature(c):
    return c.verdict or "unclassified"
