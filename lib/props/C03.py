STREAMS = ["c03"]
RULE = ("7 host-selection strings (4 modes + unrecognised spellings) x 6 host lists (with/without the user placeholder, IPv4, "
        "bracketed IPv6, doubled placeholder, empty) x 6 user names (incl. empty, another user's value, NUL) x token auth on/off x "
        "token hosts x 18 requested names per configuration (each allowed entry and its near misses: other/removed port, prefix, "
        "suffix, superstring, another user's entry, IPv6/bracketed, doubled and embedded NUL, odd-length UTF-16, over-long and "
        "short length fields, surrogate pair, lone surrogate); run through the real Processor with the real "
        "security.CheckSession/CheckHost wired as main() wires them, allowed entries on live listeners. distinct = distinct "
        "(policy configuration, request); non-trivial = the channel-create step was reached")
MODELLED = ("security.CheckHost, security.CheckSession, DecodeUTF16, net.JoinHostPort, channelRequest transcribed (Model/Policy.v, "
            "Model/Utf16.v, Model/Packets.v); the cookie acceptance that fills the tunnel's user/host/address is scripted here "
            "(it is C02's subject) and main()'s choice of CheckSession(CheckHost) vs CheckHost is replicated by the harness "
            "(the real binary's wiring is exercised by C12)")
ASSUMPTIONS = ["DNS resolution and the kernel's interpretation of the address string are outside the model"]


def nontrivial(c):
    return " AH:" in c.impl


def signature(c):
    return c.verdict or "unclassified"
