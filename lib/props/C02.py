import os
import core

STREAMS = ["c02", "c02proc", "c01l3", "c12"]
NEEDS_BINARY = True
HARNESS_ARGS = ("-rdpgw", os.path.join(core.BUILD, "rdpgw"))
RULE = ("real security.CheckPAACookie with real go-jose against a scriptable OpenID provider: (a) 26 token variants (each claim "
        "changed or missing, exp/nbf/iat around the leeway, other key, HS384/HS512/RS256/none, hand-built, JSON-serialised, "
        "nested) x 5 IdP conditions (valid, unknown, revoked, 500, connection dropped); (b) tokens minted by GeneratePAAToken "
        "(expiry = issue time + 300 s checked) presented back; (c) single-character substitutions, single-bit flips, truncations "
        "and segment swaps of a valid token; (d) empty, blanks and random strings / base64 triples; (e) histories: a cookie and a freshly signed one with the same access token presented while the provider honours the access token, after it stopped (revoked, error, dropped, unknown) and after it resumed; thorough: a cookie presented again 66 s after it expired while the process is running; (f) the packet loop: 3 token configurations x 6 handshake capability values x cookie present/absent x cookie accepted/refused through the real Processor.Process. Each string is mapped to its "
        "symbolic term by an independent decoder (own base64/JSON/HMAC). distinct = distinct token string; non-trivial = the "
        "string has three dot-separated segments")
MODELLED = ("CheckPAACookie/GeneratePAAToken as symbolic terms (Model/Token.v): go-jose's parser, HMAC-SHA256 and the JSON "
            "codec are assumed (MAC verifies under k iff built with k) and exercised only by correspondence; the IdP is an "
            "environment function; time is compared in whole seconds with offsets at least 3 s away from the leeway boundary")
ASSUMPTIONS = ["unforgeability of HMAC-SHA256 (Dolev-Yao: symbolic terms)",
               "base64url trailing-bit malleability of a segment's last character yields the same term and is accepted by both sides"]


def nontrivial(c):
    if c.kind in ("process", "process16", "wiring", "download", "exact"):
        return True
    try:
        return bytes.fromhex(c.fields[3] if c.fields[3] != "-" else "").count(b".") == 2
    except ValueError:
        return False


def signature(c):
    return c.verdict or "unclassified"
