import os
import core

STREAMS = ["c13", "c18"]
NEEDS_BINARY = True
HARNESS_ARGS = ("-rdpgw", os.path.join(core.BUILD, "rdpgw"))
RULE = ("the real rdpgw binary with each session store (cookie, file) against the scriptable IdP: every callback failure point "
        "(value never issued as state, code refused, no id_token, bad signature, wrong issuer, wrong audience, expired ID token, "
        "undecodable ID token, no user-name claim) x session state (new, unauthenticated with cookie, authenticated), successful "
        "logins with several names and sessions, state reuse across sessions, random histories over 3 browser sessions; every "
        "k-th-position single-character mutation and truncation of a valid session cookie; thorough: real 125 s wait for state "
        "expiry; identity contents through Marshal/Unmarshal. distinct = distinct case; non-trivial = histories containing a "
        "callback, all cookie mutations")
MODELLED = ("OIDC.Authenticated, HandleCallback, the state cache and the session's identity as a state machine (Model/Oidc.v); "
            "oauth2 code exchange, go-oidc ID-token verification, gorilla sessions/securecookie and gob are assumed (IdP answers, "
            "sealed-cookie terms) and exercised by the runs")
ASSUMPTIONS = ["securecookie's MAC/encryption are unforgeable: a cookie is accepted iff its decoded bytes are those the instance issued"]


def nontrivial(c):
    if c.kind in ("config", "keyshare", "exact", "serving"):
        return True
    return c.kind == "cookiemut" or (c.kind == "oidc" and "b:" in c.fields[1])


def signature(c):
    return c.verdict or "unclassified"
