import os
import core

STREAMS = ["c15", "c15gw"]
NEEDS_BINARY = True
HARNESS_ARGS = ("-rdpgw", os.path.join(core.BUILD, "rdpgw"))
RULE = ("real security.GenerateUserToken / UserInfo and web.TokenInfo with real go-jose: 5 user names (ASCII, non-ASCII, long) x "
        "both key modes; tokens minted in one mode verified in all four key configurations; tokens built under other encryption "
        "or signing keys, HS384, A256GCM, A256KW, without cty, other or missing issuer, expired around the leeway, without exp, "
        "nbf in the future; plain signed JWT; single-character mutations of each of the five JWE segments; noise; the HTTP "
        "endpoint's status for GET/POST/HEAD x parameter present/absent/empty, with a disclosure check of non-200 bodies; the "
        "minted text is searched for the user name and its base64 forms. distinct = distinct (keys, token); non-trivial = "
        "five-segment tokens")
MODELLED = ("GenerateUserToken/UserInfo as symbolic terms (Model/Token.v): go-jose's JWE/JWS parsing, A128CBC-HS256 and HS256 are "
            "assumed (decrypts/verifies under k iff built with k); web.TokenInfo's status mapping is transcribed")
ASSUMPTIONS = ["authenticated encryption and HMAC are unforgeable (symbolic terms)",
               "token opacity is checked textually by the harness (name and base64 forms absent), not proved"]


def nontrivial(c):
    f = c.fields[4] if c.kind == "usertok" else ""
    try:
        return c.kind in ("tokeninfo", "exact") or bytes.fromhex(f if f != "-" else "").count(b".") == 4
    except ValueError:
        return False


def signature(c):
    return c.verdict or "unclassified"
