import os
import core

STREAMS = ["c04", "c04gw", "c12"]
NEEDS_BINARY = True
HARNESS_ARGS = ("-rdpgw", os.path.join(core.BUILD, "rdpgw"))
RULE = ("(a) client address through the real web.EnrichContext: 12 textual address forms (IPv4, IPv6, upper/lower case, "
        "::ffff: form, leading zeros, padded, empty) x X-Forwarded-For chains of length 1-5 with spaces, and the TCP peer when the "
        "header is absent; (b) every (issuing, presenting) pair of the resulting client strings x verification on/off through the "
        "real Processor with security.CheckSession(CheckHost). distinct = distinct case; non-trivial = clientip cases whose "
        "header has more than one element or is absent, and pairs with differing addresses")
MODELLED = ("EnrichContext's address computation (Model/Policy.v client_ip, ASCII blanks only), CheckSession; issuance "
            "(GeneratePAAToken copying the same attribute) is covered by C12; both transports carry the same identity attribute, "
            "the legacy pair uses the RDG_IN_DATA request's context (gateway-level, C07)")
ASSUMPTIONS = ["header values are ASCII (strings.TrimSpace also trims non-ASCII Unicode blanks, outside the model)"]


def nontrivial(c):
    if c.kind == "clientip":
        return c.fields[0] == "-" or "2c" in c.fields[0]
    if c.kind in ("download", "exact"):
        return True
    if c.kind == "addrbind":
        return c.fields[2] != c.fields[3]
    return c.fields[5] != c.fields[7]


def signature(c):
    return c.verdict or "unclassified"
