import os
import core

STREAMS = ["c09", "c09gw"]
NEEDS_BINARY_RACE = True   # the assembled binary built with -race: its own reports end up in its log
HARNESS_ARGS = ("-rdpgw", os.path.join(core.BUILD, "rdpgw-race"))
HARNESS_RACE = True
RULE = ("the real gateway handlers in-process under the Go race detector (harness built with -race): rounds of N in {4, 32} "
        "concurrent tunnels over both transports, each doing setup, 20 data packets with keep-alives while its host streams "
        "tagged data back, ending by channel close while the host is sending, by a protocol error while the host is sending, by "
        "abrupt disconnect after channel creation, or during setup; 6 s (quick) / 120 s (thorough); race reports are parsed into "
        "signatures (the gateway functions on top of the two stacks), the clients check frame integrity and stream tags. "
        "distinct/non-trivial = probes (frame integrity, race detector)")
MODELLED = ("the locking discipline of the four shared locations (connection registry, Tunnel.BytesSent, the outgoing transport's "
            "WritePacket, Gateway.IdleTimeout) as regenerated access facts (Gen/Facts.v) under the lockset model "
            "(Model/Lockset.v); races inside libraries or on locations the translator does not know are only explored by the "
            "race detector, not proved")
ASSUMPTIONS = ["partial by nature: the theorem covers the syntactically extracted discipline; the Go memory model, library "
               "internals and unlisted locations are outside it"]


def nontrivial(c):
    return True


def signature(c):
    return c.verdict or "unclassified"
