STREAMS = ["c11"]
RULE = ("the real gateway handlers in-process: 8 points of the exchange (before the handshake, after each of the four steps, with "
        "data in flight client->host, host->client, both) x 7 ways of ending (CLOSE_CHANNEL, out-of-order packet, unframeable "
        "bytes, TCP close, TCP reset with SO_LINGER 0, close of the legacy IN connection only, of the legacy OUT connection only) "
        "x both transports = 96 cells, plus 8 special endings (a repeated channel-create, the inbound connection closed before the client's first byte, unframeable input while the client is not reading and megabytes from the host are in flight, the outbound connection reset before the channel is requested) = 104 cells (thorough: x10); within 2 s: EOF at the backend, the remaining client-facing connections "
        "closed by the gateway, registry size, the two connection gauges (default Prometheus gatherer) and the number of "
        "goroutines with gateway frames back to the baseline. distinct = distinct cell; non-trivial = every cell")
MODELLED = ("what the two transport handlers, Tunnel.Close and the relay goroutine release (Model/Lifecycle.v over regenerated "
            "facts) and that every end cause makes the packet loop return (Processor model); 'within a bounded time', goroutine "
            "termination and socket states are measured (2 s), not proved")
ASSUMPTIONS = ["partial: bounded time is measured; kernel and scheduler are outside the model"]


def nontrivial(c):
    return True


def signature(c):
    return c.verdict or "unclassified"
