STREAMS = ["c14"]
RULE = ("real NTLMAuth.Authenticate driven with messages from go-ntlm's own client session: (a) every history of length <= 3 "
        "(quick) / 4 (thorough) over {negotiate in session A/B, correct authenticate, authenticate answering the OTHER session's "
        "challenge, wrong password, empty-password user, garbage}; (b) random histories of 1-9 steps over 3 sessions (plus the "
        "empty session id), 6 user names, 4 passwords, responses to the latest or to any earlier challenge (replays), corrupted "
        "responses, bad base64, truncated type-1, empty message, three user databases; thorough: real 62 s wait for context "
        "expiry. distinct = distinct (database, history); non-trivial = history contains an authenticate step")
MODELLED = ("NTLMAuth.Authenticate, getContext/removeContext and the context cache as a symbolic state machine (Model/Ntlm.v); "
            "go-ntlm's message parsing and the NTLMv2 computation are assumed (a response verifies iff it was computed from the "
            "configured password for the session's challenge); cmd/auth/auth.go's gRPC wrapper cannot be built here")
ASSUMPTIONS = ["NTLMv2 responses are unforgeable without the password (symbolic terms)",
               "server challenges are fresh (go-ntlm draws 8 random bytes); modelled as a nonce counter"]


def nontrivial(c):
    return "auth" in c.fields[1]


def signature(c):
    return c.verdict or "unclassified"
