import os
import core

STREAMS = ["c17", "c17gw"]
NEEDS_BINARY = True
HARNESS_ARGS = ("-rdpgw", os.path.join(core.BUILD, "rdpgw"))
RULE = ("matchauth: the real matchAuth on (smartcard, token, client capability) - quick: every 16-bit value with at most "
        "two bits set plus 4096 random values, thorough: all 4 x 65536; handshake: whole handshake packets through the real "
        "Processor.Process (version byte pairs, capability values, truncated and over-long bodies, random). "
        "distinct = distinct input tuple; non-trivial = every case (each one decides success/refusal of a negotiation)")
MODELLED = ("matchAuth, handshakeRequest, handshakeResponse, createPacket and the handshake case of Processor.Process are "
            "transcribed in Model/Packets.v, Model/Processor.v; the transport is replaced by an in-memory one")
ASSUMPTIONS = ["the in-memory transport delivers one packet per read (framing is C08's subject)"]


def nontrivial(c):
    return True


def signature(c):
    return c.verdict or "unclassified"
