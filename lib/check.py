"""bin/check <property> [--tier quick|thorough] [--replay file]

Decision procedure of DESIGN.md section 3:
  O1 translator anchors, O2 proofs (with the regenerated constants/facts) and
  axiom audit, O3 model == implementation on every generated case,
  O4 direct property oracle on every implementation trace.
"""
import argparse
import importlib
import json
import os
import shutil
import sys
import time
import traceback

sys.path.insert(0, os.path.dirname(os.path.abspath(__file__)))
import core  # noqa: E402
from core import Broken  # noqa: E402

BASE_TRUSTED = [
    "Coq 8.16.1 kernel (coqc; vm_compute used, native_compute not used); thorough tier re-checks with coqchk",
    "gofacts translator (tools/gofacts: go/parser based, constants and anchored literals -> Gen/Consts.v, facts -> Gen/Facts.v)",
    "extraction with ExtrOcamlBasic only (Extract Inductive bool/option/unit/list/prod/sumbool/sumor, Extract Inlined Constant andb/orb); N, Z, positive, nat, byte stay inductive; OCaml 4.13.1 and coq/extract/driver.ml (hex parsing, printing, Obj.magic int<->byte self-checked at start)",
    "Go harness (generators, in-memory transport, loopback backends, fakes, canonicalisation) and lib/core.py comparator",
    "Go toolchain go1.23.5 building /repo's working tree with -tags verif",
]


def main():
    ap = argparse.ArgumentParser()
    ap.add_argument("prop")
    ap.add_argument("--tier", default=os.environ.get("VERIF_TIER", "quick"))
    ap.add_argument("--replay", default=None)
    args = ap.parse_args()
    prop = args.prop
    tier = args.tier if args.tier in ("quick", "thorough") else "quick"
    seed = core.seed_from_env()
    t0 = time.time()
    mod = importlib.import_module("props." + prop)
    log = []
    broken = []
    workdir = os.path.join(core.BUILD, "run-%s-%d" % (prop, os.getpid()))
    os.makedirs(workdir, exist_ok=True)
    try:
        rc = run(prop, mod, tier, seed, args.replay, log, broken, workdir, t0)
    except Exception:
        traceback.print_exc()
        print("check %s: internal error (not a verdict)" % prop)
        rc = 2
    finally:
        shutil.rmtree(workdir, ignore_errors=True)
    sys.exit(rc)


def run(prop, mod, tier, seed, replay, log, broken, workdir, t0):
    anchors_out = ""
    assumptions_out = ""
    modelrun = None
    with core.Lock():
        try:
            anchors_out = core.run_gofacts(log)
        except Broken as b:
            broken.append((b.which, b.detail))
        models_ok = True
        try:
            core.coq_build_models(log)
        except Broken as b:
            models_ok = False
            broken.append((b.which, b.detail))
        if models_ok:
            try:
                assumptions_out = core.coq_build_proofs(prop, log)
            except Broken as b:
                broken.append((b.which, b.detail))
            try:
                modelrun = core.build_extraction(log)
            except Broken as b:
                broken.append((b.which, b.detail))
        harness = core.build_harness(log, race=getattr(mod, "HARNESS_RACE", False))
        if getattr(mod, "NEEDS_BINARY", False):
            core.build_rdpgw(log)
        if getattr(mod, "NEEDS_BINARY_RACE", False):
            core.build_rdpgw(log, race=True)

    names, prints = core.count_obligations(prop)
    nblocks, axioms = core.parse_assumptions(assumptions_out)
    bad_kw = core.audit_sources()
    if bad_kw:
        broken.append(("O2-audit", "forbidden keyword(s): " + "; ".join(bad_kw[:5])))
    if axioms - core.ALLOWED_AXIOMS:
        broken.append(("O2-audit", "axioms outside the allow-list: " + ", ".join(sorted(axioms))))
    if assumptions_out and nblocks != prints:
        broken.append(("O2-audit", "Print Assumptions blocks %d != %d" % (nblocks, prints)))
    proof_ok = not any(w.startswith("O2") for w, _ in broken)
    coqchk_summary = None
    if tier == "thorough" and proof_ok and not replay:
        with core.Lock():
            ok, coqchk_summary = core.coqchk(prop, log)
        if not ok:
            broken.append(("O2-coqchk", coqchk_summary))
            proof_ok = False

    cases, stats = [], {}
    if modelrun is None:
        modelrun = os.path.join(core.BUILD, "extract", "modelrun")
        if not os.path.exists(modelrun):
            modelrun = None
    ctx = {"tier": tier, "seed": seed, "workdir": workdir, "log": log, "harness": harness,
           "modelrun": modelrun, "prop": prop, "broken": broken}
    extra_fail = []
    if modelrun is not None:
        if replay:
            cases = replay_cases(replay, harness, modelrun, workdir, log)
            if any(c.impl == "REPLAY-UNSUPPORTED" for c in cases):
                # the recorded case needs a live gateway, fake services or real waits: its stream is re-run
                # with the recorded tier and seed instead (same generator, same inputs up to port numbers)
                data = json.load(open(replay))
                tier, seed = data.get("tier", tier), int(data.get("seed", seed))
                print("replay: this kind of case is replayed by re-running its stream (tier=%s seed=%d)" % (tier, seed))
                cases = []
                replay = "stream"
        if replay in (None, "stream"):
            for s in mod.STREAMS:
                cs, st = core.run_stream(harness, modelrun, s, tier, seed, workdir, log,
                                         extra_args=getattr(mod, "HARNESS_ARGS", ()))
                cases += cs
                for k, v in st.items():
                    stats[k] = stats.get(k, 0) + v
            if hasattr(mod, "extra"):
                extra_fail = mod.extra(ctx, cases) or []

    # thorough tier: a sample of the cases is evaluated once more inside Coq (cross-check of extraction + runner)
    coq_reeval = None
    if tier == "thorough" and not replay and cases and proof_ok:
        import coqcases
        n_re, bad_ids, err = coqcases.run(prop, cases, log)
        coq_reeval = {"evaluated_in_coq": n_re, "disagreeing_with_runner": bad_ids}
        if err:
            broken.append(("O3-coq-reevaluation", err))
        elif bad_ids:
            broken.append(("O3-extracted-runner-disagrees-with-coq", "case ids " + ", ".join(bad_ids[:10])))

    known, fixed = core.load_known(prop)
    known_sigs = {s for s, _ in known}
    fails = [c for c in cases if c.verdict != "ok"]
    mism = [c for c in cases if c.model != c.impl]
    _sig = getattr(mod, "signature", lambda c: "unclassified")

    # where the model carries a recorded defect faithfully (C08), a failing case only is that finding when the
    # implementation still behaves exactly as recorded; a different misbehaviour on the same class of input is new
    strict_known = getattr(mod, "KNOWN_MUST_MATCH_MODEL", False)

    def sig(c):
        s = _sig(c) or "unclassified"
        s = s[5:] if s.startswith("fail:") else s
        if strict_known and s in known_sigs and c.model != c.impl:
            s += "+not-as-recorded"
        return s
    new_fails, known_hits = [], {}
    for c in fails:
        s = sig(c)
        if s in known_sigs:
            known_hits.setdefault(s, c)
        else:
            new_fails.append((s, c))
    # a disagreement whose signature is a known finding is the finding itself, not a new break
    new_mism = []
    for c in mism:
        s = sig(c)
        if s in known_sigs:
            known_hits.setdefault(s, c)
        else:
            new_mism.append(c)

    violation = None
    if new_fails or extra_fail:
        if new_fails:
            s, c = min(new_fails, key=lambda sc: len(sc[1].line()))
            payload = {"property": prop, "tier": tier, "seed": seed, "what": "direct property oracle failed on the implementation",
                       "signature": s, "case_line": c.line(), "case": c.as_json(100000),
                       "also_failing": len(new_fails), "broken_obligations": broken}
        else:
            payload = {"property": prop, "tier": tier, "seed": seed, "what": "property check failed on the implementation",
                       "failures": extra_fail[:20], "broken_obligations": broken}
        violation = (core.write_replay(prop, "violation", payload), False)
    elif broken or new_mism:
        found = None
        if modelrun is not None and not replay:
            found = search(mod, ctx, known_sigs, sig)
        if found:
            s, c = found
            payload = {"property": prop, "tier": tier, "seed": seed,
                       "what": "proof/correspondence broke and the search found a failing input",
                       "signature": s, "case_line": c.line(), "case": c.as_json(100000),
                       "broken_obligations": broken,
                       "first_disagreement": new_mism[0].as_json(100000) if new_mism else None}
            violation = (core.write_replay(prop, "violation", payload), False)
        else:
            payload = {"property": prop, "tier": tier, "seed": seed,
                       "what": "the property is no longer shown to hold: an obligation of the proof or of the "
                               "model/implementation correspondence does not check; no failing input found",
                       "broken_obligations": [{"obligation": w, "detail": d} for w, d in broken],
                       "correspondence_disagreements": len(new_mism),
                       "first_disagreements": [c.as_json(100000) for c in new_mism[:3]],
                       "case_lines": [c.line() for c in new_mism[:3]]}
            violation = (core.write_replay(prop, "unproved", payload), True)

    for s, c in sorted(known_hits.items()):
        desc = dict(known).get(s, "")
        print("KNOWN-FINDING: property=%s %s (%s)" % (prop, s, desc))

    # ---- evidence
    distinct = {}
    for c in cases:
        distinct.setdefault(c.key(), c)
    nontrivial = [c for c in distinct.values() if mod.nontrivial(c)]
    samples = [c.as_json() for c in pick_samples(list(distinct.values()), mod)]
    checker_cmds = "; ".join(cmd for cmd, _ in log)
    trusted = BASE_TRUSTED + list(getattr(mod, "TRUSTED", []))
    if coqchk_summary:
        trusted.append("coqchk -o: " + coqchk_summary)
    trusted.append("Print Assumptions for %d property theorems: %s" % (
        prints, "all 'Closed under the global context'" if not axioms else "axioms " + ", ".join(sorted(axioms))))
    ev = {
        "property_id": prop, "tier": tier, "seed": seed, "level": "proof",
        "coverage": {
            "obligations": len(names) + len(getattr(mod, "COMPUTED_OBLIGATIONS", [])),
            "discharged": (len(names) + len(getattr(mod, "COMPUTED_OBLIGATIONS", []))) if proof_ok else 0,
            "theorems": names,
            "checker_cmd": checker_cmds,
            "trusted_base": trusted,
            "evaluations": len(cases),
            "distinct_nontrivial": len(nontrivial),
            "rule": mod.RULE,
            "samples": samples,
            "traces_validated_against_impl": len(cases) - len(mism),
            "correspondence_disagreements": len(mism),
            "oracle_failures": len(fails),
            "known_findings_reproduced": sorted(known_hits.keys()),
            "generator_stats": stats,
            "translator": anchors_out,
            "modelled_not_verified": getattr(mod, "MODELLED", ""),
            "broken_obligations": [w for w, _ in broken],
            "coq_reevaluation": coq_reeval,
        },
        "assumptions": list(getattr(mod, "ASSUMPTIONS", [])),
        "wall_s": round(time.time() - t0, 2),
        "violations": (1 if violation else 0),
    }
    if not replay:
        core.write_evidence(prop, ev)
    print("check %s tier=%s seed=%d: %d theorems, %d cases (%d distinct non-trivial), %d disagreements, "
          "%d oracle failures (%d known), %.1fs" % (prop, tier, seed, len(names), len(cases), len(nontrivial),
                                                     len(mism), len(fails), len(fails) - len(new_fails),
                                                     time.time() - t0))
    if violation:
        path, nofound = violation
        print("VIOLATION property=%s replay=%s%s" % (prop, path, " no-failing-input-found" if nofound else ""))
        return 1
    return 0


def pick_samples(cs, mod, n=4):
    cs = sorted(cs, key=lambda c: (not mod.nontrivial(c), len(c.line())))
    step = max(1, len(cs) // (n * 3))
    out = []
    for c in cs[::step]:
        if len(c.line()) < 3000:
            out.append(c)
        if len(out) >= n:
            break
    return out or cs[:1]


def search(mod, ctx, known_sigs, sig):
    """Search model and implementation for a failing input: rerun the property's
    generators with the thorough budget under other seeds, bounded in time."""
    deadline = time.time() + float(os.environ.get("VERIF_SEARCH_S", "240"))
    stier = "thorough" if ctx["tier"] == "thorough" else "quick"
    for i, s in enumerate([ctx["seed"] + 7919, ctx["seed"] + 104729, ctx["seed"] + 1299709]):
        for st in mod.STREAMS:
            if time.time() > deadline:
                return None
            try:
                cs, _ = core.run_stream(ctx["harness"], ctx["modelrun"], st, stier, s,
                                        os.path.join(ctx["workdir"], "search%d" % i), ctx["log"],
                                        extra_args=getattr(mod, "HARNESS_ARGS", ()),
                                        timeout=int(max(30, deadline - time.time())))
            except Exception:
                continue
            bad = [(sig(c), c) for c in cs if c.verdict != "ok"]
            bad = [(s_, c) for s_, c in bad if s_ not in known_sigs]
            if bad:
                return min(bad, key=lambda sc: len(sc[1].line()))
    return None


def replay_cases(path, harness, modelrun, workdir, log):
    data = json.load(open(path))
    lines = []
    if "case_line" in data:
        lines.append(data["case_line"])
    lines += data.get("case_lines", [])
    if not lines:
        raise RuntimeError("replay file has no case line")
    inp = os.path.join(workdir, "replay.in")
    with open(inp, "w") as f:
        for ln in lines:
            f.write(ln + "\n")
    out = os.path.join(workdir, "replay.cases")
    rc, o = core.sh([harness, "-replay", inp, "-out", out, "-workdir", workdir, "replay"])
    log.append(("harness replay", rc))
    if rc != 0:
        raise RuntimeError("replay failed:\n" + o)
    return core.load_cases(out, modelrun, log)


if __name__ == "__main__":
    main()
