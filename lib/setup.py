import os
import sys

sys.path.insert(0, os.path.dirname(os.path.abspath(__file__)))
import core  # noqa: E402


def main():
    log = []
    with core.Lock():
        print(core.run_gofacts(log))
        core.coq_makefile()
        rc, out = core.coq_make(core.project_files(), log, timeout=3000)
        if rc != 0:
            print(out[-6000:])
            sys.exit(1)
        core.build_extraction(log)
        core.build_harness(log)
        core.build_rdpgw(log)
    bad = core.audit_sources()
    if bad:
        print("forbidden keywords:", bad)
        sys.exit(1)
    for cmd, rc in log:
        print("%s -> %d" % (cmd, rc))
    print("setup ok")


if __name__ == "__main__":
    main()
