"""Shared machinery of bin/check: build steps, running the harness and the
extracted model, comparison, known findings, replay and evidence files."""
import fcntl
import hashlib
import json
import os
import re
import subprocess
import sys
import time

VERIF = os.path.dirname(os.path.dirname(os.path.abspath(__file__)))
REPO = os.environ.get("VERIF_REPO", "/repo")
BUILD = os.path.join(VERIF, "build")
COQ = os.path.join(VERIF, "coq")
GOENV = dict(os.environ, GOFLAGS="-mod=mod", GOPROXY="off", GOSUMDB="off", GOTOOLCHAIN="local",
             CGO_ENABLED="0")

FORBIDDEN = re.compile(r"\b(Admitted|admit|Axiom|Axioms|Parameter|Parameters|Conjecture|Hypothesis|"
                       r"Hypotheses|Variable|Variables|Context|Unset Guard|Guard Checking|Positivity Checking|Universe Checking|"
                       r"bypass_check|Admit Obligations|native_compute|type-in-type|impredicative-set)\b")
ALLOWED_AXIOMS = set()  # the development is closed under the global context


class Broken(Exception):
    """An obligation of the tie or of the proof could not be established."""

    def __init__(self, which, detail):
        super().__init__(which + ": " + detail)
        self.which = which
        self.detail = detail


def sh(cmd, cwd=None, env=None, timeout=None, input=None):
    p = subprocess.run(cmd, cwd=cwd, env=env or os.environ, stdout=subprocess.PIPE, stderr=subprocess.STDOUT,
                       timeout=timeout, input=input, text=True)
    return p.returncode, p.stdout


class Lock:
    def __init__(self, name="build"):
        os.makedirs(BUILD, exist_ok=True)
        self.path = os.path.join(BUILD, "." + name + ".lock")

    def __enter__(self):
        self.f = open(self.path, "w")
        fcntl.flock(self.f, fcntl.LOCK_EX)
        return self

    def __exit__(self, *a):
        fcntl.flock(self.f, fcntl.LOCK_UN)
        self.f.close()


def newer(src_paths, target):
    if not os.path.exists(target):
        return True
    t = os.path.getmtime(target)
    for p in src_paths:
        if os.path.isdir(p):
            for root, _, files in os.walk(p):
                for f in files:
                    if os.path.getmtime(os.path.join(root, f)) > t:
                        return True
        elif os.path.exists(p) and os.path.getmtime(p) > t:
            return True
    return False


# ------------------------------------------------------------------ build steps

def build_gofacts(log):
    exe = os.path.join(BUILD, "gofacts")
    src = os.path.join(VERIF, "tools", "gofacts")
    if newer([src], exe):
        rc, out = sh(["go", "build", "-o", exe, "."], cwd=src, env=GOENV, timeout=300)
        log.append(("go build gofacts", rc))
        if rc != 0:
            raise RuntimeError("cannot build gofacts:\n" + out)
    return exe


def run_gofacts(log):
    """O1: regenerate Gen/*.v from /repo's working tree."""
    exe = build_gofacts(log)
    rc, out = sh([exe, "-repo", REPO, "-out", os.path.join(COQ, "theories", "Gen")], timeout=120)
    log.append(("gofacts -repo %s" % REPO, rc))
    if rc != 0:
        raise Broken("O1-translator", out.strip())
    return out.strip()


def coq_makefile():
    mk = os.path.join(COQ, "Makefile")
    if newer([os.path.join(COQ, "_CoqProject")], mk):
        rc, out = sh(["coq_makefile", "-f", "_CoqProject", "-o", "Makefile"], cwd=COQ)
        if rc != 0:
            raise RuntimeError("coq_makefile failed:\n" + out)


def vfiles(sub):
    d = os.path.join(COQ, "theories", sub)
    if not os.path.isdir(d):
        return []
    return sorted("theories/%s/%s" % (sub, f) for f in os.listdir(d) if f.endswith(".v"))


def project_files():
    fs = []
    for line in open(os.path.join(COQ, "_CoqProject")):
        line = line.strip()
        if line.endswith(".v"):
            fs.append(line)
    return fs


def coq_make(targets, log, timeout=1500):
    coq_makefile()
    cmd = ["make", "-j16"] + [t[:-2] + ".vo" for t in targets]
    rc, out = sh(["timeout", str(timeout)] + cmd, cwd=COQ)
    log.append((" ".join(cmd[:2]) + " <%d targets>" % len(targets), rc))
    return rc, out


def coq_build_models(log):
    """Lib, Gen, Model, Spec: executable definitions (no proofs)."""
    tg = [f for f in project_files() if re.match(r"theories/(Lib|Gen|Model|Spec)/", f)]
    rc, out = coq_make(tg, log)
    if rc != 0:
        raise Broken("O2-model-build", tail(out))


def coq_build_proofs(prop, log):
    """Proofs and the property file; then compile the property file once more
    on its own to capture Print Assumptions for this run."""
    pf = "theories/Properties/%s.v" % prop
    rc, out = coq_make([pf], log)
    if rc != 0:
        m = re.search(r'File "\./(theories/[^"]+)", line (\d+)', out)
        where = "%s:%s" % (m.group(1), m.group(2)) if m else "?"
        raise Broken("O2-proof", "%s\n%s" % (where, tail(out)))
    rc, out = sh(["timeout", "600", "coqc", "-Q", "theories", "RDPGW", pf], cwd=COQ)
    log.append(("coqc -Q theories RDPGW " + pf, rc))
    if rc != 0:
        raise Broken("O2-proof", tail(out))
    return out


def tail(s, n=25):
    return "\n".join(s.strip().splitlines()[-n:])


def audit_sources():
    """No Admitted/Axiom/... anywhere in the development (comments stripped)."""
    bad = []
    for root, _, files in os.walk(os.path.join(COQ)):
        for f in files:
            if not f.endswith(".v"):
                continue
            p = os.path.join(root, f)
            txt = open(p).read()
            txt = strip_comments(txt)
            for i, line in enumerate(txt.splitlines(), 1):
                m = FORBIDDEN.search(line)
                if m:
                    # "Variable"/"Hypothesis" are allowed inside a Section only; none is used at all
                    bad.append("%s:%d: %s" % (os.path.relpath(p, VERIF), i, m.group(0)))
    # the project file may pass only the -Q mapping and file names to coqc
    for i, line in enumerate(open(os.path.join(COQ, "_CoqProject")).read().splitlines(), 1):
        line = line.strip()
        if line and not (line.startswith("-Q ") or line.endswith(".v")):
            bad.append("coq/_CoqProject:%d: %s" % (i, line))
    return bad


def strip_comments(txt):
    out = []
    depth = 0
    i = 0
    while i < len(txt):
        if txt.startswith("(*", i):
            depth += 1
            i += 2
        elif txt.startswith("*)", i) and depth > 0:
            depth -= 1
            i += 2
        else:
            if depth == 0:
                out.append(txt[i])
            elif txt[i] == "\n":
                out.append("\n")
            i += 1
    return "".join(out)


def parse_assumptions(coqc_out):
    """Returns (number of Print Assumptions blocks, set of axioms named)."""
    closed = coqc_out.count("Closed under the global context")
    axioms = set()
    blocks = 0
    lines = coqc_out.splitlines()
    i = 0
    while i < len(lines):
        if lines[i].startswith("Axioms:"):
            blocks += 1
            i += 1
            while i < len(lines) and (lines[i].startswith(" ") or ":" in lines[i]) and not lines[i].startswith("Closed"):
                m = re.match(r"^(\S+)\s*:", lines[i])
                if m:
                    axioms.add(m.group(1))
                i += 1
        else:
            i += 1
    return closed + blocks, axioms


def count_obligations(prop):
    txt = strip_comments(open(os.path.join(COQ, "theories", "Properties", prop + ".v")).read())
    names = re.findall(r"^\s*(?:Theorem|Corollary|Lemma|Example|Fact)\s+(\w+)", txt, re.M)
    prints = len(re.findall(r"Print Assumptions", txt))
    return names, prints


def build_extraction(log):
    d = os.path.join(BUILD, "extract")
    os.makedirs(d, exist_ok=True)
    exe = os.path.join(d, "modelrun")
    srcs = [os.path.join(COQ, "extract", "Extract.v"), os.path.join(COQ, "extract", "driver.ml")]
    vo = []
    for sub in ("Lib", "Gen", "Model", "Spec"):
        vo.append(os.path.join(COQ, "theories", sub))
    if not newer(srcs + vo, exe):
        return exe
    for s in srcs:
        sh(["cp", s, d])
    rc, out = sh(["timeout", "600", "coqc", "-Q", os.path.join(COQ, "theories"), "RDPGW", "Extract.v"], cwd=d)
    log.append(("coqc Extract.v (extraction)", rc))
    if rc != 0:
        raise Broken("O2-extraction", tail(out))
    rc, out = sh(["ocamlfind", "ocamlopt", "-w", "-a", "model.mli", "model.ml", "driver.ml", "-o", "modelrun.tmp"], cwd=d,
                 timeout=600)
    log.append(("ocamlfind ocamlopt model.ml driver.ml", rc))
    if rc != 0:
        raise RuntimeError("cannot build the extracted model:\n" + out)
    os.replace(os.path.join(d, "modelrun.tmp"), exe)
    return exe


def build_harness(log, race=False):
    """Always rebuilt from /repo's current working tree (go's build cache makes
    this incremental). race=True: a -race build (needs cgo)."""
    src = os.path.join(VERIF, "harness")
    exe = os.path.join(BUILD, "harness-race" if race else "harness")
    sh(["cp", os.path.join(REPO, "go.sum"), os.path.join(src, "go.sum")])
    env = dict(GOENV)
    env["CGO_ENABLED"] = "1" if (race or os.environ.get("VERIF_CGO")) else "0"
    cmd = ["go", "build", "-tags", "verif"] + (["-race"] if race else []) + ["-o", exe + ".tmp", "."]
    rc, out = sh(cmd, cwd=src, env=env, timeout=1500)
    log.append(("go build -tags verif ./harness (replace rdpgw => %s)" % REPO, rc))
    if rc != 0:
        raise RuntimeError("cannot build the harness against %s:\n%s" % (REPO, tail(out, 40)))
    os.replace(exe + ".tmp", exe)
    return exe


def build_rdpgw(log, race=False):
    exe = os.path.join(BUILD, "rdpgw-race" if race else "rdpgw")
    env = dict(GOENV)
    cmd = ["go", "build", "-o", exe + ".tmp"]
    if race:
        env["CGO_ENABLED"] = "1"
        cmd.append("-race")
    cmd.append("./cmd/rdpgw")
    rc, out = sh(cmd, cwd=REPO, env=env, timeout=900)
    log.append((" ".join(cmd[:3]) + " ./cmd/rdpgw", rc))
    if rc != 0:
        raise RuntimeError("cannot build rdpgw:\n" + tail(out, 40))
    os.replace(exe + ".tmp", exe)
    return exe


# ------------------------------------------------------------------ cases

class Case:
    __slots__ = ("id", "kind", "fields", "impl", "model", "verdict")

    def __init__(self, id, kind, fields, impl):
        self.id, self.kind, self.fields, self.impl = id, kind, fields, impl
        self.model = None
        self.verdict = None

    def key(self):
        return self.kind + "\t" + "\t".join(self.fields)

    def line(self):
        return "\t".join([self.id, self.kind] + self.fields + [self.impl])

    def as_json(self, maxlen=400):
        def cut(s):
            return s if len(s) <= maxlen else s[:maxlen] + "...(%d chars)" % len(s)
        return {"kind": self.kind, "input": [cut(f) for f in self.fields], "implementation": cut(self.impl),
                "model": cut(self.model or ""), "oracle": self.verdict}


def run_stream(harness, modelrun, stream, tier, seed, workdir, log, extra_args=(), timeout=3000):
    os.makedirs(workdir, exist_ok=True)
    cases_p = os.path.join(workdir, stream + ".cases")
    stats_p = os.path.join(workdir, stream + ".stats")
    cmd = [harness, "-tier", tier, "-seed", str(seed), "-out", cases_p, "-stats", stats_p, "-workdir", workdir] + \
        list(extra_args) + [stream]
    t0 = time.time()
    env = dict(os.environ, TMPDIR=workdir, GORACE="exitcode=0 log_path=%s" % os.path.join(workdir, "race"))
    rc, out = sh(["timeout", str(timeout)] + cmd, env=env)
    log.append(("harness %s (%.1fs)" % (stream, time.time() - t0), rc))
    if rc != 0:
        # the code under test runs inside the harness process: a runtime abort of the gateway code is an observation
        m = re.search(r"fatal error: (concurrent map [a-z ]+|all goroutines are asleep[^\n]*)|panic: (concurrent write to websocket connection)", out)
        # any other panic / runtime abort that unwinds through the gateway's own packages (a goroutine the
        # gateway started is outside every recover: in production this is the end of the process)
        m2 = None
        if not m and "github.com/bolkedebruin/rdpgw/" in out:
            m2 = re.search(r"^(panic: [^\n]{0,120}|fatal error: [^\n]{0,120})", out, re.M)
        if m or m2:
            what = (m.group(1) or m.group(2)) if m else m2.group(1)
            what = re.sub(r"0x[0-9a-f]+", "ADDR", what.strip())
            what = re.sub(r"[^A-Za-z0-9:.]+", "-", what).strip("-")[:100]
            with open(cases_p, "a") as f:
                f.write("crash-1\tcrash\t%s\tprocess-aborted\n" % what)
        else:
            raise RuntimeError("harness stream %s failed (rc=%d):\n%s" % (stream, rc, tail(out, 40)))
    return load_cases(cases_p, modelrun, log), load_stats(stats_p)


def load_stats(p):
    st = {}
    if os.path.exists(p):
        for line in open(p):
            k, _, v = line.rstrip("\n").partition("\t")
            st[k] = int(v)
    return st


def _big_stack():
    # the extracted list functions are not tail recursive; MiB-sized byte lists need a deep stack
    import resource
    soft, hard = resource.getrlimit(resource.RLIMIT_STACK)
    try:
        resource.setrlimit(resource.RLIMIT_STACK, (hard, hard))
    except (ValueError, OSError):
        pass


def load_cases(cases_p, modelrun, log):
    cases = []
    with open(cases_p) as f:
        for line in f:
            parts = line.rstrip("\n").split("\t")
            if len(parts) < 3:
                continue
            cases.append(Case(parts[0], parts[1], parts[2:-1], parts[-1]))
    t0 = time.time()
    with open(cases_p) as f:
        p = subprocess.run(["timeout", "900", modelrun], stdin=f, stdout=subprocess.PIPE, stderr=subprocess.PIPE,
                           text=True, preexec_fn=_big_stack)
    log.append(("modelrun < %s (%.1fs)" % (os.path.basename(cases_p), time.time() - t0), p.returncode))
    if p.returncode != 0:
        raise RuntimeError("extracted model runner failed:\n" + p.stderr[-2000:])
    res = {}
    for line in p.stdout.splitlines():
        parts = line.split("\t")
        if len(parts) == 3:
            res[parts[0]] = (parts[1], parts[2])
    for c in cases:
        if c.id in res:
            c.model, c.verdict = res[c.id]
        else:
            c.model, c.verdict = "MISSING", "fail:driver-missing"
    return cases


# ------------------------------------------------------------------ findings

def load_known(prop):
    known, fixed = [], []
    p = os.path.join(VERIF, "known_findings.txt")
    if os.path.exists(p):
        for line in open(p):
            line = line.strip()
            if not line or line.startswith("#"):
                continue
            m = re.match(r"known:\s+property=(\S+)\s+sig=(\S+)\s+(.*)", line)
            if m and m.group(1) == prop:
                known.append((m.group(2), m.group(3)))
            m = re.match(r"fixed:\s+property=(\S+)\s+(\S+)\s+(.*)", line)
            if m and m.group(1) == prop:
                fixed.append((m.group(2), m.group(3)))
    return known, fixed


def coqchk(prop, log):
    """Thorough tier: re-check the property file and everything it depends on
    with the independent checker; returns (ok, summary text)."""
    cmd = ["timeout", "3000", "coqchk", "-silent", "-o", "-Q", "theories", "RDPGW", "RDPGW.Properties.%s" % prop]
    rc, out = sh(cmd, cwd=COQ)
    log.append((" ".join(cmd[2:]), rc))
    summary = out[out.find("CONTEXT SUMMARY"):] if "CONTEXT SUMMARY" in out else tail(out)
    ok = (rc == 0 and "* Axioms: <none>" in summary and "type-in-type: <none>" in summary
          and "unsafe (co)fixpoints: <none>" in summary and "positivity is assumed: <none>" in summary)
    return ok, " ".join(summary.split())


def write_replay(prop, name, payload):
    d = os.path.join(VERIF, "replays")
    os.makedirs(d, exist_ok=True)
    h = hashlib.sha1(json.dumps(payload, sort_keys=True).encode()).hexdigest()[:10]
    p = os.path.join(d, "%s-%s-%s.json" % (prop, name, h))
    payload = dict(payload)
    payload["replay_cmd"] = "bin/check %s --replay %s" % (prop, p)
    with open(p, "w") as f:
        json.dump(payload, f, indent=1)
    return p


def write_evidence(prop, ev):
    d = os.path.join(VERIF, "evidence")
    os.makedirs(d, exist_ok=True)
    with open(os.path.join(d, prop + ".json"), "w") as f:
        json.dump(ev, f, indent=1)


def seed_from_env():
    try:
        return int(os.environ.get("VERIF_SEED", "1"))
    except ValueError:
        return 1
