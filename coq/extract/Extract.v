(* Extraction of the executable models, specifications and oracles.
   ExtrOcamlBasic only: bool, option, unit, list, prod, sumbool, sumor and the
   inlined andb/orb. N, Z, positive, nat, byte stay the extracted inductives. *)
Require Extraction.
Require Import ExtrOcamlBasic.
From Coq Require Import List NArith ZArith.
From Coq.Strings Require Import Byte.
From RDPGW Require Import Lib.Bytes Gen.Consts Model.Utf16 Model.Packets Model.Processor
  Spec.Wire Spec.TunnelOrder Spec.Oracles Model.Relay Model.Framer Spec.Framing Model.Policy Spec.HostPolicy Model.Token Model.RdpFile Model.Ntlm Model.Config Model.Oidc Model.Download Model.HttpAuth Model.System Model.Kdc Model.Partial.
Extraction Language OCaml.
Extraction "model.ml"
  Byte.to_N Byte.of_N N.of_nat N.to_nat Z.of_N Z.to_N Z.opp
  Bytes.dec Bytes.undec Bytes.contains_sub Bytes.is_prefix
  Utf16.decode_utf16 Utf16.join_host_port
  Packets.create_packet Packets.read_header Packets.fstep Packets.match_auth
  Packets.make_redirect_flags Packets.handshake_request Packets.tunnel_request
  Packets.tunnel_auth_request Packets.channel_request Packets.receive_payload
  Packets.handshake_response Packets.tunnel_response Packets.tunnel_auth_response
  Packets.channel_response Packets.channel_close_response Packets.data_packet
  Relay.relay Relay.forward_chunks Relay.rstate0 Framer.frames_of Framing.frame Processor.run Processor.consumed Processor.resolve_dials Processor.resolve_policy_dials Policy.wired_policy Policy.client_ip HostPolicy.allowed_b Token.check_paa Token.mint_paa Token.user_info Token.mint_user Token.token_info_status RdpFile.parse RdpFile.marshal RdpFile.emit RdpFile.load RdpFile.defaults RdpFile.sort_kv RdpFile.render_int RdpFile.atoi Ntlm.nrun Ntlm.nstate0 Config.start Config.subst_key Config.serves Oidc.orun Oidc.ostate0 Download.download Download.query_info HttpAuth.dispatch HttpAuth.pick_route System.grun System.gstep Kdc.handle Kdc.validate Kdc.encode_msg Kdc.encode_req Kdc.decode_req Processor.tstate0 Processor.wired
  Partial.read_header_src Partial.decode_utf16_src Partial.auth_payload_src Partial.udp_payload_src
  Wire.decode_packet Wire.decode_handshake_response Wire.decode_tunnel_response
  Wire.decode_tunnel_auth_response Wire.decode_channel_response Wire.decode_data
  TunnelOrder.feeds TunnelOrder.mon0
  Oracles.c06_oracle Oracles.c17_oracle Oracles.c16_resp_ok Oracles.spec_redir Oracles.first_reject Oracles.negotiation_succeeds_b.
