(* Line-oriented runner for the extracted Coq model.
   stdin : ID \t KIND \t field ... (tab separated; byte strings in hex; "-" = empty)
   stdout: ID \t MODEL-OBSERVATION \t ORACLE-VERDICT
   The last input field of a line is always the implementation's observation;
   the oracle verdict is computed on it with extracted Spec functions only. *)
open Model

(* ---- conversions ---------------------------------------------------- *)
let byte_of_int (i : int) : byte = Obj.magic i
let int_of_byte (b : byte) : int = Obj.magic b

let rec pos_of_int (i : int) : positive =
  if i = 1 then XH else if i land 1 = 0 then XO (pos_of_int (i lsr 1)) else XI (pos_of_int (i lsr 1))
let n_of_int (i : int) : n = if i = 0 then N0 else Npos (pos_of_int i)
let rec int_of_pos = function XH -> 1 | XO p -> 2 * int_of_pos p | XI p -> 2 * int_of_pos p + 1
let int_of_n = function N0 -> 0 | Npos p -> int_of_pos p
let z_of_int (i : int) : z = if i = 0 then Z0 else if i > 0 then Zpos (pos_of_int i) else Zneg (pos_of_int (-i))
let int_of_z = function Z0 -> 0 | Zpos p -> int_of_pos p | Zneg p -> - (int_of_pos p)
let rec nat_of_int (i : int) : nat = if i <= 0 then O else S (nat_of_int (i - 1))
let rec int_of_nat = function O -> 0 | S k -> 1 + int_of_nat k

let self_check () =
  for i = 0 to 255 do
    if int_of_n (Model.to_N (byte_of_int i)) <> i then failwith "byte representation self-check failed";
    (match Model.of_N (n_of_int i) with
     | Some b when int_of_byte b = i -> ()
     | _ -> failwith "byte representation self-check failed (of_N)")
  done

let hexval c = match c with
  | '0'..'9' -> Char.code c - 48 | 'a'..'f' -> Char.code c - 87 | 'A'..'F' -> Char.code c - 55
  | _ -> failwith "bad hex"
let bytes_of_hex (s : string) : byte list =
  if s = "-" || s = "" then [] else begin
    let n = String.length s / 2 in
    let rec go i acc = if i < 0 then acc else
        go (i - 1) (byte_of_int (hexval s.[2*i] * 16 + hexval s.[2*i+1]) :: acc) in
    go (n - 1) []
  end
let hex_of_bytes (l : byte list) : string =
  match l with [] -> "-" | _ ->
    let b = Buffer.create 64 in
    List.iter (fun x -> Buffer.add_string b (Printf.sprintf "%02x" (int_of_byte x))) l;
    Buffer.contents b
let bool_of s = (s = "1" || s = "true")
let b01 b = if b then "1" else "0"
let split_on c s = String.split_on_char c s

(* ---- events <-> canonical text -------------------------------------- *)
let end_class = function EndClosed -> "ok" | _ -> "err"

(* canonical observation of a model trace: failed dials are invisible, host
   bytes are concatenated *)
let obs_of_events (evs : event list) (reads : int) : string =
  let host = Buffer.create 16 and out = Buffer.create 64 in
  let add s = if Buffer.length out > 0 then Buffer.add_char out ' '; Buffer.add_string out s in
  List.iter (fun e -> match e with
    | Resp (ty, st, raw) -> add (Printf.sprintf "R%d:%d:%s" (int_of_n ty) (int_of_n st) (hex_of_bytes raw))
    | AskCookie (c, ok) -> add (Printf.sprintf "AC:%s:%s" (hex_of_bytes c) (b01 ok))
    | AskName (c, ok) -> add (Printf.sprintf "AN:%s:%s" (hex_of_bytes c) (b01 ok))
    | AskHost (c, ok) -> add (Printf.sprintf "AH:%s:%s" (hex_of_bytes c) (b01 ok))
    | Dial (h, ok) -> if ok then add (Printf.sprintf "D:%s" (hex_of_bytes h))
    | ToHost b ->
      List.iter (fun x -> Buffer.add_string host (Printf.sprintf "%02x" (int_of_byte x))) b
    | End w -> add ("E:" ^ end_class w)) evs;
  add ("H:" ^ (if Buffer.length host = 0 then "-" else Buffer.contents host));
  add (Printf.sprintf "N:%d" reads);
  Buffer.contents out

(* parse an implementation observation back into events for the monitor.
   The H: field (bytes seen by the backend) becomes one ToHost event. N: is the number of transport reads performed. *)
let events_of_obs (s : string) : event list * int =
  let toks = List.filter (fun t -> t <> "") (split_on ' ' s) in
  let host = ref None and reads = ref (-1) in
  let evs = List.filter_map (fun t ->
      match split_on ':' t with
      | [r; st; raw] when String.length r > 1 && r.[0] = 'R' ->
        let ty = int_of_string (String.sub r 1 (String.length r - 1)) in
        Some (Resp (n_of_int ty, n_of_int (int_of_string st), bytes_of_hex raw))
      | ["AC"; c; ok] -> Some (AskCookie (bytes_of_hex c, bool_of ok))
      | ["AN"; c; ok] -> Some (AskName (bytes_of_hex c, bool_of ok))
      | ["AH"; c; ok] -> Some (AskHost (bytes_of_hex c, bool_of ok))
      | ["D"; h] -> Some (Dial (bytes_of_hex h, true))
      | ["H"; b] -> (if b <> "-" then host := Some (ToHost (bytes_of_hex b))); None
      | ["N"; k] -> reads := int_of_string k; None
      | ["E"; "ok"] -> Some (End EndClosed)
      | ["E"; _] -> Some (End EndReadErr)
      | ["PANIC"] -> failwith "the implementation panicked (PANIC in its observation)"
      | ["BACKEND-NOT-CLOSED"] -> failwith "a backend connection was still open after the tunnel ended (a second connection was made or the first was not released)"
      | _ -> failwith ("bad event token " ^ t)) toks in
  (* bytes seen by the backend are not ordered against the responses by the
     observation; they are placed right after the channel-create success (the
     earliest point at which the property allows them) or, when there was no
     such response, at the very end where the monitor rejects them *)
  let evs = match !host with
    | None -> evs
    | Some h ->
      let rec ins = function
        | [] -> [h]
        | (Resp (ty, st, _) as e) :: rest when ty = Model.pKT_TYPE_CHANNEL_RESPONSE && st = N0 -> e :: h :: rest
        | e :: rest -> e :: ins rest in
      ins evs in
  (evs, !reads)

(* ---- symbolic tokens -------------------------------------------------- *)
let zopt s = if s = "-" then None else Some (z_of_int (int_of_string s))
let key_of_name s = bytes_of_hex (match s with "S" -> "53" | "O" -> "4f" | "X" -> "58" | "E" -> "45" | "Q" -> "51" | "T" -> "54" | _ -> "3f")
let alg_of_name = function "HS256" -> HS256 | "HS384" -> HS384 | "HS512" -> HS512 | "RS256" -> RS256
                         | "none" -> AlgNone | _ -> AlgOther
(* claims fields: iss exp nbf iat host ip at [sub] *)
let claims_of = function
  | iss :: exp :: nbf :: iat :: host :: ip :: at :: rest ->
    { cl_iss = bytes_of_hex iss; cl_sub = (match rest with s :: _ -> bytes_of_hex s | [] -> []);
      cl_exp = zopt exp; cl_nbf = zopt nbf; cl_iat = zopt iat;
      cl_host = bytes_of_hex host; cl_ip = bytes_of_hex ip; cl_at = bytes_of_hex at }
  | _ -> failwith "bad claims"
let jws_of_term t =
  match split_on ':' t with
  | ["E"] -> JEmpty
  | ["U"] -> JUnparseable
  | "C" :: alg :: key :: rest -> JCompact (alg_of_name alg, key_of_name key, claims_of rest)
  | _ -> failwith ("bad jws term " ^ t)

let ukey s = if s = "-" then [] else key_of_name s
let jwe_of_term t =
  match split_on ':' t with
  | ["U"] -> EUnparseable
  | "X" :: kalg :: cenc :: key :: cty :: rest ->
    let to_b s = List.map (fun c -> byte_of_int (Char.code c)) (List.of_seq (String.to_seq s)) in
    let inner = (match rest with
        | "P" :: cl -> InClaims (claims_of cl)
        | "S" :: alg :: skey :: cl -> InSigned (alg_of_name alg, key_of_name skey, claims_of cl)
        | _ -> InOther) in
    EEnc (to_b kalg, to_b cenc, key_of_name key, cty = "1", inner)
  | _ -> failwith ("bad jwe term " ^ t)

(* ---- rdp files ---------------------------------------------------------- *)
let string_of_z z =
  (* decimal rendering without going through OCaml ints (int64 extremes) *)
  let b = Model.render_int z in String.concat "" (List.map (fun x -> String.make 1 (Char.chr (int_of_byte x))) b)
let z_of_string s =
  let bs = List.map (fun c -> byte_of_int (Char.code c)) (List.of_seq (String.to_seq s)) in
  match Model.atoi bs with Some z -> z | None -> failwith ("bad integer " ^ s)
let value_of s =
  if String.length s >= 2 && String.sub s 0 2 = "i:" then VInt (z_of_string (String.sub s 2 (String.length s - 2)))
  else VStr (bytes_of_hex (String.sub s 2 (String.length s - 2)))
let string_of_value = function VInt z -> "i:" ^ string_of_z z | VStr b -> "s:" ^ hex_of_bytes b
let kvs_of s = if s = "empty" || s = "" then [] else
    List.map (fun e -> match String.index_opt e '=' with
        | Some i -> (bytes_of_hex (String.sub e 0 i), value_of (String.sub e (i + 1) (String.length e - i - 1)))
        | None -> failwith "bad kv") (split_on ';' s)
let canon_kvs m =
  match Model.sort_kv m with
  | [] -> "empty"
  | l -> String.concat ";" (List.map (fun (k, v) -> hex_of_bytes k ^ "=" ^ string_of_value v) l)
let settings_string s = String.concat "," (List.map string_of_value s)

(* ---- kinds ----------------------------------------------------------- *)
let parse_answers s = { a_cookie = s.[0] = '1'; a_name = s.[1] = '1'; a_host = s.[2] = '1'; a_dial = s.[3] = '1' }
let parse_redir s = { rf_clipboard = s.[0] = '1'; rf_port = s.[1] = '1'; rf_drive = s.[2] = '1';
                      rf_printer = s.[3] = '1'; rf_pnp = s.[4] = '1'; rf_disable_all = s.[5] = '1';
                      rf_enable_all = s.[6] = '1' }
(* cfg: tok sc cookiecb namecb hostcb as 5 bits, redir 7 bits, idle int *)
let parse_cfg bits redir idle =
  { c_token_auth = bits.[0] = '1'; c_smartcard = bits.[1] = '1'; c_cookie_cb = bits.[2] = '1';
    c_name_cb = bits.[3] = '1'; c_host_cb = bits.[4] = '1'; c_redir = parse_redir redir;
    c_idle = z_of_int (int_of_string idle) }
let parse_items s =
  if s = "-" then [] else
  List.map (fun t -> match split_on ':' t with
      | ["E"] -> RErr
      | ["D"; hex; ans] -> RData (bytes_of_hex hex, parse_answers ans)
      | _ -> failwith ("bad read item " ^ t)) (split_on ',' s)

let handle (fields : string list) : string * string =
  match fields with
  | "matchauth" :: sc :: tok :: client :: _impl :: [] ->
    let r = match Model.match_auth (bool_of sc) (bool_of tok) (n_of_int (int_of_string client)) with
      | Some caps -> Printf.sprintf "ok:%d" (int_of_n caps) | None -> "err" in
    let want = Model.negotiation_succeeds_b (bool_of sc) (bool_of tok) (n_of_int (int_of_string client)) in
    let verdict = match split_on ':' _impl with
      | ["ok"; caps] -> if want && int_of_string caps = int_of_n (Model.spec_server_caps (bool_of sc) (bool_of tok)) then "ok" else "fail:success-not-allowed-or-wrong-caps"
      | _ -> if want then "fail:refused-although-allowed" else "ok" in
    (r, verdict)
  | "handshake" :: sc :: tok :: body :: impl :: [] ->
    (* one handshake packet then EOF on a fresh tunnel; impl = observed events *)
    let cfg = { c_token_auth = bool_of tok; c_smartcard = bool_of sc; c_cookie_cb = false; c_name_cb = false;
                c_host_cb = false; c_redir = parse_redir "0000000"; c_idle = Z0 } in
    let b = bytes_of_hex body in
    let hs = Model.create_packet Model.pKT_TYPE_HANDSHAKE_REQUEST b in
    let items = [RData (hs, parse_answers "0000"); RErr] in
    let m = obs_of_events (Model.run cfg items) (int_of_nat (Model.consumed cfg items)) in
    let ((((ma, mi), _), ext)) = Model.handshake_request b in
    let (ievs, reads) = events_of_obs impl in
    let verdict = match ievs with
      | Resp (_, _, raw) :: _ ->
        (* the tunnel ended on the handshake iff no further transport read happened *)
        if Model.c17_oracle (bool_of sc) (bool_of tok) ma mi ext raw (reads = 1) then "ok"
        else "fail:handshake-response"
      | _ -> "fail:no-response" in
    (m, verdict)
  | "handshakegw" :: sc :: tok :: _where :: body :: impl :: [] ->
    (* the real binary: one handshake on a fresh tunnel; impl = raw responses and whether the gateway ended the stream *)
    let cfg = { c_token_auth = bool_of tok; c_smartcard = bool_of sc; c_cookie_cb = false; c_name_cb = false;
                c_host_cb = false; c_redir = parse_redir "0000000"; c_idle = Z0 } in
    let b = bytes_of_hex body in
    let hs = Model.create_packet Model.pKT_TYPE_HANDSHAKE_REQUEST b in
    let items = [RData (hs, parse_answers "0000"); RErr] in
    let evs = Model.run cfg items in
    let ended = int_of_nat (Model.consumed cfg items) < 2 in
    let raws = List.filter_map (function Resp (_, _, raw) -> Some (hex_of_bytes raw) | _ -> None) evs in
    let m = Printf.sprintf "R=%s X=%s" (match raws with [] -> "-" | _ -> String.concat "," raws) (b01 ended) in
    let ((((ma, mi), _), ext)) = Model.handshake_request b in
    let field k = List.find_opt (fun t -> String.length t > 2 && String.sub t 0 2 = k) (split_on ' ' impl) in
    let verdict =
      match field "R=", field "X=" with
      | Some r, Some x when r <> "R=-" && not (String.contains r ',') ->
        let raw = bytes_of_hex (String.sub r 2 (String.length r - 2)) in
        if not (Model.c17_oracle (bool_of sc) (bool_of tok) ma mi ext raw (x = "X=1")) then "fail:handshake-response"
        else if m = impl then "ok" else "fail:handshake-differs"
      | _ -> "fail:no-response" in
    (m, verdict)
  | "tunnelauthgw" :: redir :: idle :: pkts :: impl :: [] ->
    (* the real binary: handshake, tunnel create, tunnel authorization on a fresh tunnel; impl = raw responses *)
    let cfg = { c_token_auth = false; c_smartcard = false; c_cookie_cb = false; c_name_cb = false; c_host_cb = true;
                c_redir = parse_redir redir; c_idle = z_of_int (int_of_string idle) } in
    let items = List.map (fun h -> RData (bytes_of_hex h, parse_answers "1111")) (split_on ',' pkts) @ [RErr] in
    let raws = List.filter_map (function Resp (_, _, raw) -> Some (hex_of_bytes raw) | _ -> None) (Model.run cfg items) in
    let m = String.concat "," raws in
    (m, if m = impl then "ok"
        else match List.rev (split_on ',' impl), List.rev raws with
          | i :: _, r :: _ when List.length (split_on ',' impl) = List.length raws && i <> r ->
            "fail:tunnel-authorization-response-differs-from-the-configured-policy"
          | _ -> "fail:responses-differ")
  | "process" :: bits :: redir :: idle :: live :: items :: impl :: [] ->
    let cfg = parse_cfg bits redir idle in
    let live = if live = "-" then [] else List.map bytes_of_hex (split_on ',' live) in
    let items = Model.resolve_dials live cfg Model.tstate0 (parse_items items) in
    let m = obs_of_events (Model.run cfg items) (int_of_nat (Model.consumed cfg items)) in
    let (ievs, _) = events_of_obs impl in
    let verdict = match Model.first_reject cfg.c_cookie_cb cfg.c_host_cb Model.mon0 ievs O with
      | None -> "ok"
      | Some i -> Printf.sprintf "fail:monitor-rejects-event-%d" (int_of_nat i) in
    (m, verdict)
  | "procrelay" :: bits :: redir :: idle :: live :: items :: impl :: [] ->
    (* C06 through the packet loop: what the host received must be the declared payloads, in order *)
    let cfg = parse_cfg bits redir idle in
    let live = if live = "-" then [] else List.map bytes_of_hex (split_on ',' live) in
    let items = Model.resolve_dials live cfg Model.tstate0 (parse_items items) in
    let mevs = Model.run cfg items in
    let m = obs_of_events mevs (int_of_nat (Model.consumed cfg items)) in
    let sent = hex_of_bytes (List.concat (List.filter_map (function ToHost b -> Some b | _ -> None) mevs)) in
    let got = (match List.find_opt (fun t -> String.length t > 2 && String.sub t 0 2 = "H:") (split_on ' ' impl) with
        | Some t -> let v = String.sub t 2 (String.length t - 2) in if v = "-" then "" else v
        | None -> "?") in
    (m, if got = sent then (if m = impl then "ok" else "fail:packet-loop-differs")
        else if String.length got = String.length sent then "fail:host-received-the-bytes-in-another-order-or-altered"
        else "fail:host-received-fewer-or-more-bytes-than-sent")
  | "process16" :: bits :: redir :: idle :: live :: items :: impl :: [] ->
    let cfg = parse_cfg bits redir idle in
    let live = if live = "-" then [] else List.map bytes_of_hex (split_on ',' live) in
    let items = Model.resolve_dials live cfg Model.tstate0 (parse_items items) in
    let m = obs_of_events (Model.run cfg items) (int_of_nat (Model.consumed cfg items)) in
    let (ievs, _) = events_of_obs impl in
    let r = cfg.c_redir in
    let rd = Model.spec_redir r.rf_clipboard r.rf_port r.rf_drive r.rf_printer r.rf_pnp r.rf_disable_all r.rf_enable_all in
    let bad = List.filter (fun e -> match e with
        | Resp (ty, st, raw) -> not (Model.c16_resp_ok rd cfg.c_idle ty st raw)
        | _ -> false) ievs in
    (* the status that follows a refusal names the refusal (C16_cookie_rejection_code, C16_host_denial_code) *)
    let rec denial_ok = function
      | AskCookie (_, false) :: rest ->
        (match List.find_opt (function Resp _ -> true | _ -> false) rest with
         | Some (Resp (_, st, _)) when st <> Model.e_PROXY_COOKIE_AUTHENTICATION_ACCESS_DENIED -> Some "cookie-refusal-reported-with-another-status"
         | _ -> denial_ok rest)
      | AskHost (_, false) :: rest ->
        (match List.find_opt (function Resp _ -> true | _ -> false) rest with
         | Some (Resp (_, st, _)) when st <> Model.e_PROXY_RAP_ACCESSDENIED -> Some "host-denial-reported-with-another-status"
         | _ -> denial_ok rest)
      | _ :: rest -> denial_ok rest
      | [] -> None in
    (* the (type, status) sequence of the responses is what the specification's run of the same packets gives *)
    let statuses evs = List.filter_map (function Resp (ty, st, _) -> Some (int_of_n ty, int_of_n st) | _ -> None) evs in
    let status_ok = (statuses ievs = statuses (Model.run cfg items)) in
    (* what the policy callbacks were asked about is the reference decoding of what the client sent *)
    let asked evs = List.filter_map (function
        | AskCookie (c, _) -> Some ("cookie", c) | AskName (c, _) -> Some ("name", c) | AskHost (c, _) -> Some ("host", c)
        | _ -> None) evs in
    let asked_ok = (asked ievs = asked (Model.run cfg items)) in
    let verdict = match bad with
      | [] -> (match denial_ok ievs with
          | None -> if not asked_ok then "fail:checked-value-is-not-the-value-the-client-sent"
            else if status_ok then "ok" else "fail:response-status-differs-from-specification"
          | Some w -> "fail:" ^ w)
      | Resp (ty, _, _) :: _ -> Printf.sprintf "fail:malformed-or-untruthful-response-type-%d" (int_of_n ty)
      | _ -> "fail:response" in
    (m, verdict)
  | "segment" :: bits :: live :: cls :: whole :: seg :: impl :: [] ->
    (* the same packet sequence delivered one packet per read (whole) and under a
       segmentation (seg); observation = "<seg obs> | <whole obs>" *)
    let cfg = parse_cfg bits "0000000" "0" in
    let live = if live = "-" then [] else List.map bytes_of_hex (split_on ',' live) in
    let obs its =
      let items = Model.resolve_dials live cfg Model.tstate0 (parse_items its) in
      obs_of_events (Model.run cfg items) (int_of_nat (Model.consumed cfg items)) in
    let m = obs seg ^ " | " ^ obs whole in
    let strip_n o = String.concat " " (List.filter (fun t -> not (String.length t > 2 && String.sub t 0 2 = "N:"))
                                         (split_on ' ' o)) in
    let verdict =
      match String.index_opt impl '|' with
      | None -> "fail:bad-observation"
      | Some i ->
        let a = String.trim (String.sub impl 0 i) and b = String.trim (String.sub impl (i + 1) (String.length impl - i - 1)) in
        let n_of o = List.fold_left (fun acc t -> if String.length t > 2 && String.sub t 0 2 = "N:"
                                       then int_of_string (String.sub t 2 (String.length t - 2)) else acc) 0 (split_on ' ' o) in
        if strip_n a <> strip_n b then "fail:" ^ cls
        else if cls = "unframeable-header-over-two-reads" && n_of a > n_of (obs seg)
        then "fail:unframeable-stream-keeps-being-read" (* the tunnel must end at the read that completes the bad header *)
        else "ok" in
    (m, verdict)
  | "relay" :: bodies :: writes :: impl :: [] ->
    (* client DATA bodies and host writes (net.Pipe: every write is handed over in
       reads of at most FORWARD_BUF); observation = "<bytes at host> | <packets at client>" *)
    let lst s = if s = "-" then [] else List.map bytes_of_hex (split_on ',' s) in
    let bodies = lst bodies and writes = lst writes in
    let ops = List.map (fun b -> ClientData b) bodies @ List.map (fun c -> HostRead c) (Model.forward_chunks writes) in
    let st = Model.relay ops in
    let pk l = match l with [] -> "-" | _ -> String.concat "," (List.map hex_of_bytes l) in
    let m = hex_of_bytes st.to_host ^ " | " ^ pk st.to_client in
    let verdict =
      match split_on '|' impl with
      | [h; c] ->
        let at_host = bytes_of_hex (String.trim h) in
        let c = String.trim c in
        let at_client = if c = "-" then [] else List.map bytes_of_hex (split_on ',' c) in
        if Model.c06_oracle bodies (List.concat writes) at_host at_client then "ok" else "fail:relay-not-exact"
      | _ -> "fail:bad-observation" in
    (m, verdict)
  | "policy" :: tok :: verify :: mode :: hosts :: tokhost :: tokip :: user :: cip :: live :: items :: impl :: [] ->
    let tok = bool_of tok and verify = bool_of verify in
    let lst s = if s = "-" then [] else List.map bytes_of_hex (split_on ',' s) in
    let cfg = { c_token_auth = tok; c_smartcard = false; c_cookie_cb = tok; c_name_cb = false; c_host_cb = true;
                c_redir = parse_redir "0000000"; c_idle = Z0 } in
    let t = { t_target = bytes_of_hex tokhost; t_remote = bytes_of_hex tokip; t_user = bytes_of_hex user } in
    let pol = Model.wired_policy tok verify (bytes_of_hex mode) (lst hosts) t (bytes_of_hex cip) in
    let items = Model.resolve_policy_dials pol (lst live) cfg Model.tstate0 (parse_items items) in
    let mevs = Model.run cfg items in
    let m = obs_of_events mevs (int_of_nat (Model.consumed cfg items)) in
    let (ievs, _) = events_of_obs impl in
    let spec h = Model.allowed_b tok verify (bytes_of_hex mode) (lst hosts) t (bytes_of_hex cip) h in
    (* the addresses the client requested, decoded by the reference decoder from the packets it sent *)
    let requested = List.concat_map (fun e -> match e with AskHost (h, _) -> [h] | Dial (h, _) -> [h] | _ -> []) mevs in
    let verdict =
      match Model.first_reject cfg.c_cookie_cb cfg.c_host_cb Model.mon0 ievs O with
      | Some i -> Printf.sprintf "fail:monitor-rejects-event-%d" (int_of_nat i)
      | None ->
        if List.exists (fun e -> match e with Dial (h, _) -> not (List.mem h requested) | _ -> false) ievs
        then "fail:connected-to-a-host-other-than-the-requested-one"
        else if List.exists (fun e -> match e with AskHost (h, _) -> not (List.mem h requested) | _ -> false) ievs
        then "fail:checked-value-is-not-the-value-the-client-sent"
        else if List.exists (fun e -> match e with AskHost (h, ok) -> ok <> spec h | _ -> false) ievs
        then "fail:policy-decision-differs-from-specification"
        else if List.exists (fun e -> match e with Dial (h, _) -> not (spec h) | _ -> false) ievs
        then "fail:connected-to-forbidden-host"
        else "ok" in
    (m, verdict)
  | "clientip" :: xff :: peer :: impl :: [] ->
    let m = hex_of_bytes (Model.client_ip (bytes_of_hex xff) (bytes_of_hex peer)) in
    (m, if m = impl then "ok" else "fail:client-address")
  | "paa" :: now :: idp :: term :: _tokhex :: impl :: [] ->
    let tok = jws_of_term term in
    let idpf at = (match split_on ':' idp with
        | ["valid"; sub] -> (match tok with JCompact (_, _, c) when c.cl_at = at -> Some (bytes_of_hex sub) | _ -> None)
        | _ -> None) in
    let (res, q) = Model.check_paa (key_of_name "S") (z_of_int (int_of_string now)) idpf tok in
    (* "consulted" as the harness observes it is a request arriving at the provider: the OAuth2 client refuses to
       send an empty access token, so for such a token no request is seen (same adjustment in Spec/Show.v) *)
    let at_empty = (match tok with JCompact (_, _, c) -> c.cl_at = [] | _ -> false) in
    let m = (match res with
        | PaaReject -> "rej:" ^ b01 (q && not at_empty)
        | PaaAccept (h, i, u) -> Printf.sprintf "acc:%s:%s:%s:%s" (hex_of_bytes h) (hex_of_bytes i) (hex_of_bytes u) (b01 q)) in
    (* the specification evaluated on the independently decoded term is the oracle *)
    (m, if m = impl then "ok"
        else if String.length impl >= 3 && String.sub impl 0 3 = "acc" then "fail:accepted-a-token-the-specification-rejects"
        else "fail:" ^ (if String.length m >= 3 && String.sub m 0 3 = "acc" then "rejected-a-valid-token" else "idp-consultation-or-other"))
  | "usertok" :: _ :: _ :: _ :: "LEAK" :: _tokhex :: _ :: [] ->
    ("opaque", "fail:user-name-readable-from-the-token-text")
  | "usertok" :: _ :: _ :: _ :: "MINT-FAILED" :: _ :: _ :: [] ->
    ("minted", "fail:gateway-could-not-mint-a-user-token")
  | "usertok" :: ek :: sk :: now :: term :: _tokhex :: impl :: [] ->
    let m = (match Model.user_info (ukey ek) (ukey sk) (z_of_int (int_of_string now)) (jwe_of_term term) with
        | Some sub -> "ok:" ^ hex_of_bytes sub | None -> "rej") in
    (m, if m = impl then "ok"
        else if String.length impl >= 2 && String.sub impl 0 2 = "ok" then "fail:verified-a-token-the-specification-rejects"
        else "fail:rejected-a-valid-token")
  | "tokeninfo" :: meth :: param :: ek :: sk :: now :: term :: impl :: [] ->
    let v = Model.user_info (ukey ek) (ukey sk) (z_of_int (int_of_string now)) (jwe_of_term term) in
    let p = (match param with "none" -> None | "empty" -> Some [] | _ -> Some [byte_of_int 120]) in
    let st = int_of_n (Model.token_info_status (meth = "GET") p (v <> None)) in
    let m = Printf.sprintf "%d:%s:0" st (match v with Some s when st = 200 -> hex_of_bytes s | _ -> "-") in
    (m, if m = impl then "ok" else "fail:tokeninfo-status-or-disclosure")
  | "rdpmarshal" :: m :: impl :: [] ->
    let kvs = kvs_of m in
    let out = Model.marshal kvs in
    let back = (match Model.parse out with Some m' when canon_kvs m' = canon_kvs kvs -> "RT:ok" | _ -> "RT:diff") in
    let mo = hex_of_bytes out ^ " " ^ back ^ " WF:ok" in
    (mo, if mo = impl then "ok" else if not (List.mem "RT:ok" (split_on ' ' impl)) then "fail:parse-marshal-roundtrip"
         else if not (List.mem "WF:ok" (split_on ' ' impl)) then "fail:file-not-wellformed" else "fail:marshal-bytes")
  | "rdpparse" :: file :: impl :: [] ->
    let mo = (match Model.parse (bytes_of_hex file) with Some m -> canon_kvs m | None -> "err") in
    (mo, if mo = impl then "ok" else if mo = "err" then "fail:malformed-input-accepted" else "fail:parse-result")
  | "rdpbuild" :: st :: impl :: [] ->
    let s = List.map value_of (split_on ',' st) in
    let text = Model.emit s in
    let rt = (match Model.load text with Some s' when settings_string s' = settings_string s -> "RT:ok" | _ -> "RT:diff") in
    let mo = hex_of_bytes text ^ " " ^ rt ^ " WF:ok" in
    (mo, if mo = impl then "ok" else if not (List.mem "RT:ok" (split_on ' ' impl)) then "fail:builder-roundtrip"
         else if not (List.mem "WF:ok" (split_on ' ' impl)) then "fail:file-not-wellformed" else "fail:builder-text")
  | "rdptemplate" :: tmpl :: impl :: [] ->
    let mo = (match Model.load (bytes_of_hex tmpl) with
        | Some s -> hex_of_bytes (Model.emit s) ^ " " ^ settings_string s ^ " WF:ok"
        | None -> "err") in
    (mo, if mo = impl then "ok" else "fail:template-handling")
  | "ntlm" :: db :: ops :: impl :: [] ->
    let dbl = if db = "-" then [] else List.map (fun e -> match split_on '=' e with
        | [u; p] -> (bytes_of_hex u, bytes_of_hex p) | _ -> failwith "bad db") (split_on ';' db) in
    let dbf u = (try List.assoc u dbl with Not_found -> []) in
    (* time advances by the waits; the challenge answered is the nonce of the negotiate step *)
    let t = ref 0 in
    let negcount = ref 0 in
    let nonce_of_step = Hashtbl.create 16 in
    let idx = ref 0 in
    let parsed = List.map (fun o ->
        incr idx;
        match split_on '|' o with
        | [w; s; m] ->
          t := !t + int_of_string w;
          let sess = bytes_of_hex s in
          let msg = (match split_on ':' m with
              | ["neg"] -> if sess <> [] then begin incr negcount; Hashtbl.replace nonce_of_step !idx !negcount end; NNegotiate
              | ["negbad"] -> NNegotiateBad
              | ["auth"; u; p; from] ->
                let ch = (try Hashtbl.find nonce_of_step (int_of_string from) with Not_found -> 0) in
                NAuth (bytes_of_hex u, RespFor (bytes_of_hex u, bytes_of_hex p, n_of_int ch))
              | ["authas"; u; ku; kp; from] ->
                let ch = (try Hashtbl.find nonce_of_step (int_of_string from) with Not_found -> 0) in
                NAuth (bytes_of_hex u, RespFor (bytes_of_hex ku, bytes_of_hex kp, n_of_int ch))
              | ["authbad"; u] -> NAuth (bytes_of_hex u, RespBad)
              | ["b64bad"] -> NBadBase64
              | ["garbage"] -> NGarbage
              | ["empty"] -> NEmpty
              | _ -> failwith ("bad ntlm msg " ^ m)) in
          ((z_of_int !t, sess), msg)
        | _ -> failwith "bad ntlm op") (split_on ',' ops) in
    let outs = Model.nrun dbf Model.nstate0 parsed in
    let m = String.concat "," (List.map (function
        | OErr -> "err" | OChallenge _ -> "chal" | OAuthOK u -> "ok:" ^ hex_of_bytes u | ONotAuth -> "no") outs) in
    (m, if m = impl then "ok"
        else begin
          let a = split_on ',' m and b = split_on ',' impl in
          if List.length a = List.length b &&
             List.exists2 (fun x y -> String.length y >= 2 && String.sub y 0 2 = "ok" && x <> y) a b
          then "fail:authenticated-without-proof-of-the-configured-password"
          else if List.length a = List.length b &&
                  List.exists2 (fun x y -> String.length x >= 2 && String.sub x 0 2 = "ok" && x <> y) a b
          then "fail:honest-client-not-authenticated"
          else "fail:ntlm-response-differs"
        end)
  | "config" :: mech :: hostsel :: qk :: hosts :: flags :: lens :: envb :: _via :: impl :: [] ->
    let ni s = n_of_int (int_of_string s) in
    let l = Array.of_list (split_on ',' lens) in
    let r = { r_openid = mech.[0] = '1'; r_kerberos = mech.[1] = '1'; r_local = mech.[2] = '1'; r_ntlm = mech.[3] = '1';
              r_tls_disable = mech.[4] = '1'; r_hostsel = bytes_of_hex hostsel; r_querykey_len = ni qk; r_hosts = ni hosts;
              r_keytab_set = flags.[0] = '1'; r_tokenauth = flags.[1] = '1'; r_enable_usertoken = flags.[2] = '1';
              r_paa_enc_len = ni l.(0); r_paa_sign_len = ni l.(1); r_user_enc_len = ni l.(2);
              r_session_len = ni l.(3); r_session_enc_len = ni l.(4) } in
    let e = { e_idp_ok = envb.[0] = '1'; e_keytab_loadable = envb.[1] = '1'; e_krb5conf_ok = envb.[2] = '1' } in
    let ks = function Configured -> "C" | Fresh0 -> "F" in
    let m = (match Model.start r e with
        | Fatal -> "fatal"
        | Started k ->
          (* the user-token key is only looked at (and logged) when user tokens are enabled *)
          "started:" ^ ks k.k_paa_enc ^ ks k.k_paa_sign ^ ks k.k_user_enc ^ ks k.k_session ^ ks k.k_session_enc) in
    (m, if m = impl then "ok"
        else if impl = "started-without-tls" then "fail:serves-without-tls-although-tls-is-not-disabled"
        else if String.length impl >= 7 && String.sub impl 0 7 = "started" && m = "fatal" then "fail:unsafe-configuration-started"
        else if impl = "fatal" then "fail:safe-configuration-refused"
        else "fail:key-substitution")
  | "serving" :: mech :: impl :: [] ->
    (* what a started instance serves (OpenID routes, challenges of the gateway endpoint) *)
    let r = { r_openid = mech.[0] = '1'; r_kerberos = mech.[1] = '1'; r_local = mech.[2] = '1'; r_ntlm = mech.[3] = '1';
              r_tls_disable = mech.[4] = '1'; r_hostsel = []; r_querykey_len = n_of_int 0; r_hosts = n_of_int 1;
              r_keytab_set = mech.[1] = '1'; r_tokenauth = true; r_enable_usertoken = false;
              r_paa_enc_len = n_of_int 0; r_paa_sign_len = n_of_int 0; r_user_enc_len = n_of_int 0;
              r_session_len = n_of_int 0; r_session_enc_len = n_of_int 0 } in
    let s = Model.serves r in
    let m = Printf.sprintf "openid=%s basic=%s ntlm=%s negotiate=%s" (b01 s.sv_openid_routes) (b01 s.sv_basic) (b01 s.sv_ntlm)
        (b01 s.sv_negotiate) in
    (m, if m = impl then "ok" else "fail:serves-mechanisms-other-than-the-configured-ones")
  | "keyshare" :: len :: impl :: [] ->
    (* five keys of the same configured length on two instances *)
    let shared = (Model.subst_key (n_of_int (int_of_string len)) = Configured) in
    let denied = int_of_n Model.e_PROXY_COOKIE_AUTHENTICATION_ACCESS_DENIED in
    let m = Printf.sprintf "callback=302 connect=200 tokA_on_A=0 tokA_on_B=%d cookieA_on_B=%s"
        (if shared then 0 else denied) (if shared then "file" else "nofile") in
    (m, if m = impl then "ok" else "fail:keys-not-substituted-or-shared-across-instances")
  | "oidc" :: _store :: ops :: impl :: [] ->
    let parsed = List.map (fun o -> match split_on ':' o with
        | ["c"; s; t] -> OConnect (n_of_int (int_of_string s), z_of_int (int_of_string t))
        | ["b"; s; st; kind; user; t] ->
          let okk = (kind = "ok") in
          let e = { cb_exchange_ok = (kind <> "refuse"); cb_has_idtoken = (kind <> "noidtoken");
                    cb_verify_ok = (okk || kind = "noname" || kind = "refuse" || kind = "noidtoken");
                    cb_username = (if kind = "noname" then [] else bytes_of_hex user);
                    cb_access_token = [] } in
          OCallback (n_of_int (int_of_string s), n_of_int (int_of_string st), e, z_of_int (int_of_string t))
        | _ -> failwith ("bad oidc op " ^ o)) (split_on ',' ops) in
    let outs = Model.orun Model.ostate0 parsed in
    let m = String.concat "," (List.map (function
        | OutToIdP _ -> "idp" | OutFile u -> "file:" ^ hex_of_bytes u | OutCbRedirect -> "cb302"
        | OutCb400 -> "cb400" | OutCb500 -> "cb500") outs) in
    (m, if m = impl then "ok"
        else begin
          let a = split_on ',' m and b = split_on ',' impl in
          if List.length a = List.length b &&
             List.exists2 (fun x y -> String.length y >= 4 && String.sub y 0 4 = "file" && x <> y) a b
          then "fail:session-authenticated-without-a-verified-login"
          else "fail:oidc-flow-differs"
        end)
  | "cookiemut" :: _store :: same :: _v :: impl :: [] ->
    let m = if same = "1" then "file" else "nofile" in
    (m, if m = impl then "ok" else if impl = "file" then "fail:altered-session-cookie-accepted" else "fail:valid-cookie-refused")
  | "identity" :: _i :: impl :: [] -> ("same", if impl = "same" then "ok" else "fail:identity-not-restored")
  | "download" :: mode :: hosts :: flags :: tmpl :: gw :: login :: user :: sub :: at :: cip :: oip :: param :: qterm :: pick :: live :: impl :: [] ->
    let lst s = if s = "-" || s = "" then [] else List.map bytes_of_hex (split_on ',' s) in
    let mode = bytes_of_hex mode and hosts = lst hosts and live = lst live in
    let verify = flags.[2] = '1' in
    let to_b str = List.map (fun c -> byte_of_int (Char.code c)) (List.of_seq (String.to_seq str)) in
    let cfg = { d_mode = mode; d_hosts = hosts; d_split = flags.[0] = '1'; d_template = (if tmpl = "-" then [] else bytes_of_hex tmpl);
                d_nousername = flags.[1] = '1'; d_gateway = bytes_of_hex gw; d_signing_key = List.init 32 (fun _ -> byte_of_int 0x53) } in
    let qhost = if qterm = "-" then None else
        Model.query_info (key_of_name "Q") (if String.length flags > 3 && flags.[3] = '0' then [] else to_b "rdpgw-query") Z0 (jws_of_term qterm) in
    let req = { q_authenticated = (login = "ok"); q_user = bytes_of_hex user; q_access_token = bytes_of_hex at;
                q_client_ip = bytes_of_hex cip;
                q_param = (match param with "none" -> None | "empty" -> Some [] | p -> Some (bytes_of_hex p));
                q_qhost = qhost; q_pick = nat_of_int (int_of_string pick) } in
    let m =
      if login <> "ok" then "st=302" else
        match Model.download cfg Z0 req with
        | Dl500 -> "st=500"
        | Dl400 -> "st=400"
        | DlFile f ->
          let opt = function None -> "none" | Some b -> hex_of_bytes b in
          let (term, subc) = (match f.f_token with
              | JCompact (_, _, c) ->
                (Printf.sprintf "C:HS256:S:%s:%s:-:-:%s:%s:%s" (hex_of_bytes c.cl_iss)
                   (match c.cl_exp with Some e -> string_of_int (int_of_z e) | None -> "-")
                   (hex_of_bytes c.cl_host) (hex_of_bytes c.cl_ip) (hex_of_bytes c.cl_at), hex_of_bytes c.cl_sub)
              | _ -> ("?", "?")) in
          let idp a = if a = bytes_of_hex at then Some (bytes_of_hex sub) else None in
          (* what the replaying client asks for: net.SplitHostPort of the file's address
             (the whole string and port 0 when it does not split), re-joined by the gateway *)
          let requested =
            let a = String.concat "" (List.map (fun x -> String.make 1 (Char.chr (int_of_byte x))) f.f_address) in
            let (h, p) =
              (match String.rindex_opt a ':' with
               | Some i when i + 1 < String.length a || true ->
                 let hs = String.sub a 0 i and ps = String.sub a (i + 1) (String.length a - i - 1) in
                 let hs' = if String.length hs >= 2 && hs.[0] = '[' && hs.[String.length hs - 1] = ']'
                   then Some (String.sub hs 1 (String.length hs - 2))
                   else if String.contains hs ':' || String.contains hs '[' || String.contains hs ']' then None else Some hs in
                 (match hs', int_of_string_opt ps with
                  | Some h, Some p when p >= 0 && p < 65536 -> (h, p)
                  | Some h, None when ps = "" -> (h, 0)
                  | _ -> (a, 0))
               | _ -> (a, 0)) in
            Model.join_host_port (List.map (fun c -> byte_of_int (Char.code c)) (List.of_seq (String.to_seq h))) (n_of_int p) in
          let replay ip =
            (* the model's signing key inside the token is the configured one: present it to check_paa *)
            match Model.check_paa cfg.d_signing_key Z0 idp f.f_token with
            | (PaaAccept (h, i, u), _) ->
              let t = { t_target = h; t_remote = i; t_user = u } in
              if Model.wired_policy true verify mode hosts t ip requested
              then (if List.mem requested live then "0,0" else Printf.sprintf "0,%d" (int_of_n Model.e_PROXY_INTERNALERROR))
              else Printf.sprintf "0,%d" (int_of_n Model.e_PROXY_RAP_ACCESSDENIED)
            | _ -> Printf.sprintf "%d,-" (int_of_n Model.e_PROXY_COOKIE_AUTHENTICATION_ACCESS_DENIED) in
          Printf.sprintf "st=200 addr=%s user=%s domain=%s gw=%s tok=%s sub=%s forced=ok same=%s other=%s"
            (hex_of_bytes f.f_address) (opt f.f_username) (opt f.f_domain) (hex_of_bytes f.f_gateway) term subc
            (replay (bytes_of_hex cip)) (replay (bytes_of_hex oip)) in
    (m, if m = impl then "ok"
        else if String.length impl >= 6 && String.sub impl 0 6 = "st=200" && (String.length m < 6 || String.sub m 0 6 <> "st=200")
        then "fail:connection-file-issued-against-the-specification"
        else "fail:download-differs")
  | "httpauth" :: bits :: meth :: values :: basic :: ans :: valid :: impl :: [] ->
    let m = { m_openid = bits.[0] = '1'; m_kerberos = bits.[1] = '1'; m_local = bits.[2] = '1'; m_ntlm = bits.[3] = '1' } in
    let vals = if values = "none" then [] else List.map bytes_of_hex (split_on ',' values) in
    let bas = (match split_on ':' basic with
        | [u; p] when basic <> "-" -> Some (bytes_of_hex u, bytes_of_hex p)
        | _ -> None) in
    let bk = (match split_on ':' ans with
        | ["basic"; "1"] -> BkBasic true | ["basic"; "0"] -> BkBasic false
        | ["ntlmchal"] -> BkNtlmChallenge [byte_of_int 42]
        | ["ntlmok"; u] -> BkNtlmOk (bytes_of_hex u)
        | ["ntlmno"] -> BkNtlmNo | ["err"] -> BkError
        | _ -> BkKerberos (n_of_int 401)) in
    let route = Model.pick_route m vals in
    let ch l = match l with [] -> "-" | _ -> String.concat "," (List.map hex_of_bytes l) in
    let mo = (match Model.dispatch m vals bas bk with
        | Handler _ ->
          (* the handler upgrades RDG_OUT_DATA, refuses an RDG_IN_DATA that has no outbound channel (400), ignores other methods *)
          if meth = "RDG_OUT_DATA" then "st=101 ch=-" else if meth = "RDG_IN_DATA" then "st=400 ch=-" else "st=200 ch=-"
        | Status (c, l) -> Printf.sprintf "st=%d ch=%s" (int_of_n c) (ch l)
        | NotFound -> "st=404 ch=-") in
    (* the SPNEGO library's exact refusal is not modelled: any refusal status is accepted on that route *)
    let refused = List.exists (fun p -> String.length impl >= String.length p && String.sub impl 0 (String.length p) = p)
        ["st=400"; "st=401"; "st=403"; "st=500"] in
    let mo = if route = RKerberos && refused then impl else mo in
    let reached = String.length impl >= 6 && (String.sub impl 0 6 = "st=101" || String.sub impl 0 6 = "st=200"
                                              || (meth = "RDG_IN_DATA" && String.sub impl 0 6 = "st=400")) in
    let openid_only = m.m_openid && not m.m_kerberos && not m.m_local && not m.m_ntlm in
    let to_b str = List.map (fun c -> byte_of_int (Char.code c)) (List.of_seq (String.to_seq str)) in
    let shadowed = m.m_ntlm && valid = "basic" &&
                   List.exists (fun v -> Model.contains_sub (to_b "NTLM") v || Model.contains_sub (to_b "Negotiate") v) vals in
    (* the handler was reached over the NTLM route although the messages on this connection are not a
       complete exchange with correct credentials (the harness knows which sequences are): whatever the
       authentication service answered, it was not answering for this connection *)
    let foreign_ntlm = reached && not openid_only && route = RNtlm && valid <> "ntlm" in
    (mo, if foreign_ntlm then "fail:ntlm-accepted-without-an-exchange-on-this-connection"
         else if valid <> "-" && not openid_only && not reached
         then (if shadowed then "fail:route-shadowing" else "fail:confirmed-credentials-refused")
         else if mo = impl then "ok"
         else if reached then "fail:handler-reached-without-confirmed-credentials"
         else "fail:http-auth-differs")
  | "tunnel" :: bits :: _transport :: user :: own :: items :: impl :: [] ->
    (* one tunnel of a concurrent run, compared with its own solo run: projected observation *)
    let cfg = parse_cfg bits "0000000" "0" in
    let own_h = bytes_of_hex own in
    let pol h = (h = own_h) in
    let items = Model.resolve_policy_dials pol [own_h] cfg Model.tstate0 (parse_items items @ [RErr]) in
    let evs = Model.run cfg items in
    let rs = List.filter_map (function Resp (ty, st, _) -> Some (Printf.sprintf "%d:%d" (int_of_n ty) (int_of_n st)) | _ -> None) evs in
    let cs = List.filter_map (function
        | AskCookie (c, ok) -> Some (Printf.sprintf "AC:%s:%s" (hex_of_bytes c) (b01 ok))
        | AskHost (h, ok) -> Some (Printf.sprintf "AH:%s:%s:u=%s" (hex_of_bytes h) (b01 ok) user)
        | _ -> None) evs in
    let dials = List.length (List.filter (function Dial (_, true) -> true | _ -> false) evs) in
    let host = List.concat (List.filter_map (function ToHost b -> Some b | _ -> None) evs) in
    (* the read error appended above stands for the client closing at the end of its script: the
       server ended the stream first iff the run ended before that last item *)
    let consumed = int_of_nat (Model.consumed cfg items) in
    let closed = consumed < List.length items in
    let j l = match l with [] -> "-" | _ -> String.concat "," l in
    let m = Printf.sprintf "R=%s C=%s D=%d H=%s B=ok X=%s Z=0" (j rs) (j cs) dials (hex_of_bytes host) (b01 closed) in
    (m, if m = impl then "ok"
        else begin
          let field k s = List.find_opt (fun t -> String.length t > String.length k && String.sub t 0 (String.length k) = k) (split_on ' ' s) in
          if field "B=" impl <> Some "B=ok" then "fail:bytes-of-another-tunnel-or-malformed-data"
          else if field "H=" impl <> field "H=" m then "fail:host-received-other-bytes"
          else if field "Z=" impl <> Some "Z=0" then "fail:answered-after-end"
          else "fail:tunnel-differs-from-solo-run"
        end)
  | "wiring" :: tok :: allowed :: user :: items :: impl :: [] ->
    (* the real binary, callbacks wired by main(): token authentication installs the cookie check and the
       session check around the host check; the host list holds one address; no cookie here is a minted one *)
    let tok = bool_of tok in
    let allowed_h = bytes_of_hex allowed in
    let cfg = Model.wired tok false (parse_redir "0000000") Z0 in
    let t = { t_target = []; t_remote = []; t_user = bytes_of_hex user } in
    let mode = bytes_of_hex "726f756e64726f62696e" in
    let pol = Model.wired_policy tok true mode [allowed_h] t [] in
    let items = Model.resolve_policy_dials pol [allowed_h] cfg Model.tstate0 (parse_items items @ [RErr]) in
    let evs = Model.run cfg items in
    let rs = List.filter_map (function Resp (ty, st, _) -> Some (Printf.sprintf "%d:%d" (int_of_n ty) (int_of_n st)) | _ -> None) evs in
    let dials = List.length (List.filter (function Dial (h, true) -> h = allowed_h | _ -> false) evs) in
    let others = List.length (List.filter (function Dial (h, true) -> h <> allowed_h | _ -> false) evs) in
    let consumed = int_of_nat (Model.consumed cfg items) in
    let closed = consumed < List.length items in
    let j l = match l with [] -> "-" | _ -> String.concat "," l in
    let m = Printf.sprintf "R=%s D=%d O=%d X=%s" (j rs) dials others (b01 closed) in
    let field k s = List.find_opt (fun t -> String.length t > String.length k && String.sub t 0 (String.length k) = k) (split_on ' ' s) in
    (m, if m = impl then "ok"
        else if field "D=" impl <> field "D=" m || field "O=" impl <> Some "O=0" then "fail:backend-connection-the-specification-forbids"
        else "fail:tunnel-differs-from-wired-model")
  | "addrbind" :: verify :: _transport :: tokip :: presenting :: host :: impl :: [] ->
    (* C04 at the gateway: the token's address against the address of the request that presents it *)
    let h = bytes_of_hex host in
    let t = { t_target = h; t_remote = bytes_of_hex tokip; t_user = bytes_of_hex "626f62" } in
    let ok = Model.wired_policy true (bool_of verify) (bytes_of_hex "616e79") [] t (bytes_of_hex presenting) h in
    let m = if ok then "channel=0 dials=1" else Printf.sprintf "channel=%d dials=0" (int_of_n Model.e_PROXY_RAP_ACCESSDENIED) in
    (m, if m = impl then "ok"
        else if ok then "fail:refused-from-the-issuing-address"
        else "fail:channel-created-from-another-address")
  | "isolation" :: _what :: impl :: [] ->
    (* C07 at volume: C07_noninterference says a tunnel's outputs are those of its own operations; for relayed
       data that is: every byte a client receives was sent by its own host, in order *)
    ("own-bytes-only", if impl = "own-bytes-only" then "ok" else "fail:" ^ impl)
  | "inagain" :: _ending :: impl :: [] ->
    (* Model/System.v: an inbound request is attached only while the tunnel has no inbound channel yet *)
    let c = parse_cfg "10101" "0000000" "0" in
    let one = n_of_int 1 in
    let tr = Model.grun c [] [GOpenOut one; GOpenIn one; GOpenIn one] in
    let m = (match List.rev tr with (_, GRefused) :: _ -> "second-in-refused" | _ -> "second-in-accepted") in
    (m, if m = impl then "ok" else "fail:" ^ impl)
  | "authuser" :: user :: asked :: impl :: [] ->
    (* C05: the tunnel runs under the name the backend confirmed; the host list is 127.0.0.<user>:3389 (round robin)
       and nothing listens there: an allowed request ends in a failed dial, any other in access denied *)
    let to_b str = List.map (fun c -> byte_of_int (Char.code c)) (List.of_seq (String.to_seq str)) in
    let t = { t_target = []; t_remote = []; t_user = bytes_of_hex user } in
    let entry = to_b "127.0.0.{{ preferred_username }}:3389" in
    let ok = Model.wired_policy false true (to_b "roundrobin") [entry] t [] (bytes_of_hex asked) in
    let m = Printf.sprintf "channel=%d" (int_of_n (if ok then Model.e_PROXY_INTERNALERROR else Model.e_PROXY_RAP_ACCESSDENIED)) in
    (m, if m = impl then "ok" else "fail:tunnel-user-is-not-the-confirmed-name")
  | "exact" :: _what :: impl :: [] ->
    (* C06 at volume (C06_client_to_host / C06_host_to_client): what arrived is what was sent; streams of many
       MiB are compared by the harness itself *)
    ("exact", if impl = "exact" then "ok" else "fail:" ^ impl)
  | "inbeforeout" :: impl :: [] ->
    (* Model/System.v: inbound of B with no outbound of B is refused; then outbound and inbound of A pair up *)
    let c = parse_cfg "10101" "0000000" "0" in
    let a = n_of_int 1 and b = n_of_int 2 in
    let tr = List.map snd (Model.grun c [] [GOpenIn b; GOpenOut a; GOpenIn a]) in
    let m = (match tr with
        | [GRefused; GAccepted; GAccepted] -> "b-refused a-answered"
        | _ -> "other") in
    (m, if m = impl then "ok" else "fail:inbound-request-attached-to-another-connection-or-delayed")
  | "pathprobe" :: bits :: _meth :: path :: impl :: [] ->
    (* C05: without credentials confirmed for THIS request the tunnel handler is not reached (the handler answers
       101 to an upgrade and 200 otherwise); OpenID alone leaves the documented prefix open by design *)
    let m = { m_openid = bits.[0] = '1'; m_kerberos = bits.[1] = '1'; m_local = bits.[2] = '1'; m_ntlm = bits.[3] = '1' } in
    let openid_only = m.m_openid && not m.m_kerberos && not m.m_local && not m.m_ntlm in
    let p = bytes_of_hex path in
    let to_b str = List.map (fun c -> byte_of_int (Char.code c)) (List.of_seq (String.to_seq str)) in
    let under_prefix = Model.is_prefix (to_b "/remoteDesktopGateway/") p in
    let reached = List.exists (fun pre -> String.length impl >= String.length pre && String.sub impl 0 (String.length pre) = pre) ["st=101"; "st=200"] in
    let ok = (not reached) || (openid_only && under_prefix) in
    ((if ok then impl else "not-reached"), if ok then "ok" else "fail:handler-reached-without-confirmed-credentials")
  | "pairing" :: same :: impl :: [] ->
    let c = parse_cfg "10101" "0000000" "0" in
    let one = n_of_int 1 and two = n_of_int 2 in
    let inid = if same = "1" then one else two in
    let tr = Model.grun c [] [GOpenOut one; GOpenIn inid] in
    let m = (match List.rev tr with (_, GAccepted) :: _ -> "answered-on-out" | _ -> "in-refused") in
    (m, if m = impl then "ok" else if impl = "answered-on-out" then "fail:paired-across-connection-ids" else "fail:pairing")
  | "raceprobe" :: what :: _n :: impl :: [] ->
    (* runtime half of C09: the theorem says a program that follows the locking discipline has no race; the
       race detector and the clients' frame checks are the observation of the real schedules *)
    let m = (match what with
        | "frame-integrity" -> "frames-intact"
        | "race-detector" -> "no-race-reported"
        | "binary-under-connection-churn" -> "no-fault"
        | _ -> "none") in
    (m, if m = impl then "ok"
        else if String.length impl >= 5 && String.sub impl 0 5 = "race:" then "fail:" ^ impl
        else "fail:" ^ impl)
  | "crash" :: what :: _impl :: [] -> ("still-serving", "fail:process-aborted-" ^ what)
  | "lifecycle" :: _transport :: point :: _cause :: impl :: [] ->
    (* the theorem: whatever was held, everything is released after the packet loop returned *)
    let with_backend = List.mem point ["channel"; "data-c2h"; "data-h2c"; "data-both"] || _cause = "out-gone-before-channel-create" in
    let m = Printf.sprintf "backend=%s client=closed registry=ok gauges=ok goroutines=ok" (if with_backend then "released" else "none") in
    (m, if m = impl then "ok"
        else begin
          let has k = List.mem k (split_on ' ' impl) in
          let what = (if has "backend=open" then ["backend-connection-not-closed"] else [])
                     @ (if has "client=open" then ["client-connection-not-closed"] else [])
                     @ (if has "registry=leak" then ["registry-entry-left"] else [])
                     @ (if has "gauges=leak" then ["gauge-not-restored"] else [])
                     @ (if has "goroutines=leak" then ["goroutine-left"] else []) in
          if _cause = "close-out-only" && not (List.mem point ["data-h2c"; "data-both"]) && what <> []
          then "fail:legacy-out-closed-silent-host"
          else "fail:" ^ (match what with [] -> "lifecycle-differs" | _ -> String.concat "+" what) ^ "@" ^ _transport ^ "/" ^ _cause
        end)
  | "kdc" :: meth :: cl :: body :: spec :: impl :: [] ->
    let to_b str = List.map (fun c -> byte_of_int (Char.code c)) (List.of_seq (String.to_seq str)) in
    let be32 n = [byte_of_int ((n lsr 24) land 255); byte_of_int ((n lsr 16) land 255); byte_of_int ((n lsr 8) land 255); byte_of_int (n land 255)] in
    let per = List.map (fun k -> match split_on '/' k with
        | [t; u; r] -> (t, u, bytes_of_hex r) | _ -> failwith "bad kdc spec") (split_on ',' spec) in
    let udp = List.map (fun (_, u, r) -> { k_proto = Udp; k_does = (match u with "reply" -> KReply r | "silent" -> KSilent | _ -> KRefuse) }) per in
    let tcp = List.map (fun (t, _, r) -> { k_proto = Tcp; k_does = (match t with
        | "reply-close" | "reply-hold" -> KReply (be32 (List.length r) @ r)
        | "partial" | "close" | "trickle" -> KPartial | "silent" -> KSilent | _ -> KRefuse) }) per in
    let kdcs = udp @ tcp in
    let realms r = if r = [] || r = to_b "EXAMPLE.TEST" then Some kdcs else None in
    let m =
      (match Model.validate0 (if meth = "POST" then MPost else MOtherMethod)
               (if cl = "none" then None else Some (n_of_int (int_of_string cl))) with
       | Some code -> Printf.sprintf "st=%d in-time" (int_of_n code)
       | None ->
         (match Model.handle (bytes_of_hex body) realms with
          | PStatus c -> Printf.sprintf "st=%d in-time" (int_of_n c)
          | PReply b ->
            (* the harness decodes the returned KDC-PROXY-MESSAGE with the library: the model's encoding must decode to the reply *)
            (match Model.decode_req b with
             | Some (msg, _) -> Printf.sprintf "st=200 reply=%s in-time" (hex_of_bytes msg)
             | None -> "st=200 reply=undecodable in-time"))) in
    (m, if m = impl then "ok"
        else if impl = "no-response in-time" || impl = "no-response late" then "fail:no-http-response"
        else if List.mem "late" (split_on ' ' impl) then "fail:answer-not-within-bound"
        else "fail:kdc-proxy-differs")
  | "kdcrecv" :: _set :: _i :: impl :: [] ->
    let bad = List.exists (fun t -> String.length t > 10 && String.sub t 0 10 = "badframes=" && t <> "badframes=0") (split_on ' ' impl) in
    (impl, if bad then "fail:kdc-received-misframed-request" else "ok")
  | "alive" :: _what :: impl :: [] ->
    (* C10: the gateway (or the handler) survived the hostile input and still serves *)
    ("alive", if impl = "alive" then "ok"
              else if String.length impl >= 5 && String.sub impl 0 5 = "PANIC" then "fail:panic-" ^ _what
              else "fail:not-serving-after-" ^ _what)
  | "hdrc" :: data :: impl :: [] ->
    let m = (match read_header_src (bytes_of_hex data) with
        | Panic -> "PANIC"
        | Ok HShort -> "short"
        | Ok (HIncomplete (ty, size)) -> Printf.sprintf "incomplete:%d:%d" (int_of_n ty) (int_of_n size)
        | Ok (HMalformed (ty, size)) -> Printf.sprintf "malformed:%d:%d" (int_of_n ty) (int_of_n size)
        | Ok (HOk (ty, size, body)) -> Printf.sprintf "ok:%d:%d:%s" (int_of_n ty) (int_of_n size) (hex_of_bytes body)) in
    (m, if impl = "PANIC" then "fail:panic-readHeader" else if m = impl then "ok" else "fail:readHeader-differs")
  | "utf16c" :: data :: impl :: [] ->
    let m = (match decode_utf16_src (bytes_of_hex data) with Panic -> "PANIC" | Ok b -> hex_of_bytes b) in
    (m, if impl = "PANIC" then "fail:panic-DecodeUTF16" else if m = impl then "ok" else "fail:DecodeUTF16-differs")
  | "authpayload" :: v :: impl :: [] ->
    let m = (match auth_payload_src (bytes_of_hex v) with
        | Panic -> "PANIC"
        | Ok (p, AmNtlm) -> "ntlm:" ^ hex_of_bytes p
        | Ok (p, AmNegotiate) -> "negotiate:" ^ hex_of_bytes p
        | Ok (_, AmNone) -> "none") in
    (m, if impl = "PANIC" then "fail:panic-getAuthPayload" else if m = impl then "ok" else "fail:getAuthPayload-differs")
  | "udpc" :: data :: [] ->
    let m = (match udp_payload_src (bytes_of_hex data) with Panic -> "PANIC" | Ok None -> "skip" | Ok (Some p) -> hex_of_bytes p) in
    (m, "ok")
  | k :: _ -> failwith ("unknown kind " ^ k)
  | [] -> failwith "empty line"

let () =
  self_check ();
  (try
     while true do
       let line = input_line stdin in
       if line <> "" then begin
         match split_on '\t' line with
         | id :: rest ->
           let (m, v) = (try handle rest with Failure e ->
               let v = if String.length e > 4 && String.sub e 0 4 = "the " then "fail:implementation-panicked"
                 else if String.length e > 2 && String.sub e 0 2 = "a " then "fail:backend-connection-left-open"
                 else "fail:driver-error" in
               ("DRIVER-ERROR:" ^ e, v)) in
           print_string id; print_char '\t'; print_string m; print_char '\t'; print_string v; print_newline ()
         | [] -> ()
       end
     done
   with End_of_file -> ())
