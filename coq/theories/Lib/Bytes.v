(** Byte strings and the little-endian / decimal encodings the gateway uses.
    Definitions only use [list byte] and [N]; lemmas live at the end of the file
    (they are interface lemmas every model depends on). *)
From Coq Require Import List NArith ZArith Lia Bool DecimalN DecimalFacts.
From Coq.Strings Require Import Byte.
Import ListNotations.
Open Scope N_scope.

Definition bytes := list byte.

Definition b2n (b : byte) : N := Byte.to_N b.
Definition n2b (n : N) : byte :=
  match Byte.of_N (n mod 256) with Some b => b | None => x00 end.

Definition byte_eqb (a b : byte) : bool := Byte.eqb a b.

Fixpoint bytes_eqb (a b : bytes) : bool :=
  match a, b with
  | [], [] => true
  | x :: a', y :: b' => Byte.eqb x y && bytes_eqb a' b'
  | _, _ => false
  end.

Definition blen (l : bytes) : N := N.of_nat (length l).

(** Little-endian encoders (the value is reduced modulo the field width, as the
    Go conversions [uint16(x)] / [uint32(x)] do). *)
Definition le16 (n : N) : bytes := [n2b n; n2b (n / 256)].
Definition le32 (n : N) : bytes :=
  [n2b n; n2b (n / 256); n2b (n / 65536); n2b (n / 16777216)].

(** Big-endian 32-bit (the Kerberos TCP length prefix). *)
Definition le32_be (n : N) : bytes :=
  [n2b (n / 16777216); n2b (n / 65536); n2b (n / 256); n2b n].

(** Reader semantics of [binary.Read(r, LittleEndian, &scalar)] on a
    [bytes.Reader]: when fewer bytes remain than the scalar needs, the scalar is
    left 0 and the reader is exhausted (io.ReadFull consumed what was there). *)
Definition take8 (r : bytes) : N * bytes :=
  match r with a :: rest => (b2n a, rest) | [] => (0, []) end.
Definition take16 (r : bytes) : N * bytes :=
  match r with
  | a :: b :: rest => (b2n a + 256 * b2n b, rest)
  | _ => (0, [])
  end.
Definition take32 (r : bytes) : N * bytes :=
  match r with
  | a :: b :: c :: d :: rest =>
      (b2n a + 256 * b2n b + 65536 * b2n c + 16777216 * b2n d, rest)
  | _ => (0, [])
  end.

Definition zeros (n : nat) : bytes := repeat x00 n.

(** [binary.Read(r, LittleEndian, &slice)] with [len slice = n]: all or nothing. *)
Definition take_slice_binary (n : nat) (r : bytes) : bytes * bytes :=
  if Nat.leb n (length r) then (firstn n r, skipn n r) else (zeros n, []).

(** [r.Read(slice)]: copies the available prefix, the rest of the slice stays 0. *)
Definition take_slice_read (n : nat) (r : bytes) : bytes * bytes :=
  if Nat.leb n (length r) then (firstn n r, skipn n r)
  else (r ++ zeros (n - length r), []).

(** Decimal rendering ([strconv.Itoa] / [%d] on a non-negative value). *)
Definition digit_byte (d : N) : byte := n2b (48 + d).
Fixpoint uint_bytes (u : Decimal.uint) : bytes :=
  match u with
  | Decimal.Nil => []
  | Decimal.D0 u => x30 :: uint_bytes u
  | Decimal.D1 u => x31 :: uint_bytes u
  | Decimal.D2 u => x32 :: uint_bytes u
  | Decimal.D3 u => x33 :: uint_bytes u
  | Decimal.D4 u => x34 :: uint_bytes u
  | Decimal.D5 u => x35 :: uint_bytes u
  | Decimal.D6 u => x36 :: uint_bytes u
  | Decimal.D7 u => x37 :: uint_bytes u
  | Decimal.D8 u => x38 :: uint_bytes u
  | Decimal.D9 u => x39 :: uint_bytes u
  end.
Definition dec (n : N) : bytes := uint_bytes (N.to_uint n).

Fixpoint bytes_uint (l : bytes) : option Decimal.uint :=
  match l with
  | [] => Some Decimal.Nil
  | b :: l' =>
      match bytes_uint l' with
      | None => None
      | Some u =>
          match b with
          | x30 => Some (Decimal.D0 u) | x31 => Some (Decimal.D1 u)
          | x32 => Some (Decimal.D2 u) | x33 => Some (Decimal.D3 u)
          | x34 => Some (Decimal.D4 u) | x35 => Some (Decimal.D5 u)
          | x36 => Some (Decimal.D6 u) | x37 => Some (Decimal.D7 u)
          | x38 => Some (Decimal.D8 u) | x39 => Some (Decimal.D9 u)
          | _ => None
          end
      end
  end.

(** Parse a non-empty all-digit string (leading zeros allowed, as Atoi does). *)
Definition undec (l : bytes) : option N :=
  match l with
  | [] => None
  | _ => match bytes_uint l with Some u => Some (N.of_uint u) | None => None end
  end.

Fixpoint contains_byte (c : byte) (l : bytes) : bool :=
  match l with [] => false | x :: l' => Byte.eqb x c || contains_byte c l' end.

Fixpoint is_prefix (p l : bytes) : bool :=
  match p, l with
  | [], _ => true
  | x :: p', y :: l' => Byte.eqb x y && is_prefix p' l'
  | _ :: _, [] => false
  end.

(** [strings.Replace(s, old, new, 1)] for a non-empty [old]. *)
Fixpoint replace_first (old new s : bytes) : bytes :=
  match s with
  | [] => []
  | c :: s' =>
      if is_prefix old s then new ++ skipn (length old) s
      else c :: replace_first old new s'
  end.

(** [strings.Contains]. *)
Fixpoint contains_sub (sub s : bytes) : bool :=
  match s with
  | [] => match sub with [] => true | _ => false end
  | _ :: s' => is_prefix sub s || contains_sub sub s'
  end.

(* ------------------------------------------------------------------ *)
(** * Interface lemmas *)

Lemma b2n_lt b : b2n b < 256.
Proof. unfold b2n. pose proof (Byte.to_N_bounded b). lia. Qed.

Lemma n2b_b2n b : n2b (b2n b) = b.
Proof.
  unfold n2b, b2n. rewrite N.mod_small by (pose proof (Byte.to_N_bounded b); lia).
  now rewrite Byte.of_to_N.
Qed.

Lemma b2n_n2b n : b2n (n2b n) = n mod 256.
Proof.
  unfold n2b, b2n.
  destruct (Byte.of_N (n mod 256)) eqn:E.
  - now apply Byte.to_of_N.
  - apply Byte.of_N_None_iff in E.
    pose proof (N.mod_upper_bound n 256). lia.
Qed.

Lemma byte_eqb_eq a b : Byte.eqb a b = true <-> a = b.
Proof. split; [apply Byte.byte_dec_bl | apply Byte.byte_dec_lb]. Qed.

Lemma byte_eqb_refl a : Byte.eqb a a = true.
Proof. now apply byte_eqb_eq. Qed.

Lemma bytes_eqb_eq a b : bytes_eqb a b = true <-> a = b.
Proof.
  revert b; induction a as [|x a IH]; intros [|y b]; simpl; split; intro H;
    try reflexivity; try discriminate.
  - apply andb_true_iff in H as [H1 H2]. apply byte_eqb_eq in H1. apply IH in H2. now subst.
  - injection H as -> ->. rewrite byte_eqb_refl. simpl. now apply IH.
Qed.

Lemma bytes_eqb_refl a : bytes_eqb a a = true.
Proof. now apply bytes_eqb_eq. Qed.

Lemma bytes_eqb_neq a b : bytes_eqb a b = false <-> a <> b.
Proof.
  split; intro H.
  - intro E. apply bytes_eqb_eq in E. congruence.
  - destruct (bytes_eqb a b) eqn:E; [apply bytes_eqb_eq in E; contradiction | reflexivity].
Qed.

Lemma take16_le16 n rest : take16 (le16 n ++ rest) = (n mod 65536, rest).
Proof.
  unfold le16, take16; cbn [app]. rewrite !b2n_n2b. f_equal.
  pose proof (N.div_mod n 256 ltac:(lia)).
  pose proof (N.mod_upper_bound n 256 ltac:(lia)).
  pose proof (N.div_mod (n / 256) 256 ltac:(lia)).
  pose proof (N.mod_upper_bound (n / 256) 256 ltac:(lia)).
  assert (E : n mod 65536 = n mod 256 + 256 * ((n / 256) mod 256)).
  { change 65536 with (256 * 256).
    rewrite N.mod_mul_r by lia. reflexivity. }
  lia.
Qed.

Lemma take32_le32 n rest : take32 (le32 n ++ rest) = (n mod 4294967296, rest).
Proof.
  unfold le32, take32; cbn [app]. rewrite !b2n_n2b. f_equal.
  assert (E : n mod 4294967296 =
              n mod 256 + 256 * ((n / 256) mod 256) + 65536 * ((n / 65536) mod 256)
              + 16777216 * ((n / 16777216) mod 256)).
  { change 4294967296 with (256 * (256 * (256 * 256))).
    rewrite N.mod_mul_r by lia. rewrite (N.mod_mul_r (n / 256)) by lia.
    rewrite (N.mod_mul_r (n / 256 / 256)) by lia.
    rewrite !N.div_div by lia. change (256 * 256) with 65536.
    change (65536 * 256) with 16777216. lia. }
  lia.
Qed.

Lemma length_le16 n : length (le16 n) = 2%nat. Proof. reflexivity. Qed.
Lemma length_le32 n : length (le32 n) = 4%nat. Proof. reflexivity. Qed.

Lemma length_zeros n : length (zeros n) = n.
Proof. apply repeat_length. Qed.

Lemma take_slice_binary_exact l rest :
  take_slice_binary (length l) (l ++ rest) = (l, rest).
Proof.
  unfold take_slice_binary.
  rewrite app_length.
  replace (Nat.leb (length l) (length l + length rest)) with true
    by (symmetry; apply Nat.leb_le; lia).
  rewrite firstn_app, Nat.sub_diag, firstn_all, firstn_O, List.app_nil_r.
  rewrite skipn_app, Nat.sub_diag, skipn_all, skipn_O. reflexivity.
Qed.

Lemma take_slice_read_exact l rest :
  take_slice_read (length l) (l ++ rest) = (l, rest).
Proof.
  unfold take_slice_read.
  rewrite app_length.
  replace (Nat.leb (length l) (length l + length rest)) with true
    by (symmetry; apply Nat.leb_le; lia).
  rewrite firstn_app, Nat.sub_diag, firstn_all, firstn_O, List.app_nil_r.
  rewrite skipn_app, Nat.sub_diag, skipn_all, skipn_O. reflexivity.
Qed.

Lemma bytes_uint_uint_bytes u : bytes_uint (uint_bytes u) = Some u.
Proof. induction u; simpl; rewrite ?IHu; reflexivity. Qed.

Lemma dec_nonempty n : dec n <> [].
Proof.
  unfold dec, N.to_uint. destruct n as [|p]; simpl; [discriminate|].
  unfold Pos.to_uint.
  pose proof (DecimalPos.Unsigned.to_uint_nonnil p) as H.
  unfold Pos.to_uint in H.
  destruct (Decimal.rev (Pos.to_little_uint p)); simpl; congruence.
Qed.

Lemma undec_dec n : undec (dec n) = Some n.
Proof.
  unfold undec. pose proof (dec_nonempty n) as H.
  destruct (dec n) eqn:E; [contradiction|]. rewrite <- E. unfold dec.
  rewrite bytes_uint_uint_bytes. now rewrite DecimalN.Unsigned.of_to.
Qed.

Lemma dec_inj a b : dec a = dec b -> a = b.
Proof.
  intro H. assert (E : undec (dec a) = undec (dec b)) by now rewrite H.
  rewrite !undec_dec in E. congruence.
Qed.
