(** Step-level facts about the transcription of [Process] used by C01/C16. *)
From Coq Require Import List NArith ZArith Bool Lia.
From Coq.Strings Require Import Byte.
From RDPGW Require Import Lib.Bytes Gen.Consts Model.Utf16 Model.Packets Model.Processor
  Spec.TunnelOrder Proofs.TunnelOrderFacts Proofs.ProcessorSim.
Import ListNotations.
Open Scope N_scope.

Local Opaque handshake_response tunnel_response tunnel_auth_response channel_response
  channel_close_response handshake_request tunnel_request tunnel_auth_request channel_request
  receive_payload join_host_port match_auth.

(** The phase each known packet type requires. *)
Definition required_phase (ty : N) : option N :=
  if ty =? PKT_TYPE_HANDSHAKE_REQUEST then Some SERVER_STATE_INITIALIZED
  else if ty =? PKT_TYPE_TUNNEL_CREATE then Some SERVER_STATE_HANDSHAKE
  else if ty =? PKT_TYPE_TUNNEL_AUTH then Some SERVER_STATE_TUNNEL_CREATE
  else if ty =? PKT_TYPE_CHANNEL_CREATE then Some SERVER_STATE_TUNNEL_AUTHORIZE
  else if ty =? PKT_TYPE_CLOSE_CHANNEL then Some SERVER_STATE_OPENED
  else None.

Definition is_success_resp (e : event) : bool :=
  match e with Resp _ s _ => s =? 0 | _ => false end.

(** A setup or close packet in any other phase than the one it requires: the
    phase does not move, no success response is sent, the tunnel ends. *)
Lemma out_of_order_rejected c p ty body a q :
  required_phase ty = Some q -> p <> q ->
  exists evs, process_packet c p ty body a = (p, evs, true)
              /\ existsb is_success_resp evs = false
              /\ exists pre w, evs = pre ++ [End w].
Proof.
  unfold required_phase, process_packet. intros Hq Hp.
  destruct (ty =? PKT_TYPE_HANDSHAKE_REQUEST) eqn:T1.
  { inversion Hq; subst. apply N.eqb_neq in Hp. rewrite Hp. cbn [negb].
    eexists; split; [reflexivity|]. split; [reflexivity|]. eexists [_]; eexists; reflexivity. }
  destruct (ty =? PKT_TYPE_TUNNEL_CREATE) eqn:T2.
  { inversion Hq; subst. apply N.eqb_neq in Hp. rewrite Hp. cbn [negb].
    eexists; split; [reflexivity|]. split; [reflexivity|]. eexists [_]; eexists; reflexivity. }
  destruct (ty =? PKT_TYPE_TUNNEL_AUTH) eqn:T3.
  { inversion Hq; subst. apply N.eqb_neq in Hp. rewrite Hp. cbn [negb].
    eexists; split; [reflexivity|]. split; [reflexivity|]. eexists [_]; eexists; reflexivity. }
  destruct (ty =? PKT_TYPE_CHANNEL_CREATE) eqn:T4.
  { inversion Hq; subst. apply N.eqb_neq in Hp. rewrite Hp. cbn [negb].
    eexists; split; [reflexivity|]. split; [reflexivity|]. eexists [_]; eexists; reflexivity. }
  destruct (ty =? PKT_TYPE_CLOSE_CHANNEL) eqn:T5; [|discriminate].
  inversion Hq; subst. apply N.eqb_neq in Hp.
  apply N.eqb_eq in T5. subst ty. cbn [N.eqb Pos.eqb PKT_TYPE_CLOSE_CHANNEL PKT_TYPE_DATA PKT_TYPE_KEEPALIVE].
  rewrite Hp. cbn [negb].
  eexists; split; [reflexivity|]. split; [reflexivity|]. exists [], EndWrongState; reflexivity.
Qed.

(** Data and keep-alive packets before the channel exists end the tunnel
    without any answer. *)
Lemma early_data_rejected c p ty body a :
  (ty = PKT_TYPE_DATA \/ ty = PKT_TYPE_KEEPALIVE) -> p < SERVER_STATE_CHANNEL_CREATE ->
  process_packet c p ty body a = (p, [End EndWrongState], true).
Proof.
  intros [->| ->] Hp; apply N.ltb_lt in Hp; unfold process_packet;
    cbn [N.eqb Pos.eqb PKT_TYPE_DATA PKT_TYPE_KEEPALIVE PKT_TYPE_HANDSHAKE_REQUEST
         PKT_TYPE_TUNNEL_CREATE PKT_TYPE_TUNNEL_AUTH PKT_TYPE_CHANNEL_CREATE];
    rewrite Hp; reflexivity.
Qed.

(** Packet types the gateway does not know produce no event at all. *)
Lemma unknown_type_ignored c p ty body a :
  ty <> PKT_TYPE_HANDSHAKE_REQUEST -> ty <> PKT_TYPE_TUNNEL_CREATE -> ty <> PKT_TYPE_TUNNEL_AUTH ->
  ty <> PKT_TYPE_CHANNEL_CREATE -> ty <> PKT_TYPE_DATA -> ty <> PKT_TYPE_KEEPALIVE ->
  ty <> PKT_TYPE_CLOSE_CHANNEL ->
  process_packet c p ty body a = (p, [], false).
Proof.
  intros H1 H2 H3 H4 H5 H6 H7. unfold process_packet.
  apply N.eqb_neq in H1, H2, H3, H4, H5, H6, H7.
  now rewrite H1, H2, H3, H4, H5, H6, H7.
Qed.

(** An error response is always immediately followed by the end of the tunnel
    (they are produced by the same step). *)
Fixpoint errs_end (evs : list event) : bool :=
  match evs with
  | [] => true
  | Resp _ s _ :: rest =>
      if s =? 0 then errs_end rest
      else match rest with [End _] => true | _ => false end
  | _ :: rest => errs_end rest
  end.

Lemma errs_end_spec evs : errs_end evs = true ->
  forall pre ty s raw post, evs = pre ++ Resp ty s raw :: post -> s <> 0 -> exists w, post = [End w].
Proof.
  induction evs as [|e evs IH]; intros H pre ty s raw post E Hs.
  - destruct pre; discriminate.
  - destruct pre as [|e' pre]; cbn [app] in E.
    + injection E as -> ->. cbn [errs_end] in H. apply N.eqb_neq in Hs. rewrite Hs in H.
      destruct post as [|x post]; [discriminate|]. destruct x; try discriminate.
      destruct post; [eauto | discriminate].
    + injection E as -> E. apply (IH) with (pre := pre) (ty := ty) (s := s) (raw := raw); auto.
      cbn [errs_end] in H. destruct e'; auto.
      destruct (status =? 0); auto.
      subst evs. exfalso. destruct pre as [|x pre]; cbn [app] in H; [discriminate|].
      destruct x; try discriminate. destruct pre; discriminate.
Qed.

Lemma process_packet_errs_end c p ty body a p' evs fin :
  process_packet c p ty body a = (p', evs, fin) -> errs_end evs = true.
Proof.
  intro H. unfold process_packet in H.
  repeat match type of H with
         | context [if ?c then _ else _] => destruct c
         | context [match ?x with _ => _ end] => destruct x
         end; inversion H; subst; reflexivity.
Qed.

Fixpoint no_err (evs : list event) : bool :=
  match evs with
  | [] => true
  | Resp _ s _ :: rest => (s =? 0) && no_err rest
  | _ :: rest => no_err rest
  end.

Lemma errs_end_app_no_err a b : no_err a = true -> errs_end (a ++ b) = errs_end b.
Proof.
  induction a as [|e a IH]; intro H; cbn [app]; [reflexivity|].
  destruct e; cbn [errs_end no_err] in *; auto.
  apply andb_true_iff in H as [H1 H2]. rewrite H1. auto.
Qed.

Lemma process_packet_nonfinal_no_err c p ty body a p' evs :
  process_packet c p ty body a = (p', evs, false) -> no_err evs = true.
Proof.
  intro H. unfold process_packet in H.
  repeat match type of H with
         | context [if ?c then _ else _] => destruct c
         | context [match ?x with _ => _ end] => destruct x
         end; inversion H; subst; reflexivity.
Qed.

Lemma run_from_errs_end c items : forall st, errs_end (run_from c st items) = true.
Proof.
  induction items as [|it items IH]; intro st; cbn [run_from]; [reflexivity|].
  destruct (tstep c st it) as [[st' evs] fin] eqn:E.
  unfold tstep in E. destruct it as [data a|].
  - destruct (fstep (fs st) data) as [f|ty size body| |].
    + inversion E; subst. cbn [app]. apply IH.
    + destruct (process_packet c (ph st) ty body a) as [[p' evs'] fin'] eqn:PP.
      inversion E; subst. destruct fin.
      * eapply process_packet_errs_end; eauto.
      * rewrite errs_end_app_no_err; [apply IH|]. eapply process_packet_nonfinal_no_err; eauto.
    + inversion E; subst. reflexivity.
    + inversion E; subst. reflexivity.
  - inversion E; subst. reflexivity.
Qed.
