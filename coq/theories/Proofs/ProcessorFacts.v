(** Step-level facts about the transcription of [Process] used by C01/C16. *)
From Coq Require Import List NArith ZArith Bool Lia.
From Coq.Strings Require Import Byte.
From RDPGW Require Import Lib.Bytes Gen.Consts Model.Utf16 Model.Packets Model.Processor
  Spec.TunnelOrder Proofs.TunnelOrderFacts Proofs.ProcessorSim.
Import ListNotations.
Open Scope N_scope.

Local Opaque handshake_response tunnel_response tunnel_auth_response channel_response
  channel_close_response handshake_request tunnel_request tunnel_auth_request channel_request
  receive_payload join_host_port match_auth.

(** The phase each known packet type requires. *)
Definition required_phase (ty : N) : option N :=
  if ty =? PKT_TYPE_HANDSHAKE_REQUEST then Some SERVER_STATE_INITIALIZED
  else if ty =? PKT_TYPE_TUNNEL_CREATE then Some SERVER_STATE_HANDSHAKE
  else if ty =? PKT_TYPE_TUNNEL_AUTH then Some SERVER_STATE_TUNNEL_CREATE
  else if ty =? PKT_TYPE_CHANNEL_CREATE then Some SERVER_STATE_TUNNEL_AUTHORIZE
  else if ty =? PKT_TYPE_CLOSE_CHANNEL then Some SERVER_STATE_OPENED
  else None.

Definition is_success_resp (e : event) : bool :=
  match e with Resp _ s _ => s =? 0 | _ => false end.

(** A setup or close packet in any other phase than the one it requires: the
    phase does not move, no success response is sent, the tunnel ends. *)
Lemma out_of_order_rejected c p ty body a q :
  required_phase ty = Some q -> p <> q ->
  exists evs, process_packet c p ty body a = (p, evs, true)
              /\ existsb is_success_resp evs = false
              /\ exists pre w, evs = pre ++ [End w].
Proof.
  unfold required_phase, process_packet. intros Hq Hp.
  destruct (ty =? PKT_TYPE_HANDSHAKE_REQUEST) eqn:T1.
  { inversion Hq; subst. apply N.eqb_neq in Hp. rewrite Hp. cbn [negb].
    eexists; split; [reflexivity|]. split; [reflexivity|]. eexists [_]; eexists; reflexivity. }
  destruct (ty =? PKT_TYPE_TUNNEL_CREATE) eqn:T2.
  { inversion Hq; subst. apply N.eqb_neq in Hp. rewrite Hp. cbn [negb].
    eexists; split; [reflexivity|]. split; [reflexivity|]. eexists [_]; eexists; reflexivity. }
  destruct (ty =? PKT_TYPE_TUNNEL_AUTH) eqn:T3.
  { inversion Hq; subst. apply N.eqb_neq in Hp. rewrite Hp. cbn [negb].
    eexists; split; [reflexivity|]. split; [reflexivity|]. eexists [_]; eexists; reflexivity. }
  destruct (ty =? PKT_TYPE_CHANNEL_CREATE) eqn:T4.
  { inversion Hq; subst. apply N.eqb_neq in Hp. rewrite Hp. cbn [negb].
    eexists; split; [reflexivity|]. split; [reflexivity|]. eexists [_]; eexists; reflexivity. }
  destruct (ty =? PKT_TYPE_CLOSE_CHANNEL) eqn:T5; [|discriminate].
  inversion Hq; subst. apply N.eqb_neq in Hp.
  apply N.eqb_eq in T5. subst ty. cbn [N.eqb Pos.eqb PKT_TYPE_CLOSE_CHANNEL PKT_TYPE_DATA PKT_TYPE_KEEPALIVE].
  rewrite Hp. cbn [negb].
  eexists; split; [reflexivity|]. split; [reflexivity|]. exists [], EndWrongState; reflexivity.
Qed.

(** Data and keep-alive packets before the channel exists end the tunnel
    without any answer. *)
Lemma early_data_rejected c p ty body a :
  (ty = PKT_TYPE_DATA \/ ty = PKT_TYPE_KEEPALIVE) -> p < SERVER_STATE_CHANNEL_CREATE ->
  process_packet c p ty body a = (p, [End EndWrongState], true).
Proof.
  intros [->| ->] Hp; apply N.ltb_lt in Hp; unfold process_packet;
    cbn [N.eqb Pos.eqb PKT_TYPE_DATA PKT_TYPE_KEEPALIVE PKT_TYPE_HANDSHAKE_REQUEST
         PKT_TYPE_TUNNEL_CREATE PKT_TYPE_TUNNEL_AUTH PKT_TYPE_CHANNEL_CREATE];
    rewrite Hp; reflexivity.
Qed.

(** Packet types the gateway does not know produce no event at all. *)
Lemma unknown_type_ignored c p ty body a :
  ty <> PKT_TYPE_HANDSHAKE_REQUEST -> ty <> PKT_TYPE_TUNNEL_CREATE -> ty <> PKT_TYPE_TUNNEL_AUTH ->
  ty <> PKT_TYPE_CHANNEL_CREATE -> ty <> PKT_TYPE_DATA -> ty <> PKT_TYPE_KEEPALIVE ->
  ty <> PKT_TYPE_CLOSE_CHANNEL ->
  process_packet c p ty body a = (p, [], false).
Proof.
  intros H1 H2 H3 H4 H5 H6 H7. unfold process_packet.
  apply N.eqb_neq in H1, H2, H3, H4, H5, H6, H7.
  now rewrite H1, H2, H3, H4, H5, H6, H7.
Qed.

(** An error response is always immediately followed by the end of the tunnel
    (they are produced by the same step). *)
Fixpoint errs_end (evs : list event) : bool :=
  match evs with
  | [] => true
  | Resp _ s _ :: rest =>
      if s =? 0 then errs_end rest
      else match rest with [End _] => true | _ => false end
  | _ :: rest => errs_end rest
  end.

Lemma errs_end_spec evs : errs_end evs = true ->
  forall pre ty s raw post, evs = pre ++ Resp ty s raw :: post -> s <> 0 -> exists w, post = [End w].
Proof.
  induction evs as [|e evs IH]; intros H pre ty s raw post E Hs.
  - destruct pre; discriminate.
  - destruct pre as [|e' pre]; cbn [app] in E.
    + injection E as -> ->. cbn [errs_end] in H. apply N.eqb_neq in Hs. rewrite Hs in H.
      destruct post as [|x post]; [discriminate|]. destruct x; try discriminate.
      destruct post; [eauto | discriminate].
    + injection E as -> E. apply (IH) with (pre := pre) (ty := ty) (s := s) (raw := raw); auto.
      cbn [errs_end] in H. destruct e'; auto.
      destruct (status =? 0); auto.
      subst evs. exfalso. destruct pre as [|x pre]; cbn [app] in H; [discriminate|].
      destruct x; try discriminate. destruct pre; discriminate.
Qed.

Lemma process_packet_errs_end c p ty body a p' evs fin :
  process_packet c p ty body a = (p', evs, fin) -> errs_end evs = true.
Proof.
  intro H. unfold process_packet in H.
  repeat match type of H with
         | context [if ?c then _ else _] => destruct c
         | context [match ?x with _ => _ end] => destruct x
         end; inversion H; subst; reflexivity.
Qed.

Fixpoint no_err (evs : list event) : bool :=
  match evs with
  | [] => true
  | Resp _ s _ :: rest => (s =? 0) && no_err rest
  | _ :: rest => no_err rest
  end.

Lemma errs_end_app_no_err a b : no_err a = true -> errs_end (a ++ b) = errs_end b.
Proof.
  induction a as [|e a IH]; intro H; cbn [app]; [reflexivity|].
  destruct e; cbn [errs_end no_err] in *; auto.
  apply andb_true_iff in H as [H1 H2]. rewrite H1. auto.
Qed.

Lemma process_packet_nonfinal_no_err c p ty body a p' evs :
  process_packet c p ty body a = (p', evs, false) -> no_err evs = true.
Proof.
  intro H. unfold process_packet in H.
  repeat match type of H with
         | context [if ?c then _ else _] => destruct c
         | context [match ?x with _ => _ end] => destruct x
         end; inversion H; subst; reflexivity.
Qed.

Lemma run_from_errs_end c items : forall st, errs_end (run_from c st items) = true.
Proof.
  induction items as [|it items IH]; intro st; cbn [run_from]; [reflexivity|].
  destruct (tstep c st it) as [[st' evs] fin] eqn:E.
  unfold tstep in E. destruct it as [data a|].
  - destruct (fstep (fs st) data) as [f|ty size body| |].
    + inversion E; subst. cbn [app]. apply IH.
    + destruct (process_packet c (ph st) ty body a) as [[p' evs'] fin'] eqn:PP.
      inversion E; subst. destruct fin.
      * eapply process_packet_errs_end; eauto.
      * rewrite errs_end_app_no_err; [apply IH|]. eapply process_packet_nonfinal_no_err; eauto.
    + inversion E; subst. reflexivity.
    + inversion E; subst. reflexivity.
  - inversion E; subst. reflexivity.
Qed.

(** Where a connection attempt comes from: only from a channel-create packet in
    the tunnel-authorized phase, to the address that packet names, after the
    installed host policy answered yes for it. *)
Lemma dial_step c p ty body a p' evs fin h ok :
  process_packet c p ty body a = (p', evs, fin) -> In (Dial h ok) evs ->
  ty = PKT_TYPE_CHANNEL_CREATE /\ p = SERVER_STATE_TUNNEL_AUTHORIZE /\
  h = join_host_port (fst (channel_request body)) (snd (channel_request body)) /\
  (c_host_cb c = true -> a_host a = true) /\ ok = a_dial a.
Proof.
  intros H I. unfold process_packet in H.
  destruct (ty =? PKT_TYPE_HANDSHAKE_REQUEST) eqn:T1.
  { repeat match type of H with
           | context [if ?c then _ else _] => destruct c
           | context [match ?x with _ => _ end] => destruct x
           end; inversion H; subst; cbn in I; intuition discriminate. }
  destruct (ty =? PKT_TYPE_TUNNEL_CREATE) eqn:T2.
  { destruct (negb (p =? SERVER_STATE_HANDSHAKE)); [inversion H; subst; cbn in I; intuition discriminate|].
    destruct (tunnel_request body). destruct (c_cookie_cb c && negb (a_cookie a));
      inversion H; subst; [cbn in I; intuition discriminate|].
    apply in_app_or in I as [I|I]; [destruct (c_cookie_cb c); cbn in I; intuition discriminate|].
    cbn in I; intuition discriminate. }
  destruct (ty =? PKT_TYPE_TUNNEL_AUTH) eqn:T3.
  { destruct (negb (p =? SERVER_STATE_TUNNEL_CREATE)); [inversion H; subst; cbn in I; intuition discriminate|].
    destruct (c_name_cb c && negb (a_name a)); inversion H; subst; [cbn in I; intuition discriminate|].
    apply in_app_or in I as [I|I]; [destruct (c_name_cb c); cbn in I; intuition discriminate|].
    cbn in I; intuition discriminate. }
  destruct (ty =? PKT_TYPE_CHANNEL_CREATE) eqn:T4.
  { apply N.eqb_eq in T4. destruct (p =? SERVER_STATE_TUNNEL_AUTHORIZE) eqn:E; cbn [negb] in H;
      [|inversion H; subst; cbn in I; intuition discriminate].
    apply N.eqb_eq in E. destruct (channel_request body) as [server port] eqn:CR. cbn [fst snd].
    destruct (c_host_cb c) eqn:CB; cbn [andb] in H.
    - destruct (a_host a) eqn:AH; cbn [negb] in H; [|inversion H; subst; cbn in I; intuition discriminate].
      destruct (a_dial a) eqn:AD; inversion H; subst; cbn in I;
        repeat (destruct I as [I|I]; [try discriminate|]); try contradiction;
        inversion I; subst; repeat split; auto.
    - destruct (a_dial a) eqn:AD; inversion H; subst; cbn in I;
        repeat (destruct I as [I|I]; [try discriminate|]); try contradiction;
        inversion I; subst; repeat split; auto; discriminate. }
  repeat match type of H with
         | context [if ?c then _ else _] => destruct c
         end; inversion H; subst; cbn in I; intuition discriminate.
Qed.

(** With the host-policy answers given by a function [pol] of the requested
    address, every address the tunnel connects to satisfies [pol]. *)
Lemma resolved_policy_dials pol live c items : forall st tr1 h ok tr2,
  c_host_cb c = true ->
  run_from c st (resolve_policy_dials pol live c st items) = tr1 ++ Dial h ok :: tr2 ->
  pol h = true.
Proof.
  unfold resolve_policy_dials.
  induction items as [|it items IH]; intros st tr1 h ok tr2 CB E.
  - destruct tr1; discriminate.
  - destruct it as [d a|]; cbn [resolve] in E.
    2:{ cbn [run_from tstep] in E. destruct tr1 as [|? [|? ?]]; discriminate. }
    set (a' := with_dial live st d (with_policy pol st d a)) in *.
    destruct (tstep c st (RData d a')) as [[st' evs] fin] eqn:TS.
    cbn [run_from] in E. rewrite TS in E.
    assert (Hev : forall h ok, In (Dial h ok) evs -> pol h = true).
    { intros h0 ok0 I. unfold tstep in TS.
      destruct (fstep (fs st) d) as [f|ty size body| |] eqn:FS; try (inversion TS; subst; cbn in I; intuition discriminate).
      destruct (process_packet c (ph st) ty body a') as [[p' evs'] fin'] eqn:PP.
      inversion TS; subst.
      destruct (dial_step _ _ _ _ _ _ _ _ _ _ PP I) as [Hty [_ [Hh [Hpol _]]]].
      specialize (Hpol CB). unfold a', with_dial, with_policy in Hpol. cbn [a_host] in Hpol.
      unfold requested_host in Hpol. rewrite FS in Hpol. subst ty.
      change (PKT_TYPE_CHANNEL_CREATE =? PKT_TYPE_CHANNEL_CREATE) with true in Hpol.
      destruct (channel_request body) as [server port]. cbn [fst snd] in Hh. subst h0. exact Hpol. }
    assert (Hin : In (Dial h ok) (tr1 ++ Dial h ok :: tr2)) by (apply in_or_app; right; left; reflexivity).
    rewrite <- E in Hin.
    destruct fin.
    + eapply Hev; eauto.
    + apply in_app_or in Hin as [Hin|Hin]; [eapply Hev; eauto|].
      apply in_split in Hin as [l1 [l2 Hl]]. eapply IH; eauto.
Qed.
