(** C16: every response builder against the reference decoders, the
    redirection word and the idle-timeout field. *)
From Coq Require Import List NArith ZArith Bool Lia.
From Coq.Strings Require Import Byte.
From RDPGW Require Import Lib.Bytes Gen.Consts Model.Utf16 Model.Packets Model.Processor
  Spec.Wire Spec.Oracles Proofs.WireFacts.
Import ListNotations.
Open Scope N_scope.

Definition redir_of (f : redirect_flags) : N :=
  spec_redir (rf_clipboard f) (rf_port f) (rf_drive f) (rf_printer f) (rf_pnp f)
             (rf_disable_all f) (rf_enable_all f).

(** All 2^7 switch combinations, by case analysis inside the proof. *)
Lemma make_redirect_flags_spec f : make_redirect_flags f = redir_of f.
Proof.
  destruct f as [cl po dr pr pn da ea]. unfold redir_of; cbn [rf_clipboard rf_port rf_drive rf_printer rf_pnp rf_disable_all rf_enable_all].
  destruct cl, po, dr, pr, pn, da, ea; vm_compute; reflexivity.
Qed.

Lemma redir_of_bound f : redir_of f < 4294967296.
Proof.
  destruct f as [cl po dr pr pn da ea]. unfold redir_of; cbn [rf_clipboard rf_port rf_drive rf_printer rf_pnp rf_disable_all rf_enable_all].
  destruct cl, po, dr, pr, pn, da, ea; vm_compute; reflexivity.
Qed.

Lemma idle_field_bound t : idle_field t < 4294967296.
Proof.
  unfold idle_field. destruct (t <? 0)%Z; [reflexivity|].
  pose proof (Z.mod_pos_bound t 4294967296 ltac:(lia)). lia.
Qed.

(** The idle-timeout field over the int32 range: negative values are reported as 0. *)
Lemma idle_field_spec t :
  (-2147483648 <= t <= 2147483647)%Z -> idle_field t = spec_idle t.
Proof.
  intro H. unfold idle_field, spec_idle.
  destruct (t <? 0)%Z eqn:E.
  - apply Z.ltb_lt in E. rewrite Z.max_l by lia. reflexivity.
  - apply Z.ltb_ge in E. rewrite Z.max_r by lia. rewrite Z.mod_small by lia. reflexivity.
Qed.

Ltac step_get :=
  first [ rewrite get32_le32 | rewrite get16_le16 | rewrite get8_n2b ]; cbn [bind].

Lemma decode_created ty data :
  ty < 65536 -> blen data + 8 < 4294967296 ->
  decode_packet (create_packet ty data) =
  Some {| pk_type := ty; pk_reserved := 0; pk_length := blen (create_packet ty data); pk_body := data |}.
Proof. apply decode_create_packet. Qed.

Lemma resp_ok_handshake rd idle major minor caps code :
  major < 256 -> minor < 256 -> caps < 65536 -> code < 4294967296 ->
  c16_resp_ok rd idle PKT_TYPE_HANDSHAKE_RESPONSE code (handshake_response major minor caps code) = true.
Proof.
  intros. unfold c16_resp_ok, handshake_response.
  rewrite decode_created; [|reflexivity|rewrite !blen_app; cbn; lia].
  cbn [pk_type pk_reserved pk_length pk_body]. rewrite !N.eqb_refl. cbn [andb].
  change (PKT_TYPE_HANDSHAKE_RESPONSE =? PKT_TYPE_HANDSHAKE_RESPONSE) with true. cbv iota.
  unfold decode_handshake_response. step_get. cbn [app]. step_get. step_get. step_get.
  rewrite <- (List.app_nil_r (le16 caps)). step_get.
  rewrite N.mod_small by lia. apply N.eqb_refl.
Qed.

Lemma resp_ok_tunnel rd idle code :
  code < 4294967296 ->
  c16_resp_ok rd idle PKT_TYPE_TUNNEL_RESPONSE code (tunnel_response code) = true.
Proof.
  intros. unfold c16_resp_ok, tunnel_response.
  rewrite decode_created; [|reflexivity|rewrite !blen_app; cbn; lia].
  cbn [pk_type pk_reserved pk_length pk_body]. rewrite !N.eqb_refl. cbn [andb].
  change (PKT_TYPE_TUNNEL_RESPONSE =? PKT_TYPE_HANDSHAKE_RESPONSE) with false.
  change (PKT_TYPE_TUNNEL_RESPONSE =? PKT_TYPE_TUNNEL_RESPONSE) with true. cbv iota.
  unfold decode_tunnel_response. step_get. step_get. step_get. step_get.
  match goal with |- context [N.land ?a ?b =? 0] => change (N.land a b =? 0) with true end.
  cbn [negb].
  match goal with |- context [N.testbit ?a 0] => change (N.testbit a 0) with true end. cbv iota.
  step_get.
  match goal with |- context [N.testbit ?a 1] => change (N.testbit a 1) with true end. cbv iota.
  rewrite <- (List.app_nil_r (le32 HTTP_CAPABILITY_IDLE_TIMEOUT)). step_get.
  cbn [tr_status]. rewrite N.mod_small by lia. apply N.eqb_refl.
Qed.

Lemma resp_ok_tunnel_auth f idle code :
  code < 4294967296 ->
  c16_resp_ok (redir_of f) idle PKT_TYPE_TUNNEL_AUTH_RESPONSE code (tunnel_auth_response f idle code) = true.
Proof.
  intros. unfold c16_resp_ok, tunnel_auth_response.
  rewrite decode_created; [|reflexivity|rewrite !blen_app; cbn; lia].
  cbn [pk_type pk_reserved pk_length pk_body]. rewrite !N.eqb_refl. cbn [andb].
  change (PKT_TYPE_TUNNEL_AUTH_RESPONSE =? PKT_TYPE_HANDSHAKE_RESPONSE) with false.
  change (PKT_TYPE_TUNNEL_AUTH_RESPONSE =? PKT_TYPE_TUNNEL_RESPONSE) with false.
  change (PKT_TYPE_TUNNEL_AUTH_RESPONSE =? PKT_TYPE_TUNNEL_AUTH_RESPONSE) with true. cbv iota.
  unfold decode_tunnel_auth_response. step_get. step_get. step_get.
  match goal with |- context [N.land ?a ?b =? 0] => change (N.land a b =? 0) with true end.
  cbn [negb].
  match goal with |- context [N.testbit ?a 0] => change (N.testbit a 0) with true end. cbv iota.
  step_get.
  match goal with |- context [N.testbit ?a 1] => change (N.testbit a 1) with true end. cbv iota.
  rewrite <- (List.app_nil_r (le32 (idle_field idle))). step_get.
  cbn [ta_status ta_redir ta_idle].
  rewrite (N.mod_small code) by lia. rewrite N.eqb_refl.
  rewrite make_redirect_flags_spec. rewrite N.mod_small by apply redir_of_bound. rewrite N.eqb_refl.
  rewrite N.mod_small by apply idle_field_bound. cbn [andb].
  destruct ((-2147483648 <=? idle)%Z && (idle <=? 2147483647)%Z) eqn:E; [|reflexivity].
  apply andb_true_iff in E as [E1 E2]. apply Z.leb_le in E1, E2.
  rewrite idle_field_spec by lia. apply N.eqb_refl.
Qed.

Lemma resp_ok_channel rd idle code :
  code < 4294967296 ->
  c16_resp_ok rd idle PKT_TYPE_CHANNEL_RESPONSE code (channel_response code) = true.
Proof.
  intros. unfold c16_resp_ok, channel_response.
  rewrite decode_created; [|reflexivity|rewrite !blen_app; cbn; lia].
  cbn [pk_type pk_reserved pk_length pk_body]. rewrite !N.eqb_refl. cbn [andb].
  change (PKT_TYPE_CHANNEL_RESPONSE =? PKT_TYPE_HANDSHAKE_RESPONSE) with false.
  change (PKT_TYPE_CHANNEL_RESPONSE =? PKT_TYPE_TUNNEL_RESPONSE) with false.
  change (PKT_TYPE_CHANNEL_RESPONSE =? PKT_TYPE_TUNNEL_AUTH_RESPONSE) with false.
  change (PKT_TYPE_CHANNEL_RESPONSE =? PKT_TYPE_CHANNEL_RESPONSE) with true. cbn [orb]. cbv iota.
  unfold decode_channel_response. step_get. step_get. step_get.
  match goal with |- context [N.land ?a ?b =? 0] => change (N.land a b =? 0) with true end.
  cbn [negb].
  match goal with |- context [N.testbit ?a 0] => change (N.testbit a 0) with true end. cbv iota.
  rewrite <- (List.app_nil_r (le32 CHANNEL_ID)). step_get.
  match goal with |- context [N.testbit ?a 2] => change (N.testbit a 2) with false end. cbv iota. cbn [bind].
  match goal with |- context [N.testbit ?a 1] => change (N.testbit a 1) with false end. cbv iota. cbn [bind].
  cbn [cr_status]. rewrite N.mod_small by lia. apply N.eqb_refl.
Qed.

Lemma resp_ok_channel_close rd idle code :
  code < 4294967296 ->
  c16_resp_ok rd idle PKT_TYPE_CLOSE_CHANNEL_RESPONSE code (channel_close_response code) = true.
Proof.
  intros. unfold c16_resp_ok, channel_close_response.
  rewrite decode_created; [|reflexivity|rewrite !blen_app; cbn; lia].
  cbn [pk_type pk_reserved pk_length pk_body]. rewrite !N.eqb_refl. cbn [andb].
  change (PKT_TYPE_CLOSE_CHANNEL_RESPONSE =? PKT_TYPE_HANDSHAKE_RESPONSE) with false.
  change (PKT_TYPE_CLOSE_CHANNEL_RESPONSE =? PKT_TYPE_TUNNEL_RESPONSE) with false.
  change (PKT_TYPE_CLOSE_CHANNEL_RESPONSE =? PKT_TYPE_TUNNEL_AUTH_RESPONSE) with false.
  change (PKT_TYPE_CLOSE_CHANNEL_RESPONSE =? PKT_TYPE_CHANNEL_RESPONSE) with false.
  change (PKT_TYPE_CLOSE_CHANNEL_RESPONSE =? PKT_TYPE_CLOSE_CHANNEL_RESPONSE) with true. cbn [orb]. cbv iota.
  unfold decode_channel_response. step_get. step_get. step_get.
  match goal with |- context [N.land ?a ?b =? 0] => change (N.land a b =? 0) with true end.
  cbn [negb].
  match goal with |- context [N.testbit ?a 0] => change (N.testbit a 0) with true end. cbv iota.
  rewrite <- (List.app_nil_r (le32 CLOSE_CHANNEL_ID)). step_get.
  match goal with |- context [N.testbit ?a 2] => change (N.testbit a 2) with false end. cbv iota. cbn [bind].
  match goal with |- context [N.testbit ?a 1] => change (N.testbit a 1) with false end. cbv iota. cbn [bind].
  cbn [cr_status]. rewrite N.mod_small by lia. apply N.eqb_refl.
Qed.

(* ---------------------------------------------------------------- events *)

Definition resp_event_ok (c : cfg) (e : event) : bool :=
  match e with
  | Resp ty s raw => c16_resp_ok (redir_of (c_redir c)) (c_idle c) ty s raw
  | _ => true
  end.

Lemma take8_bound r : fst (take8 r) < 256.
Proof. destruct r; cbn; [reflexivity | apply b2n_lt]. Qed.

Lemma handshake_request_bounds body major minor ver ext :
  handshake_request body = (major, minor, ver, ext) -> major < 256 /\ minor < 256.
Proof.
  unfold handshake_request.
  destruct (take8 body) as [ma r1] eqn:E1. destruct (take8 r1) as [mi r2] eqn:E2.
  destruct (take16 r2) as [ve r3]. destruct (take16 r3) as [ex r4].
  intro H; inversion H; subst.
  pose proof (take8_bound body) as B1. rewrite E1 in B1.
  pose proof (take8_bound r1) as B2. rewrite E2 in B2. auto.
Qed.

Lemma match_auth_bound sc tok ext caps : match_auth sc tok ext = Some caps -> caps < 65536.
Proof.
  unfold match_auth. repeat match goal with |- context [if ?c then _ else _] => destruct c end;
    intro H; inversion H; subst; destruct sc, tok; reflexivity.
Qed.

Lemma process_packet_resps_ok c p ty body a p' evs fin :
  process_packet c p ty body a = (p', evs, fin) -> forallb (resp_event_ok c) evs = true.
Proof.
  intro H. unfold process_packet in H.
  destruct (ty =? PKT_TYPE_HANDSHAKE_REQUEST).
  { destruct (negb (p =? SERVER_STATE_INITIALIZED)).
    - inversion H; subst. cbn [forallb resp_event_ok]. rewrite resp_ok_handshake by reflexivity. reflexivity.
    - destruct (handshake_request body) as [[[major minor] ver] ext] eqn:HR.
      apply handshake_request_bounds in HR as [B1 B2].
      destruct (match_auth _ _ ext) as [caps|] eqn:MA; inversion H; subst; cbn [forallb resp_event_ok].
      + apply match_auth_bound in MA. rewrite resp_ok_handshake by (auto; reflexivity). reflexivity.
      + rewrite resp_ok_handshake by reflexivity. reflexivity. }
  destruct (ty =? PKT_TYPE_TUNNEL_CREATE).
  { destruct (negb (p =? SERVER_STATE_HANDSHAKE)).
    - inversion H; subst. cbn [forallb resp_event_ok]. rewrite resp_ok_tunnel by reflexivity. reflexivity.
    - destruct (tunnel_request body) as [caps cookie].
      destruct (c_cookie_cb c && negb (a_cookie a)); inversion H; subst.
      + cbn [forallb resp_event_ok]. rewrite resp_ok_tunnel by reflexivity. reflexivity.
      + rewrite forallb_app. destruct (c_cookie_cb c); cbn [forallb resp_event_ok];
          rewrite resp_ok_tunnel by reflexivity; reflexivity. }
  destruct (ty =? PKT_TYPE_TUNNEL_AUTH).
  { destruct (negb (p =? SERVER_STATE_TUNNEL_CREATE)).
    - inversion H; subst. cbn [forallb resp_event_ok]. rewrite resp_ok_tunnel_auth by reflexivity. reflexivity.
    - destruct (c_name_cb c && negb (a_name a)); inversion H; subst.
      + cbn [forallb resp_event_ok]. rewrite resp_ok_tunnel_auth by reflexivity. reflexivity.
      + rewrite forallb_app. destruct (c_name_cb c); cbn [forallb resp_event_ok];
          rewrite resp_ok_tunnel_auth by reflexivity; reflexivity. }
  destruct (ty =? PKT_TYPE_CHANNEL_CREATE).
  { destruct (negb (p =? SERVER_STATE_TUNNEL_AUTHORIZE)).
    - inversion H; subst. cbn [forallb resp_event_ok]. rewrite resp_ok_channel by reflexivity. reflexivity.
    - destruct (channel_request body) as [server port].
      destruct (c_host_cb c && negb (a_host a)).
      + inversion H; subst. cbn [forallb resp_event_ok]. rewrite resp_ok_channel by reflexivity. reflexivity.
      + destruct (a_dial a); inversion H; subst; rewrite forallb_app;
          destruct (c_host_cb c); cbn [forallb resp_event_ok];
          rewrite resp_ok_channel by reflexivity; reflexivity. }
  destruct (ty =? PKT_TYPE_DATA).
  { destruct (p <? SERVER_STATE_CHANNEL_CREATE); inversion H; subst; reflexivity. }
  destruct (ty =? PKT_TYPE_KEEPALIVE).
  { destruct (p <? SERVER_STATE_CHANNEL_CREATE); inversion H; subst; reflexivity. }
  destruct (ty =? PKT_TYPE_CLOSE_CHANNEL).
  { destruct (negb (p =? SERVER_STATE_OPENED)); inversion H; subst; [reflexivity|].
    cbn [forallb resp_event_ok]. rewrite resp_ok_channel_close by reflexivity. reflexivity. }
  inversion H; subst; reflexivity.
Qed.

Lemma run_from_resps_ok c items : forall st, forallb (resp_event_ok c) (run_from c st items) = true.
Proof.
  induction items as [|it items IH]; intro st; cbn [run_from]; [reflexivity|].
  destruct (tstep c st it) as [[st' evs] fin] eqn:E.
  assert (Hev : forallb (resp_event_ok c) evs = true).
  { unfold tstep in E. destruct it as [data a|]; [|inversion E; subst; reflexivity].
    destruct (fstep (fs st) data) as [f|ty size body| |]; try (inversion E; subst; reflexivity).
    destruct (process_packet c (ph st) ty body a) as [[p' evs'] fin'] eqn:PP.
    inversion E; subst. eapply process_packet_resps_ok; eauto. }
  destruct fin; [exact Hev|]. rewrite forallb_app, Hev. apply IH.
Qed.

(** Status 0 iff the step was accepted (the phase moved). *)
Definition is_success_resp (e : event) : bool :=
  match e with Resp _ s _ => s =? 0 | _ => false end.

Lemma status_truth c p ty body a p' evs fin :
  process_packet c p ty body a = (p', evs, fin) ->
  (ty = PKT_TYPE_HANDSHAKE_REQUEST \/ ty = PKT_TYPE_TUNNEL_CREATE \/ ty = PKT_TYPE_TUNNEL_AUTH \/
   ty = PKT_TYPE_CHANNEL_CREATE \/ ty = PKT_TYPE_CLOSE_CHANNEL) ->
  existsb is_success_resp evs = negb (p' =? p).
Proof.
  intros H Hty. unfold process_packet in H.
  destruct Hty as [->|[->|[->|[->| ->]]]];
    cbn [N.eqb Pos.eqb PKT_TYPE_HANDSHAKE_REQUEST PKT_TYPE_TUNNEL_CREATE PKT_TYPE_TUNNEL_AUTH
         PKT_TYPE_CHANNEL_CREATE PKT_TYPE_DATA PKT_TYPE_KEEPALIVE PKT_TYPE_CLOSE_CHANNEL] in H.
  - destruct (p =? SERVER_STATE_INITIALIZED) eqn:E; cbn [negb] in H.
    + apply N.eqb_eq in E; subst p.
      destruct (handshake_request body) as [[[major minor] ver] ext].
      destruct (match_auth _ _ ext); inversion H; subst; reflexivity.
    + inversion H; subst. rewrite N.eqb_refl. reflexivity.
  - destruct (p =? SERVER_STATE_HANDSHAKE) eqn:E; cbn [negb] in H.
    + apply N.eqb_eq in E; subst p. destruct (tunnel_request body) as [caps cookie].
      destruct (c_cookie_cb c && negb (a_cookie a)); inversion H; subst; [reflexivity|].
      rewrite existsb_app. destruct (c_cookie_cb c); reflexivity.
    + inversion H; subst. rewrite N.eqb_refl. reflexivity.
  - destruct (p =? SERVER_STATE_TUNNEL_CREATE) eqn:E; cbn [negb] in H.
    + apply N.eqb_eq in E; subst p.
      destruct (c_name_cb c && negb (a_name a)); inversion H; subst; [reflexivity|].
      rewrite existsb_app. destruct (c_name_cb c); reflexivity.
    + inversion H; subst. rewrite N.eqb_refl. reflexivity.
  - destruct (p =? SERVER_STATE_TUNNEL_AUTHORIZE) eqn:E; cbn [negb] in H.
    + apply N.eqb_eq in E; subst p. destruct (channel_request body) as [server port].
      destruct (c_host_cb c && negb (a_host a)); [inversion H; subst; reflexivity|].
      destruct (a_dial a); inversion H; subst; rewrite existsb_app; destruct (c_host_cb c); reflexivity.
    + inversion H; subst. rewrite N.eqb_refl. reflexivity.
  - destruct (p =? SERVER_STATE_OPENED) eqn:E; cbn [negb] in H.
    + apply N.eqb_eq in E; subst p. inversion H; subst. reflexivity.
    + inversion H; subst. rewrite N.eqb_refl. reflexivity.
Qed.

(** The three policy refusals carry their MS-TSGU status codes. *)
Lemma cookie_refusal c body a :
  c_cookie_cb c = true -> a_cookie a = false ->
  process_packet c SERVER_STATE_HANDSHAKE PKT_TYPE_TUNNEL_CREATE body a =
  (SERVER_STATE_HANDSHAKE,
   [AskCookie (snd (tunnel_request body)) false;
    Resp PKT_TYPE_TUNNEL_RESPONSE E_PROXY_COOKIE_AUTHENTICATION_ACCESS_DENIED
      (tunnel_response E_PROXY_COOKIE_AUTHENTICATION_ACCESS_DENIED); End EndCookie], true).
Proof.
  intros H1 H2. unfold process_packet.
  cbn [N.eqb Pos.eqb PKT_TYPE_HANDSHAKE_REQUEST PKT_TYPE_TUNNEL_CREATE SERVER_STATE_HANDSHAKE negb].
  destruct (tunnel_request body) as [caps cookie]. rewrite H1, H2. reflexivity.
Qed.

Lemma host_refusal c body a :
  c_host_cb c = true -> a_host a = false ->
  process_packet c SERVER_STATE_TUNNEL_AUTHORIZE PKT_TYPE_CHANNEL_CREATE body a =
  (SERVER_STATE_TUNNEL_AUTHORIZE,
   [AskHost (join_host_port (fst (channel_request body)) (snd (channel_request body))) false;
    Resp PKT_TYPE_CHANNEL_RESPONSE E_PROXY_RAP_ACCESSDENIED
      (channel_response E_PROXY_RAP_ACCESSDENIED); End EndHost], true).
Proof.
  intros H1 H2. unfold process_packet.
  cbn [N.eqb Pos.eqb PKT_TYPE_HANDSHAKE_REQUEST PKT_TYPE_TUNNEL_CREATE PKT_TYPE_TUNNEL_AUTH
       PKT_TYPE_CHANNEL_CREATE SERVER_STATE_TUNNEL_AUTHORIZE negb].
  destruct (channel_request body) as [server port]. rewrite H1, H2. reflexivity.
Qed.
