(** C12: what an issued connection file binds, and that it works on the tunnel. *)
From Coq Require Import List NArith ZArith Bool Lia.
From Coq.Strings Require Import Byte.
From RDPGW Require Import Lib.Bytes Gen.Consts Model.Policy Model.Token Model.Download
  Spec.HostPolicy Proofs.PolicyFacts Proofs.TokenFacts.
Import ListNotations.
Open Scope Z_scope.

Lemma in_list_In x l : in_list x l = true <-> In x l.
Proof.
  unfold in_list. rewrite existsb_exists. split.
  - intros [y [I E]]. apply bytes_eqb_eq in E. now subst.
  - intro I. exists x. split; [exact I | apply bytes_eqb_refl].
Qed.

(** No file without an authenticated session. *)
Lemma download_needs_login c now r f : download c now r = DlFile f -> q_authenticated r = true.
Proof. unfold download. destruct (q_authenticated r); [reflexivity | discriminate]. Qed.

(** The selection policy. *)
Lemma get_host_policy mode hosts param qhost pick h :
  get_host mode hosts param qhost pick = HostOk h ->
  (mode = s_any /\ param = Some h) \/
  (mode = s_unsigned /\ param = Some h /\ In h hosts) \/
  (mode = s_signed /\ param <> None /\ qhost = Some h /\ In h hosts) \/
  (mode <> s_any /\ mode <> s_unsigned /\ mode <> s_signed /\ nth_error hosts pick = Some h).
Proof.
  unfold get_host.
  destruct (bytes_eqb mode s_roundrobin) eqn:R.
  { apply bytes_eqb_eq in R. subst. destruct (nth_error hosts pick) eqn:N; [|discriminate].
    intro H; inversion H; subst. right; right; right. repeat split; try discriminate. }
  destruct (bytes_eqb mode s_signed) eqn:S.
  { apply bytes_eqb_eq in S. subst. destruct param; [|discriminate]. destruct qhost as [q|]; [|discriminate].
    destruct (in_list q hosts) eqn:I; [|discriminate]. intro H; inversion H; subst.
    right; right; left. apply in_list_In in I. repeat split; auto. discriminate. }
  destruct (bytes_eqb mode s_unsigned) eqn:U.
  { apply bytes_eqb_eq in U. subst. destruct param as [p|]; [|discriminate].
    destruct (in_list p hosts) eqn:I; [|discriminate]. intro H; inversion H; subst.
    right; left. apply in_list_In in I. auto. }
  destruct (bytes_eqb mode s_any) eqn:A.
  { apply bytes_eqb_eq in A. subst. destruct param; [|discriminate]. intro H; inversion H; subst. left. auto. }
  apply bytes_eqb_neq in S, U, A. destruct (nth_error hosts pick) eqn:N; [|discriminate].
  intro H; inversion H; subst. right; right; right. auto.
Qed.

(** The query token of 'signed' selection must verify under the query key,
    name the configured issuer and be unexpired; its subject is the host. *)
Lemma query_info_sound qk iss now tok h :
  query_info qk iss now tok = Some h ->
  exists a c, tok = JCompact a qk c /\ in_list (alg_name a) QUERY_SIG_ALGS = true /\
              (iss = [] \/ cl_iss c = iss) /\ time_ok now c /\ cl_sub c = h.
Proof.
  unfold query_info. destruct tok as [|a key c|]; try discriminate.
  destruct (in_list (alg_name a) QUERY_SIG_ALGS && bytes_eqb key qk && validate iss now c) eqn:E; [|discriminate].
  apply andb_true_iff in E as [E V]. apply andb_true_iff in E as [A K].
  apply bytes_eqb_eq in K. subst. apply validate_gen_iff in V as [V1 V2].
  intro H; inversion H; subst. eauto 10.
Qed.

(** What the file binds together: the chosen host with the user's name
    substituted, the user name (domain part removed when splitting), the
    requesting client address and the session's access token; the gateway name
    from the configuration. *)
Lemma download_claims c now r f :
  download c now r = DlFile f ->
  exists h0 user,
    get_host (d_mode c) (d_hosts c) (q_param r) (q_qhost r) (q_pick r) = HostOk h0 /\
    f_address f = replace_first HOST_PLACEHOLDER (q_user r) h0 /\
    user = (if d_split c then fst (split_at (q_user r)) else q_user r) /\
    f_gateway f = d_gateway c /\
    exists cl, f_token f = JCompact HS256 (d_signing_key c) cl /\
      cl_host cl = f_address f /\ cl_sub cl = user /\ cl_ip cl = q_client_ip r /\
      cl_at cl = q_access_token r /\ cl_exp cl = Some (now + 300) /\ cl_iss cl = s_rdpgw /\
      cl_nbf cl = None /\ cl_iat cl = None.
Proof.
  unfold download. destruct (q_authenticated r); cbn [negb]; [|discriminate].
  destruct (get_host _ _ _ _ _) as [h0|] eqn:G; [|discriminate].
  set (host := replace_first HOST_PLACEHOLDER (q_user r) h0).
  destruct (d_split c) eqn:S.
  - destruct (split_at (q_user r)) as [u d] eqn:SP. cbn [fst].
    destruct (match d_template c with [] => Some u | _ => _ end) as [rd|]; [|discriminate].
    destruct (mint_paa (d_signing_key c) now u host (q_client_ip r) (q_access_token r)) as [tok|] eqn:M; [|discriminate].
    intro H; inversion H; subst f; clear H. cbn [f_address f_gateway f_token].
    exists h0, u. repeat split; auto.
    destruct (mint_paa_expiry _ _ _ _ _ _ _ M) as [cl [-> [E [I [H1 [H2 [H3 [H4 [H5 H6]]]]]]]]].
    exists cl. repeat split; auto.
  - destruct (match d_template c with [] => Some (q_user r) | _ => _ end) as [rd|]; [|discriminate].
    destruct (mint_paa (d_signing_key c) now (q_user r) host (q_client_ip r) (q_access_token r)) as [tok|] eqn:M; [|discriminate].
    intro H; inversion H; subst f; clear H. cbn [f_address f_gateway f_token].
    exists h0, (q_user r). repeat split; auto.
    destruct (mint_paa_expiry _ _ _ _ _ _ _ M) as [cl [-> [E [I [H1 [H2 [H3 [H4 [H5 H6]]]]]]]]].
    exists cl. repeat split; auto.
Qed.

(** The issued file works: under round-robin, unsigned and 'any' selection the
    file's token, presented unmodified from the same client address within its
    lifetime while the IdP honours the access token, is accepted, and the
    tunnel's own host policy allows the file's address — provided the IdP's
    subject [s] is non-empty and, when the chosen entry contains the user
    placeholder, equals the session's user name. *)
Lemma issued_file_works c now r f t idp s verify :
  download c now r = DlFile f ->
  (d_mode c = s_roundrobin \/ d_mode c = s_unsigned \/ d_mode c = s_any) ->
  t <= now + 360 -> idp (q_access_token r) = Some s -> s <> [] ->
  (forall h0, get_host (d_mode c) (d_hosts c) (q_param r) (q_qhost r) (q_pick r) = HostOk h0 ->
              replace_first HOST_PLACEHOLDER s h0 = replace_first HOST_PLACEHOLDER (q_user r) h0) ->
  fst (check_paa (d_signing_key c) t idp (f_token f)) = PaaAccept (f_address f) (q_client_ip r) s /\
  wired_policy true verify (d_mode c) (d_hosts c)
    {| t_target := f_address f; t_remote := q_client_ip r; t_user := s |} (q_client_ip r) (f_address f) = true.
Proof.
  intros D Mode Ht Hidp Hs Hsub.
  destruct (download_claims c now r f D) as [h0 [user [G [FA [_ [_ [cl [FT [C1 [_ [C3 [C4 [C5 [C6 [C7 C8]]]]]]]]]]]]]]].
  split.
  - rewrite FT. apply check_paa_accept_iff. exists cl. rewrite C4. repeat split; auto.
    + intros e He. rewrite C5 in He. inversion He. lia.
    + intros n Hn. congruence.
    + intros i Hi. congruence.
  - apply wired_policy_iff. unfold allowed. cbn [t_target t_remote t_user]. split; [auto|].
    unfold mode_allows. destruct Mode as [M|[M|M]].
    + right. split; [left; exact M|]. split; [exact Hs|].
      apply get_host_policy in G. rewrite M in G.
      destruct G as [[A _]|[[A _]|[[A _]|[_ [_ [_ N]]]]]]; try discriminate.
      exists h0. split; [eapply nth_error_In; eauto|]. unfold entry_for. rewrite FA. apply Hsub.
      unfold get_host. rewrite M. rewrite bytes_eqb_refl. now rewrite N.
    + right. split; [right; exact M|]. split; [exact Hs|].
      pose proof G as G'. apply get_host_policy in G. rewrite M in G.
      destruct G as [[A _]|[[_ [_ I]]|[[A _]|[_ [A _]]]]]; try discriminate; try contradiction.
      exists h0. split; [exact I|]. unfold entry_for. rewrite FA. now apply Hsub.
    + left. exact M.
Qed.
