(** C06: both relay directions are exact, ordered and complete. *)
From Coq Require Import List NArith ZArith Bool Lia.
From Coq.Strings Require Import Byte.
From RDPGW Require Import Lib.Bytes Gen.Consts Model.Utf16 Model.Packets Model.Relay Model.Processor
  Spec.Wire Spec.Oracles Proofs.WireFacts.
Import ListNotations.
Open Scope N_scope.

(** The relay buffer fits the 16-bit payload length field (re-checked against
    the regenerated constant on every run). *)
Lemma forward_buf_fits : FORWARD_BUF < 65536.
Proof. reflexivity. Qed.

Lemma data_packet_wf chunk :
  blen chunk < 65536 ->
  decode_packet (data_packet chunk) =
    Some {| pk_type := PKT_TYPE_DATA; pk_reserved := 0; pk_length := blen (data_packet chunk);
            pk_body := le16 (blen chunk) ++ chunk |}
  /\ decode_data (le16 (blen chunk) ++ chunk) = Some (chunk, []).
Proof.
  intro H. split.
  - unfold data_packet. apply decode_create_packet; [reflexivity|].
    rewrite blen_app. change (blen (le16 (blen chunk))) with 2. lia.
  - unfold decode_data. rewrite get16_le16. cbn [bind]. rewrite N.mod_small by lia.
    unfold blen. rewrite Nat2N.id. pose proof (getn_exact chunk []) as G.
    rewrite List.app_nil_r in G. exact G.
Qed.

Lemma spec_client_packet_data chunk :
  blen chunk < 65536 -> spec_client_packet (data_packet chunk) = Some chunk.
Proof.
  intro H. unfold spec_client_packet. destruct (data_packet_wf chunk H) as [D1 D2].
  rewrite D1. cbn [pk_type pk_length pk_body]. rewrite N.eqb_refl.
  change (PKT_TYPE_DATA =? PKT_TYPE_DATA) with true. cbn [andb]. rewrite D2. now rewrite N.eqb_refl.
Qed.

(** host -> client, for every way the host's stream is cut into reads. *)
Lemma host_to_client chunks :
  Forall (fun c => blen c <= FORWARD_BUF) chunks ->
  spec_client_stream (map data_packet chunks) = Some (concat chunks).
Proof.
  induction chunks as [|c chunks IH]; intro H; [reflexivity|].
  inversion H as [|? ? H1 H2]; subst. cbn [map spec_client_stream concat].
  rewrite spec_client_packet_data by (pose proof forward_buf_fits; lia).
  now rewrite (IH H2).
Qed.

(** client -> host: a well-formed body delivers exactly its payload; extra bytes
    after the declared length are not delivered; a length field larger than the
    bytes carried delivers the bytes carried (nothing is invented). *)
Lemma receive_is_declared body : receive_payload body = spec_payload body \/ (length body < 2)%nat.
Proof.
  destruct body as [|a [|b r]]; [right; cbn; lia | right; cbn; lia | left].
  unfold receive_payload, spec_payload, decode_data, take16, get16. cbn [bind].
  unfold getn. destruct (Nat.leb _ (length r)) eqn:E.
  - reflexivity.
  - apply Nat.leb_gt in E. cbn [skipn]. apply firstn_all2. lia.
Qed.

Lemma receive_is_declared_total body : receive_payload body = spec_payload body.
Proof.
  destruct (receive_is_declared body) as [H|H]; [exact H|].
  destruct body as [|a [|b r]]; try (cbn in H; lia); reflexivity.
Qed.

Lemma receive_wellformed p extra :
  blen p < 65536 -> receive_payload (le16 (blen p) ++ p ++ extra) = p.
Proof.
  intro H. unfold receive_payload. rewrite take16_le16. rewrite N.mod_small by lia.
  unfold blen. rewrite Nat2N.id. rewrite firstn_app, Nat.sub_diag, firstn_all, firstn_O.
  apply List.app_nil_r.
Qed.

(** Interleaving independence: each direction's result is the result of its
    own projection of the operations. *)
Lemma relay_from_projection ops : forall st,
  to_host (fold_left relay_step ops st) = to_host st ++ concat (map receive_payload (client_bodies ops)) /\
  to_client (fold_left relay_step ops st) = to_client st ++ map data_packet (host_chunks ops).
Proof.
  induction ops as [|o ops IH]; intro st; cbn [fold_left].
  - cbn. now rewrite !List.app_nil_r.
  - destruct (IH (relay_step st o)) as [A B]. rewrite A, B.
    destruct o; cbn [relay_step to_host to_client client_bodies host_chunks flat_map app map concat];
      rewrite <- ?app_assoc; split; reflexivity.
Qed.

Lemma relay_projection ops :
  to_host (relay ops) = concat (map receive_payload (client_bodies ops)) /\
  to_client (relay ops) = map data_packet (host_chunks ops).
Proof. apply (relay_from_projection ops rstate0). Qed.

(** The read loop's chunks are non-empty, at most FORWARD_BUF long and
    concatenate to what the host wrote. *)
Lemma split_every_spec n : (0 < n)%nat -> forall fuel l, (length l < fuel)%nat ->
  concat (split_every fuel n l) = l /\ Forall (fun c => (length c <= n)%nat) (split_every fuel n l).
Proof.
  intros Hn fuel. induction fuel as [|fuel IH]; intros l H; [lia|].
  cbn [split_every]. destruct l as [|x l]; [split; [reflexivity|constructor]|].
  set (s := x :: l) in *.
  assert (Hl : (length (skipn n s) < fuel)%nat).
  { rewrite skipn_length. subst s. cbn [length] in *. lia. }
  destruct (IH _ Hl) as [A B]. split.
  - cbn [concat]. rewrite A. apply firstn_skipn.
  - constructor; [rewrite firstn_length; lia | exact B].
Qed.
