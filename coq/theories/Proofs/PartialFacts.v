(** C10: with the guards the source has, no index or slice of the modelled
    handlers is out of range, and the checked handlers compute what the
    unchecked models (used by every other property) compute. *)
From Coq Require Import List NArith ZArith Bool Arith Lia.
From Coq.Strings Require Import Byte.
From RDPGW Require Import Lib.Bytes Gen.Consts Gen.Facts Model.Utf16 Model.Packets Model.Processor
  Model.System Model.Kdc Model.Partial Proofs.SystemFacts.
Import ListNotations.
Open Scope N_scope.

(* ---------------------------------------------------------------- readHeader *)

Lemma read_header_guarded data : read_header_c true true true data = Ok (read_header data).
Proof.
  unfold read_header_c, read_header. cbn [andb].
  destruct (blen data <? HEADER_MIN) eqn:E1; [reflexivity|].
  apply N.ltb_ge in E1. unfold HEADER_MIN, blen in E1.
  set (size := fst (take32 (skipn 4 data))).
  destruct (blen data <? size) eqn:E2.
  { unfold go_slice. replace (Nat.leb 8 (length data)) with true by (symmetry; apply Nat.leb_le; lia).
    rewrite Nat.leb_refl. reflexivity. }
  apply N.ltb_ge in E2. unfold blen in E2.
  destruct (size <? 8) eqn:E3; [reflexivity|].
  apply N.ltb_ge in E3.
  unfold go_slice.
  replace (Nat.leb 8 (N.to_nat size)) with true by (symmetry; apply Nat.leb_le; lia).
  replace (Nat.leb (N.to_nat size) (length data)) with true by (symmetry; apply Nat.leb_le; lia).
  reflexivity.
Qed.

(* --------------------------------------------------------------- DecodeUTF16 *)

Lemma skipn_cons_next {A} (l : list A) : forall i x r, skipn i l = x :: r -> skipn (S i) l = r /\ nth_error l i = Some x.
Proof.
  induction l as [|y l IH]; intros i x r H.
  - destruct i; discriminate.
  - destruct i as [|i].
    + cbn in H. inversion H; subst. split; reflexivity.
    + cbn [skipn] in H. destruct (IH i x r H) as [HA HB]. split; [exact HA | exact HB].
Qed.

Lemma skipn_nil_ge {A} (l : list A) i : skipn i l = [] -> (length l <= i)%nat.
Proof.
  revert i; induction l as [|y l IH]; intros i H; cbn [length]; [lia|].
  destruct i; [discriminate|]. cbn [skipn] in H. specialize (IH i H). lia.
Qed.

Lemma skipn_cons_lt {A} (l : list A) i x r : skipn i l = x :: r -> (i < length l)%nat.
Proof.
  intro H. destruct (Nat.lt_ge_cases i (length l)) as [L|G]; [exact L|].
  rewrite skipn_all2 in H by exact G. discriminate.
Qed.

Lemma units_c_ok b : forall fuel i,
  Nat.even (length (skipn i b)) = true -> (length (skipn i b) < 2 * fuel)%nat ->
  units_c b i fuel = Ok (decode_units (skipn i b)).
Proof.
  induction fuel as [|fuel IH]; intros i Ev Lt; [lia|].
  cbn [units_c].
  destruct (skipn i b) as [|lo rest] eqn:S0.
  { apply skipn_nil_ge in S0. replace (Nat.ltb i (length b)) with false by (symmetry; apply Nat.ltb_ge; lia). reflexivity. }
  pose proof (skipn_cons_lt _ _ _ _ S0) as L0.
  replace (Nat.ltb i (length b)) with true by (symmetry; apply Nat.ltb_lt; lia).
  destruct (skipn_cons_next _ _ _ _ S0) as [S1 N0].
  destruct rest as [|hi rest]; [cbn in Ev; discriminate|].
  destruct (skipn_cons_next _ _ _ _ S1) as [S2 N1].
  unfold go_index. rewrite N0. replace (i + 1)%nat with (S i) by lia. rewrite N1.
  replace (i + 2)%nat with (S (S i)) by lia.
  rewrite IH.
  - rewrite S2. reflexivity.
  - rewrite S2. cbn [length Nat.even] in Ev. exact Ev.
  - rewrite S2. cbn [length] in Lt. lia.
Qed.

Lemma decode_utf16_guarded b : decode_utf16_c true b = Ok (decode_utf16 b).
Proof.
  unfold decode_utf16_c, decode_utf16. cbn [andb].
  destruct (Nat.odd (length b)) eqn:O; [reflexivity|].
  rewrite units_c_ok.
  - reflexivity.
  - cbn [skipn]. rewrite <- Nat.negb_odd, O. reflexivity.
  - cbn [skipn]. lia.
Qed.

(* ------------------------------------------------------------ getAuthPayload *)

Lemma is_prefix_length p : forall v, is_prefix p v = true -> (length p <= length v)%nat.
Proof.
  induction p as [|x p IH]; intros v H; cbn [length]; [lia|].
  destruct v as [|y v]; [discriminate|]. cbn [is_prefix] in H.
  apply andb_true_iff in H. destruct H as [_ H]. specialize (IH v H). cbn [length]. lia.
Qed.

Lemma go_slice_tail {A} (l : list A) n : (n <= length l)%nat -> go_slice l n (length l) = Some (skipn n l).
Proof.
  intro H. unfold go_slice.
  replace (Nat.leb n (length l)) with true by (symmetry; apply Nat.leb_le; lia).
  rewrite Nat.leb_refl. cbn [andb].
  rewrite firstn_all2; [reflexivity|]. rewrite skipn_length. lia.
Qed.

Lemma auth_payload_guarded v :
  auth_payload_c true true v =
  Ok (if is_prefix s_NTLM_ v then (skipn 5 v, AmNtlm)
      else if is_prefix s_Negotiate_ v then (skipn 10 v, AmNegotiate) else ([], AmNone)).
Proof.
  unfold auth_payload_c.
  destruct (is_prefix s_NTLM_ v) eqn:E1.
  { apply is_prefix_length in E1. rewrite go_slice_tail by exact E1. reflexivity. }
  destruct (is_prefix s_Negotiate_ v) eqn:E2; [|reflexivity].
  apply is_prefix_length in E2. rewrite go_slice_tail by exact E2. reflexivity.
Qed.

(* ----------------------------------------------------------------- KDC proxy *)

Lemma udp_payload_guarded data :
  udp_payload_c true data = Ok (if Nat.ltb (length data) 4 then None else Some (skipn 4 data)).
Proof.
  unfold udp_payload_c. cbn [andb].
  destruct (Nat.ltb (length data) 4) eqn:E; [reflexivity|].
  apply Nat.ltb_ge in E. rewrite go_slice_tail by exact E. reflexivity.
Qed.

Lemma udp_payload_agrees message x :
  to_kdc Udp message = Some x -> udp_payload_c true message = Ok (Some x).
Proof.
  unfold to_kdc. intro H. rewrite udp_payload_guarded.
  destruct (Nat.leb 4 (length message)) eqn:E; [|discriminate].
  apply Nat.leb_le in E.
  replace (Nat.ltb (length message) 4) with false by (symmetry; apply Nat.ltb_ge; lia).
  cbn [andb] in H. destruct (blen message - 4 <=? 65507); [|discriminate]. inversion H. reflexivity.
Qed.

(* --------------------------------------------------------- legacy attachment *)

Lemma attached_gset id t g : attached_ok g -> (g_in t = true -> g_out t = true) -> attached_ok (gset id t g).
Proof.
  intros I T id' t' G.
  destruct (N.eq_dec id' id) as [->|Ne].
  - rewrite gget_gset_same in G. inversion G; subst. exact T.
  - rewrite gget_gset_other in G by exact Ne. exact (I id' t' G).
Qed.

Lemma attached_step c g op : attached_ok g -> attached_ok (fst (gstep c g op)).
Proof.
  intro I. destruct op as [id|id|id|id it]; cbn [gstep].
  - cbn [fst]. apply attached_gset; [exact I | reflexivity].
  - cbn [fst]. apply attached_gset; [exact I | reflexivity].
  - destruct (gget id g) as [t|] eqn:G; [|exact I].
    destruct (g_out t && negb (g_in t)); [|exact I].
    cbn [fst]. apply attached_gset; [exact I | reflexivity].
  - destruct (gget id g) as [t|] eqn:G; [|exact I].
    destruct (running t) eqn:R; [|exact I].
    destruct (tstep c (g_st t) it) as [[st' evs] fin]. cbn [fst].
    apply attached_gset; [exact I|]. cbn. exact (I id t G).
Qed.

Lemma attached_always c ops : forall g, attached_ok g -> attached_ok (gfinal c g ops).
Proof.
  induction ops as [|op ops IH]; intros g I; cbn [gfinal]; [exact I|].
  apply IH, attached_step, I.
Qed.

Lemma attached_init : attached_ok [].
Proof. intros id t G. discriminate. Qed.
