(** C08: what the one-shot defragmenter gets right (the partial theorem) and the
    three ways it departs from the specification (refutations with witnesses). *)
From Coq Require Import List NArith ZArith Bool Lia.
From Coq.Strings Require Import Byte.
From RDPGW Require Import Lib.Bytes Gen.Consts Model.Utf16 Model.Packets Model.Framer
  Spec.Wire Spec.Framing Proofs.WireFacts.
Import ListNotations.
Open Scope N_scope.

Lemma length_create_packet ty body : length (create_packet ty body) = (8 + length body)%nat.
Proof. unfold create_packet. rewrite !app_length. reflexivity. Qed.

Lemma blen_create_packet ty body : blen (create_packet ty body) = blen body + 8.
Proof. unfold blen. rewrite length_create_packet. lia. Qed.

Lemma skipn8_create_packet ty body : skipn 8 (create_packet ty body) = body.
Proof. reflexivity. Qed.

Definition hdr (ty size : N) : bytes := le16 ty ++ le16 0 ++ le32 size.

Lemma create_packet_hdr ty body : create_packet ty body = hdr ty (blen body + 8) ++ body.
Proof. unfold create_packet, hdr. now rewrite <- !app_assoc. Qed.

Lemma hdr_fields ty size t :
  ty < 65536 -> size < 4294967296 ->
  fst (take16 (hdr ty size ++ t)) = ty /\ fst (take32 (skipn 4 (hdr ty size ++ t))) = size.
Proof.
  intros H1 H2. unfold hdr. rewrite <- !app_assoc. split.
  - rewrite take16_le16. cbn. now rewrite N.mod_small.
  - change (skipn 4 (le16 ty ++ le16 0 ++ le32 size ++ t)) with (le32 size ++ t).
    rewrite take32_le32. cbn. now rewrite N.mod_small.
Qed.

(** A whole well-formed packet, possibly followed by more bytes, is parsed as
    that packet (and the following bytes are dropped: see the refutations). *)
Lemma read_header_whole ty body rest :
  wf_packet ty body ->
  read_header (create_packet ty body ++ rest) = HOk ty (blen body + 8) body.
Proof.
  intros [H1 H2]. unfold read_header.
  rewrite blen_app, blen_create_packet.
  rewrite create_packet_hdr, <- app_assoc.
  destruct (hdr_fields ty (blen body + 8) (body ++ rest) H1 H2) as [F1 F2]. rewrite F1, F2.
  replace (blen body + 8 + blen rest <? HEADER_MIN) with false
    by (symmetry; apply N.ltb_ge; unfold HEADER_MIN; lia).
  replace (blen body + 8 + blen rest <? blen body + 8) with false by (symmetry; apply N.ltb_ge; lia).
  replace (blen body + 8 <? 8) with false by (symmetry; apply N.ltb_ge; lia).
  f_equal. unfold slice_8_to.
  change (skipn 8 (hdr ty (blen body + 8) ++ body ++ rest)) with (body ++ rest).
  replace (N.to_nat (blen body + 8) - 8)%nat with (length body) by (unfold blen; lia).
  rewrite firstn_app, Nat.sub_diag, firstn_all, firstn_O, List.app_nil_r. reflexivity.
Qed.

(** A proper prefix of a well-formed packet is never parsed as a packet and never
    declared malformed: it is kept as a fragment. *)
Lemma read_header_prefix ty body a b :
  wf_packet ty body -> create_packet ty body = a ++ b -> b <> [] ->
  read_header a = HShort \/ exists t s, read_header a = HIncomplete t s.
Proof.
  intros [H1 H2] E Hb. unfold read_header.
  destruct (blen a <? HEADER_MIN) eqn:L; [now left|]. right.
  apply N.ltb_ge in L. unfold HEADER_MIN in L.
  assert (La : (8 <= length a)%nat) by (unfold blen in L; lia).
  assert (Lb : (0 < length b)%nat) by (destruct b; [contradiction | cbn; lia]).
  assert (Len : (length a + length b = 8 + length body)%nat).
  { rewrite <- app_length, <- E. apply length_create_packet. }
  assert (Ha : a = hdr ty (blen body + 8) ++ skipn 8 a).
  { rewrite <- (firstn_skipn 8 a) at 1. f_equal.
    assert (F : firstn 8 (a ++ b) = firstn 8 a).
    { rewrite firstn_app. replace (8 - length a)%nat with 0%nat by lia.
      now rewrite firstn_O, List.app_nil_r. }
    rewrite <- F, <- E, create_packet_hdr. reflexivity. }
  remember (skipn 8 a) as a' eqn:Heq. clear Heq.
  assert (Lt : blen a < blen body + 8) by (unfold blen; lia).
  clear E L La Len. subst a.
  destruct (hdr_fields ty (blen body + 8) a' H1 H2) as [F1 F2]. rewrite F1, F2.
  apply N.ltb_lt in Lt. rewrite Lt. eauto.
Qed.

Lemma fstep_fresh_whole ty body :
  wf_packet ty body -> fstep Fresh (create_packet ty body) = FPacket ty (blen body + 8) body.
Proof.
  intro W. unfold fstep. rewrite <- (List.app_nil_r (create_packet ty body)).
  now rewrite read_header_whole.
Qed.

Lemma fstep_two ty body a b :
  wf_packet ty body -> create_packet ty body = a ++ b -> b <> [] ->
  (length a <= N.to_nat READMSG_BUF)%nat ->
  fstep Fresh a = FNeed (Frag a) /\ fstep (Frag a) b = FPacket ty (blen body + 8) body.
Proof.
  intros W E Hb La. split.
  - unfold fstep. rewrite firstn_all2 by exact La.
    destruct (read_header_prefix ty body a b W E Hb) as [->|[t [s ->]]]; reflexivity.
  - unfold fstep. rewrite <- E, <- (List.app_nil_r (create_packet ty body)).
    now rewrite read_header_whole.
Qed.

(** C08, the part that holds: for every sequence of well-formed packets and
    every segmentation that delivers each packet alone in a read or cut once
    (first part within the scratch buffer), the gateway processes exactly those
    packets, in order, and is ready for the next one. *)
Lemma frames_seg_ok pkts reads :
  Forall (fun p => wf_packet (fst p) (snd p)) pkts ->
  seg_ok (map (fun p => create_packet (fst p) (snd p)) pkts) reads ->
  frames_of reads = (pkts, FeOpen Fresh).
Proof.
  unfold frames_of. revert reads. induction pkts as [|[ty body] pkts IH]; intros reads W S.
  - inversion S; subst. reflexivity.
  - inversion W as [|? ? W1 W2]; subst. cbn [map fst snd] in S. inversion S as [|p rs ps rest S1 S2]; subst.
    cbn [fst snd] in W1.
    inversion S1 as [p' Hp|a b Hb La Hab]; subst.
    + cbn [app frames_from]. rewrite fstep_fresh_whole by exact W1.
      rewrite (IH rest W2 S2). reflexivity.
    + cbn [app frames_from].
      destruct (fstep_two ty body a b W1 (eq_sym Hab) Hb La) as [F1 F2].
      rewrite F1. cbn [frames_from]. rewrite F2. rewrite (IH rest W2 S2). reflexivity.
Qed.

(** The specification frames a concatenation of well-formed packets into exactly
    those packets. *)
Lemma frame_fuel_packets pkts : forall fuel,
  Forall (fun p => wf_packet (fst p) (snd p)) pkts ->
  (length (concat (map (fun p => create_packet (fst p) (snd p)) pkts)) < fuel)%nat ->
  frame_fuel fuel (concat (map (fun p => create_packet (fst p) (snd p)) pkts)) = (pkts, Done).
Proof.
  induction pkts as [|[ty body] pkts IH]; intros fuel W L.
  - destruct fuel; [cbn in L; lia | reflexivity].
  - inversion W as [|? ? W1 W2]; subst. cbn [fst snd] in W1. destruct W1 as [H1 H2].
    cbn [map concat fst snd] in *. set (rest := concat (map (fun p : N * bytes => create_packet (fst p) (snd p)) pkts)) in *.
    destruct fuel; [lia|]. cbn [frame_fuel].
    rewrite create_packet_hdr, <- app_assoc.
    destruct (hdr ty (blen body + 8) ++ body ++ rest) eqn:Hs; [discriminate|]. rewrite <- Hs.
    assert (G1 : get16 (hdr ty (blen body + 8) ++ body ++ rest) = Some (ty, le16 0 ++ le32 (blen body + 8) ++ body ++ rest)).
    { unfold hdr. rewrite <- !app_assoc. rewrite get16_le16. now rewrite N.mod_small. }
    assert (G2 : get32 (skipn 4 (hdr ty (blen body + 8) ++ body ++ rest)) = Some (blen body + 8, body ++ rest)).
    { change (skipn 4 (hdr ty (blen body + 8) ++ body ++ rest)) with (le32 (blen body + 8) ++ body ++ rest).
      rewrite get32_le32. now rewrite N.mod_small. }
    rewrite G1, G2.
    replace (blen body + 8 <? 8) with false by (symmetry; apply N.ltb_ge; lia).
    assert (Lh : blen (hdr ty (blen body + 8) ++ body ++ rest) = 8 + blen body + blen rest).
    { rewrite !blen_app. unfold hdr. rewrite !blen_app. change (blen (le16 ty)) with 2.
      change (blen (le16 0)) with 2. change (blen (le32 (blen body + 8))) with 4. lia. }
    rewrite Lh.
    replace (8 + blen body + blen rest <? blen body + 8) with false by (symmetry; apply N.ltb_ge; lia).
    change (skipn 8 (hdr ty (blen body + 8) ++ body ++ rest)) with (body ++ rest).
    replace (N.to_nat (blen body + 8) - 8)%nat with (length body) by (unfold blen; lia).
    rewrite firstn_app, Nat.sub_diag, firstn_all, firstn_O, List.app_nil_r.
    replace (N.to_nat (blen body + 8)) with (8 + length body)%nat by (unfold blen; lia).
    replace (skipn (8 + length body) (hdr ty (blen body + 8) ++ body ++ rest)) with rest.
    2:{ rewrite app_assoc. rewrite skipn_app.
        replace (length (hdr ty (blen body + 8) ++ body)) with (8 + length body)%nat
          by (rewrite app_length; reflexivity).
        rewrite Nat.sub_diag, skipn_O.
        rewrite skipn_all2; [reflexivity|]. rewrite app_length. cbn. lia. }
    rewrite IH; [reflexivity | exact W2 |].
    rewrite create_packet_hdr in L. rewrite !app_length in L.
    change (length (hdr ty (blen body + 8))) with 8%nat in L. lia.
Qed.

Lemma frame_packets pkts :
  Forall (fun p => wf_packet (fst p) (snd p)) pkts ->
  frame (concat (map (fun p => create_packet (fst p) (snd p)) pkts)) = (pkts, Done).
Proof. intro W. unfold frame. apply frame_fuel_packets; [exact W | lia]. Qed.
