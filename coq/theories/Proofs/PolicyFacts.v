(** C03/C04: the policy code decides exactly the declarative policy. *)
From Coq Require Import List NArith Bool Lia.
From Coq.Strings Require Import Byte.
From RDPGW Require Import Lib.Bytes Gen.Consts Model.Policy Spec.HostPolicy.
Import ListNotations.
Open Scope N_scope.

Lemma hmode_any m : hmode_of m = HAny <-> m = s_any.
Proof.
  unfold hmode_of. destruct (bytes_eqb m s_any) eqn:E.
  - apply bytes_eqb_eq in E. tauto.
  - apply bytes_eqb_neq in E.
    destruct (bytes_eqb m s_signed); [split; [discriminate|contradiction]|].
    destruct (bytes_eqb m s_roundrobin || bytes_eqb m s_unsigned); split; try discriminate; contradiction.
Qed.

Lemma hmode_list m : hmode_of m = HList <-> (m = s_roundrobin \/ m = s_unsigned).
Proof.
  unfold hmode_of. destruct (bytes_eqb m s_any) eqn:E1.
  - apply bytes_eqb_eq in E1. subst. split; [discriminate|]. intros [H|H]; discriminate.
  - destruct (bytes_eqb m s_signed) eqn:E2.
    + apply bytes_eqb_eq in E2. subst. split; [discriminate|]. intros [H|H]; discriminate.
    + destruct (bytes_eqb m s_roundrobin) eqn:E3; cbn [orb].
      * apply bytes_eqb_eq in E3. tauto.
      * destruct (bytes_eqb m s_unsigned) eqn:E4.
        -- apply bytes_eqb_eq in E4. tauto.
        -- apply bytes_eqb_neq in E3, E4. split; [discriminate | tauto].
Qed.

Lemma check_host_iff mode hosts user host :
  check_host mode hosts user host = true <-> mode_allows mode hosts user host.
Proof.
  unfold check_host, mode_allows.
  destruct (hmode_of mode) eqn:M.
  - apply hmode_any in M. tauto.
  - split; [discriminate|]. intros [H|[H _]].
    + apply hmode_any in H. congruence.
    + apply hmode_list in H. congruence.
  - apply hmode_list in M. destruct user as [|u us].
    + split; [discriminate|]. intros [H|[_ [H _]]]; [|contradiction].
      apply hmode_any in H. apply hmode_list in M. congruence.
    + rewrite existsb_exists. split.
      * intros [e [He Hb]]. right. split; [exact M|]. split; [discriminate|].
        exists e. apply bytes_eqb_eq in Hb. auto.
      * intros [H|[_ [_ [e [He Hb]]]]].
        -- apply hmode_any in H. apply hmode_list in M. congruence.
        -- exists e. split; [exact He|]. apply bytes_eqb_eq. exact Hb.
  - split; [discriminate|]. intros [H|[H _]].
    + apply hmode_any in H. congruence.
    + apply hmode_list in H. congruence.
Qed.

Lemma wired_policy_iff tok verify mode hosts t ip host :
  wired_policy tok verify mode hosts t ip host = true <-> allowed tok verify mode hosts t ip host.
Proof.
  unfold wired_policy, allowed, check_session. destruct tok.
  - destruct (bytes_eqb (t_target t) host) eqn:E1; cbn [negb].
    + apply bytes_eqb_eq in E1. destruct verify; cbn [andb].
      * destruct (bytes_eqb (t_remote t) ip) eqn:E2; cbn [negb].
        -- apply bytes_eqb_eq in E2. rewrite check_host_iff. tauto.
        -- apply bytes_eqb_neq in E2. split; [discriminate|]. intros [H _].
           destruct (H eq_refl) as [_ H2]. now specialize (H2 eq_refl).
      * rewrite check_host_iff. split; [intro H; split; auto; intros _; split; auto; discriminate | tauto].
    + apply bytes_eqb_neq in E1. split; [discriminate|]. intros [H _]. destruct (H eq_refl). contradiction.
  - rewrite check_host_iff. split; [intro H; split; auto; discriminate | tauto].
Qed.

Lemma allowed_b_iff tok verify mode hosts t ip host :
  allowed_b tok verify mode hosts t ip host = wired_policy tok verify mode hosts t ip host.
Proof.
  unfold allowed_b, wired_policy, check_session, check_host, hmode_of, entry_for.
  destruct (bytes_eqb mode s_any) eqn:E1.
  - cbn [orb andb]. destruct tok; cbn [negb orb]; [|reflexivity].
    destruct (bytes_eqb (t_target t) host); cbn [negb andb]; [|reflexivity].
    destruct verify; cbn [negb andb orb]; [|reflexivity].
    destruct (bytes_eqb (t_remote t) ip); reflexivity.
  - cbn [orb]. destruct (bytes_eqb mode s_signed) eqn:E2.
    + apply bytes_eqb_eq in E2. subst mode. cbn [bytes_eqb].
      change (bytes_eqb s_signed s_roundrobin) with false. change (bytes_eqb s_signed s_unsigned) with false.
      cbn [orb andb]. destruct tok; [|reflexivity].
      destruct (bytes_eqb (t_target t) host); cbn [negb]; [|reflexivity].
      destruct (verify && negb (bytes_eqb (t_remote t) ip)); reflexivity.
    + destruct (bytes_eqb mode s_roundrobin || bytes_eqb mode s_unsigned); cbn [andb].
      * destruct (t_user t) as [|u us] eqn:U.
        -- cbn [bytes_eqb negb andb]. destruct tok; [|reflexivity].
           destruct (bytes_eqb (t_target t) host); cbn [negb]; [|reflexivity].
           destruct (verify && negb (bytes_eqb (t_remote t) ip)); reflexivity.
        -- cbn [bytes_eqb negb andb].
           destruct (existsb _ hosts); cbn [andb]; destruct tok; cbn [negb orb]; try reflexivity;
             destruct (bytes_eqb (t_target t) host); cbn [negb andb]; try reflexivity;
             destruct verify; cbn [negb andb orb]; try reflexivity;
             destruct (bytes_eqb (t_remote t) ip); reflexivity.
      * destruct tok; [|reflexivity].
        destruct (bytes_eqb (t_target t) host); cbn [negb]; [|reflexivity].
        destruct (verify && negb (bytes_eqb (t_remote t) ip)); reflexivity.
Qed.
