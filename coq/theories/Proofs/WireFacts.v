(** Builders against the reference decoders: the small rewriting lemmas. *)
From Coq Require Import List NArith ZArith Bool Lia.
From Coq.Strings Require Import Byte.
From RDPGW Require Import Lib.Bytes Gen.Consts Model.Utf16 Model.Packets Spec.Wire.
Import ListNotations.
Open Scope N_scope.

Lemma get8_n2b n r : get8 (n2b n :: r) = Some (n mod 256, r).
Proof. unfold get8. now rewrite b2n_n2b. Qed.

Lemma get16_le16 n r : get16 (le16 n ++ r) = Some (n mod 65536, r).
Proof.
  pose proof (take16_le16 n r) as H. unfold le16 in *. cbn [app] in *.
  unfold take16 in H. unfold get16. now inversion H.
Qed.

Lemma get32_le32 n r : get32 (le32 n ++ r) = Some (n mod 4294967296, r).
Proof.
  pose proof (take32_le32 n r) as H. unfold le32 in *. cbn [app] in *.
  unfold take32 in H. unfold get32. now inversion H.
Qed.

Lemma getn_exact l r : getn (length l) (l ++ r) = Some (l, r).
Proof.
  unfold getn. rewrite app_length.
  replace (Nat.leb (length l) (length l + length r)) with true
    by (symmetry; apply Nat.leb_le; lia).
  rewrite firstn_app, Nat.sub_diag, firstn_all, firstn_O, List.app_nil_r.
  rewrite skipn_app, Nat.sub_diag, skipn_all, skipn_O. reflexivity.
Qed.

Lemma blen_app a b : blen (a ++ b) = blen a + blen b.
Proof. unfold blen. rewrite app_length. lia. Qed.

Lemma blen_cons a l : blen (a :: l) = 1 + blen l.
Proof. unfold blen. cbn [length]. lia. Qed.

(** A packet made by [createPacket] decodes to its type and body, and its
    length field is the number of bytes sent — provided the body fits the
    32-bit length field. *)
Lemma decode_create_packet ty data :
  ty < 65536 -> blen data + 8 < 4294967296 ->
  decode_packet (create_packet ty data) =
  Some {| pk_type := ty; pk_reserved := 0; pk_length := blen (create_packet ty data); pk_body := data |}.
Proof.
  intros Hty Hlen. unfold decode_packet, create_packet.
  rewrite get16_le16. cbn [bind]. rewrite get16_le16. cbn [bind].
  rewrite get32_le32. cbn [bind].
  rewrite !blen_app. change (blen (le16 ty)) with 2. change (blen (le16 0)) with 2.
  change (blen (le32 (blen data + 8))) with 4.
  rewrite (N.mod_small ty) by lia. rewrite (N.mod_small (blen data + 8)) by lia.
  replace (2 + (2 + (4 + blen data))) with (blen data + 8) by lia.
  rewrite N.eqb_refl. reflexivity.
Qed.
