(** C07: tunnels with distinct connection identifiers do not interfere. *)
From Coq Require Import List NArith ZArith Bool Lia.
From Coq.Strings Require Import Byte.
From RDPGW Require Import Lib.Bytes Gen.Consts Model.Packets Model.Processor Model.System.
Import ListNotations.
Open Scope N_scope.

Lemma gget_gset_same id t g : gget id (gset id t g) = Some t.
Proof.
  induction g as [|[i t'] g IH]; cbn [gset gget]; [now rewrite N.eqb_refl|].
  destruct (id =? i) eqn:E; cbn [gget]; [now rewrite N.eqb_refl | now rewrite E].
Qed.

Lemma gget_gset_other id id' t g : id <> id' -> gget id (gset id' t g) = gget id g.
Proof.
  intro H. induction g as [|[i t'] g IH]; cbn [gset gget].
  - apply N.eqb_neq in H. now rewrite H.
  - destruct (id' =? i) eqn:E.
    + apply N.eqb_eq in E. subst i. cbn [gget]. apply N.eqb_neq in H. now rewrite H.
    + cbn [gget]. destruct (id =? i); [reflexivity | exact IH].
Qed.

(** An operation on another connection leaves this tunnel's entry untouched. *)
Lemma gstep_other c g op id : op_id op <> id -> gget id (fst (gstep c g op)) = gget id g.
Proof.
  intro H. assert (H' : id <> op_id op) by congruence.
  destruct op as [i|i|i|i it]; cbn [op_id] in *; unfold gstep.
  - cbn [fst]. now apply gget_gset_other.
  - cbn [fst]. now apply gget_gset_other.
  - destruct (gget i g) as [t|]; [|reflexivity].
    destruct (g_out t && negb (g_in t)); cbn [fst]; [now apply gget_gset_other | reflexivity].
  - destruct (gget i g) as [t|]; [|reflexivity].
    destruct (running t); [|reflexivity].
    destruct (tstep c (g_st t) it) as [[st' evs] fin]. cbn [fst]. now apply gget_gset_other.
Qed.

(** The answer to an operation depends only on its own tunnel's entry. *)
Lemma gstep_local c g1 g2 op :
  gget (op_id op) g1 = gget (op_id op) g2 ->
  snd (gstep c g1 op) = snd (gstep c g2 op) /\
  gget (op_id op) (fst (gstep c g1 op)) = gget (op_id op) (fst (gstep c g2 op)).
Proof.
  intro H. destruct op as [i|i|i|i it]; cbn [op_id] in *; unfold gstep.
  - cbn [fst snd]. split; [reflexivity | now rewrite !gget_gset_same].
  - rewrite H. cbn [fst snd]. split; [reflexivity | now rewrite !gget_gset_same].
  - rewrite H. destruct (gget i g2) as [t|] eqn:G; [|cbn [fst snd]; split; [reflexivity | congruence]].
    destruct (g_out t && negb (g_in t)); cbn [fst snd];
      [split; [reflexivity | now rewrite !gget_gset_same] | split; [reflexivity | congruence]].
  - rewrite H. destruct (gget i g2) as [t|] eqn:G; [|cbn [fst snd]; split; [reflexivity | congruence]].
    destruct (running t); [|cbn [fst snd]; split; [reflexivity | congruence]].
    destruct (tstep c (g_st t) it) as [[st' evs] fin]. cbn [fst snd].
    split; [reflexivity | now rewrite !gget_gset_same].
Qed.

(** Non-interference: what a tunnel sees in any interleaving with any other
    tunnels equals what it sees when its own operations run alone. *)
Theorem noninterference c id ops : forall g1 g2,
  gget id g1 = gget id g2 ->
  project id (grun c g1 ops) = project id (grun c g2 (own_ops id ops)).
Proof.
  induction ops as [|op ops IH]; intros g1 g2 H; [reflexivity|].
  cbn [grun own_ops filter]. destruct (gstep c g1 op) as [g1' o1] eqn:S1.
  destruct (op_id op =? id) eqn:E.
  - apply N.eqb_eq in E. cbn [grun]. destruct (gstep c g2 op) as [g2' o2] eqn:S2.
    unfold project. cbn [filter fst]. rewrite E, N.eqb_refl. cbn [map snd].
    rewrite <- E in H. destruct (gstep_local c g1 g2 op H) as [A B].
    rewrite S1, S2 in A, B. cbn [fst snd] in A, B. subst o2. f_equal.
    apply IH. now rewrite <- E.
  - unfold project. cbn [filter fst]. rewrite E. apply IH.
    apply N.eqb_neq in E. rewrite <- H. pose proof (gstep_other c g1 op id E) as G. now rewrite S1 in G.
Qed.

(** Legacy pairing: an inbound request is attached iff an outbound channel with
    the SAME connection identifier exists (and no inbound channel yet). *)
Theorem pairing c g id :
  snd (gstep c g (GOpenIn id)) = GAccepted <->
  exists t, gget id g = Some t /\ g_out t = true /\ g_in t = false.
Proof.
  unfold gstep. destruct (gget id g) as [t|]; [|split; [discriminate | intros [t [H _]]; discriminate]].
  destruct (g_out t) eqn:O; destruct (g_in t) eqn:I; cbn [andb negb snd]; split.
  - discriminate.
  - intros [t' [H [A B]]]. inversion H; subst. congruence.
  - intros _. exists t. auto.
  - reflexivity.
  - discriminate.
  - intros [t' [H [A B]]]. inversion H; subst. congruence.
  - discriminate.
  - intros [t' [H [A B]]]. inversion H; subst. congruence.
Qed.

Theorem pairing_needs_same_id c g id id' :
  id <> id' -> gget id' g = None ->
  snd (gstep c (fst (gstep c g (GOpenOut id))) (GOpenIn id')) = GRefused.
Proof.
  intros H N.
  assert (G : gget id' (fst (gstep c g (GOpenOut id))) = None).
  { unfold gstep. cbn [fst]. rewrite gget_gset_other by congruence. exact N. }
  remember (fst (gstep c g (GOpenOut id))) as g'. unfold gstep. rewrite G. reflexivity.
Qed.
