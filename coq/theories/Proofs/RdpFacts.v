(** C19: the RDP-file parser inverts the marshaller. *)
From Coq Require Import List NArith ZArith Bool Lia Permutation.
From Coq.Strings Require Import Byte.
From RDPGW Require Import Lib.Bytes Gen.Consts Model.RdpFile.
Import ListNotations.
Open Scope Z_scope.

(* ---------------------------------------------------------------- basics *)

Lemma lrev_rev l : lrev l = rev l.
Proof. unfold lrev. rewrite rev_append_rev. apply app_nil_r. Qed.

(** Bytes that can neither start nor end a blank rune: ASCII and not a blank. *)
Definition edge_ok (b : byte) : bool := (b2n b <? 128)%N && negb (ascii_space b).

Definition no_byte (c : byte) (s : bytes) : Prop := contains_byte c s = false.

(** A string whose first and last bytes are ASCII non-blanks (or the empty string). *)
Definition trimmedA (s : bytes) : Prop :=
  match s with
  | [] => True
  | a :: _ => edge_ok a = true /\ edge_ok (last s x00) = true
  end.

Lemma edge_not_space2_l a b : edge_ok a = true -> space2 a b = false.
Proof.
  unfold edge_ok, space2. intro H. apply andb_true_iff in H as [H _]. apply N.ltb_lt in H.
  destruct a; try reflexivity; vm_compute in H; discriminate.
Qed.
Lemma edge_not_space3_l a b c : edge_ok a = true -> space3 a b c = false.
Proof.
  unfold edge_ok, space3. intro H. apply andb_true_iff in H as [H _]. apply N.ltb_lt in H.
  destruct a; try reflexivity; vm_compute in H; discriminate.
Qed.
Lemma edge_not_space2_r a b : edge_ok b = true -> space2 a b = false.
Proof.
  unfold edge_ok, space2. intro H. apply andb_true_iff in H as [H _]. apply N.ltb_lt in H.
  destruct a; try reflexivity. destruct b; try reflexivity; vm_compute in H; discriminate.
Qed.
Lemma edge_not_space3_r a b c : edge_ok c = true -> space3 a b c = false.
Proof.
  unfold edge_ok. intro H. apply andb_true_iff in H as [H _]. apply N.ltb_lt in H.
  unfold space3.
  assert (Hc : forall x, (128 <= b2n x)%N -> Byte.eqb c x = false).
  { intros x Hx. destruct (Byte.eqb c x) eqn:E; [|reflexivity]. apply byte_eqb_eq in E. subst. lia. }
  assert (R : (128 <=? b2n c)%N = false) by (apply N.leb_gt; exact H).
  destruct a; try reflexivity; destruct b; try reflexivity;
    rewrite ?R, ?Hc by (vm_compute; discriminate); reflexivity.
Qed.

Lemma lead_space_edge a s : edge_ok a = true -> lead_space (a :: s) = 0%nat.
Proof.
  intro H. unfold lead_space.
  assert (A : ascii_space a = false).
  { unfold edge_ok in H. apply andb_true_iff in H as [_ H]. now apply negb_true_iff in H. }
  rewrite A. destruct s as [|b s]; [reflexivity|]. rewrite edge_not_space2_l by exact H.
  destruct s as [|c s]; [reflexivity|]. now rewrite edge_not_space3_l.
Qed.

Lemma trail_space_edge c r : edge_ok c = true -> trail_space (c :: r) = 0%nat.
Proof.
  intro H. unfold trail_space.
  assert (A : ascii_space c = false).
  { unfold edge_ok in H. apply andb_true_iff in H as [_ H]. now apply negb_true_iff in H. }
  rewrite A. destruct r as [|b r]; [reflexivity|]. rewrite edge_not_space2_r by exact H.
  destruct r as [|a r]; [reflexivity|]. now rewrite edge_not_space3_r.
Qed.

Lemma trim_l_edge fuel a s : edge_ok a = true -> trim_l fuel (a :: s) = a :: s.
Proof. intro H. destruct fuel; [reflexivity|]. cbn [trim_l]. now rewrite lead_space_edge. Qed.

Lemma trim_r_edge fuel c r : edge_ok c = true -> trim_r_rev fuel (c :: r) = c :: r.
Proof. intro H. destruct fuel; [reflexivity|]. cbn [trim_r_rev]. now rewrite trail_space_edge. Qed.

Lemma rev_last_cons (s : bytes) a : rev (a :: s) = last (a :: s) x00 :: rev (removelast (a :: s)).
Proof.
  assert (H : a :: s <> []) by discriminate.
  rewrite (app_removelast_last x00 H) at 1. rewrite rev_app_distr. reflexivity.
Qed.

(** A string with ASCII non-blank edges is its own [strings.TrimSpace]. *)
Lemma trim_space_id s : trimmedA s -> trim_space s = s.
Proof.
  destruct s as [|a s]; [reflexivity|]. intros [H1 H2]. unfold trim_space.
  rewrite trim_l_edge by exact H1. rewrite !lrev_rev. rewrite rev_last_cons.
  rewrite trim_r_edge by exact H2. rewrite <- rev_last_cons. apply rev_involutive.
Qed.

(** Concatenations keep ASCII non-blank edges. *)
Lemma last_app_cons (a : bytes) x b : last (a ++ x :: b) x00 = last (x :: b) x00.
Proof.
  induction a as [|y a IH]; [reflexivity|]. cbn [app].
  destruct (a ++ x :: b) eqn:E; [destruct a; discriminate|]. exact IH.
Qed.

Lemma trimmedA_app a x b :
  a <> [] -> trimmedA a -> edge_ok (last (x :: b) x00) = true -> trimmedA (a ++ x :: b).
Proof.
  destruct a as [|y a]; [contradiction|]. intros _ [H1 _] H2. cbn [app trimmedA]. split; [exact H1|].
  change (y :: a ++ x :: b) with ((y :: a) ++ x :: b). now rewrite last_app_cons.
Qed.

(* ---------------------------------------------------------------- lines *)

Lemma cut_colon_app k rest :
  no_byte x3a k -> cut_colon (k ++ x3a :: rest) = (k, Some rest).
Proof.
  unfold no_byte. induction k as [|c k IH]; intro H; cbn [app cut_colon contains_byte] in *.
  - reflexivity.
  - apply orb_false_iff in H as [H1 H2]. rewrite H1. now rewrite IH.
Qed.

Lemma splitn3_line k t v :
  no_byte x3a k -> no_byte x3a t ->
  splitn3 (k ++ x3a :: t ++ x3a :: v) = Some (k, t, v).
Proof. intros Hk Ht. unfold splitn3. rewrite cut_colon_app by exact Hk. now rewrite cut_colon_app. Qed.

(** decimal digits *)
Definition is_digit (b : byte) : bool :=
  match b with x30 | x31 | x32 | x33 | x34 | x35 | x36 | x37 | x38 | x39 => true | _ => false end.

Lemma uint_bytes_digits u : forallb is_digit (uint_bytes u) = true.
Proof. induction u; cbn; auto. Qed.

Lemma dec_digits n : forallb is_digit (dec n) = true.
Proof. apply uint_bytes_digits. Qed.

Lemma digit_edge b : is_digit b = true -> edge_ok b = true.
Proof. destruct b; try discriminate; reflexivity. Qed.

Lemma forallb_last (f : byte -> bool) l : l <> [] -> forallb f l = true -> f (last l x00) = true.
Proof.
  induction l as [|a l IH]; [contradiction|]. intros _ H. cbn [forallb] in H. apply andb_true_iff in H as [H1 H2].
  destruct l as [|b l]; [exact H1|]. apply IH; [discriminate | exact H2].
Qed.

Lemma dec_trimmedA n : trimmedA (dec n).
Proof.
  pose proof (dec_nonempty n) as Hn. pose proof (dec_digits n) as Hd.
  destruct (dec n) as [|a l] eqn:E; [contradiction|]. split.
  - cbn [forallb] in Hd. apply andb_true_iff in Hd as [Hd _]. now apply digit_edge.
  - apply digit_edge. apply forallb_last; [discriminate | exact Hd].
Qed.

Lemma dec_head n : exists d l, dec n = d :: l /\ is_digit d = true.
Proof.
  pose proof (dec_nonempty n) as Hn. pose proof (dec_digits n) as Hd.
  destruct (dec n) as [|a l]; [contradiction|]. exists a, l. split; [reflexivity|].
  cbn [forallb] in Hd. now apply andb_true_iff in Hd as [Hd _].
Qed.

(** [strconv.Atoi] inverts [%d] on the int64 range. *)
Lemma atoi_render z : int64_min <= z <= int64_max -> atoi (render_int z) = Some z.
Proof.
  intro H. unfold render_int. destruct (z <? 0) eqn:E.
  - apply Z.ltb_lt in E. unfold atoi. cbv beta iota. rewrite undec_dec.
    rewrite Z2N.id by lia. rewrite Z.opp_involutive.
    replace ((int64_min <=? z) && (z <=? int64_max)) with true; [reflexivity|].
    symmetry. apply andb_true_iff. split; apply Z.leb_le; lia.
  - apply Z.ltb_ge in E. destruct (dec_head (Z.to_N z)) as [d [l [Hd Hdig]]].
    assert (R : (int64_min <=? z) && (z <=? int64_max) = true)
      by (apply andb_true_iff; split; apply Z.leb_le; lia).
    unfold atoi. rewrite Hd.
    destruct d; try discriminate; cbv beta iota; rewrite <- Hd, undec_dec, Z2N.id by lia;
      rewrite R; reflexivity.
Qed.

Lemma render_int_trimmedA z : trimmedA (render_int z).
Proof.
  unfold render_int. destruct (z <? 0).
  - pose proof (dec_trimmedA (Z.to_N (- z))) as T. pose proof (dec_nonempty (Z.to_N (- z))) as Hn.
    destruct (dec (Z.to_N (- z))) as [|a l] eqn:E; [contradiction|].
    split; [reflexivity|]. destruct T as [_ T]. exact T.
  - apply dec_trimmedA.
Qed.

(** Well-formed keys and values of the property statement (edges ASCII: see
    the partiality note in Properties/C19.v). *)
Definition wf_key (k : bytes) : Prop :=
  k <> [] /\ trimmedA k /\ no_byte x3a k /\ no_byte x0a k /\ hd x00 k <> x23.
Definition wf_value (v : value) : Prop :=
  match v with
  | VInt z => int64_min <= z <= int64_max
  | VStr s => trimmedA s /\ no_byte x0a s
  end.

Definition body_of (e : kv) : bytes :=
  match snd e with
  | VInt z => fst e ++ x3a :: [x69] ++ x3a :: render_int z
  | VStr s => fst e ++ x3a :: [x73] ++ x3a :: s
  end.

Lemma render_line_body e : render_line e = body_of e ++ [x0d; x0a].
Proof. destruct e as [k [z|s]]; unfold render_line, body_of; cbn [fst snd app]; rewrite <- !app_assoc; reflexivity. Qed.

Lemma body_trimmedA k v : wf_key k -> wf_value v -> trimmedA (body_of (k, v)).
Proof.
  intros [Hk [Tk _]] Hv. unfold body_of; cbn [fst snd].
  destruct v as [z|s]; cbn [app].
  - pose proof (render_int_trimmedA z) as T.
    destruct (render_int z) as [|a l] eqn:E.
    + exfalso. unfold render_int in E. destruct (z <? 0); [discriminate|]. now apply dec_nonempty in E.
    + apply trimmedA_app; [exact Hk | exact Tk |].
      destruct T as [_ T].
      change (last (x3a :: x69 :: x3a :: a :: l) x00) with (last (a :: l) x00). exact T.
  - destruct Hv as [Ts _]. apply trimmedA_app; [exact Hk | exact Tk |].
    destruct s as [|a l]; [reflexivity|]. destruct Ts as [_ Ts].
    change (last (x3a :: x73 :: x3a :: a :: l) x00) with (last (a :: l) x00). exact Ts.
Qed.

Lemma parse_line_body k v : wf_key k -> wf_value v -> parse_line (body_of (k, v)) = LEntry k v.
Proof.
  intros Hk Hv. pose proof (body_trimmedA k v Hk Hv) as T.
  destruct Hk as [Hne [Tk [Hc [_ Hh]]]].
  unfold parse_line. rewrite trim_space_id by exact T.
  assert (Hb : exists a l, body_of (k, v) = a :: l /\ a <> x23).
  { destruct k as [|a k]; [contradiction|]. cbn [hd] in Hh.
    unfold body_of; cbn [fst snd]. destruct v; cbn [app]; eauto. }
  destruct Hb as [a [l [Hb Ha]]]. rewrite Hb.
  replace (match a :: l with [] => LSkip | x23 :: _ => LSkip | _ => _ end)
    with (match splitn3 (a :: l) with
          | None => LError
          | Some (f0, f1, f2) =>
              let key := trim_space f0 in let t := trim_space f1 in let val := trim_space f2 in
              if bytes_eqb t [x69] then match atoi val with Some z => LEntry key (VInt z) | None => LError end
              else if bytes_eqb t [x73] || bytes_eqb t [x62] then LEntry key (VStr val) else LError
          end)
    by (destruct a; try reflexivity; contradiction).
  rewrite <- Hb. unfold body_of; cbn [fst snd].
  destruct v as [z|s].
  - rewrite splitn3_line by (exact Hc || reflexivity). cbv zeta.
    rewrite (trim_space_id k Tk). change (trim_space [x69]) with [x69]. cbn [bytes_eqb Byte.eqb andb].
    rewrite trim_space_id by apply render_int_trimmedA. now rewrite atoi_render.
  - rewrite splitn3_line by (exact Hc || reflexivity). cbv zeta.
    rewrite (trim_space_id k Tk). change (trim_space [x73]) with [x73].
    change (bytes_eqb [x73] [x69]) with false. change (bytes_eqb [x73] [x73]) with true. cbn [orb].
    destruct Hv as [Ts _]. now rewrite (trim_space_id s Ts).
Qed.

(* ---------------------------------------------------------------- scanner *)

Lemma split_lf_line l : forall cur rest,
  no_byte x0a l ->
  split_lf cur (l ++ [x0d; x0a] ++ rest) = (rev cur ++ l) :: split_lf [] rest.
Proof.
  unfold no_byte. induction l as [|c l IH]; intros cur rest H; cbn [app split_lf contains_byte] in *.
  - change (Byte.eqb x0d x0a) with false. cbn [split_lf]. change (Byte.eqb x0a x0a) with true.
    unfold drop_cr_rev. rewrite lrev_rev, app_nil_r. reflexivity.
  - apply orb_false_iff in H as [H1 H2]. rewrite H1. rewrite IH by exact H2.
    cbn [rev]. now rewrite <- app_assoc.
Qed.

Lemma scan_lines_rendered (ls : list bytes) :
  Forall (no_byte x0a) ls ->
  scan_lines (concat (map (fun l => l ++ [x0d; x0a]) ls)) = ls.
Proof.
  unfold scan_lines. induction ls as [|l ls IH]; intro H; [reflexivity|].
  inversion H as [|? ? H1 H2]; subst. cbn [map concat]. rewrite <- app_assoc.
  rewrite split_lf_line by exact H1. cbn [rev app]. now rewrite IH.
Qed.

(* ---------------------------------------------------------------- maps *)

Definition keys (m : list kv) : list bytes := map fst m.

Lemma set_kv_fresh k v m : ~ In k (keys m) -> set_kv k v m = m ++ [(k, v)].
Proof.
  induction m as [|[k' v'] m IH]; intro H; cbn [set_kv app]; [reflexivity|].
  cbn [keys map fst In] in H.
  destruct (bytes_eqb k k') eqn:E; [apply bytes_eqb_eq in E; subst; tauto|].
  rewrite IH by tauto. reflexivity.
Qed.

Lemma parse_lines_entries l : forall acc,
  Forall (fun e => wf_key (fst e) /\ wf_value (snd e)) l ->
  NoDup (keys (acc ++ l)) ->
  parse_lines (map body_of l) acc = Some (acc ++ l).
Proof.
  induction l as [|[k v] l IH]; intros acc W N; cbn [map parse_lines].
  - now rewrite app_nil_r.
  - inversion W as [|? ? [W1 W2] W3]; subst. cbn [fst snd] in *.
    rewrite parse_line_body by assumption.
    assert (Hf : ~ In k (keys acc)).
    { unfold keys in N. rewrite map_app in N. apply NoDup_remove_2 in N.
      intro I. apply N. apply in_or_app. now left. }
    rewrite set_kv_fresh by exact Hf.
    rewrite IH; [now rewrite <- app_assoc | exact W3 | now rewrite <- app_assoc].
Qed.

Lemma body_no_lf e : wf_key (fst e) -> wf_value (snd e) -> no_byte x0a (body_of e).
Proof.
  destruct e as [k v]. cbn [fst snd]. intros [_ [_ [_ [Hk _]]]] Hv. unfold no_byte, body_of in *; cbn [fst snd].
  assert (A : forall a b, contains_byte x0a (a ++ b) = contains_byte x0a a || contains_byte x0a b).
  { induction a as [|x a IHa]; intro b; cbn; [reflexivity|]. rewrite IHa. now rewrite orb_assoc. }
  destruct v as [z|s]; rewrite A, Hk; cbn [orb contains_byte app Byte.eqb].
  - change (Byte.eqb x3a x0a) with false. change (Byte.eqb x69 x0a) with false. cbn [orb].
    unfold render_int. destruct (z <? 0); cbn [contains_byte].
    + change (Byte.eqb x2d x0a) with false. cbn [orb].
      pose proof (dec_digits (Z.to_N (- z))) as D. induction (dec (Z.to_N (- z))) as [|d l IHl]; [reflexivity|].
      cbn [forallb] in D. apply andb_true_iff in D as [D1 D2]. cbn [contains_byte].
      rewrite IHl by exact D2. destruct d; try discriminate; reflexivity.
    + pose proof (dec_digits (Z.to_N z)) as D. induction (dec (Z.to_N z)) as [|d l IHl]; [reflexivity|].
      cbn [forallb] in D. apply andb_true_iff in D as [D1 D2]. cbn [contains_byte].
      rewrite IHl by exact D2. destruct d; try discriminate; reflexivity.
  - change (Byte.eqb x3a x0a) with false. change (Byte.eqb x73 x0a) with false. cbn [orb].
    destruct Hv as [_ Hs]. exact Hs.
Qed.

(** The parser inverts the rendering of any list of well-formed entries with
    pairwise distinct keys. *)
Lemma parse_rendered l :
  Forall (fun e => wf_key (fst e) /\ wf_value (snd e)) l -> NoDup (keys l) ->
  parse (concat (map render_line l)) = Some l.
Proof.
  intros W N. unfold parse.
  replace (map render_line l) with (map (fun b => b ++ [x0d; x0a]) (map body_of l))
    by (rewrite map_map; apply map_ext; intro e; symmetry; apply render_line_body).
  rewrite scan_lines_rendered.
  - now apply (parse_lines_entries l []).
  - apply Forall_map. eapply Forall_impl; [|exact W]. intros e [A B]. now apply body_no_lf.
Qed.

(* ---------------------------------------------------------------- sorting *)

Lemma insert_perm e m : Permutation.Permutation (insert_kv e m) (e :: m).
Proof.
  induction m as [|e' m IH]; cbn [insert_kv]; [reflexivity|].
  destruct (bytes_leb (fst e) (fst e')); [reflexivity|].
  rewrite IH. apply Permutation.perm_swap.
Qed.

Lemma sort_perm m : Permutation.Permutation (sort_kv m) m.
Proof.
  unfold sort_kv. induction m as [|e m IH]; cbn [fold_right]; [reflexivity|].
  rewrite insert_perm. now constructor.
Qed.

Lemma lookup_in k v m : NoDup (keys m) -> In (k, v) m -> lookup k m = Some v.
Proof.
  induction m as [|[k' v'] m IH]; intros N I; [contradiction|].
  cbn [keys map fst] in N. inversion N as [|? ? N1 N2]; subst. cbn [lookup].
  destruct I as [I|I].
  - inversion I; subst. now rewrite bytes_eqb_refl.
  - destruct (bytes_eqb k k') eqn:E.
    + apply bytes_eqb_eq in E. subst. exfalso. apply N1. change k' with (fst (k', v)). now apply in_map.
    + now apply IH.
Qed.

Lemma lookup_none k m : ~ In k (keys m) -> lookup k m = None.
Proof.
  induction m as [|[k' v'] m IH]; intro H; [reflexivity|]. cbn [lookup]. cbn [keys map fst In] in H.
  destruct (bytes_eqb k k') eqn:E; [apply bytes_eqb_eq in E; subst; tauto|]. apply IH. tauto.
Qed.

Lemma lookup_perm k m m' :
  Permutation.Permutation m m' -> NoDup (keys m) -> lookup k m' = lookup k m.
Proof.
  intros P N.
  assert (N' : NoDup (keys m')).
  { eapply Permutation.Permutation_NoDup; [|exact N]. unfold keys. now apply Permutation.Permutation_map. }
  destruct (lookup k m) as [v|] eqn:L.
  - assert (I : In (k, v) m).
    { clear - L. induction m as [|[k' v'] m IH]; [discriminate|]. cbn [lookup] in L.
      destruct (bytes_eqb k k') eqn:E.
      - apply bytes_eqb_eq in E. inversion L; subst. now left.
      - right. now apply IH. }
    apply lookup_in; [exact N'|]. eapply Permutation.Permutation_in; eauto.
  - apply lookup_none. intro I.
    assert (I' : In k (keys m)).
    { eapply Permutation.Permutation_in; [|exact I]. unfold keys. apply Permutation.Permutation_map.
      now apply Permutation.Permutation_sym. }
    clear - L I'. induction m as [|[k' v'] m IH]; [contradiction|]. cbn [lookup] in L.
    destruct (bytes_eqb k k') eqn:E; [discriminate|]. cbn [keys map fst In] in I'.
    destruct I' as [I'|I']; [subst; rewrite bytes_eqb_refl in E; discriminate|]. now apply IH.
Qed.

(* ---------------------------------------------------------------- malformed input *)

Lemma parse_lines_error ls1 l ls2 : forall m,
  parse_line l = LError -> parse_lines (ls1 ++ l :: ls2) m = None.
Proof.
  induction ls1 as [|x ls1 IH]; intros m H; cbn [app parse_lines].
  - now rewrite H.
  - destruct (parse_line x); auto.
Qed.

(** A line that, once trimmed, is neither blank nor a comment and does not have
    three ':'-separated fields, an unknown type, or a non-integer 'i' value is an
    error (never skipped). *)
Lemma malformed_line raw a l :
  trim_space raw = a :: l -> a <> x23 ->
  (splitn3 (a :: l) = None \/
   (exists f0 f1 f2, splitn3 (a :: l) = Some (f0, f1, f2) /\
      ((trim_space f1 <> [x69] /\ trim_space f1 <> [x73] /\ trim_space f1 <> [x62]) \/
       (trim_space f1 = [x69] /\ atoi (trim_space f2) = None)))) ->
  parse_line raw = LError.
Proof.
  intros T Ha H. unfold parse_line. rewrite T.
  replace (match a :: l with [] => LSkip | x23 :: _ => LSkip | _ => _ end)
    with (match splitn3 (a :: l) with
          | None => LError
          | Some (f0, f1, f2) =>
              let key := trim_space f0 in let t := trim_space f1 in let val := trim_space f2 in
              if bytes_eqb t [x69] then match atoi val with Some z => LEntry key (VInt z) | None => LError end
              else if bytes_eqb t [x73] || bytes_eqb t [x62] then LEntry key (VStr val) else LError
          end)
    by (destruct a; try reflexivity; contradiction).
  destruct H as [H|[f0 [f1 [f2 [H [[N1 [N2 N3]]|[E1 E2]]]]]]]; rewrite H; [reflexivity| |].
  - cbv zeta. apply bytes_eqb_neq in N1, N2, N3. now rewrite N1, N2, N3.
  - cbv zeta. rewrite E1, E2. reflexivity.
Qed.

(* ---------------------------------------------------------------- the builder *)

Definition row := (bytes * bytes * rdp_kind * option bytes)%type.
Definition row_name (r : row) : bytes := let '(_, n, _, _) := r in n.
Definition row_default (r : row) : value := let '(_, _, k, d) := r in default_of k d.
Definition row_kind (r : row) : rdp_kind := let '(_, _, k, _) := r in k.

(** A value of the field's own type (booleans are 0/1). *)
Definition typed (k : rdp_kind) (v : value) : Prop :=
  match k, v with
  | KBool, VInt z => z = 0 \/ z = 1
  | KInt, VInt _ => True
  | KStr, VStr _ => True
  | _, _ => False
  end.

Fixpoint entries (rows : list row) (s : settings) : list kv :=
  match rows, s with
  | r :: rows', v :: s' =>
      (if value_eqb v (row_default r) then [] else [(row_name r, v)]) ++ entries rows' s'
  | _, _ => []
  end.

Lemma emit_rows_entries rows : forall s, emit_rows rows s = concat (map render_line (entries rows s)).
Proof.
  induction rows as [|[[[fn name] k] d] rows IH]; intro s; [reflexivity|].
  destruct s as [|v s]; [reflexivity|]. cbn [emit_rows entries row_default row_name].
  rewrite IH. destruct (value_eqb v (default_of k d)); cbn [app map concat]; reflexivity.
Qed.

Lemma entries_keys_subset rows : forall s k, In k (keys (entries rows s)) -> In k (map row_name rows).
Proof.
  induction rows as [|r rows IH]; intros s k H; [destruct s; contradiction|].
  destruct s as [|v s]; [contradiction|]. cbn [entries] in H. unfold keys in H. rewrite map_app in H.
  apply in_app_or in H as [H|H].
  - destruct (value_eqb v (row_default r)); [contradiction|]. cbn in H. destruct H as [H|[]]. left. exact H.
  - right. eapply IH. exact H.
Qed.

Lemma entries_nodup rows : forall s, NoDup (map row_name rows) -> NoDup (keys (entries rows s)).
Proof.
  induction rows as [|r rows IH]; intros s N; [destruct s; constructor|].
  destruct s as [|v s]; [constructor|]. inversion N as [|? ? N1 N2]; subst. cbn [entries].
  destruct (value_eqb v (row_default r)); cbn [app]; [now apply IH|].
  cbn [keys map fst]. constructor; [|now apply IH].
  intro I. apply N1. eapply entries_keys_subset. exact I.
Qed.

Lemma value_eqb_eq a b : value_eqb a b = true <-> a = b.
Proof.
  destruct a, b; cbn [value_eqb]; split; intro H; try discriminate.
  - apply Z.eqb_eq in H. now subst.
  - inversion H; subst. apply Z.eqb_refl.
  - apply bytes_eqb_eq in H. now subst.
  - inversion H; subst. apply bytes_eqb_refl.
Qed.

Lemma lookup_app_fresh k a b : ~ In k (keys a) -> lookup k (a ++ b) = lookup k b.
Proof.
  induction a as [|[k' v'] a IH]; intro H; [reflexivity|]. cbn [app lookup]. cbn [keys map fst In] in H.
  destruct (bytes_eqb k k') eqn:E; [apply bytes_eqb_eq in E; subst; tauto|]. apply IH. tauto.
Qed.

Lemma coerce_typed k v : typed k v -> coerce k v = Some v.
Proof.
  destruct k, v; cbn; try contradiction; try reflexivity. intros [->| ->]; reflexivity.
Qed.

(** Reading back what the builder wrote restores every field. *)
Lemma load_rows_entries rows : forall s pre,
  NoDup (map row_name rows) ->
  length s = length rows ->
  Forall2 (fun r v => typed (row_kind r) v) rows s ->
  (forall r, In r rows -> ~ In (row_name r) (keys pre)) ->
  load_rows rows (pre ++ entries rows s) = Some s.
Proof.
  induction rows as [|r rows IH]; intros s pre N L T F.
  - destruct s; [reflexivity | discriminate].
  - destruct s as [|v s]; [discriminate|]. inversion N as [|? ? N1 N2]; subst.
    inversion T as [|? ? ? ? T1 T2]; subst. cbn [length] in L.
    destruct r as [[[fn name] k] d]. cbn [load_rows entries row_name row_default row_kind] in *.
    assert (Hpre : ~ In name (keys pre)) by (apply (F (fn, name, k, d)); now left).
    destruct (value_eqb v (default_of k d)) eqn:E.
    + apply value_eqb_eq in E. subst v. cbn [app].
      rewrite (IH s pre N2 ltac:(lia) T2) by (intros r' I; apply F; now right).
      rewrite lookup_app_fresh by exact Hpre.
      rewrite lookup_none; [reflexivity|]. intro I. apply N1. eapply entries_keys_subset. exact I.
    + cbn [app].
      assert (IH' : load_rows rows ((pre ++ [(name, v)]) ++ entries rows s) = Some s).
      { apply IH; [exact N2 | lia | exact T2 |]. intros r' I. unfold keys. rewrite map_app. intro J. apply in_app_or in J as [J|J].
        - apply (F r'); [now right | exact J].
        - cbn in J. destruct J as [J|[]]. apply N1. rewrite J. now apply in_map. }
      rewrite <- app_assoc in IH'. cbn [app] in IH'. unfold kv in *. rewrite IH'.
      rewrite lookup_app_fresh by exact Hpre. cbn [lookup]. rewrite bytes_eqb_refl. now rewrite coerce_typed.
Qed.

(** Decidable forms of the side conditions on the settings table, so that they
    are discharged by computation on the regenerated table. *)
Definition edge_okb := edge_ok.
Definition trimmedAb (s : bytes) : bool :=
  match s with [] => true | a :: _ => edge_ok a && edge_ok (last s x00) end.
Definition wf_keyb (k : bytes) : bool :=
  negb (bytes_eqb k []) && trimmedAb k && negb (contains_byte x3a k) && negb (contains_byte x0a k)
  && negb (Byte.eqb (hd x00 k) x23).

Lemma trimmedAb_ok s : trimmedAb s = true -> trimmedA s.
Proof. destruct s; [intros; exact I|]. cbn [trimmedAb trimmedA]. intro H. now apply andb_true_iff in H. Qed.

Lemma wf_keyb_ok k : wf_keyb k = true -> wf_key k.
Proof.
  unfold wf_keyb, wf_key, no_byte. rewrite !andb_true_iff, !negb_true_iff.
  intros [[[[H1 H2] H3] H4] H5]. repeat split; auto.
  - intro E. subst. discriminate.
  - now apply trimmedAb_ok.
  - intro E. rewrite E in H5. discriminate.
Qed.

Fixpoint nodupb (l : list bytes) : bool :=
  match l with [] => true | x :: l' => negb (existsb (bytes_eqb x) l') && nodupb l' end.
Lemma nodupb_ok l : nodupb l = true -> NoDup l.
Proof.
  induction l as [|x l IH]; intro H; [constructor|]. cbn [nodupb] in H. apply andb_true_iff in H as [H1 H2].
  constructor; [|now apply IH]. intro I. apply negb_true_iff in H1.
  assert (existsb (bytes_eqb x) l = true) by (apply existsb_exists; exists x; split; [exact I | apply bytes_eqb_refl]).
  congruence.
Qed.

Lemma table_names_wf : forallb (fun r => wf_keyb (row_name r)) RDP_TABLE = true.
Proof. vm_compute. reflexivity. Qed.
Lemma table_names_distinct : nodupb (map row_name RDP_TABLE) = true.
Proof. vm_compute. reflexivity. Qed.

(** Settings the property quantifies over: one value per row, of the row's type,
    integers in range, strings with ASCII non-blank edges and free of LF. *)
Definition wf_settings (s : settings) : Prop :=
  length s = length RDP_TABLE /\
  Forall2 (fun r v => typed (row_kind r) v /\ wf_value v) RDP_TABLE s.

Lemma entries_wf rows : forall s,
  Forall (fun r => wf_key (row_name r)) rows ->
  Forall2 (fun r v => typed (row_kind r) v /\ wf_value v) rows s ->
  Forall (fun e => wf_key (fst e) /\ wf_value (snd e)) (entries rows s).
Proof.
  induction rows as [|r rows IH]; intros s W T; [destruct s; constructor|].
  destruct s as [|v s]; [constructor|]. inversion W; subst. inversion T as [|? ? ? ? [T1 T2] T3]; subst.
  cbn [entries]. apply Forall_app. split; [|now apply IH].
  destruct (value_eqb v (row_default r)); constructor; [|constructor]. split; assumption.
Qed.

Lemma Forall2_weaken {A B} (P Q : A -> B -> Prop) l1 l2 :
  (forall a b, P a b -> Q a b) -> Forall2 P l1 l2 -> Forall2 Q l1 l2.
Proof. intros H F. induction F; constructor; auto. Qed.

Theorem builder_roundtrip s : wf_settings s -> load (emit s) = Some s.
Proof.
  intros [L T]. unfold load, emit. rewrite emit_rows_entries.
  assert (Wn : Forall (fun r => wf_key (row_name r)) RDP_TABLE).
  { apply Forall_forall. intros r I. apply wf_keyb_ok.
    pose proof table_names_wf as H. rewrite forallb_forall in H. now apply H. }
  assert (N : NoDup (map row_name RDP_TABLE)) by (apply nodupb_ok, table_names_distinct).
  rewrite parse_rendered.
  - apply (load_rows_entries RDP_TABLE s []); auto.
    eapply Forall2_weaken; [|exact T]. intros r v [A _]. exact A.
  - now apply entries_wf.
  - now apply entries_nodup.
Qed.

(** Every emitted file: CRLF-terminated name:type:value lines, one per setting at most. *)
Theorem emit_wellformed s :
  emit s = concat (map render_line (entries RDP_TABLE s)) /\
  NoDup (keys (entries RDP_TABLE s)) /\
  (forall e, In e (entries RDP_TABLE s) -> render_line e = body_of e ++ [x0d; x0a]).
Proof.
  split; [apply emit_rows_entries|]. split.
  - apply entries_nodup, nodupb_ok, table_names_distinct.
  - intros e _. apply render_line_body.
Qed.
