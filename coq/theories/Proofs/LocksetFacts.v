(** Soundness of the locking discipline: a system of any number of threads
    that all follow it never reaches a data race. *)
From Coq Require Import List NArith Bool Lia PeanoNat Arith.
From RDPGW Require Import Model.Lockset.
Import ListNotations.
Open Scope N_scope.

Lemma mem_In m l : mem m l = true <-> In m l.
Proof.
  unfold mem. rewrite existsb_exists. split.
  - intros [k [I E]]. apply N.eqb_eq in E. now subst.
  - intro I. exists m. split; [exact I | apply N.eqb_refl].
Qed.

(** Invariant: every thread follows the discipline from where it is, and no
    lock is held by two threads. *)
Definition excl (s : sys) : Prop :=
  forall i j ti tj m, i <> j -> nth_error s i = Some ti -> nth_error s j = Some tj ->
    In m (held ti) -> In m (held tj) -> False.
Definition Inv (lk : N -> N) (s : sys) : Prop :=
  (forall i t, nth_error s i = Some t -> disciplined lk (held t) (rest t) = true) /\ excl s.

Lemma nth_set_same i t s t0 : nth_error s i = Some t0 -> nth_error (set_nth i t s) i = Some t.
Proof.
  revert i. induction s as [|x s IH]; intros [|i] H; cbn in *; try discriminate; auto.
Qed.
Lemma nth_set_other i j t s : i <> j -> nth_error (set_nth i t s) j = nth_error s j.
Proof.
  revert i j. induction s as [|x s IH]; intros [|i] [|j] H; cbn; auto; try contradiction;
    try (apply IH; congruence).
Qed.

Lemma free_spec m s : free m s = true -> forall j tj, nth_error s j = Some tj -> ~ In m (held tj).
Proof.
  unfold free. rewrite forallb_forall. intros H j tj N I.
  specialize (H tj (nth_error_In _ _ N)). apply negb_true_iff in H.
  apply mem_In in I. congruence.
Qed.

Lemma remove1_In m k l : In k (remove1 m l) -> In k l /\ k <> m.
Proof.
  unfold remove1. rewrite filter_In. intros [I E]. split; [exact I|].
  apply negb_true_iff, N.eqb_neq in E. exact E.
Qed.

Lemma Inv_step lk s s' : Inv lk s -> step s s' -> Inv lk s'.
Proof.
  intros [D X] St. destruct St as [s i t t' N S].
  unfold step_thr in S. pose proof (D i t N) as Dt.
  destruct (rest t) as [|a r] eqn:R; [discriminate|].
  assert (Same : forall j tj, nth_error (set_nth i t' s) j = Some tj -> (j = i /\ tj = t') \/ (j <> i /\ nth_error s j = Some tj)).
  { intros j tj H. destruct (Nat.eq_dec j i) as [->|Hn].
    - left. rewrite (nth_set_same _ _ _ _ N) in H. now inversion H.
    - right. rewrite nth_set_other in H by congruence. auto. }
  destruct a as [m|m|x|x]; cbn [disciplined] in Dt.
  - (* acquire *)
    destruct (free m s) eqn:F; [|discriminate]. inversion S; subst t'; clear S.
    apply andb_true_iff in Dt as [_ Dt]. split.
    + intros j tj H. destruct (Same j tj H) as [[-> ->]|[Hn H']]; [exact Dt | now apply (D j)].
    + intros a b ta tb k Hab Ha Hb Ia Ib.
      destruct (Same a ta Ha) as [[-> ->]|[Hna Ha']]; destruct (Same b tb Hb) as [[-> ->]|[Hnb Hb']]; try contradiction.
      * cbn [held] in Ia. destruct Ia as [->|Ia].
        -- exact (free_spec _ _ F b tb Hb' Ib).
        -- exact (X i b t tb k Hab N Hb' Ia Ib).
      * cbn [held] in Ib. destruct Ib as [->|Ib].
        -- exact (free_spec _ _ F a ta Ha' Ia).
        -- exact (X a i ta t k Hab Ha' N Ia Ib).
      * exact (X a b ta tb k Hab Ha' Hb' Ia Ib).
  - (* release *)
    inversion S; subst t'; clear S. apply andb_true_iff in Dt as [_ Dt]. split.
    + intros j tj H. destruct (Same j tj H) as [[-> ->]|[Hn H']]; [exact Dt | now apply (D j)].
    + intros a b ta tb k Hab Ha Hb Ia Ib.
      destruct (Same a ta Ha) as [[-> ->]|[Hna Ha']]; destruct (Same b tb Hb) as [[-> ->]|[Hnb Hb']]; try contradiction.
      * cbn [held] in Ia. apply remove1_In in Ia as [Ia _]. exact (X i b t tb k Hab N Hb' Ia Ib).
      * cbn [held] in Ib. apply remove1_In in Ib as [Ib _]. exact (X a i ta t k Hab Ha' N Ia Ib).
      * exact (X a b ta tb k Hab Ha' Hb' Ia Ib).
  - inversion S; subst t'; clear S. apply andb_true_iff in Dt as [_ Dt]. split.
    + intros j tj H. destruct (Same j tj H) as [[-> ->]|[Hn H']]; [exact Dt | now apply (D j)].
    + intros a b ta tb k Hab Ha Hb Ia Ib.
      destruct (Same a ta Ha) as [[-> ->]|[Hna Ha']]; destruct (Same b tb Hb) as [[-> ->]|[Hnb Hb']]; try contradiction.
      * exact (X i b t tb k Hab N Hb' Ia Ib).
      * exact (X a i ta t k Hab Ha' N Ia Ib).
      * exact (X a b ta tb k Hab Ha' Hb' Ia Ib).
  - inversion S; subst t'; clear S. apply andb_true_iff in Dt as [_ Dt]. split.
    + intros j tj H. destruct (Same j tj H) as [[-> ->]|[Hn H']]; [exact Dt | now apply (D j)].
    + intros a b ta tb k Hab Ha Hb Ia Ib.
      destruct (Same a ta Ha) as [[-> ->]|[Hna Ha']]; destruct (Same b tb Hb) as [[-> ->]|[Hnb Hb']]; try contradiction.
      * exact (X i b t tb k Hab N Hb' Ia Ib).
      * exact (X a i ta t k Hab Ha' N Ia Ib).
      * exact (X a b ta tb k Hab Ha' Hb' Ia Ib).
Qed.

Lemma Inv_reach lk s s' : Inv lk s -> reach s s' -> Inv lk s'.
Proof.
  intros I R. induction R as [s|s s1 s2 R IH St]; [exact I|].
  eapply Inv_step; [apply IH; exact I | exact St].
Qed.

Lemma Inv_no_race lk s : Inv lk s -> ~ race s.
Proof.
  intros [D X] [i [j [ti [tj [x [wi [wj [Hij [Ni [Nj [Ai [Aj _]]]]]]]]]]]].
  assert (Hi : In (lk x) (held ti)).
  { pose proof (D i ti Ni) as Dt. unfold next_access in Ai.
    destruct (rest ti) as [|[m|m|y|y] r]; try discriminate; inversion Ai; subst;
      cbn [disciplined] in Dt; apply andb_true_iff in Dt as [Dt _]; now apply mem_In. }
  assert (Hj : In (lk x) (held tj)).
  { pose proof (D j tj Nj) as Dt. unfold next_access in Aj.
    destruct (rest tj) as [|[m|m|y|y] r]; try discriminate; inversion Aj; subst;
      cbn [disciplined] in Dt; apply andb_true_iff in Dt as [Dt _]; now apply mem_In. }
  exact (X i j ti tj (lk x) Hij Ni Nj Hi Hj).
Qed.

(** Any number of threads, each starting without locks and following the
    discipline: no reachable state is a data race. *)
Theorem lockset_sound lk (progs : list (list act)) s' :
  Forall (fun p => disciplined lk [] p = true) progs ->
  reach (map (fun p => {| held := []; rest := p |}) progs) s' -> ~ race s'.
Proof.
  intros F R. apply (Inv_no_race lk). eapply Inv_reach; [|exact R]. split.
  - intros i t N. rewrite nth_error_map in N. destruct (nth_error progs i) as [p|] eqn:E; [|discriminate].
    inversion N; subst. cbn. rewrite Forall_forall in F. apply F. eapply nth_error_In; eauto.
  - intros i j ti tj m _ Ni _ Ii _. rewrite nth_error_map in Ni.
    destruct (nth_error progs i); [|discriminate]. inversion Ni; subst. contradiction.
Qed.

(** Disciplined closed blocks compose: a thread that runs any sequence of blocks,
    each of which follows the discipline and releases what it acquired, follows
    the discipline. *)
Fixpoint closed (lk : N -> N) (h : list N) (p : list act) : bool :=
  match p with
  | [] => match h with [] => true | _ => false end
  | Acq m :: r => negb (mem m h) && closed lk (m :: h) r
  | Rel m :: r => mem m h && closed lk (remove1 m h) r
  | Rd x :: r | Wr x :: r => mem (lk x) h && closed lk h r
  end.

Lemma closed_app lk p : forall h q, closed lk h p = true -> disciplined lk [] q = true -> disciplined lk h (p ++ q) = true.
Proof.
  induction p as [|a p IH]; intros h q C D; cbn [app].
  - cbn in C. destruct h; [exact D | discriminate].
  - destruct a; cbn [closed disciplined] in *; apply andb_true_iff in C as [C1 C2]; rewrite C1; cbn [andb]; now apply IH.
Qed.

Lemma blocks_disciplined lk (blocks : list (list act)) :
  Forall (fun b => closed lk [] b = true) blocks -> disciplined lk [] (concat blocks) = true.
Proof.
  induction blocks as [|b bs IH]; intro F; [reflexivity|]. inversion F; subst. cbn [concat].
  apply closed_app; auto.
Qed.
