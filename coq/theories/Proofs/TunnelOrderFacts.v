(** Facts about the C01 monitor alone: what acceptance of a trace implies. *)
From Coq Require Import List NArith Bool Lia.
From Coq.Strings Require Import Byte.
From RDPGW Require Import Lib.Bytes Gen.Consts Model.Processor Spec.TunnelOrder.
Import ListNotations.
Open Scope N_scope.

Ltac break_if :=
  match goal with
  | H : context [if ?c then _ else _] |- _ =>
      lazymatch c with
      | context [if _ then _ else _] => fail
      | _ => destruct c eqn:?
      end
  | |- context [if ?c then _ else _] =>
      lazymatch c with
      | context [if _ then _ else _] => fail
      | _ => destruct c eqn:?
      end
  end.

Lemma feeds_app nc nh m tr1 tr2 :
  feeds nc nh m (tr1 ++ tr2) =
  match feeds nc nh m tr1 with Some m1 => feeds nc nh m1 tr2 | None => None end.
Proof.
  revert m; induction tr1 as [|e tr1 IH]; intro m; simpl; [reflexivity|].
  destruct (feed nc nh m e); [apply IH | reflexivity].
Qed.

(** One accepted event extends the passed milestones by exactly its mark and
    the number of connection attempts by one iff it is a dial. *)
Lemma feed_step nc nh p md e p' md' :
  feed nc nh (p, md) e = Some (p', md') ->
  passed nc nh p' = passed nc nh p ++ mark e /\
  dials_of p' = (dials_of p + (if is_dial e then 1 else 0))%nat.
Proof.
  unfold feed. intro H.
  destruct md.
  - (* Live *)
    destruct e as [ty status raw|c ok|n ok|h ok|h ok|b|w]; cbn [mark is_dial].
    + destruct (status =? 0) eqn:Es; cbn [negb] in *.
      * repeat break_if; destruct p; try discriminate; inversion H; subst;
          cbn [passed dials_of]; rewrite <- ?app_assoc; split; try reflexivity; try lia.
      * inversion H; subst. rewrite app_nil_r. split; [reflexivity | lia].
    + destruct p; try discriminate. destruct nc; try discriminate.
      destruct ok; inversion H; subst; cbn; split; reflexivity.
    + destruct p; try discriminate. destruct ok; inversion H; subst;
        rewrite app_nil_r; split; try reflexivity; lia.
    + destruct p; try discriminate. destruct nh; try discriminate.
      destruct ok; inversion H; subst; cbn [passed opt dials_of];
        rewrite <- ?app_assoc, ?app_nil_r; split; try reflexivity.
    + destruct p; try discriminate.
      * destruct nh; try discriminate.
        destruct ok; inversion H; subst; cbn [passed opt dials_of];
          rewrite <- ?app_assoc, ?app_nil_r; split; reflexivity.
      * destruct (bytes_eqb h h0) eqn:E; try discriminate.
        apply bytes_eqb_eq in E; subst h0.
        destruct ok; inversion H; subst; cbn [passed opt dials_of];
          rewrite <- ?app_assoc, ?app_nil_r; split; reflexivity.
    + destruct p; try discriminate. inversion H; subst. rewrite app_nil_r. split; [reflexivity|lia].
    + inversion H; subst. rewrite app_nil_r. split; [reflexivity|lia].
  - (* Denied *)
    destruct e as [ty status raw|c ok|n ok|h ok|h ok|b|w]; try discriminate; cbn [mark is_dial].
    + destruct (status =? 0) eqn:Es; try discriminate. inversion H; subst.
      cbn [negb]. rewrite app_nil_r. split; [reflexivity|lia].
    + inversion H; subst. rewrite app_nil_r. split; [reflexivity|lia].
  - (* MustEnd *)
    destruct e; try discriminate. inversion H; subst. cbn. rewrite app_nil_r. split; [reflexivity|lia].
  - discriminate.
Qed.

Lemma feeds_invariant nc nh tr : forall p md p' md',
  feeds nc nh (p, md) tr = Some (p', md') ->
  passed nc nh p' = passed nc nh p ++ marks tr /\
  dials_of p' = (dials_of p + count_dials tr)%nat.
Proof.
  induction tr as [|e tr IH]; intros p md p' md' H; cbn [feeds] in H.
  - inversion H; subst. unfold marks, count_dials; simpl. rewrite app_nil_r. split; [reflexivity|lia].
  - destruct (feed nc nh (p, md) e) as [[p1 md1]|] eqn:E; [|discriminate].
    apply feed_step in E as [E1 E2]. apply IH in H as [H1 H2].
    unfold marks, count_dials in *. simpl.
    rewrite H1, E1, <- app_assoc. split; [reflexivity|].
    rewrite H2, E2. destruct (is_dial e); simpl; lia.
Qed.

(** Every accepted trace from the initial state has passed exactly the
    milestones of its progress, in order. *)
Corollary accepted_marks nc nh tr p md :
  feeds nc nh mon0 tr = Some (p, md) -> marks tr = passed nc nh p.
Proof. intro H. apply feeds_invariant in H as [H _]. simpl in H. now rewrite H. Qed.

Corollary accepted_at_most_one_dial nc nh tr m :
  feeds nc nh mon0 tr = Some m -> (count_dials tr <= 1)%nat.
Proof.
  destruct m as [p md]. intro H. apply feeds_invariant in H as [_ H]. simpl in H.
  rewrite <- H. destruct p; simpl; lia.
Qed.

(** A connection attempt is preceded by the whole sequence, in order, and by
    the policy decision for that very host. *)
Corollary accepted_dial_preceded nc nh tr1 h ok tr2 m :
  feeds nc nh mon0 (tr1 ++ Dial h ok :: tr2) = Some m ->
  marks tr1 = [MsHandshake] ++ opt nc MsCookie ++ [MsTunnel; MsTunnelAuth] ++ opt nh (MsHost h).
Proof.
  rewrite feeds_app. destruct (feeds nc nh mon0 tr1) as [[p md]|] eqn:E; [|discriminate].
  apply accepted_marks in E. rewrite E. cbn [feeds].
  destruct (feed nc nh (p, md) (Dial h ok)) eqn:F; [|discriminate]. intros _.
  unfold feed in F. destruct md; try discriminate.
  destruct p; try discriminate.
  - destruct nh; try discriminate. reflexivity.
  - destruct (bytes_eqb h h0) eqn:B; try discriminate. apply bytes_eqb_eq in B; subst.
    reflexivity.
Qed.

(** Client payload reaches a host only on an open channel: after the whole
    sequence, a successful connection and the channel-create success. *)
Corollary accepted_tohost_preceded nc nh tr1 b tr2 m :
  feeds nc nh mon0 (tr1 ++ ToHost b :: tr2) = Some m ->
  exists h, marks tr1 = [MsHandshake] ++ opt nc MsCookie ++ [MsTunnel; MsTunnelAuth]
                          ++ opt nh (MsHost h) ++ [MsDial h; MsChannel].
Proof.
  rewrite feeds_app. destruct (feeds nc nh mon0 tr1) as [[p md]|] eqn:E; [|discriminate].
  apply accepted_marks in E. rewrite E. cbn [feeds].
  destruct (feed nc nh (p, md) (ToHost b)) eqn:F; [|discriminate]. intros _.
  unfold feed in F. destruct md; try discriminate. destruct p; try discriminate.
  exists h. reflexivity.
Qed.

(** Nothing is accepted after the end of the tunnel. *)
Lemma ended_rejects nc nh p e tr : feeds nc nh (p, Ended) (e :: tr) = None.
Proof. reflexivity. Qed.

Corollary accepted_silent_after_end nc nh m tr1 w e tr2 :
  feeds nc nh m (tr1 ++ End w :: e :: tr2) = None.
Proof.
  rewrite feeds_app. destruct (feeds nc nh m tr1) as [[p md]|]; [|reflexivity].
  simpl. destruct md; reflexivity.
Qed.

(** An error response is followed by the end of the tunnel and nothing else. *)
Corollary accepted_error_then_end nc nh m tr1 ty s raw tr2 m' :
  s <> 0 ->
  feeds nc nh m (tr1 ++ Resp ty s raw :: tr2) = Some m' ->
  tr2 = [] \/ exists w, tr2 = [End w].
Proof.
  intros Hs. rewrite feeds_app.
  destruct (feeds nc nh m tr1) as [[p md]|]; [|discriminate].
  assert (Es : (s =? 0) = false) by now apply N.eqb_neq.
  simpl. destruct md; try discriminate; rewrite Es; cbn [negb].
  - destruct tr2 as [|e tr2]; [now left|]. simpl.
    destruct e; try discriminate. destruct tr2; [right; eauto | discriminate].
  - destruct tr2 as [|e tr2]; [now left|]. simpl.
    destruct e; try discriminate. destruct tr2; [right; eauto | discriminate].
Qed.
