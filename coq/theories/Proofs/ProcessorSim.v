(** The transcription of [Processor.Process] satisfies the C01 monitor on every
    list of transport reads and every environment: simulation relation between
    the processor's phase and the monitor's progress, one step lemma, then
    induction on the read list. *)
From Coq Require Import List NArith ZArith Bool Lia.
From Coq.Strings Require Import Byte.
From RDPGW Require Import Lib.Bytes Gen.Consts Model.Utf16 Model.Packets Model.Processor
  Spec.TunnelOrder Proofs.TunnelOrderFacts.
Import ListNotations.
Open Scope N_scope.

Local Opaque handshake_response tunnel_response tunnel_auth_response channel_response
  channel_close_response handshake_request tunnel_request tunnel_auth_request channel_request
  receive_payload join_host_port match_auth.

(** Phase of the code vs. progress of the specification. *)
Definition R (p : N) (m : mon) : Prop :=
  snd m = Live /\
  match fst m with
  | P0 => p = SERVER_STATE_INITIALIZED
  | P1 => p = SERVER_STATE_HANDSHAKE
  | P2 => p = SERVER_STATE_TUNNEL_CREATE
  | P3 => p = SERVER_STATE_TUNNEL_AUTHORIZE
  | P4 _ => p = SERVER_STATE_CHANNEL_CREATE \/ p = SERVER_STATE_OPENED
  | _ => False
  end.

Definition post (fin : bool) (p' : N) (m' : mon) : Prop :=
  if fin then snd m' = Ended else R p' m'.

Ltac solve_R :=
  unfold post, R; cbn; repeat split; auto.

Lemma packet_step c p m ty body a p' evs fin :
  R p m ->
  process_packet c p ty body a = (p', evs, fin) ->
  exists m', feeds (c_cookie_cb c) (c_host_cb c) m evs = Some m' /\ post fin p' m'.
Proof.
  intros [Hl Hp] H. destruct m as [pr md]. cbn in Hl, Hp. subst md.
  unfold process_packet in H.
  destruct (ty =? PKT_TYPE_HANDSHAKE_REQUEST) eqn:T1.
  { destruct (p =? SERVER_STATE_INITIALIZED) eqn:E; cbn [negb] in H.
    - destruct (handshake_request body) as [[[major minor] ver] ext].
      destruct (match_auth _ _ ext) as [caps|]; inversion H; subst; clear H.
      + apply N.eqb_eq in E. subst p.
        destruct pr; try contradiction; try discriminate; try (destruct Hp; discriminate).
        eexists; split; [reflexivity | solve_R].
      + eexists; split; [reflexivity | solve_R].
    - inversion H; subst. eexists; split; [reflexivity | solve_R]. }
  destruct (ty =? PKT_TYPE_TUNNEL_CREATE) eqn:T2.
  { destruct (p =? SERVER_STATE_HANDSHAKE) eqn:E; cbn [negb] in H.
    - destruct (tunnel_request body) as [caps cookie].
      apply N.eqb_eq in E. subst p.
      destruct pr; try contradiction; try discriminate; try (destruct Hp; discriminate).
      destruct (c_cookie_cb c) eqn:CB; destruct (a_cookie a); cbn [andb negb] in H;
        inversion H; subst; clear H; cbn [app feeds feed]; rewrite ?CB;
        eexists; (split; [reflexivity | solve_R]).
    - inversion H; subst. eexists; split; [reflexivity | solve_R]. }
  destruct (ty =? PKT_TYPE_TUNNEL_AUTH) eqn:T3.
  { destruct (p =? SERVER_STATE_TUNNEL_CREATE) eqn:E; cbn [negb] in H.
    - apply N.eqb_eq in E. subst p.
      destruct pr; try contradiction; try discriminate; try (destruct Hp; discriminate).
      destruct (c_name_cb c) eqn:CB; destruct (a_name a); cbn [andb negb] in H;
        inversion H; subst; clear H; cbn [app feeds feed];
        eexists; (split; [reflexivity | solve_R]).
    - inversion H; subst. eexists; split; [reflexivity | solve_R]. }
  destruct (ty =? PKT_TYPE_CHANNEL_CREATE) eqn:T4.
  { destruct (p =? SERVER_STATE_TUNNEL_AUTHORIZE) eqn:E; cbn [negb] in H.
    - destruct (channel_request body) as [server port].
      apply N.eqb_eq in E. subst p.
      destruct pr; try contradiction; try discriminate; try (destruct Hp; discriminate).
      destruct (c_host_cb c) eqn:CB; destruct (a_host a); destruct (a_dial a);
        cbn [andb negb] in H; inversion H; subst; clear H; cbn [app feeds feed];
        rewrite ?CB, ?bytes_eqb_refl;
        eexists; (split; [reflexivity | solve_R]).
    - inversion H; subst. eexists; split; [reflexivity | solve_R]. }
  destruct (ty =? PKT_TYPE_DATA) eqn:T5.
  { destruct (p <? SERVER_STATE_CHANNEL_CREATE) eqn:E.
    - inversion H; subst. eexists; split; [reflexivity | solve_R].
    - inversion H; subst; clear H.
      destruct pr; try contradiction; cbn in Hp; subst; try (vm_compute in E; discriminate).
      eexists; split; [reflexivity | solve_R]. }
  destruct (ty =? PKT_TYPE_KEEPALIVE) eqn:T6.
  { destruct (p <? SERVER_STATE_CHANNEL_CREATE) eqn:E.
    - inversion H; subst. eexists; split; [reflexivity | solve_R].
    - inversion H; subst; clear H. eexists; split; [reflexivity |]. split; auto. }
  destruct (ty =? PKT_TYPE_CLOSE_CHANNEL) eqn:T7.
  { destruct (p =? SERVER_STATE_OPENED) eqn:E; cbn [negb] in H.
    - apply N.eqb_eq in E. subst p. inversion H; subst; clear H.
      destruct pr; try contradiction; try discriminate;
        try (destruct Hp; discriminate).
      eexists; split; [reflexivity | solve_R].
    - inversion H; subst. eexists; split; [reflexivity | solve_R]. }
  inversion H; subst. eexists; split; [reflexivity |]. split; auto.
Qed.

Lemma tstep_step c st m it st' evs fin :
  R (ph st) m ->
  tstep c st it = (st', evs, fin) ->
  exists m', feeds (c_cookie_cb c) (c_host_cb c) m evs = Some m' /\ post fin (ph st') m'.
Proof.
  intros HR H. unfold tstep in H. destruct it as [data a|].
  - destruct (fstep (fs st) data) as [f|ty size body| |].
    + inversion H; subst. eexists; split; [reflexivity | exact HR].
    + destruct (process_packet c (ph st) ty body a) as [[p' evs'] fin'] eqn:E.
      inversion H; subst. cbn [ph]. eapply packet_step; eauto.
    + inversion H; subst. destruct m as [pr md]. destruct HR as [Hl _]. cbn in Hl; subst.
      eexists; split; [reflexivity | reflexivity].
    + inversion H; subst. destruct m as [pr md]. destruct HR as [Hl _]. cbn in Hl; subst.
      eexists; split; [reflexivity | reflexivity].
  - inversion H; subst. destruct m as [pr md]. destruct HR as [Hl _]. cbn in Hl; subst.
    eexists; split; [reflexivity | reflexivity].
Qed.

Lemma run_from_accepted c items : forall st m,
  R (ph st) m ->
  exists m', feeds (c_cookie_cb c) (c_host_cb c) m (run_from c st items) = Some m'.
Proof.
  induction items as [|it items IH]; intros st m HR; cbn [run_from].
  - eexists; reflexivity.
  - destruct (tstep c st it) as [[st' evs] fin] eqn:E.
    destruct (tstep_step _ _ _ _ _ _ _ HR E) as [m' [F P]].
    destruct fin.
    + eexists; exact F.
    + rewrite feeds_app, F. apply IH. exact P.
Qed.

Lemma R_init : R (ph tstate0) mon0.
Proof. split; reflexivity. Qed.

Theorem run_accepted c items :
  exists m, feeds (c_cookie_cb c) (c_host_cb c) mon0 (run c items) = Some m.
Proof. apply run_from_accepted, R_init. Qed.

(** Nothing happens after [Process] returned: a run that ended is not extended
    by further input. *)
Lemma run_from_end_stops c items1 : forall st items2,
  existsb is_end (run_from c st items1) = true ->
  run_from c st (items1 ++ items2) = run_from c st items1.
Proof.
  induction items1 as [|it items1 IH]; intros st items2 H; cbn [run_from app] in *.
  - discriminate.
  - destruct (tstep c st it) as [[st' evs] fin] eqn:E.
    destruct fin; [reflexivity|].
    rewrite existsb_app in H. apply orb_true_iff in H as [H|H].
    + (* a non-final step never emits End *)
      exfalso. unfold tstep in E. destruct it as [data a|]; [|inversion E].
      destruct (fstep (fs st) data) as [f|ty size body| |]; try (inversion E; subst; discriminate).
      destruct (process_packet c (ph st) ty body a) as [[p' evs'] fin'] eqn:PP.
      inversion E; subst. clear E. unfold process_packet in PP.
      repeat match type of PP with
             | context [if ?c then _ else _] => destruct c
             | context [match ?x with _ => _ end] => destruct x
             end; inversion PP; subst; cbn in H; try discriminate;
        rewrite ?existsb_app in H; cbn in H; discriminate.
    + f_equal. apply IH. exact H.
Qed.

(** Every step that returns ([fin = true]) ends with [End], and only those. *)
Lemma tstep_fin_has_end c st it st' evs :
  tstep c st it = (st', evs, true) -> exists pre w, evs = pre ++ [End w].
Proof.
  intro E. unfold tstep in E. destruct it as [data a|].
  - destruct (fstep (fs st) data) as [f|ty size body| |]; try (inversion E; subst).
    + destruct (process_packet c (ph st) ty body a) as [[p' evs'] fin'] eqn:PP.
      inversion E; subst. clear E. unfold process_packet in PP.
      repeat match type of PP with
             | context [if ?c then _ else _] => destruct c
             | context [match ?x with _ => _ end] => destruct x
             end; inversion PP; subst;
        try (exists []; eexists; reflexivity);
        try (eexists [_]; eexists; reflexivity);
        try (eexists [_; _]; eexists; reflexivity);
        try (eexists [_; _; _]; eexists; reflexivity).
    + exists [], EndFrameErr; reflexivity.
    + exists [], EndMalformed; reflexivity.
  - inversion E; subst. exists [], EndReadErr; reflexivity.
Qed.
