(** C17: capability negotiation. *)
From Coq Require Import List NArith ZArith Bool Lia.
From Coq.Strings Require Import Byte.
From RDPGW Require Import Lib.Bytes Gen.Consts Model.Utf16 Model.Packets Model.Processor
  Spec.Wire Proofs.WireFacts.
Import ListNotations.
Open Scope N_scope.

(** The property's own wording: both sides empty, or a shared bit. *)
Definition negotiation_succeeds (smartcard token : bool) (client : N) : Prop :=
  (client = 0 /\ server_caps smartcard token = 0) \/
  N.land (server_caps smartcard token) client <> 0.

Lemma match_auth_spec sc tok client :
  match_auth sc tok client =
  if (if client =? 0 then server_caps sc tok =? 0
      else negb (N.land (server_caps sc tok) client =? 0))
  then Some (server_caps sc tok) else None.
Proof.
  unfold match_auth.
  destruct (client =? 0) eqn:Ec.
  - apply N.eqb_eq in Ec. subst. rewrite N.land_0_r. cbn [N.eqb N.ltb N.compare andb].
    destruct (server_caps sc tok =? 0) eqn:E.
    + apply N.eqb_eq in E. rewrite E. reflexivity.
    + apply N.eqb_neq in E. replace (0 <? server_caps sc tok) with true; [reflexivity|].
      symmetry. apply N.ltb_lt. lia.
  - apply N.eqb_neq in Ec. replace (0 <? client) with true by (symmetry; apply N.ltb_lt; lia).
    rewrite andb_true_r, andb_false_r.
    destruct (N.land (server_caps sc tok) client =? 0); reflexivity.
Qed.

Lemma match_auth_iff sc tok client :
  (exists caps, match_auth sc tok client = Some caps) <-> negotiation_succeeds sc tok client.
Proof.
  rewrite match_auth_spec. unfold negotiation_succeeds.
  destruct (client =? 0) eqn:Ec.
  - apply N.eqb_eq in Ec. subst. rewrite N.land_0_r.
    destruct (server_caps sc tok =? 0) eqn:E.
    + apply N.eqb_eq in E. split; [intros _; left; auto | intros _; eauto].
    + apply N.eqb_neq in E. split; [intros [? H]; discriminate | intros [[_ H]|H]; contradiction].
  - apply N.eqb_neq in Ec.
    destruct (N.land (server_caps sc tok) client =? 0) eqn:E; cbn [negb].
    + apply N.eqb_eq in E. split; [intros [? H]; discriminate|].
      intros [[H _]|H]; contradiction.
    + apply N.eqb_neq in E. split; [intros _; right; auto | intros _; eauto].
Qed.

Lemma match_auth_value sc tok client caps :
  match_auth sc tok client = Some caps -> caps = server_caps sc tok.
Proof. rewrite match_auth_spec. destruct (if client =? 0 then _ else _); congruence. Qed.

(** The advertised value has the smart-card bit iff smart-card authentication is
    enabled, the cookie bit iff token authentication is enabled, and no other bit. *)
Lemma server_caps_bits sc tok :
  server_caps sc tok = (if sc then 1 else 0) + (if tok then 2 else 0).
Proof. destruct sc, tok; reflexivity. Qed.

(** Handshake response against the reference decoder. *)
Lemma decode_handshake_response_ok major minor caps code :
  major < 256 -> minor < 256 -> caps < 65536 -> code < 4294967296 ->
  exists body,
    decode_packet (handshake_response major minor caps code) =
      Some {| pk_type := PKT_TYPE_HANDSHAKE_RESPONSE; pk_reserved := 0;
              pk_length := blen (handshake_response major minor caps code); pk_body := body |}
    /\ decode_handshake_response body =
      Some ({| hr_status := code; hr_major := major; hr_minor := minor;
               hr_version := 0; hr_auth := caps |}, []).
Proof.
  intros Hma Hmi Hc Hco. unfold handshake_response.
  eexists. split.
  - apply decode_create_packet; [vm_compute; reflexivity|].
    rewrite !blen_app. cbn. lia.
  - unfold decode_handshake_response.
    rewrite get32_le32. cbn [bind app]. rewrite get8_n2b. cbn [bind].
    rewrite get8_n2b. cbn [bind]. rewrite get16_le16. cbn [bind].
    rewrite <- (List.app_nil_r (le16 caps)). rewrite get16_le16. cbn [bind].
    rewrite !N.mod_small by lia. reflexivity.
Qed.

(** What a handshake request does to a fresh tunnel. *)
Lemma handshake_request_fields ma mi v0 v1 e0 e1 rest :
  handshake_request (ma :: mi :: v0 :: v1 :: e0 :: e1 :: rest) =
  (b2n ma, b2n mi, b2n v0 + 256 * b2n v1, b2n e0 + 256 * b2n e1).
Proof. reflexivity. Qed.

Lemma handshake_step_success c ma mi v0 v1 e0 e1 rest a :
  negotiation_succeeds (c_smartcard c) (c_token_auth c) (b2n e0 + 256 * b2n e1) ->
  process_packet c SERVER_STATE_INITIALIZED PKT_TYPE_HANDSHAKE_REQUEST
    (ma :: mi :: v0 :: v1 :: e0 :: e1 :: rest) a =
  (SERVER_STATE_HANDSHAKE,
   [Resp PKT_TYPE_HANDSHAKE_RESPONSE ERROR_SUCCESS
      (handshake_response (b2n ma) (b2n mi) (server_caps (c_smartcard c) (c_token_auth c)) ERROR_SUCCESS)],
   false).
Proof.
  intro H. apply match_auth_iff in H as [caps H].
  pose proof (match_auth_value _ _ _ _ H) as ->.
  unfold process_packet. cbn [N.eqb negb Pos.eqb PKT_TYPE_HANDSHAKE_REQUEST SERVER_STATE_INITIALIZED].
  rewrite handshake_request_fields, H. reflexivity.
Qed.

Lemma handshake_step_failure c ma mi v0 v1 e0 e1 rest a :
  ~ negotiation_succeeds (c_smartcard c) (c_token_auth c) (b2n e0 + 256 * b2n e1) ->
  process_packet c SERVER_STATE_INITIALIZED PKT_TYPE_HANDSHAKE_REQUEST
    (ma :: mi :: v0 :: v1 :: e0 :: e1 :: rest) a =
  (SERVER_STATE_INITIALIZED,
   [Resp PKT_TYPE_HANDSHAKE_RESPONSE E_PROXY_CAPABILITYMISMATCH
      (handshake_response 0 0 0 E_PROXY_CAPABILITYMISMATCH); End EndMismatch],
   true).
Proof.
  intro H.
  unfold process_packet. cbn [N.eqb negb Pos.eqb PKT_TYPE_HANDSHAKE_REQUEST SERVER_STATE_INITIALIZED].
  rewrite handshake_request_fields.
  destruct (match_auth _ _ _) as [caps|] eqn:E; [|reflexivity].
  exfalso. apply H. apply match_auth_iff. eauto.
Qed.
