(** C20: the DER shape round-trips, rejections happen before any KDC is
    contacted, the relay is exact. *)
From Coq Require Import List NArith ZArith Bool Lia.
From Coq.Strings Require Import Byte.
From RDPGW Require Import Lib.Bytes Gen.Consts Model.Kdc.
Import ListNotations.
Open Scope N_scope.

Lemma mod256_lt n : n mod 256 < 256. Proof. apply N.mod_upper_bound. lia. Qed.

Lemma parse_der_len n rest : n < 16777216 -> parse_len (der_len n ++ rest) = Some (n, rest).
Proof.
  intro H. unfold der_len.
  destruct (n <? 128) eqn:E1.
  { apply N.ltb_lt in E1. cbn [app parse_len]. rewrite b2n_n2b, N.mod_small by lia.
    replace (n <? 128) with true by (symmetry; apply N.ltb_lt; lia). reflexivity. }
  apply N.ltb_ge in E1.
  destruct (n <? 256) eqn:E2.
  { apply N.ltb_lt in E2. cbn [app parse_len]. change (b2n x81) with 129. cbn [N.ltb N.eqb N.compare Pos.compare Pos.compare_cont Pos.eqb].
    rewrite b2n_n2b, N.mod_small by lia.
    replace (128 <=? n) with true by (symmetry; apply N.leb_le; lia). reflexivity. }
  apply N.ltb_ge in E2.
  destruct (n <? 65536) eqn:E3.
  { apply N.ltb_lt in E3. cbn [app parse_len]. change (b2n x82) with 130. cbn [N.ltb N.eqb N.compare Pos.compare Pos.compare_cont Pos.eqb].
    rewrite !b2n_n2b.
    assert (A : (n / 256) mod 256 = n / 256).
    { apply N.mod_small. apply N.div_lt_upper_bound; lia. }
    rewrite A.
    assert (B : 256 * (n / 256) + n mod 256 = n) by (symmetry; apply N.div_mod; lia).
    rewrite B. replace (256 <=? n) with true by (symmetry; apply N.leb_le; lia). reflexivity. }
  apply N.ltb_ge in E3.
  cbn [app parse_len]. change (b2n x83) with 131. cbn [N.ltb N.eqb N.compare Pos.compare Pos.compare_cont Pos.eqb].
  rewrite !b2n_n2b.
  assert (A : (n / 65536) mod 256 = n / 65536).
  { apply N.mod_small. apply N.div_lt_upper_bound; lia. }
  rewrite A.
  assert (B : 65536 * (n / 65536) + 256 * ((n / 256) mod 256) + n mod 256 = n).
  { pose proof (N.div_mod n 256 ltac:(lia)) as D1.
    pose proof (N.div_mod (n / 256) 256 ltac:(lia)) as D2.
    rewrite N.div_div in D2 by lia. change (256 * 256) with 65536 in D2. lia. }
  rewrite B. replace (65536 <=? n) with true by (symmetry; apply N.leb_le; lia). reflexivity.
Qed.

Lemma parse_tlv_ok tag content rest :
  blen content < 16777216 -> parse_tlv tag (tlv tag content ++ rest) = Some (content, rest).
Proof.
  intro H. unfold tlv, parse_tlv. cbn [app]. rewrite byte_eqb_refl.
  rewrite <- app_assoc, parse_der_len by exact H.
  unfold blen. rewrite Nat2N.id, app_length.
  replace (Nat.leb (length content) (length content + length rest)) with true
    by (symmetry; apply Nat.leb_le; lia).
  rewrite firstn_app, Nat.sub_diag, firstn_all, firstn_O, List.app_nil_r.
  rewrite skipn_app, Nat.sub_diag, skipn_all, skipn_O. reflexivity.
Qed.

Lemma blen_app (a b : bytes) : blen (a ++ b) = blen a + blen b.
Proof. unfold blen. rewrite app_length. lia. Qed.

Lemma blen_tlv tag content : blen (tlv tag content) = 1 + blen (der_len (blen content)) + blen content.
Proof. unfold tlv, blen. cbn [length]. rewrite app_length. lia. Qed.

Lemma der_len_short n : blen (der_len n) <= 4.
Proof. unfold der_len. repeat match goal with |- context [if ?c then _ else _] => destruct c end; cbn; lia. Qed.

(** The request codec: a message and realm encoded the way the gateway's codec
    encodes them decode to themselves (sizes up to the proxy's own limit). *)
Lemma decode_encode_req message realm :
  blen message + blen realm < 1048576 ->
  decode_req (encode_req message realm) = Some (message, realm).
Proof.
  intro H. unfold encode_req, decode_req.
  assert (T : forall tag c, blen (tlv tag c) <= blen c + 5).
  { intros tag c. rewrite blen_tlv. pose proof (der_len_short (blen c)). lia. }
  pose proof (T x04 message) as B1. pose proof (T xa0 (tlv x04 message)) as B2. pose proof (T x81 realm) as B3.
  set (inner := tlv xa0 (tlv x04 message) ++ match realm with [] => [] | _ => tlv x81 realm end).
  assert (B4 : blen inner <= blen message + blen realm + 15).
  { unfold inner. rewrite blen_app. destruct realm as [|c realm]; [change (blen []) with 0 in *; lia | lia]. }
  rewrite <- (List.app_nil_r (tlv x30 inner)). rewrite parse_tlv_ok by lia.
  unfold inner. rewrite parse_tlv_ok by lia.
  rewrite <- (List.app_nil_r (tlv x04 message)). rewrite parse_tlv_ok by lia.
  destruct realm as [|c realm]; [reflexivity|].
  rewrite <- (List.app_nil_r (tlv x81 (c :: realm))). rewrite parse_tlv_ok by lia. reflexivity.
Qed.

(** The wrapped reply decodes to exactly the KDC's reply. *)
Lemma decode_encode_msg reply :
  blen reply < 1048576 -> decode_req (encode_msg reply) = Some (reply, []).
Proof.
  intro H. pose proof (decode_encode_req reply []) as D. unfold encode_req in D. rewrite List.app_nil_r in D.
  apply D. change (blen []) with 0. lia.
Qed.

(** Undecodable bodies are refused with 400 whatever the KDCs would do. *)
Lemma undecodable_is_400 data realms : decode_req data = None -> handle data realms = PStatus 400.
Proof. intro H. unfold handle. now rewrite H. Qed.

(** Exact relay. *)
Lemma relay_exact message realm realms kdcs r :
  blen message + blen realm < 1048576 ->
  realms realm = Some kdcs -> first_reply kdcs message = Some r ->
  handle (encode_req message realm) realms = PReply (encode_msg r).
Proof. intros H R F. unfold handle. rewrite decode_encode_req by exact H. now rewrite R, F. Qed.

Lemma first_reply_from kdcs message r :
  first_reply kdcs message = Some r -> exists k, In k kdcs /\ from_kdc k message = Some r.
Proof.
  induction kdcs as [|k kdcs IH]; [discriminate|]. cbn [first_reply].
  destruct (from_kdc k message) as [r'|] eqn:E.
  - intro H; inversion H; subst. exists k. split; [now left | exact E].
  - intro H. destruct (IH H) as [k' [I F]]. exists k'. split; [now right | exact F].
Qed.
