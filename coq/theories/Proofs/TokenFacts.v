(** C02 / C15: acceptance conditions of the token checks. *)
From Coq Require Import List NArith ZArith Bool Lia.
From Coq.Strings Require Import Byte.
From RDPGW Require Import Lib.Bytes Gen.Consts Model.Token.
Import ListNotations.
Open Scope Z_scope.

Definition time_ok (now : Z) (c : claims) : Prop :=
  (forall e, cl_exp c = Some e -> now - 60 <= e) /\
  (forall n, cl_nbf c = Some n -> n <= now + 60) /\
  (forall i, cl_iat c = Some i -> i <= now + 60).

Lemma validate_gen_iff issuer now c :
  validate issuer now c = true <-> (issuer = [] \/ cl_iss c = issuer) /\ time_ok now c.
Proof.
  unfold validate, time_ok, leeway. rewrite !andb_true_iff.
  assert (I : match issuer with [] => true | _ :: _ => bytes_eqb issuer (cl_iss c) end = true
              <-> (issuer = [] \/ cl_iss c = issuer)).
  { destruct issuer as [|x issuer].
    - split; [now left | reflexivity].
    - rewrite bytes_eqb_eq. split; [intro H; right; now symmetry | intros [H|H]; [discriminate | now symmetry]]. }
  rewrite I. clear I.
  split.
  - intros [[[H1 H2] H3] H4]. split; [auto|]. repeat split.
    + intros e He. rewrite He in H3. apply negb_true_iff, Z.ltb_ge in H3. lia.
    + intros n Hn. rewrite Hn in H2. apply negb_true_iff, Z.ltb_ge in H2. lia.
    + intros i Hi. rewrite Hi in H4. apply negb_true_iff, Z.ltb_ge in H4. lia.
  - intros [H1 [H2 [H3 H4]]]. repeat split; auto.
    + destruct (cl_nbf c) as [n|]; [|reflexivity]. apply negb_true_iff, Z.ltb_ge. specialize (H3 n eq_refl). lia.
    + destruct (cl_exp c) as [e|]; [|reflexivity]. apply negb_true_iff, Z.ltb_ge. specialize (H2 e eq_refl). lia.
    + destruct (cl_iat c) as [i|]; [|reflexivity]. apply negb_true_iff, Z.ltb_ge. specialize (H4 i eq_refl). lia.
Qed.

(** With a configured (non-empty) issuer the token's issuer must equal it. *)
Lemma validate_iff issuer now c :
  issuer <> [] -> (validate issuer now c = true <-> cl_iss c = issuer /\ time_ok now c).
Proof.
  intro Ne. rewrite validate_gen_iff. split.
  - intros [[H|H] T]; [contradiction | now split].
  - intros [H T]. split; [now right | exact T].
Qed.

Ltac const_ne := let H := fresh in intro H; vm_compute in H; discriminate H.

Lemma alg_eqb_hs256 a : alg_eqb a HS256 = true <-> a = HS256.
Proof. destruct a; split; intro H; try reflexivity; try discriminate; vm_compute in H; discriminate. Qed.

Lemma hs256_allowed : in_list (alg_name HS256) PAA_SIG_ALGS = true.
Proof. reflexivity. Qed.

(** [CheckPAACookie] accepts exactly: a compact JWS MAC'ed with HS256 under the
    configured signing key, issuer "rdpgw", time claims within the one-minute
    leeway, whose embedded access token the IdP still honours; and then the
    tunnel gets exactly the token's host and address and the IdP's subject. *)
Lemma check_paa_accept_iff k now idp tok host ip user :
  fst (check_paa k now idp tok) = PaaAccept host ip user <->
  exists c, tok = JCompact HS256 k c /\ cl_iss c = s_rdpgw /\ time_ok now c /\
            idp (cl_at c) = Some user /\ host = cl_host c /\ ip = cl_ip c.
Proof.
  unfold check_paa. destruct tok as [|a key c|].
  - split; [discriminate | intros [c [H _]]; discriminate].
  - destruct (in_list (alg_name a) PAA_SIG_ALGS) eqn:A1; cbn [negb].
    2:{ split; [discriminate|]. intros [c' [H _]]. inversion H; subst. rewrite hs256_allowed in A1. discriminate. }
    destruct (alg_eqb a HS256) eqn:A2; cbn [negb].
    2:{ split; [discriminate|]. intros [c' [H _]]. inversion H; subst. vm_compute in A2. discriminate. }
    apply alg_eqb_hs256 in A2. subst a.
    destruct (bytes_eqb key k) eqn:K; cbn [negb].
    2:{ apply bytes_eqb_neq in K. split; [discriminate|]. intros [c' [H _]]. inversion H; subst. contradiction. }
    apply bytes_eqb_eq in K. subst key.
    destruct (validate PAA_CHECK_ISSUER now c) eqn:V; cbn [negb].
    + apply validate_iff in V as [V1 V2]; [|const_ne].
      destruct (idp (cl_at c)) as [s|] eqn:I; cbn [fst].
      * split.
        -- intro H. inversion H; subst. exists c. destruct V2 as [T1 [T2 T3]].
           repeat split; auto; exact V1.
        -- intros [c' [H [_ [_ [Hi [-> ->]]]]]]. inversion H; subst. rewrite I in Hi. inversion Hi. reflexivity.
      * split; [discriminate|]. intros [c' [H [_ [_ [Hi _]]]]]. inversion H; subst. rewrite I in Hi. discriminate.
    + split; [discriminate|]. intros [c' [H [Hi [Ht _]]]]. inversion H; subst.
      assert (validate PAA_CHECK_ISSUER now c' = true) by (apply validate_iff; [const_ne | split; auto]).
      congruence.
  - split; [discriminate | intros [c [H _]]; discriminate].
Qed.

(** The IdP is asked only after signature, issuer and time checks passed. *)
Lemma check_paa_idp_only_after_checks k now idp tok :
  snd (check_paa k now idp tok) = true ->
  exists c, tok = JCompact HS256 k c /\ cl_iss c = s_rdpgw /\ time_ok now c.
Proof.
  unfold check_paa. destruct tok as [|a key c|]; try discriminate.
  destruct (in_list (alg_name a) PAA_SIG_ALGS); cbn [negb]; try discriminate.
  destruct (alg_eqb a HS256) eqn:A2; cbn [negb]; try discriminate.
  apply alg_eqb_hs256 in A2. subst a.
  destruct (bytes_eqb key k) eqn:K; cbn [negb]; try discriminate.
  apply bytes_eqb_eq in K. subst key.
  destruct (validate PAA_CHECK_ISSUER now c) eqn:V; cbn [negb]; try discriminate.
  apply validate_iff in V as [V1 V2]; [|const_ne]. intros _. exists c. auto.
Qed.

Lemma mint_paa_expiry k now user host ip atok tok :
  mint_paa k now user host ip atok = Some tok ->
  exists c, tok = JCompact HS256 k c /\ cl_exp c = Some (now + 300) /\ cl_iss c = s_rdpgw /\
            cl_host c = host /\ cl_ip c = ip /\ cl_at c = atok /\ cl_sub c = user /\
            cl_nbf c = None /\ cl_iat c = None.
Proof.
  unfold mint_paa. destruct (blen k <? PAA_MIN_KEY)%N; [discriminate|].
  intro H. inversion H; subst. eexists. repeat split; reflexivity.
Qed.

Lemma fresh_token_accepted k now t idp user host ip atok tok s :
  mint_paa k now user host ip atok = Some tok ->
  t <= now + 360 -> idp atok = Some s ->
  fst (check_paa k t idp tok) = PaaAccept host ip s.
Proof.
  intros M Ht Hi. destruct (mint_paa_expiry _ _ _ _ _ _ _ M) as [c [-> [E [I [H1 [H2 [H3 [_ [N1 N2]]]]]]]]].
  apply check_paa_accept_iff. exists c. split; [reflexivity|]. split; [exact I|]. split.
  { repeat split.
    - intros e He. rewrite E in He. inversion He. lia.
    - intros n Hn. congruence.
    - intros i Hi'. congruence. }
  repeat split; congruence.
Qed.

Lemma minted_rejected_after_lifetime k now t idp user host ip atok tok :
  mint_paa k now user host ip atok = Some tok -> now + 360 < t ->
  fst (check_paa k t idp tok) = PaaReject.
Proof.
  intros M Ht. destruct (mint_paa_expiry _ _ _ _ _ _ _ M) as [c [-> [E _]]].
  destruct (fst (check_paa k t idp (JCompact HS256 k c))) as [|h i u] eqn:R; [reflexivity|].
  apply check_paa_accept_iff in R as [c' [H [_ [[T _] _]]]]. inversion H; subst.
  specialize (T _ E). lia.
Qed.

(* ---------------------------------------------------------------- user tokens *)

Definition both_keys (enc_key sign_key : bytes) : Prop := enc_key <> [] /\ sign_key <> [].

Lemma blen_zero l : (blen l =? 0)%N = true <-> l = [].
Proof.
  destruct l as [|x l]; [split; reflexivity|]. split; [|discriminate].
  intro H. apply N.eqb_eq in H. unfold blen in H. cbn [length] in H. lia.
Qed.

Lemma direct_ok1 : in_list s_direct USER_KEY_ALGS_SIGNED = true. Proof. reflexivity. Qed.
Lemma direct_ok2 : in_list s_direct USER_KEY_ALGS_ENC = true. Proof. reflexivity. Qed.
Lemma cbc_ok1 : in_list s_a128cbc USER_CONTENT_ENC_SIGNED = true. Proof. reflexivity. Qed.
Lemma cbc_ok2 : in_list s_a128cbc USER_CONTENT_ENC_ENC = true. Proof. reflexivity. Qed.
Lemma hs256_user_ok : in_list (alg_name HS256) USER_SIG_ALGS = true. Proof. reflexivity. Qed.

(** A minted user token verifies, in the mode it was minted in, while unexpired,
    and yields its subject. *)
Lemma minted_user_verifies ek sk now t user tok :
  mint_user ek sk now user = Some tok -> t <= now + 360 ->
  user_info ek sk t tok = Some user.
Proof.
  unfold mint_user. destruct (blen ek <? USER_MIN_ENC_KEY)%N eqn:L; [discriminate|].
  intros H Ht. inversion H; subst; clear H.
  assert (Hek : (blen ek =? 0)%N = false).
  { apply N.ltb_ge in L. apply N.eqb_neq. unfold USER_MIN_ENC_KEY in L. lia. }
  unfold user_info. rewrite Hek. cbn [negb andb].
  destruct (0 <? blen sk)%N eqn:S.
  - assert (Hsk : (blen sk =? 0)%N = false) by (apply N.ltb_lt in S; apply N.eqb_neq; lia).
    rewrite Hsk. cbn [negb]. rewrite direct_ok1, cbc_ok1, !bytes_eqb_refl, hs256_user_ok. cbn [andb].
    replace (validate USER_CHECK_ISSUER t _) with true; [reflexivity|].
    symmetry. apply validate_iff; [const_ne|]. cbn. repeat split; try discriminate.
    intros e He. inversion He. unfold USER_EXPIRY_SECONDS. cbn. lia.
  - assert (Hsk : (blen sk =? 0)%N = true) by (apply N.ltb_ge in S; apply N.eqb_eq; lia).
    rewrite Hsk. cbn [negb]. rewrite direct_ok2, cbc_ok2, bytes_eqb_refl. cbn [andb].
    replace (validate USER_CHECK_ISSUER t _) with true; [reflexivity|].
    symmetry. apply validate_iff; [const_ne|]. cbn. repeat split; try discriminate.
    intros e He. inversion He. unfold USER_EXPIRY_SECONDS. cbn. lia.
Qed.

(** Verification succeeds only for a token encrypted under the configured
    encryption key (and, in sign-and-encrypt mode, signed under the configured
    signing key with HS256), issuer "rdpgw", unexpired. *)
Lemma user_info_sound ek sk now tok user :
  ek <> [] ->
  user_info ek sk now tok = Some user ->
  exists kalg cenc cty i c,
    tok = EEnc kalg cenc ek cty i /\ cl_sub c = user /\ cl_iss c = s_rdpgw /\ time_ok now c /\
    ((sk <> [] /\ exists a, i = InSigned a sk c /\ in_list (alg_name a) USER_SIG_ALGS = true) \/
     (sk = [] /\ i = InClaims c)).
Proof.
  intros Hek. unfold user_info.
  assert (E1 : (blen ek =? 0)%N = false).
  { destruct (blen ek =? 0)%N eqn:E; [apply blen_zero in E; contradiction | reflexivity]. }
  rewrite E1. cbn [negb andb].
  destruct (blen sk =? 0)%N eqn:E2; cbn [negb].
  - apply blen_zero in E2. subst sk.
    destruct tok as [kalg cenc key cty i|]; [|discriminate].
    destruct (in_list kalg USER_KEY_ALGS_ENC && in_list cenc USER_CONTENT_ENC_ENC && bytes_eqb key ek) eqn:G; [|discriminate].
    apply andb_true_iff in G as [G K]. apply bytes_eqb_eq in K. subst key.
    destruct i as [c| |]; try discriminate.
    destruct (validate USER_CHECK_ISSUER now c) eqn:V; [|discriminate].
    intro H; inversion H; subst. apply validate_iff in V as [V1 V2]; [|const_ne].
    exists kalg, cenc, cty, (InClaims c), c.
    split; [reflexivity|]. split; [reflexivity|]. split; [exact V1|]. split; [exact V2|].
    right. split; reflexivity.
  - assert (Hsk : sk <> []) by (intro; subst; discriminate).
    destruct tok as [kalg cenc key cty i|]; [|discriminate].
    destruct (in_list kalg USER_KEY_ALGS_SIGNED && in_list cenc USER_CONTENT_ENC_SIGNED && cty && bytes_eqb key ek) eqn:G; [|discriminate].
    apply andb_true_iff in G as [G K]. apply bytes_eqb_eq in K. subst key.
    destruct i as [|a skey c|]; try discriminate.
    destruct (in_list (alg_name a) USER_SIG_ALGS && bytes_eqb skey sk) eqn:S; [|discriminate].
    apply andb_true_iff in S as [S1 S2]. apply bytes_eqb_eq in S2. subst skey.
    destruct (validate USER_CHECK_ISSUER now c) eqn:V; [|discriminate].
    intro H; inversion H; subst. apply validate_iff in V as [V1 V2]; [|const_ne].
    exists kalg, cenc, cty, (InSigned a sk c), c.
    split; [reflexivity|]. split; [reflexivity|]. split; [exact V1|]. split; [exact V2|].
    left. split; [exact Hsk|]. exists a. split; [reflexivity | exact S1].
Qed.

(** The two key modes are disjoint. *)
Lemma modes_disjoint_enc_in_signed ek sk now t user tok :
  sk <> [] -> mint_user ek [] now user = Some tok -> user_info ek sk t tok = None.
Proof.
  intros Hsk. unfold mint_user. destruct (blen ek <? USER_MIN_ENC_KEY)%N eqn:L; [discriminate|].
  cbn [blen length N.of_nat N.ltb N.compare]. intro H; inversion H; subst; clear H.
  unfold user_info.
  assert (E1 : (blen ek =? 0)%N = false).
  { apply N.ltb_ge in L. apply N.eqb_neq. unfold USER_MIN_ENC_KEY in L. lia. }
  assert (E2 : (blen sk =? 0)%N = false).
  { destruct (blen sk =? 0)%N eqn:E; [apply blen_zero in E; contradiction | reflexivity]. }
  rewrite E1, E2. cbn [negb andb]. rewrite direct_ok1, cbc_ok1, bytes_eqb_refl. reflexivity.
Qed.

Lemma modes_disjoint_signed_in_enc ek sk now t user tok :
  sk <> [] -> mint_user ek sk now user = Some tok -> user_info ek [] t tok = None.
Proof.
  intros Hsk. unfold mint_user. destruct (blen ek <? USER_MIN_ENC_KEY)%N eqn:L; [discriminate|].
  assert (S : (0 <? blen sk)%N = true).
  { apply N.ltb_lt. destruct sk; [contradiction|]. unfold blen. cbn [length]. lia. }
  rewrite S. intro H; inversion H; subst; clear H.
  unfold user_info.
  assert (E1 : (blen ek =? 0)%N = false).
  { apply N.ltb_ge in L. apply N.eqb_neq. unfold USER_MIN_ENC_KEY in L. lia. }
  rewrite E1. cbn [negb andb blen length N.of_nat N.eqb].
  rewrite direct_ok2, cbc_ok2, bytes_eqb_refl. reflexivity.
Qed.
