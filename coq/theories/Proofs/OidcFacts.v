(** C13: a session is authenticated only through a verified login. *)
From Coq Require Import List NArith ZArith Bool Lia.
From Coq.Strings Require Import Byte.
From RDPGW Require Import Lib.Bytes Gen.Consts Model.Oidc.
Import ListNotations.
Open Scope Z_scope.

Lemma ofinal_app ops1 : forall st ops2, ofinal st (ops1 ++ ops2) = ofinal (ofinal st ops1) ops2.
Proof. induction ops1 as [|op ops1 IH]; intros st ops2; cbn [app ofinal]; auto. Qed.

(** A callback that completes a login. *)
Definition good_callback (st : ostate) (state : N) (e : cbenv) (t : Z) : Prop :=
  state_valid state t st = true /\ cb_exchange_ok e = true /\ cb_has_idtoken e = true /\
  cb_verify_ok e = true /\ cb_username e <> [].

Lemma ostep_callback_iff st s state e t :
  snd (ostep st (OCallback s state e t)) = OutCbRedirect <-> good_callback st state e t.
Proof.
  unfold ostep, good_callback.
  destruct (state_valid state t st); cbn [negb]; [|split; [discriminate | intros [H _]; discriminate]].
  destruct (cb_exchange_ok e); cbn [negb]; [|split; [discriminate | intros [_ [H _]]; discriminate]].
  destruct (cb_has_idtoken e); cbn [negb]; [|split; [discriminate | intros [_ [_ [H _]]]; discriminate]].
  destruct (cb_verify_ok e); cbn [negb]; [|split; [discriminate | intros [_ [_ [_ [H _]]]]; discriminate]].
  destruct (cb_username e) as [|c u]; cbn [snd].
  - split; [discriminate | intros [_ [_ [_ [_ H]]]]; contradiction].
  - split; [intros _; repeat split; discriminate | reflexivity].
Qed.

(** Invariant: every authenticated session entry was written by a good callback
    of that session carrying that very user name. *)
Definition SessInv (hist : list oop) (st : ostate) : Prop :=
  forall s i, find_n s (o_sessions st) = Some i -> i_auth i = true ->
    i_user i <> [] /\
    exists pre state e t post,
      hist = pre ++ OCallback s state e t :: post /\
      good_callback (ofinal ostate0 pre) state e t /\ cb_username e = i_user i /\
      cb_access_token e = i_at i.

Lemma SessInv_step hist st op :
  SessInv hist st -> st = ofinal ostate0 hist -> SessInv (hist ++ [op]) (fst (ostep st op)).
Proof.
  intros I Hst s i F A.
  assert (Lift : forall s' i', (i_user i' <> [] /\ exists pre state e t post,
             hist = pre ++ OCallback s' state e t :: post /\
             good_callback (ofinal ostate0 pre) state e t /\ cb_username e = i_user i' /\
             cb_access_token e = i_at i') ->
           i_user i' <> [] /\ exists pre state e t post,
             hist ++ [op] = pre ++ OCallback s' state e t :: post /\
             good_callback (ofinal ostate0 pre) state e t /\ cb_username e = i_user i' /\
             cb_access_token e = i_at i').
  { intros s' i' [N [pre [state [e [t [post [E R]]]]]]]. split; [exact N|].
    exists pre, state, e, t, (post ++ [op]). split; [rewrite E, <- app_assoc; reflexivity | exact R]. }
  destruct op as [s0 t0|s0 state e t]; unfold ostep in F.
  - destruct (i_auth (session_of s0 st)); cbn [fst o_sessions] in F; apply Lift; now apply I.
  - destruct (state_valid state t st) eqn:V; cbn [negb] in F; [|cbn [fst] in F; apply Lift; now apply I].
    destruct (cb_exchange_ok e) eqn:X; cbn [negb] in F; [|cbn [fst] in F; apply Lift; now apply I].
    destruct (cb_has_idtoken e) eqn:T; cbn [negb] in F; [|cbn [fst] in F; apply Lift; now apply I].
    destruct (cb_verify_ok e) eqn:W; cbn [negb] in F; [|cbn [fst] in F; apply Lift; now apply I].
    destruct (cb_username e) as [|c u] eqn:U; [cbn [fst] in F; apply Lift; now apply I|].
    cbn [fst put_session o_sessions find_n] in F.
    destruct (s =? s0)%N eqn:E.
    + apply N.eqb_eq in E. subst s0. inversion F; subst i. cbn [i_user i_at]. split; [discriminate|].
      exists hist, state, e, t, []. split; [reflexivity|]. rewrite <- Hst.
      repeat split; auto. rewrite U. discriminate.
    + apply Lift. now apply I.
Qed.

Lemma SessInv_reachable hist : SessInv hist (ofinal ostate0 hist).
Proof.
  induction hist as [|op hist IH] using rev_ind.
  - intros s i F. discriminate.
  - rewrite ofinal_app. cbn [ofinal]. apply SessInv_step; [exact IH | reflexivity].
Qed.

(** State values are issued by the gateway itself, to a /connect request, and
    are honoured for less than two minutes. *)
Definition StateInv (hist : list oop) (st : ostate) : Prop :=
  forall state t0, find_n state (o_states st) = Some t0 ->
    exists pre s post, hist = pre ++ OConnect s t0 :: post /\ o_next (ofinal ostate0 pre) = state /\
                       snd (ostep (ofinal ostate0 pre) (OConnect s t0)) = OutToIdP state.

Lemma StateInv_step hist st op :
  StateInv hist st -> st = ofinal ostate0 hist -> StateInv (hist ++ [op]) (fst (ostep st op)).
Proof.
  intros I Hst state t0 F.
  assert (Lift : (exists pre s post, hist = pre ++ OConnect s t0 :: post /\ o_next (ofinal ostate0 pre) = state /\
                     snd (ostep (ofinal ostate0 pre) (OConnect s t0)) = OutToIdP state) ->
                 exists pre s post, hist ++ [op] = pre ++ OConnect s t0 :: post /\ o_next (ofinal ostate0 pre) = state /\
                     snd (ostep (ofinal ostate0 pre) (OConnect s t0)) = OutToIdP state).
  { intros [pre [s [post [E R]]]]. exists pre, s, (post ++ [op]). split; [rewrite E, <- app_assoc; reflexivity | exact R]. }
  destruct op as [s1 t1|s1 state1 e t1]; unfold ostep in F |- *.
  - destruct (i_auth (session_of s1 st)) eqn:A; cbn [fst o_states] in F; [apply Lift; now apply I|].
    cbn [find_n] in F. destruct (state =? o_next st)%N eqn:E.
    + apply N.eqb_eq in E. inversion F; subst t0. exists hist, s1, []. split; [reflexivity|].
      rewrite <- Hst. split; [now symmetry|]. unfold ostep. rewrite A. cbn [snd]. now rewrite E.
    + apply Lift. now apply I.
  - repeat match type of F with context [if ?c then _ else _] => destruct c end;
      try (cbn [fst] in F; apply Lift; now apply I).
    destruct (cb_username e); cbn [fst put_session o_states] in F; apply Lift; now apply I.
Qed.

Lemma StateInv_reachable hist : StateInv hist (ofinal ostate0 hist).
Proof.
  induction hist as [|op hist IH] using rev_ind.
  - intros s t F. discriminate.
  - rewrite ofinal_app. cbn [ofinal]. apply StateInv_step; [exact IH | reflexivity].
Qed.

(** The main theorem. *)
Theorem oidc_sound ops s :
  i_auth (session_of s (ofinal ostate0 ops)) = true ->
  let u := i_user (session_of s (ofinal ostate0 ops)) in
  u <> [] /\
  exists pre state e t post t0,
    ops = pre ++ OCallback s state e t :: post /\
    (* the state was issued by this gateway less than two minutes before *)
    find_n state (o_states (ofinal ostate0 pre)) = Some t0 /\ t - t0 < 120 /\
    (exists pre0 s0 post0, pre = pre0 ++ OConnect s0 t0 :: post0 /\
        snd (ostep (ofinal ostate0 pre0) (OConnect s0 t0)) = OutToIdP state) /\
    (* the provider exchanged the code, the ID token verified and names the user *)
    cb_exchange_ok e = true /\ cb_has_idtoken e = true /\ cb_verify_ok e = true /\ cb_username e = u.
Proof.
  intro A. cbv zeta. unfold session_of in *.
  destruct (find_n s (o_sessions (ofinal ostate0 ops))) as [i|] eqn:F; [|discriminate].
  destruct (SessInv_reachable ops s i F A) as [N [pre [state [e [t [post [E [G [U _]]]]]]]]].
  split; [exact N|].
  destruct G as [V [X [T [W _]]]].
  unfold state_valid in V. destruct (find_n state (o_states (ofinal ostate0 pre))) as [t0|] eqn:FS; [|discriminate].
  apply Z.ltb_lt in V.
  destruct (StateInv_reachable pre state t0 FS) as [pre0 [s0 [post0 [E0 [_ O]]]]].
  exists pre, state, e, t, post, t0. repeat split; auto.
  exists pre0, s0, post0. auto.
Qed.

(** A failing callback leaves every session as it was. *)
Theorem failing_callback_changes_nothing st s state e t :
  snd (ostep st (OCallback s state e t)) <> OutCbRedirect ->
  fst (ostep st (OCallback s state e t)) = st.
Proof.
  unfold ostep. intro H.
  repeat match goal with |- context [if ?c then _ else _] => destruct c end; try reflexivity.
  destruct (cb_username e); [reflexivity|]. exfalso. apply H.
  unfold ostep. reflexivity || (cbn; reflexivity).
Qed.
