(** C14: the NTLM verifier authenticates only proof of the configured password
    against the challenge it issued in that very session. *)
From Coq Require Import List NArith ZArith Bool Lia.
From Coq.Strings Require Import Byte.
From RDPGW Require Import Lib.Bytes Model.Ntlm.
Import ListNotations.
Open Scope Z_scope.

(** Local characterisation of success. *)
Lemma nstep_ok_iff db st t s m u :
  snd (nstep db st t s m) = OAuthOK u <->
  s <> [] /\ exists pw ch,
    m = NAuth u (RespFor u pw ch) /\ n_chal (live_ctx t s st) = Some ch /\ pw = db u /\ db u <> [].
Proof.
  unfold nstep. destruct s as [|s0 s']; [split; [discriminate | intros [H _]; contradiction]|].
  set (s := s0 :: s') in *.
  split.
  - intro H. split; [discriminate|].
    destruct m as [| | | |user r|]; try discriminate.
    destruct (n_chal (live_ctx t s st)) as [ch|] eqn:C; [|discriminate].
    destruct (verifies db (live_ctx t s st) user r) eqn:V; [|discriminate].
    cbn [snd] in H. inversion H; subst user.
    unfold verifies in V. rewrite C in V. destruct r as [u' pw ch'|]; [|discriminate].
    apply andb_true_iff in V as [V V4]. apply andb_true_iff in V as [V V3].
    apply andb_true_iff in V as [V1 V2].
    apply bytes_eqb_eq in V1, V2. apply N.eqb_eq in V3. apply negb_true_iff in V4. apply bytes_eqb_neq in V4.
    subst. exists (db u), ch'. auto.
  - intros [_ [pw [ch [-> [C [-> Hd]]]]]]. rewrite C.
    unfold verifies. rewrite C. rewrite !bytes_eqb_refl, N.eqb_refl. cbn [andb].
    apply bytes_eqb_neq in Hd. rewrite Hd. reflexivity.
Qed.

(** Challenges are fresh: every challenge stored in a context was issued by a
    negotiate step of that same session, and is smaller than the next nonce. *)
Definition issued (db : bytes -> bytes) (hist : list nop) (s : bytes) (ch : N) : Prop :=
  exists pre t post st,
    hist = pre ++ (t, s, NNegotiate) :: post /\ st = nfinal db nstate0 pre /\
    nstep db st t s NNegotiate = (fst (nstep db st t s NNegotiate), OChallenge ch).

Lemma get_del_same s l : get_ctx s (del_ctx s l) = None.
Proof.
  induction l as [|[s' c] l IH]; [reflexivity|]. cbn [del_ctx].
  destruct (bytes_eqb s s') eqn:E; [exact IH|]. cbn [get_ctx]. now rewrite E.
Qed.
Lemma get_del_other s s' l : s <> s' -> get_ctx s (del_ctx s' l) = get_ctx s l.
Proof.
  intro H. induction l as [|[x c] l IH]; [reflexivity|]. cbn [del_ctx get_ctx].
  destruct (bytes_eqb s' x) eqn:E.
  - apply bytes_eqb_eq in E. subst x. apply bytes_eqb_neq in H. now rewrite H.
  - cbn [get_ctx]. now rewrite IH.
Qed.
Lemma get_put_same s c l : get_ctx s (put_ctx s c l) = Some c.
Proof. unfold put_ctx. cbn [get_ctx]. now rewrite bytes_eqb_refl. Qed.
Lemma get_put_other s s' c l : s <> s' -> get_ctx s (put_ctx s' c l) = get_ctx s l.
Proof.
  intro H. unfold put_ctx. cbn [get_ctx]. apply bytes_eqb_neq in H. rewrite H.
  apply get_del_other. now apply bytes_eqb_neq.
Qed.

(** Invariant over reachable states: stored challenges are below the nonce
    counter and were issued in their own session by an earlier negotiate. *)
Definition Inv (db : bytes -> bytes) (hist : list nop) (st : nstate) : Prop :=
  forall s c ch, get_ctx s (n_ctxs st) = Some c -> n_chal c = Some ch ->
    (ch < n_next st)%N /\ exists pre t post,
      hist = pre ++ (t, s, NNegotiate) :: post /\
      snd (nstep db (nfinal db nstate0 pre) t s NNegotiate) = OChallenge ch.

Lemma nfinal_app db ops1 : forall st ops2,
  nfinal db st (ops1 ++ ops2) = nfinal db (nfinal db st ops1) ops2.
Proof. induction ops1 as [|[[t s] m] ops1 IH]; intros st ops2; cbn [app nfinal]; auto. Qed.

Lemma live_ctx_chal t s st ch :
  n_chal (live_ctx t s st) = Some ch ->
  exists c, get_ctx s (n_ctxs st) = Some c /\ n_chal c = Some ch /\ t - n_created c < expiry.
Proof.
  unfold live_ctx. destruct (get_ctx s (n_ctxs st)) as [c|]; [|discriminate].
  destruct (t - n_created c <? expiry) eqn:E; [|discriminate].
  apply Z.ltb_lt in E. eauto.
Qed.

Lemma Inv_step db hist st t s m :
  Inv db hist st -> st = nfinal db nstate0 hist ->
  Inv db (hist ++ [(t, s, m)]) (fst (nstep db st t s m)).
Proof.
  intros I Hst. unfold Inv in *. intros s1 c1 ch1 G C.
  assert (Lift : forall s' ch', (exists pre t' post, hist = pre ++ (t', s', NNegotiate) :: post /\
                    snd (nstep db (nfinal db nstate0 pre) t' s' NNegotiate) = OChallenge ch') ->
                 exists pre t' post, hist ++ [(t, s, m)] = pre ++ (t', s', NNegotiate) :: post /\
                    snd (nstep db (nfinal db nstate0 pre) t' s' NNegotiate) = OChallenge ch').
  { intros s' ch' [pre [t' [post [E S]]]]. exists pre, t', (post ++ [(t, s, m)]).
    split; [rewrite E, <- app_assoc; reflexivity | exact S]. }
  unfold nstep in G |- *. destruct s as [|a s']; [cbn [fst] in G |- *|].
  { destruct (I s1 c1 ch1 G C) as [L Ex]. split; [exact L | now apply Lift]. }
  set (s := a :: s') in *.
  destruct m as [| | | |user r|].
  - cbn [fst] in G. destruct (I s1 c1 ch1 G C) as [L Ex]. split; [exact L | now apply Lift].
  - cbn [fst n_ctxs n_next] in *. destruct (bytes_eqb_eq s1 s) as [_ Hx].
    destruct (bytes_eqb s1 s) eqn:E.
    + apply bytes_eqb_eq in E. subst s1. rewrite get_del_same in G. discriminate.
    + apply bytes_eqb_neq in E. rewrite get_del_other in G by exact E.
      destruct (I s1 c1 ch1 G C) as [L Ex]. split; [exact L | now apply Lift].
  - (* negotiate *)
    cbn [fst n_ctxs n_next] in *.
    destruct (bytes_eqb s1 s) eqn:E.
    + apply bytes_eqb_eq in E. subst s1. rewrite get_put_same in G. inversion G; subst c1.
      cbn [n_chal] in C. inversion C; subst ch1. split; [lia|].
      exists hist, t, []. split; [reflexivity|]. rewrite <- Hst. subst s. reflexivity.
    + apply bytes_eqb_neq in E. rewrite get_put_other in G by exact E.
      destruct (I s1 c1 ch1 G C) as [L Ex]. split; [lia | now apply Lift].
  - cbn [fst n_ctxs n_next] in *.
    destruct (bytes_eqb s1 s) eqn:E.
    + apply bytes_eqb_eq in E. subst s1. rewrite get_del_same in G. discriminate.
    + apply bytes_eqb_neq in E. rewrite get_del_other in G by exact E.
      destruct (I s1 c1 ch1 G C) as [L Ex]. split; [exact L | now apply Lift].
  - (* authenticate *)
    destruct (n_chal (live_ctx t s st)) as [ch|] eqn:LC.
    + destruct (verifies db (live_ctx t s st) user r); cbn [fst n_ctxs n_next] in *;
        (destruct (bytes_eqb s1 s) eqn:E;
         [ apply bytes_eqb_eq in E; subst s1; rewrite get_del_same in G; discriminate
         | apply bytes_eqb_neq in E; rewrite get_del_other in G by exact E;
           destruct (I s1 c1 ch1 G C) as [L Ex]; split; [exact L | now apply Lift] ]).
    + cbn [fst n_ctxs n_next] in *.
      destruct (bytes_eqb s1 s) eqn:E.
      * apply bytes_eqb_eq in E. subst s1. rewrite get_del_same in G. discriminate.
      * apply bytes_eqb_neq in E. rewrite get_del_other in G by exact E.
        destruct (I s1 c1 ch1 G C) as [L Ex]. split; [exact L | now apply Lift].
  - cbn [fst n_ctxs n_next] in *.
    destruct (bytes_eqb s1 s) eqn:E.
    + apply bytes_eqb_eq in E. subst s1. rewrite get_del_same in G. discriminate.
    + apply bytes_eqb_neq in E. rewrite get_del_other in G by exact E.
      destruct (I s1 c1 ch1 G C) as [L Ex]. split; [exact L | now apply Lift].
Qed.

Lemma Inv_reachable db hist : Inv db hist (nfinal db nstate0 hist).
Proof.
  induction hist as [|[[t s] m] hist IH] using rev_ind.
  - intros s c ch G. discriminate.
  - rewrite nfinal_app. cbn [nfinal]. apply Inv_step; [exact IH | reflexivity].
Qed.

(** Soundness over histories: whenever a step reports a user as authenticated,
    the message was an authenticate message for that user carrying the response
    of the configured, non-empty password to a challenge that an earlier
    negotiate step of the same session was answered with. *)
Theorem ntlm_sound db pre t s m u :
  snd (nstep db (nfinal db nstate0 pre) t s m) = OAuthOK u ->
  db u <> [] /\ exists ch, m = NAuth u (RespFor u (db u) ch) /\
    exists pre1 t1 post1, pre = pre1 ++ (t1, s, NNegotiate) :: post1 /\
      snd (nstep db (nfinal db nstate0 pre1) t1 s NNegotiate) = OChallenge ch.
Proof.
  intro H. apply nstep_ok_iff in H as [Hs [pw [ch [-> [C [-> Hd]]]]]].
  split; [exact Hd|]. exists ch. split; [reflexivity|].
  apply live_ctx_chal in C as [c [G [C _]]].
  destruct (Inv_reachable db pre s c ch G C) as [_ Ex]. exact Ex.
Qed.

(** Completeness: the honest exchange succeeds. *)
Theorem ntlm_complete db st t1 t2 s u :
  s <> [] -> db u <> [] -> t2 - t1 < expiry -> t1 <= t2 ->
  get_ctx s (n_ctxs st) = None ->
  let '(st1, o1) := nstep db st t1 s NNegotiate in
  o1 = OChallenge (n_next st) /\
  snd (nstep db st1 t2 s (NAuth u (RespFor u (db u) (n_next st)))) = OAuthOK u.
Proof.
  intros Hs Hd He Hle G. destruct s as [|a s']; [contradiction|]. set (s := a :: s') in *.
  unfold nstep at 1. cbv beta iota zeta. split; [reflexivity|].
  apply nstep_ok_iff. split; [discriminate|]. exists (db u), (n_next st). split; [reflexivity|].
  split; [|auto]. unfold live_ctx. cbn [n_ctxs]. rewrite get_put_same. cbn [n_created n_chal].
  unfold live_ctx. rewrite G. cbn [n_created].
  replace (t2 - t1 <? expiry) with true by (symmetry; apply Z.ltb_lt; lia). reflexivity.
Qed.
