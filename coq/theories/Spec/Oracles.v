(** Direct property oracles: boolean restatements of the specifications, run by
    the extracted driver over observations of the *implementation*. They use
    only Spec definitions (reference decoders, monitors), never the model of
    the code. Definitions only. *)
From Coq Require Import List NArith ZArith Bool.
From Coq.Strings Require Import Byte.
From RDPGW Require Import Lib.Bytes Gen.Consts Model.Processor Spec.Wire Spec.TunnelOrder.
Import ListNotations.
Open Scope N_scope.

(** C17 *)
Definition spec_server_caps (smartcard token : bool) : N :=
  (if smartcard then 1 else 0) + (if token then 2 else 0).

Definition negotiation_succeeds_b (smartcard token : bool) (client : N) : bool :=
  ((client =? 0) && (spec_server_caps smartcard token =? 0))
  || negb (N.land (spec_server_caps smartcard token) client =? 0).

(** Observed: the raw handshake response and whether the tunnel ended. *)
Definition c17_oracle (smartcard token : bool) (major minor client : N)
           (raw : bytes) (ended : bool) : bool :=
  match decode_packet raw with
  | Some pk =>
      (pk_type pk =? PKT_TYPE_HANDSHAKE_RESPONSE) &&
      match decode_handshake_response (pk_body pk) with
      | Some (hr, []) =>
          if negotiation_succeeds_b smartcard token client
          then (hr_status hr =? 0) && (hr_major hr =? major) && (hr_minor hr =? minor)
               && (hr_auth hr =? spec_server_caps smartcard token) && negb ended
          else (hr_status hr =? E_PROXY_CAPABILITYMISMATCH) && ended
      | _ => false
      end
  | None => false
  end.

(** C01: index of the first event the monitor rejects, if any. *)
Fixpoint first_reject (nc nh : bool) (m : mon) (tr : list event) (i : nat) : option nat :=
  match tr with
  | [] => None
  | e :: tr' =>
      match feed nc nh m e with
      | Some m' => first_reject nc nh m' tr' (S i)
      | None => Some i
      end
  end.
