(** Direct property oracles: boolean restatements of the specifications, run by
    the extracted driver over observations of the *implementation*. They use
    only Spec definitions (reference decoders, monitors), never the model of
    the code. Definitions only. *)
From Coq Require Import List NArith ZArith Bool.
From Coq.Strings Require Import Byte.
From RDPGW Require Import Lib.Bytes Gen.Consts Model.Processor Spec.Wire Spec.TunnelOrder.
Import ListNotations.
Open Scope N_scope.

(** C17 *)
Definition spec_server_caps (smartcard token : bool) : N :=
  (if smartcard then 1 else 0) + (if token then 2 else 0).

Definition negotiation_succeeds_b (smartcard token : bool) (client : N) : bool :=
  ((client =? 0) && (spec_server_caps smartcard token =? 0))
  || negb (N.land (spec_server_caps smartcard token) client =? 0).

(** Observed: the raw handshake response and whether the tunnel ended. *)
Definition c17_oracle (smartcard token : bool) (major minor client : N)
           (raw : bytes) (ended : bool) : bool :=
  match decode_packet raw with
  | Some pk =>
      (pk_type pk =? PKT_TYPE_HANDSHAKE_RESPONSE) &&
      match decode_handshake_response (pk_body pk) with
      | Some (hr, []) =>
          if negotiation_succeeds_b smartcard token client
          then (hr_status hr =? 0) && (hr_major hr =? major) && (hr_minor hr =? minor)
               && (hr_auth hr =? spec_server_caps smartcard token) && negb ended
          else (hr_status hr =? E_PROXY_CAPABILITYMISMATCH) && ended
      | _ => false
      end
  | None => false
  end.

(** C01: index of the first event the monitor rejects, if any. *)
Fixpoint first_reject (nc nh : bool) (m : mon) (tr : list event) (i : nat) : option nat :=
  match tr with
  | [] => None
  | e :: tr' =>
      match feed nc nh m e with
      | Some m' => first_reject nc nh m' tr' (S i)
      | None => Some i
      end
  end.

(** C16 *)
(** The redirection word as the property states it: disable-all wins, then
    enable-all, otherwise one disable bit per device class that is not enabled
    (drive 0x01, printer 0x02, port 0x04, clipboard 0x08, plug-and-play 0x10). *)
Definition spec_redir (clipboard port drive printer pnp disable_all enable_all : bool) : N :=
  if disable_all then 1073741824
  else if enable_all then 2147483648
  else (if drive then 0 else 1) + (if printer then 0 else 2) + (if port then 0 else 4)
       + (if clipboard then 0 else 8) + (if pnp then 0 else 16).

Definition spec_idle (idle : Z) : N := Z.to_N (Z.max 0 idle).

(** Is [raw] a well-formed response of type [ty] carrying status [status]; for
    the tunnel-authorization response also: does it report the configured policy. *)
Definition c16_resp_ok (redir : N) (idle : Z) (ty status : N) (raw : bytes) : bool :=
  match decode_packet raw with
  | None => false
  | Some pk =>
      (pk_type pk =? ty) && (pk_reserved pk =? 0) && (pk_length pk =? blen raw) &&
      if ty =? PKT_TYPE_HANDSHAKE_RESPONSE then
        match decode_handshake_response (pk_body pk) with
        | Some (r, []) => hr_status r =? status
        | _ => false
        end
      else if ty =? PKT_TYPE_TUNNEL_RESPONSE then
        match decode_tunnel_response (pk_body pk) with
        | Some (r, []) => tr_status r =? status
        | _ => false
        end
      else if ty =? PKT_TYPE_TUNNEL_AUTH_RESPONSE then
        match decode_tunnel_auth_response (pk_body pk) with
        | Some (r, []) =>
            (ta_status r =? status)
            && match ta_redir r with Some v => v =? redir | None => false end
            && match ta_idle r with
               | Some v => if ((-2147483648 <=? idle) && (idle <=? 2147483647))%Z
                           then v =? spec_idle idle else true
               | None => false
               end
        | _ => false
        end
      else if (ty =? PKT_TYPE_CHANNEL_RESPONSE) || (ty =? PKT_TYPE_CLOSE_CHANNEL_RESPONSE) then
        match decode_channel_response (pk_body pk) with
        | Some (r, []) => cr_status r =? status
        | _ => false
        end
      else false
  end.

(** C06 *)
(** The declared payload of a client DATA body per MS-TSGU: cbDataLen bytes
    after the length field; when fewer bytes are carried, the bytes carried. *)
Definition spec_payload (body : bytes) : bytes :=
  match decode_data body with
  | Some (p, _) => p
  | None => skipn 2 body
  end.

(** A packet sent to the client must be one well-formed DATA packet; returns its payload. *)
Definition spec_client_packet (raw : bytes) : option bytes :=
  match decode_packet raw with
  | Some pk =>
      if (pk_type pk =? PKT_TYPE_DATA) && (pk_length pk =? blen raw) then
        match decode_data (pk_body pk) with
        | Some (p, []) => Some p
        | _ => None
        end
      else None
  | None => None
  end.

Fixpoint spec_client_stream (raws : list bytes) : option bytes :=
  match raws with
  | [] => Some []
  | r :: rest =>
      match spec_client_packet r, spec_client_stream rest with
      | Some p, Some s => Some (p ++ s)
      | _, _ => None
      end
  end.

(** Both directions: bytes at the host = declared payloads in order; payloads of
    the packets at the client = the host's stream. *)
Definition c06_oracle (bodies : list bytes) (host_stream : bytes)
           (at_host : bytes) (at_client : list bytes) : bool :=
  bytes_eqb at_host (concat (map spec_payload bodies)) &&
  match spec_client_stream at_client with
  | Some s => bytes_eqb s host_stream
  | None => false
  end.
