(** Independent reference decoders for the MS-TSGU structures the gateway sends
    (MS-TSGU 2.2.10.x). They are written from the protocol document's field
    lists, not from the builders: strict (a short buffer is a decode failure),
    consuming exactly the optional fields announced by the fields-present mask
    and returning the unread remainder. Definitions only. *)
From Coq Require Import List NArith Bool.
From Coq.Strings Require Import Byte.
From RDPGW Require Import Lib.Bytes.
Import ListNotations.
Open Scope N_scope.

Definition get8 (r : bytes) : option (N * bytes) :=
  match r with a :: rest => Some (b2n a, rest) | _ => None end.
Definition get16 (r : bytes) : option (N * bytes) :=
  match r with a :: b :: rest => Some (b2n a + 256 * b2n b, rest) | _ => None end.
Definition get32 (r : bytes) : option (N * bytes) :=
  match r with
  | a :: b :: c :: d :: rest =>
      Some (b2n a + 256 * b2n b + 65536 * b2n c + 16777216 * b2n d, rest)
  | _ => None
  end.
Definition getn (n : nat) (r : bytes) : option (bytes * bytes) :=
  if Nat.leb n (length r) then Some (firstn n r, skipn n r) else None.

Definition bind {A B} (x : option A) (f : A -> option B) : option B :=
  match x with Some a => f a | None => None end.
Notation "'do' ' p <- x ; k" := (bind x (fun v => match v with p => k end))
  (at level 200, p pattern, x at level 100, k at level 200, right associativity).

(** HTTP_PACKET_HEADER: packetType u16, reserved u16, packetLength u32 (total,
    header included). A buffer is one well-formed packet iff its length equals
    packetLength. *)
Record packet := { pk_type : N; pk_reserved : N; pk_length : N; pk_body : bytes }.

Definition decode_packet (raw : bytes) : option packet :=
  do '(ty, r) <- get16 raw;
  do '(rsv, r) <- get16 r;
  do '(len, r) <- get32 r;
  if len =? blen raw then Some {| pk_type := ty; pk_reserved := rsv; pk_length := len; pk_body := r |}
  else None.

(** HTTP_HANDSHAKE_RESPONSE_PACKET body: errorCode u32, verMajor u8, verMinor u8,
    serverVersion u16, extendedAuth u16. *)
Record handshake_resp := { hr_status : N; hr_major : N; hr_minor : N; hr_version : N; hr_auth : N }.
Definition decode_handshake_response (body : bytes) : option (handshake_resp * bytes) :=
  do '(st, r) <- get32 body;
  do '(ma, r) <- get8 r;
  do '(mi, r) <- get8 r;
  do '(ve, r) <- get16 r;
  do '(au, r) <- get16 r;
  Some ({| hr_status := st; hr_major := ma; hr_minor := mi; hr_version := ve; hr_auth := au |}, r).

(** HTTP_TUNNEL_RESPONSE: serverVersion u16, statusCode u32, fieldsPresent u16,
    reserved u16, then optionally tunnelId u32 (0x1), capsFlags u32 (0x2),
    nonce+serverCert (0x4, not decoded: failure), consent message (0x10: failure). *)
Record tunnel_resp := { tr_version : N; tr_status : N; tr_fields : N;
                        tr_tunnel_id : option N; tr_caps : option N }.
Definition decode_tunnel_response (body : bytes) : option (tunnel_resp * bytes) :=
  do '(ve, r) <- get16 body;
  do '(st, r) <- get32 r;
  do '(fp, r) <- get16 r;
  do '(_, r) <- get16 r;
  if negb (N.land fp (N.lnot 3 16) =? 0) then None else
  do '(tid, r) <- (if N.testbit fp 0 then (do '(v, r) <- get32 r; Some (Some v, r)) else Some (None, r));
  do '(caps, r) <- (if N.testbit fp 1 then (do '(v, r) <- get32 r; Some (Some v, r)) else Some (None, r));
  Some ({| tr_version := ve; tr_status := st; tr_fields := fp; tr_tunnel_id := tid; tr_caps := caps |}, r).

(** HTTP_TUNNEL_AUTH_RESPONSE: errorCode u32, fieldsPresent u16, reserved u16,
    then optionally redirFlags u32 (0x1), idleTimeout u32 (0x2), SoH response (0x4: failure). *)
Record tunnel_auth_resp := { ta_status : N; ta_fields : N;
                             ta_redir : option N; ta_idle : option N }.
Definition decode_tunnel_auth_response (body : bytes) : option (tunnel_auth_resp * bytes) :=
  do '(st, r) <- get32 body;
  do '(fp, r) <- get16 r;
  do '(_, r) <- get16 r;
  if negb (N.land fp (N.lnot 3 16) =? 0) then None else
  do '(rd, r) <- (if N.testbit fp 0 then (do '(v, r) <- get32 r; Some (Some v, r)) else Some (None, r));
  do '(idle, r) <- (if N.testbit fp 1 then (do '(v, r) <- get32 r; Some (Some v, r)) else Some (None, r));
  Some ({| ta_status := st; ta_fields := fp; ta_redir := rd; ta_idle := idle |}, r).

(** HTTP_CHANNEL_RESPONSE (also used for the close-channel response):
    errorCode u32, fieldsPresent u16, reserved u16, then optionally channelId u32
    (0x1), udpPort u16 (0x4), authnCookie (0x2: u16 length + bytes). *)
Record channel_resp := { cr_status : N; cr_fields : N; cr_channel_id : option N;
                         cr_udp_port : option N; cr_cookie : option bytes }.
Definition decode_channel_response (body : bytes) : option (channel_resp * bytes) :=
  do '(st, r) <- get32 body;
  do '(fp, r) <- get16 r;
  do '(_, r) <- get16 r;
  if negb (N.land fp (N.lnot 7 16) =? 0) then None else
  do '(cid, r) <- (if N.testbit fp 0 then (do '(v, r) <- get32 r; Some (Some v, r)) else Some (None, r));
  do '(udp, r) <- (if N.testbit fp 2 then (do '(v, r) <- get16 r; Some (Some v, r)) else Some (None, r));
  do '(ck, r) <- (if N.testbit fp 1
                  then (do '(n, r) <- get16 r; do '(v, r) <- getn (N.to_nat n) r; Some (Some v, r))
                  else Some (None, r));
  Some ({| cr_status := st; cr_fields := fp; cr_channel_id := cid; cr_udp_port := udp; cr_cookie := ck |}, r).

(** HTTP_DATA_PACKET body: cbDataLen u16 followed by exactly that many bytes. *)
Definition decode_data (body : bytes) : option (bytes * bytes) :=
  do '(n, r) <- get16 body;
  getn (N.to_nat n) r.
