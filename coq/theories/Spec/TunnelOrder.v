(** C01 as a monitor: the readable specification of "no backend connection or
    relay before the full authorization sequence", independent of the
    implementation's phases. [feed] consumes one observable event of a tunnel
    and returns [None] exactly when the property is violated at that event.
    The same function is extracted and run over traces observed from the real
    gateway (the direct property oracle). Definitions only. *)
From Coq Require Import List NArith Bool.
From Coq.Strings Require Import Byte.
From RDPGW Require Import Lib.Bytes Gen.Consts Model.Processor.
Import ListNotations.
Open Scope N_scope.

(** How far the authorization sequence has come. *)
Inductive progress :=
| P0                      (* nothing yet *)
| P1                      (* handshake answered with success *)
| P1c                     (* ... and the access cookie was accepted *)
| P2                      (* tunnel creation answered with success *)
| P3                      (* tunnel authorization answered with success *)
| P3h (h : bytes)         (* ... and policy allowed host h *)
| P3x (h : bytes)         (* a connection attempt to h failed *)
| P3d (h : bytes)         (* connected to h *)
| P4 (h : bytes).         (* channel creation for h answered with success *)

Inductive mode :=
| Live
| Denied                  (* a check refused or the dial failed: no success may follow *)
| MustEnd                 (* an error response or the close response was sent: only End may follow *)
| Ended.                  (* the tunnel ended: nothing may follow *)

Definition mon := (progress * mode)%type.
Definition mon0 : mon := (P0, Live).

Definition feed (need_cookie need_host : bool) (m : mon) (e : event) : option mon :=
  let '(p, md) := m in
  match md with
  | Ended => None
  | MustEnd => match e with End _ => Some (p, Ended) | _ => None end
  | Denied =>
      match e with
      | End _ => Some (p, Ended)
      | Resp _ status _ => if status =? 0 then None else Some (p, MustEnd)
      | _ => None
      end
  | Live =>
      match e with
      | End _ => Some (p, Ended)
      | Resp ty status _ =>
          if negb (status =? 0) then Some (p, MustEnd)
          else if ty =? PKT_TYPE_HANDSHAKE_RESPONSE then
            match p with P0 => Some (P1, Live) | _ => None end
          else if ty =? PKT_TYPE_TUNNEL_RESPONSE then
            match p with
            | P1 => if need_cookie then None else Some (P2, Live)
            | P1c => Some (P2, Live)
            | _ => None
            end
          else if ty =? PKT_TYPE_TUNNEL_AUTH_RESPONSE then
            match p with P2 => Some (P3, Live) | _ => None end
          else if ty =? PKT_TYPE_CHANNEL_RESPONSE then
            match p with P3d h => Some (P4 h, Live) | _ => None end
          else if ty =? PKT_TYPE_CLOSE_CHANNEL_RESPONSE then
            match p with P4 h => Some (P4 h, MustEnd) | _ => None end
          else None
      | AskCookie _ ok =>
          match p with
          | P1 => if need_cookie then Some (if ok then (P1c, Live) else (P1, Denied)) else None
          | _ => None
          end
      | AskName _ ok =>
          match p with P2 => Some (P2, if ok then Live else Denied) | _ => None end
      | AskHost h ok =>
          match p with
          | P3 => if need_host then Some (if ok then (P3h h, Live) else (P3, Denied)) else None
          | _ => None
          end
      | Dial h ok =>
          match p with
          | P3 => if need_host then None
                  else Some (if ok then (P3d h, Live) else (P3x h, Denied))
          | P3h h' => if bytes_eqb h h'
                      then Some (if ok then (P3d h, Live) else (P3x h, Denied))
                      else None
          | _ => None
          end
      | ToHost _ => match p with P4 h => Some (P4 h, Live) | _ => None end
      end
  end.

Fixpoint feeds (nc nh : bool) (m : mon) (tr : list event) : option mon :=
  match tr with
  | [] => Some m
  | e :: tr' => match feed nc nh m e with Some m' => feeds nc nh m' tr' | None => None end
  end.

(** Milestones: the events that constitute progress, in the order the property
    demands them. *)
Inductive milestone :=
| MsHandshake | MsCookie | MsTunnel | MsTunnelAuth
| MsHost (h : bytes) | MsDial (h : bytes) | MsChannel.

Definition mark (e : event) : list milestone :=
  match e with
  | Resp ty status _ =>
      if negb (status =? 0) then []
      else if ty =? PKT_TYPE_HANDSHAKE_RESPONSE then [MsHandshake]
      else if ty =? PKT_TYPE_TUNNEL_RESPONSE then [MsTunnel]
      else if ty =? PKT_TYPE_TUNNEL_AUTH_RESPONSE then [MsTunnelAuth]
      else if ty =? PKT_TYPE_CHANNEL_RESPONSE then [MsChannel]
      else []
  | AskCookie _ true => [MsCookie]
  | AskHost h true => [MsHost h]
  | Dial h true => [MsDial h]
  | _ => []
  end.

Definition marks (tr : list event) : list milestone := flat_map mark tr.

Definition opt (b : bool) (m : milestone) : list milestone := if b then [m] else [].

(** The milestones a tunnel must have passed, in order, to be at progress [p]. *)
Definition passed (nc nh : bool) (p : progress) : list milestone :=
  match p with
  | P0 => []
  | P1 => [MsHandshake]
  | P1c => [MsHandshake] ++ opt nc MsCookie
  | P2 => [MsHandshake] ++ opt nc MsCookie ++ [MsTunnel]
  | P3 => [MsHandshake] ++ opt nc MsCookie ++ [MsTunnel; MsTunnelAuth]
  | P3h h | P3x h => [MsHandshake] ++ opt nc MsCookie ++ [MsTunnel; MsTunnelAuth] ++ opt nh (MsHost h)
  | P3d h => [MsHandshake] ++ opt nc MsCookie ++ [MsTunnel; MsTunnelAuth] ++ opt nh (MsHost h) ++ [MsDial h]
  | P4 h => [MsHandshake] ++ opt nc MsCookie ++ [MsTunnel; MsTunnelAuth] ++ opt nh (MsHost h)
              ++ [MsDial h; MsChannel]
  end.

Definition is_dial (e : event) : bool := match e with Dial _ _ => true | _ => false end.
Definition count_dials (tr : list event) : nat := length (filter is_dial tr).

Definition dials_of (p : progress) : nat :=
  match p with P3x _ | P3d _ | P4 _ => 1%nat | _ => 0%nat end.

Definition is_end (e : event) : bool := match e with End _ => true | _ => false end.
