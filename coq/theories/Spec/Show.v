(** Canonical text of model observations, written in Gallina so that the same
    definitions are (a) extracted and used by the OCaml runner and (b) evaluated
    inside Coq by the thorough tier's [cases.v] re-evaluation of a sample of the
    cases, which cross-checks extraction and the runner's glue. Definitions only. *)
From Coq Require Import List NArith ZArith Bool String.
From Coq.Strings Require Import Byte.
From RDPGW Require Import Lib.Bytes Gen.Consts Gen.Facts Model.Utf16 Model.Packets Model.Processor Model.Policy
  Model.Partial.
Import ListNotations.
Open Scope N_scope.

Definition str (s : string) : bytes := list_byte_of_string s.

Definition hex_digit (n : N) : byte := if n <? 10 then n2b (48 + n) else n2b (87 + n).
Fixpoint hex (l : bytes) : bytes :=
  match l with
  | [] => []
  | x :: r => hex_digit (b2n x / 16) :: hex_digit (b2n x mod 16) :: hex r
  end.

(** the runner's rendering of a byte string: "-" for the empty one *)
Definition hexs (l : bytes) : bytes := match l with [] => [x2d] | _ => hex l end.

Definition b01 (x : bool) : bytes := if x then [x31] else [x30].
Definition colon : bytes := [x3a].
Definition space : bytes := [x20].

Fixpoint join (sep : bytes) (l : list bytes) : bytes :=
  match l with
  | [] => []
  | [a] => a
  | a :: r => a ++ sep ++ join sep r
  end.

Definition end_class (w : end_reason) : bytes :=
  match w with EndClosed => str "ok" | _ => str "err" end.

(** One token per event; failed dials are invisible, bytes sent to the host are
    concatenated into the [H:] token, [N:] is the number of transport reads. *)
Definition event_token (e : event) : list bytes :=
  match e with
  | Resp ty st raw => [str "R" ++ dec ty ++ colon ++ dec st ++ colon ++ hexs raw]
  | AskCookie c ok => [str "AC:" ++ hexs c ++ colon ++ b01 ok]
  | AskName c ok => [str "AN:" ++ hexs c ++ colon ++ b01 ok]
  | AskHost c ok => [str "AH:" ++ hexs c ++ colon ++ b01 ok]
  | Dial h ok => if ok then [str "D:" ++ hexs h] else []
  | ToHost _ => []
  | End w => [str "E:" ++ end_class w]
  end.

Definition host_bytes (evs : list event) : bytes :=
  List.concat (map (fun e => match e with ToHost b => b | _ => [] end) evs).

Definition obs_of_events (evs : list event) (reads : N) : bytes :=
  let h := host_bytes evs in
  join space (List.concat (map event_token evs)
              ++ [str "H:" ++ (match h with [] => str "-" | _ => hex h end); str "N:" ++ dec reads]).

(** [process] / [process16] / [procrelay] cases. *)
Definition process_obs (c : cfg) (live : list bytes) (items : list read_item) : bytes :=
  let items' := resolve_dials live c tstate0 items in
  obs_of_events (run c items') (N.of_nat (consumed c items')).

(** [policy] cases. *)
Definition policy_obs (tok verify : bool) (mode : bytes) (hosts : list bytes) (t : tunnel_info) (cip : bytes)
           (live : list bytes) (items : list read_item) : bytes :=
  let c := {| c_token_auth := tok; c_smartcard := false; c_cookie_cb := tok; c_name_cb := false; c_host_cb := true;
              c_redir := {| rf_clipboard := false; rf_port := false; rf_drive := false; rf_printer := false;
                            rf_pnp := false; rf_disable_all := false; rf_enable_all := false |};
              c_idle := 0%Z |} in
  let pol := wired_policy tok verify mode hosts t cip in
  let items' := resolve_policy_dials pol live c tstate0 items in
  obs_of_events (run c items') (N.of_nat (consumed c items')).

(** [hdrc], [utf16c], [authpayload], [matchauth], [clientip]. *)
Definition hdrc_obs (data : bytes) : bytes :=
  match read_header_src data with
  | Panic => str "PANIC"
  | Ok HShort => str "short"
  | Ok (HIncomplete ty size) => str "incomplete:" ++ dec ty ++ colon ++ dec size
  | Ok (HMalformed ty size) => str "malformed:" ++ dec ty ++ colon ++ dec size
  | Ok (HOk ty size body) => str "ok:" ++ dec ty ++ colon ++ dec size ++ colon ++ hexs body
  end.

Definition utf16c_obs (data : bytes) : bytes :=
  match decode_utf16_src data with Panic => str "PANIC" | Ok b => hexs b end.

Definition authpayload_obs (v : bytes) : bytes :=
  match auth_payload_src v with
  | Panic => str "PANIC"
  | Ok (p, AmNtlm) => str "ntlm:" ++ hexs p
  | Ok (p, AmNegotiate) => str "negotiate:" ++ hexs p
  | Ok (_, AmNone) => str "none"
  end.

Definition matchauth_obs (sc tok : bool) (client : N) : bytes :=
  match match_auth sc tok client with Some caps => str "ok:" ++ dec caps | None => str "err" end.

Definition clientip_obs (xff peer : bytes) : bytes := hexs (client_ip xff peer).

(** [paa] (C02) and [usertok] (C15) cases: symbolic tokens. *)
From RDPGW Require Import Model.Token.

Definition paa_obs (now : Z) (idp_sub : option bytes) (tok : jws) : bytes :=
  let idp (at_ : bytes) : option bytes :=
    match idp_sub, tok with
    | Some s, JCompact _ _ c => if bytes_eqb (cl_at c) at_ then Some s else None
    | _, _ => None
    end in
  (* "consulted" as the harness can observe it is a request arriving at the provider; the OAuth2 client
     refuses to send an empty access token, so for such a token no request is seen *)
  let at_empty := match tok with JCompact _ _ c => match cl_at c with [] => true | _ => false end | _ => false end in
  match check_paa [x53] now idp tok with
  | (PaaReject, q) => str "rej:" ++ b01 (q && negb at_empty)
  | (PaaAccept h i u, q) => str "acc:" ++ hexs h ++ colon ++ hexs i ++ colon ++ hexs u ++ colon ++ b01 q
  end.

Definition usertok_obs (ek sk : bytes) (now : Z) (tok : jwe) : bytes :=
  match user_info ek sk now tok with Some sub => str "ok:" ++ hexs sub | None => str "rej" end.

(** [handshake] (C17), [tunnel] (C07, C08 at the gateway) and [config] (C18) cases. *)
From RDPGW Require Import Model.Config.

Definition no_redir : redirect_flags :=
  {| rf_clipboard := false; rf_port := false; rf_drive := false; rf_printer := false;
     rf_pnp := false; rf_disable_all := false; rf_enable_all := false |}.

Definition handshake_obs (sc tok : bool) (body : bytes) : bytes :=
  let c := {| c_token_auth := tok; c_smartcard := sc; c_cookie_cb := false; c_name_cb := false; c_host_cb := false;
              c_redir := no_redir; c_idle := 0%Z |} in
  let a := {| a_cookie := false; a_name := false; a_host := false; a_dial := false |} in
  let items := [RData (create_packet PKT_TYPE_HANDSHAKE_REQUEST body) a; RErr] in
  obs_of_events (run c items) (N.of_nat (consumed c items)).

Definition dash (l : list bytes) : bytes := match l with [] => [x2d] | _ => join [x2c] l end.

(** [user_hex]: the user name as the case line writes it (already hexadecimal). *)
Definition tunnel_obs (c : cfg) (user_hex own : bytes) (items : list read_item) : bytes :=
  let pol (h : bytes) := bytes_eqb h own in
  let items' := resolve_policy_dials pol [own] c tstate0 (items ++ [RErr]) in
  let evs := run c items' in
  let rs := List.concat (map (fun e => match e with Resp ty st _ => [dec ty ++ colon ++ dec st] | _ => [] end) evs) in
  let cs := List.concat (map (fun e => match e with
              | AskCookie ck ok => [str "AC:" ++ hexs ck ++ colon ++ b01 ok]
              | AskHost h ok => [str "AH:" ++ hexs h ++ colon ++ b01 ok ++ str ":u=" ++ user_hex]
              | _ => [] end) evs) in
  let dials := N.of_nat (List.length (filter (fun e => match e with Dial _ true => true | _ => false end) evs)) in
  let closed := Nat.ltb (consumed c items') (List.length items') in
  str "R=" ++ dash rs ++ str " C=" ++ dash cs ++ str " D=" ++ dec dials ++ str " H=" ++ hexs (host_bytes evs)
  ++ str " B=ok X=" ++ b01 closed ++ str " Z=0".

Definition config_obs (r : rawcfg) (e : envc) : bytes :=
  let ks (k : keysrc) := match k with Configured => str "C" | Fresh => str "F" end in
  match start r e with
  | Fatal => str "fatal"
  | Started k => str "started:" ++ ks (k_paa_enc k) ++ ks (k_paa_sign k) ++ ks (k_user_enc k) ++ ks (k_session k)
                 ++ ks (k_session_enc k)
  end.

(** [serving] (C18) cases: what a started instance serves; only the mechanism switches matter. *)
Definition serving_obs (openid kerberos local ntlm tls_disable : bool) : bytes :=
  let r := {| r_openid := openid; r_kerberos := kerberos; r_local := local; r_ntlm := ntlm; r_tls_disable := tls_disable;
              r_hostsel := []; r_querykey_len := 0; r_hosts := 1; r_keytab_set := kerberos; r_tokenauth := true;
              r_enable_usertoken := false; r_paa_enc_len := 0; r_paa_sign_len := 0; r_user_enc_len := 0;
              r_session_len := 0; r_session_enc_len := 0 |} in
  let s := serves r in
  str "openid=" ++ b01 (sv_openid_routes s) ++ str " basic=" ++ b01 (sv_basic s) ++ str " ntlm=" ++ b01 (sv_ntlm s)
  ++ str " negotiate=" ++ b01 (sv_negotiate s).

(** [handshakegw] (C16, C17) cases: one handshake against the real binary. *)
Definition handshakegw_obs (sc tok : bool) (body : bytes) : bytes :=
  let c := {| c_token_auth := tok; c_smartcard := sc; c_cookie_cb := false; c_name_cb := false; c_host_cb := false;
              c_redir := no_redir; c_idle := 0%Z |} in
  let a := {| a_cookie := false; a_name := false; a_host := false; a_dial := false |} in
  let items := [RData (create_packet PKT_TYPE_HANDSHAKE_REQUEST body) a; RErr] in
  let raws := List.concat (map (fun e => match e with Resp _ _ raw => [hex raw] | _ => [] end) (run c items)) in
  str "R=" ++ dash raws ++ str " X=" ++ b01 (Nat.ltb (consumed c items) 2).

(** [tunnelauthgw] (C16) cases: handshake, tunnel create, tunnel authorization against the real binary. *)
Definition tunnelauthgw_obs (redir : redirect_flags) (idle : Z) (pkts : list bytes) : bytes :=
  let c := {| c_token_auth := false; c_smartcard := false; c_cookie_cb := false; c_name_cb := false; c_host_cb := true;
              c_redir := redir; c_idle := idle |} in
  let a := {| a_cookie := true; a_name := true; a_host := true; a_dial := true |} in
  let items := map (fun p => RData p a) pkts ++ [RErr] in
  join [x2c] (List.concat (map (fun e => match e with Resp _ _ raw => [hex raw] | _ => [] end) (run c items))).

(** [ntlm] (C14) cases: histories over the symbolic verifier. *)
From RDPGW Require Import Model.Ntlm.

Fixpoint assoc_bytes (k : bytes) (l : list (bytes * bytes)) : bytes :=
  match l with
  | [] => []
  | (k', v) :: r => if bytes_eqb k k' then v else assoc_bytes k r
  end.

Definition ntlm_obs (db : list (bytes * bytes)) (ops : list nop) : bytes :=
  let show (o : nout) : bytes :=
    match o with
    | OErr => str "err"
    | OChallenge _ => str "chal"
    | OAuthOK u => str "ok:" ++ hexs u
    | ONotAuth => str "no"
    end in
  join [x2c] (map show (nrun (fun u => assoc_bytes u db) nstate0 ops)).

(** [relay] (C06) and [segment] (C08) cases. *)
From RDPGW Require Import Model.Relay.

Definition relay_obs (bodies writes : list bytes) : bytes :=
  let ops := map ClientData bodies ++ map HostRead (forward_chunks writes) in
  let st := relay ops in
  hexs (to_host st) ++ str " | " ++ (match to_client st with [] => [x2d] | l => join [x2c] (map hexs l) end).

Definition segment_obs (c : cfg) (live : list bytes) (seg whole : list read_item) : bytes :=
  process_obs c live seg ++ str " | " ++ process_obs c live whole.

(** [oidc] (C13) cases: histories over the session model. *)
From RDPGW Require Import Model.Oidc.

Definition oidc_obs (ops : list oop) : bytes :=
  let show (o : oout) : bytes :=
    match o with
    | OutToIdP _ => str "idp"
    | OutFile u => str "file:" ++ hexs u
    | OutCbRedirect => str "cb302"
    | OutCb400 => str "cb400"
    | OutCb500 => str "cb500"
    end in
  join [x2c] (map show (orun ostate0 ops)).
