(** C03/C04 specification: which host a tunnel may be connected to, stated
    declaratively (no reference to the order of the code's checks). *)
From Coq Require Import List NArith Bool.
From Coq.Strings Require Import Byte.
From RDPGW Require Import Lib.Bytes Gen.Consts Model.Policy.
Import ListNotations.
Open Scope N_scope.

(** Substituting the user's name for the (first) placeholder of an entry. *)
Definition entry_for (user entry : bytes) : bytes := replace_first HOST_PLACEHOLDER user entry.

Definition mode_allows (mode : bytes) (hosts : list bytes) (user host : bytes) : Prop :=
  mode = s_any \/
  ((mode = s_roundrobin \/ mode = s_unsigned) /\ user <> [] /\
   exists e, In e hosts /\ entry_for user e = host).
(* 'signed' and every unrecognised mode allow nothing *)

Definition allowed (token_auth verify : bool) (mode : bytes) (hosts : list bytes)
           (t : tunnel_info) (client_ip : bytes) (host : bytes) : Prop :=
  (token_auth = true -> t_target t = host /\ (verify = true -> t_remote t = client_ip)) /\
  mode_allows mode hosts (t_user t) host.

(** Boolean form for the extracted oracle (written separately from the model's
    check order: membership first, then the token clauses). *)
Definition allowed_b (token_auth verify : bool) (mode : bytes) (hosts : list bytes)
           (t : tunnel_info) (client_ip : bytes) (host : bytes) : bool :=
  let in_list := existsb (fun e => bytes_eqb (entry_for (t_user t) e) host) hosts in
  let by_mode :=
    bytes_eqb mode s_any
    || ((bytes_eqb mode s_roundrobin || bytes_eqb mode s_unsigned)
        && negb (bytes_eqb (t_user t) []) && in_list) in
  let by_token :=
    negb token_auth
    || (bytes_eqb (t_target t) host && (negb verify || bytes_eqb (t_remote t) client_ip)) in
  by_mode && by_token.
