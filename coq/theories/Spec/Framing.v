(** C08 specification: the packets of a byte stream are determined by the
    length fields alone. Definitions only. *)
From Coq Require Import List NArith Bool.
From Coq.Strings Require Import Byte.
From RDPGW Require Import Lib.Bytes Spec.Wire.
Import ListNotations.
Open Scope N_scope.

Inductive tail_status := Done | Incomplete | Unframeable.

(** [frame fuel stream]: the packets (type, body) framed by the headers, and what
    is left. Fuel [length stream + 1] always suffices (every packet is >= 8 bytes). *)
Fixpoint frame_fuel (fuel : nat) (s : bytes) : list (N * bytes) * tail_status :=
  match fuel with
  | O => ([], Incomplete)
  | S fuel' =>
      match s with
      | [] => ([], Done)
      | _ =>
          match get16 s, get32 (skipn 4 s) with
          | Some (ty, _), Some (size, _) =>
              if size <? 8 then ([], Unframeable)
              else if blen s <? size then ([], Incomplete)
              else
                let body := firstn (N.to_nat size - 8) (skipn 8 s) in
                let '(ps, t) := frame_fuel fuel' (skipn (N.to_nat size) s) in
                ((ty, body) :: ps, t)
          | _, _ => ([], Incomplete)
          end
      end
  end.

Definition frame (s : bytes) : list (N * bytes) * tail_status := frame_fuel (S (length s)) s.
