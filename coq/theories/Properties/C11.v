(** C11 — ending a tunnel releases the backend connection and all per-tunnel
    resources. PARTIAL: the theorems are about the cleanup logic (what the
    handlers do when the packet loop returns, and that every way the client side
    ends makes the packet loop return); "within a bounded time", goroutine
    termination and socket states are measured by the gateway-level runs. *)
From Coq Require Import List NArith ZArith Bool Lia.
From Coq.Strings Require Import Byte String.
From RDPGW Require Import Lib.Bytes Gen.Consts Gen.Facts Model.Packets Model.Processor Model.Lifecycle
  Proofs.ProcessorSim Proofs.ProcessorFacts.
Import ListNotations.

(** On the current source both transport handlers release everything (computed
    from the regenerated facts). *)
Theorem C11_cleanup_complete : forall tr,
  cleanup_of tr = {| cl_in := true; cl_out := true; cl_backend := true; cl_unregister := true; cl_gauge := true;
                     cl_relay_stops := true |}.
Proof. intros []; vm_compute; reflexivity. Qed.
Print Assumptions C11_cleanup_complete.

(** Whatever the tunnel held when the packet loop returned — before the
    handshake or after any step, with or without a backend and a relay goroutine —
    nothing is held afterwards. *)
Theorem C11_released : forall tr with_backend,
  released (after_return (cleanup_of tr) (holding with_backend)).
Proof. intros tr wb. rewrite C11_cleanup_complete. destruct wb; repeat split. Qed.
Print Assumptions C11_released.

(** Every way the client side ends makes the packet loop return, at any point of
    the exchange: a read error (TCP close or reset of the inbound connection or
    websocket), unframeable bytes, an out-of-order packet, the channel close. *)
Theorem C11_client_drop_returns : forall c st,
  tstep c st RErr = (st, [End EndReadErr], true).
Proof. reflexivity. Qed.
Theorem C11_unframeable_returns : forall c st data a,
  fstep (fs st) data = FMalformed -> tstep c st (RData data a) = (st, [End EndMalformed], true).
Proof. intros c st data a H. unfold tstep. now rewrite H. Qed.
Theorem C11_out_of_order_returns : forall c p ty body a q,
  required_phase ty = Some q -> p <> q -> snd (process_packet c p ty body a) = true.
Proof.
  intros c p ty body a q H N. destruct (out_of_order_rejected c p ty body a q H N) as [evs [E _]]. now rewrite E.
Qed.
Theorem C11_close_returns : forall c body a,
  snd (process_packet c SERVER_STATE_OPENED PKT_TYPE_CLOSE_CHANNEL body a) = true.
Proof. reflexivity. Qed.
Print Assumptions C11_out_of_order_returns.

(** The source text of the cleanup (regenerated). *)
Definition bl (l : list string) : list bytes := map list_byte_of_string l.
Theorem C11_source_pinned :
  WS_DEFERS = bl ["websocketConnections.Dec()"; "inout.Close()"; "RemoveTunnel(t)"; "t.Close()"]%string /\
  LEGACY_DEFERS = bl ["legacyConnections.Dec()"; "in.Close()"; "RemoveTunnel(t)"; "t.Close()"]%string /\
  TUNNEL_CLOSE_CALLS = bl ["t.rwc.Close()"; "t.transportOut.Close()"]%string /\
  FORWARD_DEFERS = bl ["in.Close()"]%string.
Proof. repeat split; reflexivity. Qed.
Print Assumptions C11_source_pinned.

Example C11_example_leak_without_close :
  (* had Tunnel.Close not been deferred, the backend and the relay would survive *)
  let c := {| cl_in := true; cl_out := true; cl_backend := false; cl_unregister := true; cl_gauge := true; cl_relay_stops := true |} in
  backend_open (after_return c (holding true)) = true /\ relay_running (after_return c (holding true)) = true.
Proof. split; reflexivity. Qed.
