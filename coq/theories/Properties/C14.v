(** C14 — the NTLM verifier authenticates only proof of the configured password.
    Symbolic model (Model/Ntlm.v): a response is a term recording user, password
    and the challenge it answers; challenges are fresh nonces. Property theorems
    only (proofs: Proofs/NtlmFacts.v). *)
From Coq Require Import List NArith ZArith Bool Lia.
From Coq.Strings Require Import Byte.
From RDPGW Require Import Lib.Bytes Gen.Consts Model.Ntlm Proofs.NtlmFacts.
Import ListNotations.
Open Scope Z_scope.

(** For every user database and every history of (time, session, message)
    triples over any number of sessions: a step reports user [u] authenticated
    only if (1) [u]'s configured password is non-empty, (2) the message is an
    authenticate message naming [u] whose response is the one the configured
    password gives for challenge [ch], and (3) an earlier negotiate message of the
    SAME session was answered with that very [ch]. Hence unknown users, empty
    passwords, wrong passwords, authenticate without negotiate, responses for
    another challenge or replayed in another session, and undecodable messages
    are never authenticated; the returned name is the configured user name. *)
Theorem C14_sound : forall db pre t s m u,
  snd (nstep db (nfinal db nstate0 pre) t s m) = OAuthOK u ->
  db u <> [] /\ exists ch, m = NAuth u (RespFor u (db u) ch) /\
    exists pre1 t1 post1, pre = pre1 ++ (t1, s, NNegotiate) :: post1 /\
      snd (nstep db (nfinal db nstate0 pre1) t1 s NNegotiate) = OChallenge ch.
Proof. exact ntlm_sound. Qed.
Print Assumptions C14_sound.

(** Exact local condition (any state): success iff the session's live context
    holds challenge [ch] and the message proves the configured non-empty password
    against it. *)
Theorem C14_step_iff : forall db st t s m u,
  snd (nstep db st t s m) = OAuthOK u <->
  s <> [] /\ exists pw ch,
    m = NAuth u (RespFor u pw ch) /\ n_chal (live_ctx t s st) = Some ch /\ pw = db u /\ db u <> [].
Proof. exact nstep_ok_iff. Qed.
Print Assumptions C14_step_iff.

(** A client that knows the password and follows the exchange is authenticated. *)
Theorem C14_complete : forall db st t1 t2 s u,
  s <> [] -> db u <> [] -> t2 - t1 < expiry -> t1 <= t2 ->
  get_ctx s (n_ctxs st) = None ->
  let '(st1, o1) := nstep db st t1 s NNegotiate in
  o1 = OChallenge (n_next st) /\
  snd (nstep db st1 t2 s (NAuth u (RespFor u (db u) (n_next st)))) = OAuthOK u.
Proof. exact ntlm_complete. Qed.
Print Assumptions C14_complete.

(** The per-session contexts live for the one-minute duration (regenerated from the source). *)
Theorem C14_source_facts :
  ntlm_cacheExpiration_SECONDS = 60%N /\
  hd [] NTLM_CONTEXT_CACHE_ARGS = [x63; x61; x63; x68; x65; x45; x78; x70; x69; x72; x61; x74; x69; x6f; x6e]. (* cacheExpiration *)
Proof. split; reflexivity. Qed.
Print Assumptions C14_source_facts.

(** Non-vacuity and the named refusals on a concrete history. *)
Definition ex_db (u : bytes) : bytes := if bytes_eqb u [x61] then [x70; x77] else [].
Definition sA : bytes := [x41].
Definition sB : bytes := [x42].
Example C14_example :
  nrun ex_db nstate0
    [ (0, sA, NNegotiate);                                   (* challenge 1 *)
      (1, sB, NNegotiate);                                   (* challenge 2 *)
      (2, sB, NAuth [x61] (RespFor [x61] [x70; x77] 1%N));   (* replayed in another session *)
      (3, sA, NAuth [x61] (RespFor [x61] [x78] 1%N));        (* wrong password: the context is dropped *)
      (4, sA, NAuth [x61] (RespFor [x61] [x70; x77] 1%N));   (* so even the right proof needs a new negotiate *)
      (5, sA, NNegotiate);                                   (* challenge 3 *)
      (6, sA, NAuth [x62] (RespFor [x61] [x70; x77] 3%N));   (* another user's proof under this name *)
      (7, sA, NNegotiate);                                   (* challenge 4 *)
      (8, sA, NAuth [x61] (RespFor [x61] [x70; x77] 4%N));   (* correct *)
      (9, sA, NAuth [x61] (RespFor [x61] [x70; x77] 4%N));   (* replay after success: no context *)
      (10, sB, NGarbage) ]
  = [OChallenge 1%N; OChallenge 2%N; ONotAuth; ONotAuth; OErr; OChallenge 3%N; ONotAuth;
     OChallenge 4%N; OAuthOK [x61]; OErr; OErr].
Proof. vm_compute. reflexivity. Qed.
