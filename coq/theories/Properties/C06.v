(** C06 — relayed byte streams are exact, ordered and complete in both
    directions. Property theorems only (proofs: Proofs/RelayFacts.v). *)
From Coq Require Import List NArith ZArith Bool Lia.
From Coq.Strings Require Import Byte.
From RDPGW Require Import Lib.Bytes Gen.Consts Model.Utf16 Model.Packets Model.Relay Model.Processor
  Spec.Wire Spec.Oracles Proofs.WireFacts Proofs.RelayFacts.
Import ListNotations.
Open Scope N_scope.

(** host -> client: for every segmentation of the host's byte stream into reads
    of at most FORWARD_BUF bytes, every packet sent is one well-formed DATA packet
    (header length = bytes sent, payload length field = payload carried) and the
    concatenated payloads are exactly the host's stream. *)
Theorem C06_host_to_client : forall chunks,
  Forall (fun c => blen c <= FORWARD_BUF) chunks ->
  spec_client_stream (map data_packet chunks) = Some (concat chunks).
Proof. exact host_to_client. Qed.
Print Assumptions C06_host_to_client.

Theorem C06_data_packet_wellformed : forall chunk,
  blen chunk <= FORWARD_BUF ->
  decode_packet (data_packet chunk) =
    Some {| pk_type := PKT_TYPE_DATA; pk_reserved := 0; pk_length := blen (data_packet chunk);
            pk_body := le16 (blen chunk) ++ chunk |}
  /\ decode_data (le16 (blen chunk) ++ chunk) = Some (chunk, []).
Proof. intros chunk H. apply data_packet_wf. pose proof forward_buf_fits. lia. Qed.
Print Assumptions C06_data_packet_wellformed.

(** client -> host: what is written to the host for a DATA body is its declared
    payload (the bytes carried when the length field exceeds them): nothing is
    invented, dropped or reordered. *)
Theorem C06_client_to_host : forall body, receive_payload body = spec_payload body.
Proof. exact receive_is_declared_total. Qed.
Print Assumptions C06_client_to_host.

Theorem C06_wellformed_body_delivers_payload : forall p extra,
  blen p < 65536 -> receive_payload (le16 (blen p) ++ p ++ extra) = p.
Proof. exact receive_wellformed. Qed.
Print Assumptions C06_wellformed_body_delivers_payload.

(** On an open channel a DATA packet is relayed, and nothing else happens. *)
Theorem C06_data_step : forall c p body a,
  SERVER_STATE_CHANNEL_CREATE <= p ->
  process_packet c p PKT_TYPE_DATA body a = (SERVER_STATE_OPENED, [ToHost (receive_payload body)], false).
Proof.
  intros c p body a H. unfold process_packet.
  cbn [N.eqb Pos.eqb PKT_TYPE_DATA PKT_TYPE_HANDSHAKE_REQUEST PKT_TYPE_TUNNEL_CREATE PKT_TYPE_TUNNEL_AUTH
       PKT_TYPE_CHANNEL_CREATE].
  replace (p <? SERVER_STATE_CHANNEL_CREATE) with false by (symmetry; apply N.ltb_ge; exact H).
  reflexivity.
Qed.
Print Assumptions C06_data_step.

(** Every interleaving of the two directions: each direction's result is the
    result of its own operations alone. *)
Theorem C06_interleaving_independent : forall ops,
  Forall (fun c => blen c <= FORWARD_BUF) (host_chunks ops) ->
  to_host (relay ops) = concat (map spec_payload (client_bodies ops)) /\
  spec_client_stream (to_client (relay ops)) = Some (concat (host_chunks ops)).
Proof.
  intros ops F. destruct (relay_projection ops) as [A B]. split.
  - rewrite A. f_equal. apply map_ext. exact receive_is_declared_total.
  - rewrite B. now apply host_to_client.
Qed.
Print Assumptions C06_interleaving_independent.

(** The relay buffer fits the payload length field. *)
Theorem C06_buffer_fits_length_field : FORWARD_BUF < 65536.
Proof. exact forward_buf_fits. Qed.
Print Assumptions C06_buffer_fits_length_field.

Example C06_example :
  let ops := [ClientData [x02; x00; xaa; xbb]; HostRead [x01; x02; x03]; ClientData [x01; x00; xcc]] in
  to_host (relay ops) = [xaa; xbb; xcc] /\
  spec_client_stream (to_client (relay ops)) = Some [x01; x02; x03].
Proof. split; vm_compute; reflexivity. Qed.
