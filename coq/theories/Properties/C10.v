(** C10 — no client input can crash or wedge the gateway.

    Go panics on an out-of-range index or slice and on a nil dereference; the
    handlers that touch client-controlled bytes are modelled in Model/Partial.v
    with those operations partial ([Panic]) and with each guard present exactly
    when the regenerated source table (Gen/Facts.v, SITES tables) shows it in
    front of the site.  Theorems: with the guards the source has now, no
    modelled site panics, for every input, and the checked handlers compute what
    the models of the other properties compute; without a guard there is an
    input that panics (so the statement is not vacuous); every slice or index
    expression in those functions is one that has been classified; an inbound
    legacy channel never exists without its outbound channel; and what one
    tunnel is served does not depend on what any other client sends.

    Partial: run-time behaviour below the model (scheduler, sockets, the
    reflection in setSendReceiveBuffers, third-party parsers) is exercised by
    the hostile-input streams of the harness, not proved.
    Property theorems only (proofs: Proofs/PartialFacts.v, Proofs/SystemFacts.v). *)
From Coq Require Import List NArith ZArith Bool Lia.
From Coq.Strings Require Import Byte.
From RDPGW Require Import Lib.Bytes Gen.Consts Gen.Facts Model.Utf16 Model.Packets Model.Processor
  Model.System Model.Kdc Model.Partial Proofs.SystemFacts Proofs.PartialFacts.
Import ListNotations.
Open Scope N_scope.

(** The guards the theorems below rely on are in the source (regenerated table). *)
Theorem C10_guards_in_source :
  has_site SITES_readHeader s_data_8_size = true /\
  guarded SITES_readHeader s_data_8_size s_g_short = true /\
  guarded SITES_readHeader s_data_8_size s_g_incomplete = true /\
  guarded SITES_readHeader s_data_8_size s_g_small = true /\
  guarded SITES_readHeader s_data_8_ s_g_short = true /\
  guarded SITES_DecodeUTF16 s_b_i1 s_g_even = true /\
  guarded SITES_DecodeUTF16 s_bret_last s_g_nonempty = true /\
  guarded SITES_getAuthPayload s_auth_5 s_g_prefix_ntlm = true /\
  guarded SITES_getAuthPayload s_auth_10 s_g_prefix_neg = true /\
  guarded SITES_kdcForward s_data_4_ s_g_len4 = true.
Proof. vm_compute. repeat split. Qed.
Print Assumptions C10_guards_in_source.

(** No other slice or index expression exists in the client-facing byte handlers. *)
Theorem C10_sites_all_classified : only_sites ALL_SITES KNOWN_SITES = true.
Proof. vm_compute. reflexivity. Qed.
Print Assumptions C10_sites_all_classified.

(** [readHeader], as the source has it, never slices out of range, whatever
    bytes arrive, and returns what the framing model returns. *)
Theorem C10_readHeader_never_panics : forall data, read_header_src data = Ok (read_header data).
Proof.
  intro data. unfold read_header_src.
  destruct C10_guards_in_source as (_ & -> & -> & -> & _). apply read_header_guarded.
Qed.
Print Assumptions C10_readHeader_never_panics.

(** The size guard is what makes that true: without it, eight zero bytes panic. *)
Theorem C10_readHeader_unguarded_refuted : exists data, read_header_c true true false data = Panic.
Proof. exists [x00; x00; x00; x00; x00; x00; x00; x00]. vm_compute. reflexivity. Qed.
Print Assumptions C10_readHeader_unguarded_refuted.

Theorem C10_DecodeUTF16_never_panics : forall b, decode_utf16_src b = Ok (decode_utf16 b).
Proof.
  intro b. unfold decode_utf16_src.
  destruct C10_guards_in_source as (_ & _ & _ & _ & _ & -> & _). apply decode_utf16_guarded.
Qed.
Print Assumptions C10_DecodeUTF16_never_panics.

Theorem C10_DecodeUTF16_unguarded_refuted : exists b, decode_utf16_c false b = Panic.
Proof. exists [x41]. vm_compute. reflexivity. Qed.
Print Assumptions C10_DecodeUTF16_unguarded_refuted.

(** The NTLM middleware's header slicing: any Authorization value. *)
Theorem C10_getAuthPayload_never_panics : forall v,
  auth_payload_src v =
  Ok (if is_prefix s_NTLM_ v then (skipn 5 v, AmNtlm)
      else if is_prefix s_Negotiate_ v then (skipn 10 v, AmNegotiate) else ([], AmNone)).
Proof.
  intro v. unfold auth_payload_src.
  destruct C10_guards_in_source as (_ & _ & _ & _ & _ & _ & _ & -> & -> & _). apply auth_payload_guarded.
Qed.
Print Assumptions C10_getAuthPayload_never_panics.

(** With the substring test the pinned revision had, the value "NTLM" panics. *)
Theorem C10_getAuthPayload_unguarded_refuted : exists v, auth_payload_c false true v = Panic.
Proof. exists [x4e; x54; x4c; x4d]. vm_compute. reflexivity. Qed.
Print Assumptions C10_getAuthPayload_unguarded_refuted.

(** The KDC proxy's UDP leg: any message the DER decoder yields. *)
Theorem C10_kdc_udp_never_panics : forall data,
  udp_payload_src data = Ok (if Nat.ltb (length data) 4 then None else Some (skipn 4 data)).
Proof.
  intro data. unfold udp_payload_src.
  destruct C10_guards_in_source as (_ & _ & _ & _ & _ & _ & _ & _ & _ & ->). apply udp_payload_guarded.
Qed.
Print Assumptions C10_kdc_udp_never_panics.

Theorem C10_kdc_udp_agrees_with_relay_model : forall message x,
  to_kdc Udp message = Some x -> udp_payload_src message = Ok (Some x).
Proof.
  intros message x H. unfold udp_payload_src.
  destruct C10_guards_in_source as (_ & _ & _ & _ & _ & _ & _ & _ & _ & ->). now apply udp_payload_agrees.
Qed.
Print Assumptions C10_kdc_udp_agrees_with_relay_model.

Theorem C10_kdc_udp_unguarded_refuted : exists data, udp_payload_c false data = Panic.
Proof. exists [x01; x02]. vm_compute. reflexivity. Qed.
Print Assumptions C10_kdc_udp_unguarded_refuted.

(** In every reachable gateway state, whatever order RDG_OUT_DATA, RDG_IN_DATA,
    websocket upgrades and reads of any number of connections arrive in, an
    attached inbound channel has its outbound channel: the inbound handler's
    [s.transportOut] is never nil. *)
Theorem C10_inbound_always_has_outbound : forall c ops, attached_ok (gfinal c [] ops).
Proof. intros c ops. apply attached_always, attached_init. Qed.
Print Assumptions C10_inbound_always_has_outbound.

(** Whatever the other clients send — malformed, out of order, ended — a tunnel
    is served exactly as if it were alone: failures are local to the connection
    that caused them. *)
Theorem C10_failures_are_local : forall c id ops,
  project id (grun c [] ops) = project id (grun c [] (own_ops id ops)).
Proof. intros. now apply noninterference. Qed.
Print Assumptions C10_failures_are_local.

(** The premises are met by real states: an inbound-first request is refused,
    the outbound-first order attaches. *)
Example C10_example :
  let c := wired false false {| rf_clipboard := true; rf_port := true; rf_drive := true; rf_printer := true;
                                rf_pnp := true; rf_disable_all := false; rf_enable_all := false |} 0%Z in
  map snd (grun c [] [GOpenIn 7; GOpenOut 7; GOpenIn 7; GOpenIn 7]) = [GRefused; GAccepted; GAccepted; GRefused]
  /\ read_header_src [x01; x00; x00; x00; x03; x00; x00; x00] = Ok (HMalformed 1 3).
Proof. vm_compute. split; reflexivity. Qed.
