(** C16 — responses are well-formed MS-TSGU packets reporting true outcome and
    policy. Property theorems only (proofs: Proofs/ResponseFacts.v,
    Proofs/WireFacts.v). The reference decoders are Spec/Wire.v; the oracle
    [c16_resp_ok] (Spec/Oracles.v) is the same function the check runs over
    the implementation's responses. *)
From Coq Require Import List NArith ZArith Bool Lia.
From Coq.Strings Require Import Byte.
From RDPGW Require Import Lib.Bytes Gen.Consts Model.Utf16 Model.Packets Model.Processor
  Spec.Wire Spec.Oracles Proofs.WireFacts Proofs.ResponseFacts.
Import ListNotations.
Open Scope N_scope.

(** Every packet sent on any run, for every configuration and input: the header
    type is the event's type, the length field equals the bytes sent, the body
    decodes under the reference decoder with exactly the announced optional
    fields and nothing left over, carries the event's status, and the
    tunnel-authorization response reports the configured redirection word and
    (over the int32 range) max 0 idle. *)
Theorem C16_wellformed : forall c items,
  forallb (fun e => match e with
                    | Resp ty s raw =>
                        c16_resp_ok (spec_redir (rf_clipboard (c_redir c)) (rf_port (c_redir c))
                                       (rf_drive (c_redir c)) (rf_printer (c_redir c)) (rf_pnp (c_redir c))
                                       (rf_disable_all (c_redir c)) (rf_enable_all (c_redir c)))
                                    (c_idle c) ty s raw
                    | _ => true
                    end) (run c items) = true.
Proof. intros c items. apply run_from_resps_ok. Qed.
Print Assumptions C16_wellformed.

(** createPacket against the reference header decoder. *)
Theorem C16_header : forall ty data,
  ty < 65536 -> blen data + 8 < 4294967296 ->
  decode_packet (create_packet ty data) =
  Some {| pk_type := ty; pk_reserved := 0; pk_length := blen (create_packet ty data); pk_body := data |}.
Proof. exact decode_create_packet. Qed.
Print Assumptions C16_header.

(** Status 0 iff the step was accepted. *)
Theorem C16_status_truth : forall c p ty body a p' evs fin,
  process_packet c p ty body a = (p', evs, fin) ->
  (ty = PKT_TYPE_HANDSHAKE_REQUEST \/ ty = PKT_TYPE_TUNNEL_CREATE \/ ty = PKT_TYPE_TUNNEL_AUTH \/
   ty = PKT_TYPE_CHANNEL_CREATE \/ ty = PKT_TYPE_CLOSE_CHANNEL) ->
  existsb is_success_resp evs = negb (p' =? p).
Proof. exact status_truth. Qed.
Print Assumptions C16_status_truth.

Theorem C16_cookie_rejection_code : forall c body a,
  c_cookie_cb c = true -> a_cookie a = false ->
  process_packet c SERVER_STATE_HANDSHAKE PKT_TYPE_TUNNEL_CREATE body a =
  (SERVER_STATE_HANDSHAKE,
   [AskCookie (snd (tunnel_request body)) false;
    Resp PKT_TYPE_TUNNEL_RESPONSE 0x800759F8 (tunnel_response 0x800759F8); End EndCookie], true).
Proof. exact cookie_refusal. Qed.
Print Assumptions C16_cookie_rejection_code.

Theorem C16_host_denial_code : forall c body a,
  c_host_cb c = true -> a_host a = false ->
  process_packet c SERVER_STATE_TUNNEL_AUTHORIZE PKT_TYPE_CHANNEL_CREATE body a =
  (SERVER_STATE_TUNNEL_AUTHORIZE,
   [AskHost (join_host_port (fst (channel_request body)) (snd (channel_request body))) false;
    Resp PKT_TYPE_CHANNEL_RESPONSE 0x800759DA (channel_response 0x800759DA); End EndHost], true).
Proof. exact host_refusal. Qed.
Print Assumptions C16_host_denial_code.

(** The redirection word, for all 2^7 switch combinations. *)
Theorem C16_redirect_flags : forall f,
  make_redirect_flags f =
  if rf_disable_all f then 0x40000000
  else if rf_enable_all f then 0x80000000
  else (if rf_drive f then 0 else 1) + (if rf_printer f then 0 else 2) + (if rf_port f then 0 else 4)
       + (if rf_clipboard f then 0 else 8) + (if rf_pnp f then 0 else 16).
Proof. exact make_redirect_flags_spec. Qed.
Print Assumptions C16_redirect_flags.

(** The idle timeout over the int32 range: negative values are reported as 0. *)
Theorem C16_idle : forall t,
  (-2147483648 <= t <= 2147483647)%Z -> idle_field t = Z.to_N (Z.max 0 t).
Proof. exact idle_field_spec. Qed.
Print Assumptions C16_idle.

Example C16_example_idle : idle_field (-5) = 0 /\ idle_field 30 = 30.
Proof. split; reflexivity. Qed.
Example C16_example_flags :
  make_redirect_flags {| rf_clipboard := true; rf_port := false; rf_drive := true; rf_printer := false;
                         rf_pnp := false; rf_disable_all := false; rf_enable_all := false |} = 22.
Proof. reflexivity. Qed.
