(** C09 — no data races or interleaved writes under concurrent use.
    PARTIAL BY NATURE. The theorem is the soundness of the locking discipline
    (Model/Lockset.v) for any number of threads, instantiated with the access
    facts the translator regenerates from package protocol on every run
    (Gen/Facts.v): registry, Tunnel.BytesSent, the outgoing transport's
    WritePacket, Gateway.IdleTimeout. What it does not cover — races inside
    libraries, on locations the translator does not know, memory-model subtleties —
    is explored by the race detector runs only. *)
From Coq Require Import List NArith Bool Lia.
From Coq.Strings Require Import Byte.
From RDPGW Require Import Lib.Bytes Gen.Facts Model.Lockset Model.LockFacts Proofs.LocksetFacts.
Import ListNotations.
Open Scope N_scope.

(** Any number of threads, each starting without locks and following the
    discipline (every access to x under lk x): no reachable state has two threads
    about to perform conflicting accesses to one location. Packet writes to one
    client are accesses to one location, hence never interleaved. *)
Theorem C09_lockset_sound : forall lk (progs : list (list act)) s',
  Forall (fun p => disciplined lk [] p = true) progs ->
  reach (map (fun p => {| held := []; rest := p |}) progs) s' -> ~ race s'.
Proof. exact lockset_sound. Qed.
Print Assumptions C09_lockset_sound.

(** A thread that runs any sequence of closed disciplined blocks is disciplined. *)
Theorem C09_blocks_compose : forall lk (blocks : list (list act)),
  Forall (fun b => closed lk [] b = true) blocks -> disciplined lk [] (concat blocks) = true.
Proof. exact blocks_disciplined. Qed.
Print Assumptions C09_blocks_compose.

(** The per-run obligation on the current source: every shared location that is
    written anywhere in package protocol is accessed only under one common mutex,
    and every recorded access, as a block, is closed and disciplined. *)
Theorem C09_discipline_holds :
  discipline_ok ACCESS_FACTS = true /\
  forallb (fun f => closed (lk_of ACCESS_FACTS) [] (block_of ACCESS_FACTS f)) ACCESS_FACTS = true.
Proof. split; vm_compute; reflexivity. Qed.
Print Assumptions C09_discipline_holds.

(** Hence: any number of goroutines, each executing any sequence of the recorded
    accesses (in their lock brackets), never reach a data race on those locations. *)
Theorem C09_no_race_on_recorded_locations : forall (threads : list (list LockFacts.fact)) s',
  Forall (fun t => Forall (fun f => In f ACCESS_FACTS) t) threads ->
  reach (map (fun t => {| held := []; rest := concat (map (block_of ACCESS_FACTS) t) |}) threads) s' ->
  ~ race s'.
Proof.
  intros threads s' F R.
  rewrite <- (map_map (fun t => concat (map (block_of ACCESS_FACTS) t)) (fun p => {| held := []; rest := p |})) in R.
  eapply lockset_sound; [|exact R].
  apply Forall_map. eapply Forall_impl; [|exact F]. intros t Ft.
  apply blocks_disciplined. apply Forall_map. eapply Forall_impl; [|exact Ft].
  intros f I. destruct C09_discipline_holds as [_ H]. rewrite forallb_forall in H. now apply H.
Qed.
Print Assumptions C09_no_race_on_recorded_locations.

(** The shared locations the translator tracks and that are written somewhere. *)
Example C09_locations :
  map (written ACCESS_FACTS) [LOC_Connections; LOC_BytesSent; LOC_transportOut_WritePacket; LOC_IdleTimeout]
  = [true; true; true; false].
Proof. vm_compute. reflexivity. Qed.
