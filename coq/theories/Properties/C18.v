(** C18 — unsafe or inconsistent configurations are refused at startup. Model:
    Model/Config.v. The source's fatal conditions, substituted keys and defaults
    are regenerated as text (Gen/Consts.v) and pinned here, so a change to any of
    them breaks this file before it reaches the correspondence runs. *)
From Coq Require Import List NArith ZArith Bool Lia.
From Coq.Strings Require Import Byte String Ascii.
From RDPGW Require Import Lib.Bytes Gen.Consts Gen.Facts Model.Policy Model.Config Model.Token Proofs.TokenFacts.
Import ListNotations.
Open Scope N_scope.

(** The six unsafe combinations of the property statement. *)
Definition unsafe (r : rawcfg) : Prop :=
  (r_openid r = true /\ r_tokenauth r = false) \/
  (r_local r = true /\ r_tls_disable r = true) \/
  (r_ntlm r = true /\ r_kerberos r = true) \/
  (r_kerberos r = true /\ r_keytab_set r = false) \/
  (r_hostsel r = s_signed /\ r_querykey_len r = 0) \/
  r_hosts r = 0.

(** A gateway that starts has none of them; each of them refuses the start,
    whatever the environment. *)
Theorem C18_refusals : forall r e,
  (forall k, start r e = Started k -> ~ unsafe r) /\ (unsafe r -> start r e = Fatal).
Proof.
  intros r e.
  assert (H : unsafe r -> start r e = Fatal).
  { unfold unsafe, start, fatal_in_load, fatal_in_main.
    intros [[A B]|[[A B]|[[A B]|[[A B]|[[A B]|A]]]]]; try rewrite A; try rewrite B;
      rewrite ?bytes_eqb_refl; cbn [negb andb orb N.eqb N.ltb N.compare];
      rewrite ?orb_true_r; cbn [orb]; try reflexivity.
    all: repeat match goal with |- context [?b || true] => rewrite (orb_true_r b) end; reflexivity. }
  split; [|exact H]. intros k S U. rewrite (H U) in S. discriminate.
Qed.
Print Assumptions C18_refusals.

(** Conversely, with a reachable identity provider and loadable Kerberos files,
    every configuration free of the six combinations starts. *)
Theorem C18_safe_starts : forall r e,
  ~ unsafe r -> e_idp_ok e = true -> e_keytab_loadable e = true -> e_krb5conf_ok e = true ->
  exists k, start r e = Started k.
Proof.
  intros r e U E1 E2 E3. unfold start, fatal_in_load, fatal_in_main. rewrite E1, E2, E3.
  cbn [negb andb]. rewrite !andb_false_r. cbn [orb].
  destruct (bytes_eqb (r_hostsel r) s_signed && (r_querykey_len r =? 0)) eqn:A.
  { exfalso. apply U. apply andb_true_iff in A as [A1 A2]. apply bytes_eqb_eq in A1. apply N.eqb_eq in A2.
    right; right; right; right; left. auto. }
  destruct (r_local r && r_tls_disable r) eqn:B.
  { exfalso. apply U. apply andb_true_iff in B. right; left. exact B. }
  destruct (r_ntlm r && r_kerberos r) eqn:C.
  { exfalso. apply U. apply andb_true_iff in C. right; right; left. exact C. }
  destruct (negb (r_tokenauth r) && r_openid r) eqn:D.
  { exfalso. apply U. apply andb_true_iff in D as [D1 D2]. apply negb_true_iff in D1. left. auto. }
  destruct (r_kerberos r && negb (r_keytab_set r)) eqn:F.
  { exfalso. apply U. apply andb_true_iff in F as [F1 F2]. apply negb_true_iff in F2. right; right; right; left. auto. }
  destruct (r_hosts r <? 1) eqn:G.
  { exfalso. apply U. apply N.ltb_lt in G. right; right; right; right; right. lia. }
  cbn [orb]. eauto.
Qed.
Print Assumptions C18_safe_starts.

(** Keys: a started instance runs every one of the five keys with exactly 32
    characters: the configured one when it has length 32, a fresh random one in
    every other case (absent, shorter, longer). *)
Lemma subst_key_spec len :
  effective_len len (subst_key len) = 32 /\ (subst_key len = Configured <-> len = 32).
Proof.
  unfold subst_key, effective_len, CONFIG_KEY_LEN. destruct (len =? 32) eqn:E.
  - apply N.eqb_eq in E. subst. split; [reflexivity | tauto].
  - apply N.eqb_neq in E. split; [reflexivity|]. split; [discriminate | contradiction].
Qed.

Theorem C18_keys : forall r e k, start r e = Started k ->
  effective_len (r_paa_sign_len r) (k_paa_sign k) = 32 /\
  effective_len (r_paa_enc_len r) (k_paa_enc k) = 32 /\
  effective_len (r_session_len r) (k_session k) = 32 /\
  effective_len (r_session_enc_len r) (k_session_enc k) = 32 /\
  (r_enable_usertoken r = true -> effective_len (r_user_enc_len r) (k_user_enc k) = 32) /\
  (k_paa_sign k = Configured <-> r_paa_sign_len r = 32) /\
  (k_session k = Configured <-> r_session_len r = 32) /\
  (k_session_enc k = Configured <-> r_session_enc_len r = 32).
Proof.
  intros r e k S. unfold start in S. destruct (fatal_in_load r || fatal_in_main r e); [discriminate|].
  inversion S; subst; clear S. cbn [k_paa_sign k_paa_enc k_session k_session_enc k_user_enc].
  pose proof (subst_key_spec (r_paa_sign_len r)) as [A1 A2].
  pose proof (subst_key_spec (r_paa_enc_len r)) as [B1 _].
  pose proof (subst_key_spec (r_session_len r)) as [C1 C2].
  pose proof (subst_key_spec (r_session_enc_len r)) as [D1 D2].
  pose proof (subst_key_spec (r_user_enc_len r)) as [E1 _].
  repeat split; try assumption; try apply A2; try apply C2; try apply D2.
  intro H. rewrite H. exact E1.
Qed.
Print Assumptions C18_keys.

(** Two instances whose signing keys differ (in particular two instances started
    without keys: fresh keys are independent random strings): no access token of
    one is accepted by the other (by the C02 model). *)
Theorem C18_tokens_not_portable : forall k1 k2 now idp user host ip atok tok,
  k1 <> k2 -> mint_paa k1 now user host ip atok = Some tok ->
  forall t, fst (check_paa k2 t idp tok) = PaaReject.
Proof.
  intros k1 k2 now idp user host ip atok tok Hk M t.
  destruct (mint_paa_expiry _ _ _ _ _ _ _ M) as [c [-> _]].
  destruct (fst (check_paa k2 t idp (JCompact HS256 k1 c))) as [|h i u] eqn:R; [reflexivity|].
  apply check_paa_accept_iff in R as [c' [H _]]. inversion H; subst. contradiction.
Qed.
Print Assumptions C18_tokens_not_portable.

(** What a started instance serves is safe: OpenID routes and the endpoint that is open at the HTTP
    level only together with cookie authentication inside the tunnel; the Basic challenge only over
    TLS; NTLM never next to Kerberos; and an instance that serves nothing of the kind was configured
    with no mechanism. *)
Theorem C18_served_is_safe : forall r e k, start r e = Started k ->
  (sv_openid_routes (serves r) = true -> r_tokenauth r = true) /\
  (sv_open_endpoint (serves r) = true -> r_tokenauth r = true) /\
  (sv_basic (serves r) = true -> r_tls_disable r = false) /\
  (sv_ntlm (serves r) = true -> r_kerberos r = false) /\
  (sv_negotiate (serves r) = true -> r_ntlm r = true \/ (r_kerberos r = true /\ r_keytab_set r = true)) /\
  (r_openid r = false -> sv_openid_routes (serves r) = false /\ sv_open_endpoint (serves r) = false).
Proof.
  intros r e k S. destruct (C18_refusals r e) as [NU _]. specialize (NU k S).
  unfold unsafe in NU. unfold serves; cbn [sv_openid_routes sv_open_endpoint sv_basic sv_ntlm sv_negotiate].
  repeat split.
  - intro O. destruct (r_tokenauth r) eqn:T; [reflexivity|]. exfalso. apply NU. left. auto.
  - intro O. destruct (r_openid r) eqn:Oi; [|discriminate].
    destruct (r_tokenauth r) eqn:T; [reflexivity|]. exfalso. apply NU. left. auto.
  - intro B. destruct (r_tls_disable r) eqn:T; [|reflexivity]. exfalso. apply NU. right; left. auto.
  - intro N. destruct (r_kerberos r) eqn:K; [|reflexivity]. exfalso. apply NU. right; right; left. auto.
  - intro G. destruct (r_ntlm r) eqn:N; [left; reflexivity|]. right. cbn [orb] in G. split; [exact G|].
    destruct (r_keytab_set r) eqn:T; [reflexivity|]. exfalso. apply NU. right; right; right; left. auto.
  - exact H.
  - rewrite H. reflexivity.
Qed.
Print Assumptions C18_served_is_safe.

(** The source text these definitions transcribe (regenerated on every run). *)
Definition b (s : string) : bytes := list_byte_of_string s.
Theorem C18_source_pinned :
  CONFIG_KEY_LEN = 32 /\
  CONFIG_SUBSTITUTED_KEYS = map b ["Security.PAATokenEncryptionKey"; "Security.PAATokenSigningKey";
                                   "Security.UserTokenEncryptionKey"; "Server.SessionKey";
                                   "Server.SessionEncryptionKey"]%string /\
  CONFIG_FATAL_CONDITIONS = map b
    ["Conf.Server.HostSelection==""signed""&&len(Conf.Security.QueryTokenSigningKey)==0";
     "Conf.Server.BasicAuthEnabled()&&Conf.Server.Tls==""disable""";
     "Conf.Server.NtlmEnabled()&&Conf.Server.KerberosEnabled()";
     "!Conf.Caps.TokenAuth&&Conf.Server.OpenIDEnabled()";
     "Conf.Server.KerberosEnabled()&&Conf.Kerberos.Keytab=="""""]%string /\
  NEWHANDLER_HOSTS_TEST = b "< 1" /\
  INITSTORE_KEY_TESTS = map b ["< 32"; "< 32"]%string /\
  In (b "Caps.TokenAuth=true") CONFIG_DEFAULTS /\ In (b "Security.VerifyClientIp=true") CONFIG_DEFAULTS /\
  In (b "Server.Tls=auto") CONFIG_DEFAULTS /\ In (b "Server.HostSelection=roundrobin") CONFIG_DEFAULTS /\
  In (b "Server.Authentication=openid") CONFIG_DEFAULTS.
Proof. repeat split; try reflexivity; vm_compute; tauto. Qed.
Print Assumptions C18_source_pinned.

Definition ex_raw : rawcfg :=
  {| r_openid := true; r_kerberos := false; r_local := false; r_ntlm := false; r_tls_disable := true;
     r_hostsel := s_roundrobin; r_querykey_len := 0; r_hosts := 2; r_keytab_set := false; r_tokenauth := true;
     r_enable_usertoken := false; r_paa_enc_len := 0; r_paa_sign_len := 31; r_user_enc_len := 0;
     r_session_len := 32; r_session_enc_len := 33 |}.
Example C18_example :
  start ex_raw {| e_idp_ok := true; e_keytab_loadable := false; e_krb5conf_ok := false |} =
  Started {| k_paa_enc := Fresh; k_paa_sign := Fresh; k_user_enc := Configured; k_session := Configured;
             k_session_enc := Fresh |}.
Proof. reflexivity. Qed.

(** The decisions of the transcribed functions, as the source has them now (regenerated by the
    translator: conditions, case labels, returns, branches, go and defer statements in source order).
    The model is a transcription of exactly this text. *)
Theorem C18_decisions_as_transcribed :
  DECISIONS_main =
    [[x69; x66; x20; x65; x72; x72; x21; x3d; x6e; x69; x6c] (* if err!=nil *);
     [x69; x66; x20; x65; x72; x72; x21; x3d; x6e; x69; x6c] (* if err!=nil *);
     [x69; x66; x20; x75; x72; x6c; x2e; x53; x63; x68; x65; x6d; x65; x3d; x3d; x22; x22] (* if url.Scheme=="" *);
     [x69; x66; x20; x63; x6f; x6e; x66; x2e; x43; x61; x70; x73; x2e; x54; x6f; x6b; x65; x6e; x41; x75; x74; x68] (* if conf.Caps.TokenAuth *);
     [x69; x66; x20; x63; x6f; x6e; x66; x2e; x53; x65; x63; x75; x72; x69; x74; x79; x2e; x45; x6e; x61; x62; x6c; x65; x55; x73; x65; x72; x54; x6f; x6b; x65; x6e] (* if conf.Security.EnableUserToken *);
     [x69; x66; x20; x63; x6f; x6e; x66; x2e; x53; x65; x72; x76; x65; x72; x2e; x54; x6c; x73; x3d; x3d; x63; x6f; x6e; x66; x69; x67; x2e; x54; x6c; x73; x44; x69; x73; x61; x62; x6c; x65] (* if conf.Server.Tls==config.TlsDisable *);
     [x69; x66; x20; x74; x6c; x73; x44; x65; x62; x75; x67; x21; x3d; x22; x22] (* if tlsDebug!="" *);
     [x69; x66; x20; x65; x72; x72; x21; x3d; x6e; x69; x6c] (* if err!=nil *);
     [x69; x66; x20; x63; x6f; x6e; x66; x2e; x53; x65; x72; x76; x65; x72; x2e; x4b; x65; x79; x46; x69; x6c; x65; x21; x3d; x22; x22; x26; x26; x63; x6f; x6e; x66; x2e; x53; x65; x72; x76; x65; x72; x2e; x43; x65; x72; x74; x46; x69; x6c; x65; x21; x3d; x22; x22] (* if conf.Server.KeyFile!=""&&conf.Server.CertFile!="" *);
     [x69; x66; x20; x65; x72; x72; x21; x3d; x6e; x69; x6c] (* if err!=nil *);
     [x69; x66; x20; x21; x74; x6c; x73; x43; x6f; x6e; x66; x69; x67; x75; x72; x65; x64] (* if !tlsConfigured *);
     [x67; x6f; x20; x3c; x2a; x61; x73; x74; x2e; x46; x75; x6e; x63; x4c; x69; x74; x3e] (* go <*ast.FuncLit> *);
     [x69; x66; x20; x63; x6f; x6e; x66; x2e; x43; x61; x70; x73; x2e; x54; x6f; x6b; x65; x6e; x41; x75; x74; x68] (* if conf.Caps.TokenAuth *);
     [x69; x66; x20; x63; x6f; x6e; x66; x2e; x53; x65; x72; x76; x65; x72; x2e; x4f; x70; x65; x6e; x49; x44; x45; x6e; x61; x62; x6c; x65; x64; x28; x29] (* if conf.Server.OpenIDEnabled() *);
     [x69; x66; x20; x21; x63; x6f; x6e; x66; x2e; x53; x65; x72; x76; x65; x72; x2e; x4b; x65; x72; x62; x65; x72; x6f; x73; x45; x6e; x61; x62; x6c; x65; x64; x28; x29; x26; x26; x21; x63; x6f; x6e; x66; x2e; x53; x65; x72; x76; x65; x72; x2e; x42; x61; x73; x69; x63; x41; x75; x74; x68; x45; x6e; x61; x62; x6c; x65; x64; x28; x29; x26; x26; x21; x63; x6f; x6e; x66; x2e; x53; x65; x72; x76; x65; x72; x2e; x4e; x74; x6c; x6d; x45; x6e; x61; x62; x6c; x65; x64; x28; x29] (* if !conf.Server.KerberosEnabled()&&!conf.Server.BasicAuthEnabled()&&!conf.Server.NtlmEnabled() *);
     [x69; x66; x20; x63; x6f; x6e; x66; x2e; x53; x65; x72; x76; x65; x72; x2e; x4e; x74; x6c; x6d; x45; x6e; x61; x62; x6c; x65; x64; x28; x29] (* if conf.Server.NtlmEnabled() *);
     [x69; x66; x20; x63; x6f; x6e; x66; x2e; x53; x65; x72; x76; x65; x72; x2e; x42; x61; x73; x69; x63; x41; x75; x74; x68; x45; x6e; x61; x62; x6c; x65; x64; x28; x29] (* if conf.Server.BasicAuthEnabled() *);
     [x69; x66; x20; x63; x6f; x6e; x66; x2e; x53; x65; x72; x76; x65; x72; x2e; x4b; x65; x72; x62; x65; x72; x6f; x73; x45; x6e; x61; x62; x6c; x65; x64; x28; x29] (* if conf.Server.KerberosEnabled() *);
     [x69; x66; x20; x65; x72; x72; x21; x3d; x6e; x69; x6c] (* if err!=nil *);
     [x69; x66; x20; x63; x6f; x6e; x66; x2e; x53; x65; x72; x76; x65; x72; x2e; x54; x6c; x73; x3d; x3d; x63; x6f; x6e; x66; x69; x67; x2e; x54; x6c; x73; x44; x69; x73; x61; x62; x6c; x65] (* if conf.Server.Tls==config.TlsDisable *);
     [x69; x66; x20; x65; x72; x72; x21; x3d; x6e; x69; x6c] (* if err!=nil *)] /\
  DECISIONS_configLoad =
    [[x69; x66; x20; x5f; x2c; x65; x72; x72; x3a; x3d; x6f; x73; x2e; x53; x74; x61; x74; x28; x63; x6f; x6e; x66; x69; x67; x46; x69; x6c; x65; x29; x3b; x20; x6f; x73; x2e; x49; x73; x4e; x6f; x74; x45; x78; x69; x73; x74; x28; x65; x72; x72; x29] (* if _,err:=os.Stat(configFile); os.IsNotExist(err) *);
     [x69; x66; x20; x65; x72; x72; x3a; x3d; x6b; x2e; x4c; x6f; x61; x64; x28; x66; x69; x6c; x65; x2e; x50; x72; x6f; x76; x69; x64; x65; x72; x28; x63; x6f; x6e; x66; x69; x67; x46; x69; x6c; x65; x29; x2c; x79; x61; x6d; x6c; x2e; x50; x61; x72; x73; x65; x72; x28; x29; x29; x3b; x20; x65; x72; x72; x21; x3d; x6e; x69; x6c] (* if err:=k.Load(file.Provider(configFile),yaml.Parser()); err!=nil *);
     [x69; x66; x20; x65; x72; x72; x3a; x3d; x6b; x2e; x4c; x6f; x61; x64; x28; x65; x6e; x76; x2e; x50; x72; x6f; x76; x69; x64; x65; x72; x57; x69; x74; x68; x56; x61; x6c; x75; x65; x28; x22; x52; x44; x50; x47; x57; x5f; x22; x2c; x22; x2e; x22; x2c; x3c; x2a; x61; x73; x74; x2e; x46; x75; x6e; x63; x4c; x69; x74; x3e; x29; x2c; x6e; x69; x6c; x29; x3b; x20; x65; x72; x72; x21; x3d; x6e; x69; x6c] (* if err:=k.Load(env.ProviderWithValue("RDPGW_",".",<*ast.FuncLit>),nil); err!=nil *);
     [x69; x66; x20; x73; x74; x72; x69; x6e; x67; x73; x2e; x43; x6f; x6e; x74; x61; x69; x6e; x73; x28; x76; x2c; x22; x20; x22; x29] (* if strings.Contains(v," ") *);
     [x72; x65; x74; x75; x72; x6e; x20; x6b; x65; x79; x2c; x73; x74; x72; x69; x6e; x67; x73; x2e; x53; x70; x6c; x69; x74; x28; x76; x2c; x22; x20; x22; x29] (* return key,strings.Split(v," ") *);
     [x72; x65; x74; x75; x72; x6e; x20; x6b; x65; x79; x2c; x76] (* return key,v *);
     [x69; x66; x20; x6c; x65; x6e; x28; x43; x6f; x6e; x66; x2e; x53; x65; x63; x75; x72; x69; x74; x79; x2e; x50; x41; x41; x54; x6f; x6b; x65; x6e; x45; x6e; x63; x72; x79; x70; x74; x69; x6f; x6e; x4b; x65; x79; x29; x21; x3d; x33; x32] (* if len(Conf.Security.PAATokenEncryptionKey)!=32 *);
     [x69; x66; x20; x6c; x65; x6e; x28; x43; x6f; x6e; x66; x2e; x53; x65; x63; x75; x72; x69; x74; x79; x2e; x50; x41; x41; x54; x6f; x6b; x65; x6e; x53; x69; x67; x6e; x69; x6e; x67; x4b; x65; x79; x29; x21; x3d; x33; x32] (* if len(Conf.Security.PAATokenSigningKey)!=32 *);
     [x69; x66; x20; x43; x6f; x6e; x66; x2e; x53; x65; x63; x75; x72; x69; x74; x79; x2e; x45; x6e; x61; x62; x6c; x65; x55; x73; x65; x72; x54; x6f; x6b; x65; x6e] (* if Conf.Security.EnableUserToken *);
     [x69; x66; x20; x6c; x65; x6e; x28; x43; x6f; x6e; x66; x2e; x53; x65; x63; x75; x72; x69; x74; x79; x2e; x55; x73; x65; x72; x54; x6f; x6b; x65; x6e; x45; x6e; x63; x72; x79; x70; x74; x69; x6f; x6e; x4b; x65; x79; x29; x21; x3d; x33; x32] (* if len(Conf.Security.UserTokenEncryptionKey)!=32 *);
     [x69; x66; x20; x6c; x65; x6e; x28; x43; x6f; x6e; x66; x2e; x53; x65; x72; x76; x65; x72; x2e; x53; x65; x73; x73; x69; x6f; x6e; x4b; x65; x79; x29; x21; x3d; x33; x32] (* if len(Conf.Server.SessionKey)!=32 *);
     [x69; x66; x20; x6c; x65; x6e; x28; x43; x6f; x6e; x66; x2e; x53; x65; x72; x76; x65; x72; x2e; x53; x65; x73; x73; x69; x6f; x6e; x45; x6e; x63; x72; x79; x70; x74; x69; x6f; x6e; x4b; x65; x79; x29; x21; x3d; x33; x32] (* if len(Conf.Server.SessionEncryptionKey)!=32 *);
     [x69; x66; x20; x43; x6f; x6e; x66; x2e; x53; x65; x72; x76; x65; x72; x2e; x48; x6f; x73; x74; x53; x65; x6c; x65; x63; x74; x69; x6f; x6e; x3d; x3d; x22; x73; x69; x67; x6e; x65; x64; x22; x26; x26; x6c; x65; x6e; x28; x43; x6f; x6e; x66; x2e; x53; x65; x63; x75; x72; x69; x74; x79; x2e; x51; x75; x65; x72; x79; x54; x6f; x6b; x65; x6e; x53; x69; x67; x6e; x69; x6e; x67; x4b; x65; x79; x29; x3d; x3d; x30] (* if Conf.Server.HostSelection=="signed"&&len(Conf.Security.QueryTokenSigningKey)==0 *);
     [x69; x66; x20; x43; x6f; x6e; x66; x2e; x53; x65; x72; x76; x65; x72; x2e; x42; x61; x73; x69; x63; x41; x75; x74; x68; x45; x6e; x61; x62; x6c; x65; x64; x28; x29; x26; x26; x43; x6f; x6e; x66; x2e; x53; x65; x72; x76; x65; x72; x2e; x54; x6c; x73; x3d; x3d; x22; x64; x69; x73; x61; x62; x6c; x65; x22] (* if Conf.Server.BasicAuthEnabled()&&Conf.Server.Tls=="disable" *);
     [x69; x66; x20; x43; x6f; x6e; x66; x2e; x53; x65; x72; x76; x65; x72; x2e; x4e; x74; x6c; x6d; x45; x6e; x61; x62; x6c; x65; x64; x28; x29; x26; x26; x43; x6f; x6e; x66; x2e; x53; x65; x72; x76; x65; x72; x2e; x4b; x65; x72; x62; x65; x72; x6f; x73; x45; x6e; x61; x62; x6c; x65; x64; x28; x29] (* if Conf.Server.NtlmEnabled()&&Conf.Server.KerberosEnabled() *);
     [x69; x66; x20; x21; x43; x6f; x6e; x66; x2e; x43; x61; x70; x73; x2e; x54; x6f; x6b; x65; x6e; x41; x75; x74; x68; x26; x26; x43; x6f; x6e; x66; x2e; x53; x65; x72; x76; x65; x72; x2e; x4f; x70; x65; x6e; x49; x44; x45; x6e; x61; x62; x6c; x65; x64; x28; x29] (* if !Conf.Caps.TokenAuth&&Conf.Server.OpenIDEnabled() *);
     [x69; x66; x20; x43; x6f; x6e; x66; x2e; x53; x65; x72; x76; x65; x72; x2e; x4b; x65; x72; x62; x65; x72; x6f; x73; x45; x6e; x61; x62; x6c; x65; x64; x28; x29; x26; x26; x43; x6f; x6e; x66; x2e; x4b; x65; x72; x62; x65; x72; x6f; x73; x2e; x4b; x65; x79; x74; x61; x62; x3d; x3d; x22; x22] (* if Conf.Server.KerberosEnabled()&&Conf.Kerberos.Keytab=="" *);
     [x69; x66; x20; x21; x73; x74; x72; x69; x6e; x67; x73; x2e; x43; x6f; x6e; x74; x61; x69; x6e; x73; x28; x43; x6f; x6e; x66; x2e; x53; x65; x72; x76; x65; x72; x2e; x47; x61; x74; x65; x77; x61; x79; x41; x64; x64; x72; x65; x73; x73; x2c; x22; x2f; x2f; x22; x29] (* if !strings.Contains(Conf.Server.GatewayAddress,"//") *);
     [x72; x65; x74; x75; x72; x6e; x20; x43; x6f; x6e; x66] (* return Conf *)].
Proof. vm_compute. repeat split; reflexivity. Qed.
Print Assumptions C18_decisions_as_transcribed.
