(** C02 — access cookies are accepted only if gateway-minted, unexpired and
    IdP-valid. Symbolic cryptography: a token is a term recording the algorithm
    and key of its MAC (Model/Token.v); the correspondence check maps every
    concrete string it generates to its term with an independent decoder.
    Property theorems only (proofs: Proofs/TokenFacts.v). *)
From Coq Require Import List NArith ZArith Bool Lia.
From Coq.Strings Require Import Byte.
From RDPGW Require Import Lib.Bytes Gen.Consts Model.Token Model.Packets Model.Processor
  Proofs.TokenFacts Proofs.ResponseFacts.
Import ListNotations.
Open Scope Z_scope.

(** For every presented term, every time and every IdP behaviour: acceptance iff
    compact JWS, HMAC-SHA256 under the configured signing key, issuer "rdpgw",
    not expired beyond the one-minute leeway (nbf/iat not in the future beyond
    it), and the IdP honours the embedded access token; the tunnel then gets
    exactly the token's host, its client address and the IdP's subject. *)
Theorem C02_accept_iff : forall k now idp tok host ip user,
  fst (check_paa k now idp tok) = PaaAccept host ip user <->
  exists c, tok = JCompact HS256 k c /\ cl_iss c = s_rdpgw /\ time_ok now c /\
            idp (cl_at c) = Some user /\ host = cl_host c /\ ip = cl_ip c.
Proof. exact check_paa_accept_iff. Qed.
Print Assumptions C02_accept_iff.

(** Forgeries never reach the IdP: it is consulted only after MAC, issuer and
    time checks passed. *)
Theorem C02_idp_not_consulted_for_forgeries : forall k now idp tok,
  snd (check_paa k now idp tok) = true ->
  exists c, tok = JCompact HS256 k c /\ cl_iss c = s_rdpgw /\ time_ok now c.
Proof. exact check_paa_idp_only_after_checks. Qed.
Print Assumptions C02_idp_not_consulted_for_forgeries.

(** Minted tokens expire five minutes after issuance and carry exactly the
    given host, client address and access token. *)
Theorem C02_minted_expiry : forall k now user host ip atok tok,
  mint_paa k now user host ip atok = Some tok ->
  exists c, tok = JCompact HS256 k c /\ cl_exp c = Some (now + 300) /\ cl_iss c = s_rdpgw /\
            cl_host c = host /\ cl_ip c = ip /\ cl_at c = atok /\ cl_sub c = user /\
            cl_nbf c = None /\ cl_iat c = None.
Proof. exact mint_paa_expiry. Qed.
Print Assumptions C02_minted_expiry.

(** A freshly minted token is accepted (while the IdP honours the access token)
    up to six minutes after issuance, never later. *)
Theorem C02_fresh_accepted : forall k now t idp user host ip atok tok s,
  mint_paa k now user host ip atok = Some tok -> t <= now + 360 -> idp atok = Some s ->
  fst (check_paa k t idp tok) = PaaAccept host ip s.
Proof. exact fresh_token_accepted. Qed.
Print Assumptions C02_fresh_accepted.

Theorem C02_minted_rejected_after_lifetime : forall k now t idp user host ip atok tok,
  mint_paa k now user host ip atok = Some tok -> now + 360 < t ->
  fst (check_paa k t idp tok) = PaaReject.
Proof. exact minted_rejected_after_lifetime. Qed.
Print Assumptions C02_minted_rejected_after_lifetime.

(** A rejected cookie is answered with the cookie-access-denied status and the
    tunnel ends (the processor side). *)
Theorem C02_rejection_status : forall c body a,
  c_cookie_cb c = true -> a_cookie a = false ->
  process_packet c SERVER_STATE_HANDSHAKE PKT_TYPE_TUNNEL_CREATE body a =
  (SERVER_STATE_HANDSHAKE,
   [AskCookie (snd (tunnel_request body)) false;
    Resp PKT_TYPE_TUNNEL_RESPONSE E_PROXY_COOKIE_AUTHENTICATION_ACCESS_DENIED
      (tunnel_response E_PROXY_COOKIE_AUTHENTICATION_ACCESS_DENIED); End EndCookie], true).
Proof. exact cookie_refusal. Qed.
Print Assumptions C02_rejection_status.

Definition ex_key : bytes := repeat x6b 32.
Example C02_example :
  exists tok, mint_paa ex_key 1000 [x75] [x68] [x69] [x61] = Some tok /\
    fst (check_paa ex_key 1100 (fun _ => Some [x73]) tok) = PaaAccept [x68] [x69] [x73] /\
    fst (check_paa (repeat x6c 32) 1100 (fun _ => Some [x73]) tok) = PaaReject /\
    fst (check_paa ex_key 1100 (fun _ => None) tok) = PaaReject.
Proof. eexists. repeat split; vm_compute; reflexivity. Qed.
