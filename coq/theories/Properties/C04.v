(** C04 — tokens are bound to the client address they were issued to.
    Property theorems only. *)
From Coq Require Import List NArith ZArith Bool Lia.
From Coq.Strings Require Import Byte.
From RDPGW Require Import Lib.Bytes Gen.Consts Model.Utf16 Model.Packets Model.Processor Model.Policy
  Spec.HostPolicy Proofs.PolicyFacts Proofs.ProcessorFacts.
Import ListNotations.
Open Scope N_scope.

(** With verification on, the policy passes only when the address recorded in
    the token equals the presenting client's address (string equality: textual
    variants of one address are different addresses). *)
Theorem C04_bound : forall mode hosts t ip host,
  wired_policy true true mode hosts t ip host = true -> t_remote t = ip.
Proof.
  intros mode hosts t ip host H. apply wired_policy_iff in H. destruct H as [H _].
  destruct (H eq_refl) as [_ H2]. exact (H2 eq_refl).
Qed.
Print Assumptions C04_bound.

(** ... and from any other address no connection is made on any run. *)
Theorem C04_other_address_no_dial : forall mode hosts t ip live c items tr1 h ok tr2,
  c_host_cb c = true -> t_remote t <> ip ->
  run c (resolve_policy_dials (wired_policy true true mode hosts t ip) live c tstate0 items)
    <> tr1 ++ Dial h ok :: tr2.
Proof.
  intros mode hosts t ip live c items tr1 h ok tr2 CB Hne E.
  apply resolved_policy_dials in E; [|exact CB]. apply C04_bound in E. contradiction.
Qed.
Print Assumptions C04_other_address_no_dial.

(** With verification disabled the decision does not depend on either address. *)
Theorem C04_disabled_ignores : forall tok mode hosts target user r1 r2 ip1 ip2 host,
  wired_policy tok false mode hosts {| t_target := target; t_remote := r1; t_user := user |} ip1 host =
  wired_policy tok false mode hosts {| t_target := target; t_remote := r2; t_user := user |} ip2 host.
Proof. intros. unfold wired_policy, check_session. destruct tok; reflexivity. Qed.
Print Assumptions C04_disabled_ignores.

(** The client address: the first X-Forwarded-For element (trimmed) when the
    header has a non-empty value, the TCP peer's host otherwise. *)
Theorem C04_client_ip_header : forall x xs peer,
  client_ip (x :: xs) peer = trim_ascii (first_elem (x :: xs)).
Proof. reflexivity. Qed.
Theorem C04_client_ip_peer : forall peer, client_ip [] peer = peer.
Proof. reflexivity. Qed.
Print Assumptions C04_client_ip_header.

(** Verification is on unless configured otherwise (regenerated from the source). *)
Theorem C04_default_true : SECURITY_VERIFY_CLIENT_IP_DEFAULT = true.
Proof. reflexivity. Qed.
Print Assumptions C04_default_true.

Example C04_example_chain :
  client_ip [x31; x2e; x32; x2e; x33; x2e; x34; x2c; x20; x39; x2e; x39; x2e; x39; x2e; x39] [x37; x2e; x37] =
  [x31; x2e; x32; x2e; x33; x2e; x34].
Proof. vm_compute. reflexivity. Qed.
