(** C12 — connection files go only to logged-in sessions and bind user, host and
    address. Model: Model/Download.v over the token (C02), policy (C03/C04) and
    login (C13) models. Property theorems only (proofs: Proofs/DownloadFacts.v). *)
From Coq Require Import List NArith ZArith Bool Lia.
From Coq.Strings Require Import Byte String.
From RDPGW Require Import Lib.Bytes Gen.Consts Model.Policy Model.Token Model.Download Model.Oidc
  Spec.HostPolicy Proofs.PolicyFacts Proofs.TokenFacts Proofs.DownloadFacts Proofs.OidcFacts Gen.Facts.
Import ListNotations.
Open Scope Z_scope.

(** Only a session that completed the OpenID login gets a file; any other
    /connect request is redirected to the identity provider (and no token exists
    in a redirect). *)
Theorem C12_only_authenticated : forall c now r f,
  download c now r = DlFile f -> q_authenticated r = true.
Proof. exact download_needs_login. Qed.
Theorem C12_unauthenticated_redirected : forall st s t,
  i_auth (session_of s st) = false -> snd (ostep st (OConnect s t)) = OutToIdP (o_next st).
Proof. intros st s t H. unfold ostep. now rewrite H. Qed.
Print Assumptions C12_only_authenticated.

(** Target selection: the requested value only in 'any' mode; a configured entry
    equal to the request in 'unsigned' mode; in 'signed' mode the subject of a
    query token that verifies (next theorem) and is a configured entry; a
    configured entry in every other mode (round-robin). *)
Theorem C12_host_policy : forall mode hosts param qhost pick h,
  get_host mode hosts param qhost pick = HostOk h ->
  (mode = s_any /\ param = Some h) \/
  (mode = s_unsigned /\ param = Some h /\ In h hosts) \/
  (mode = s_signed /\ param <> None /\ qhost = Some h /\ In h hosts) \/
  (mode <> s_any /\ mode <> s_unsigned /\ mode <> s_signed /\ nth_error hosts pick = Some h).
Proof. exact get_host_policy. Qed.
Print Assumptions C12_host_policy.

Theorem C12_query_token : forall qk iss now tok h,
  query_info qk iss now tok = Some h ->
  exists a c, tok = JCompact a qk c /\ in_list (alg_name a) QUERY_SIG_ALGS = true /\
              (iss = [] \/ cl_iss c = iss) (* no issuer configured: the issuer is not constrained *) /\
              time_ok now c /\ cl_sub c = h.
Proof. exact query_info_sound. Qed.
Print Assumptions C12_query_token.

(** The file names the configured gateway and the selected host (user name
    substituted for the placeholder); its access token's claims are exactly that
    host, the session's user name (domain part removed when splitting is on), the
    requesting client address and the session's IdP access token; it expires
    300 s after issuance. *)
Theorem C12_claims_exact : forall c now r f,
  download c now r = DlFile f ->
  exists h0 user,
    get_host (d_mode c) (d_hosts c) (q_param r) (q_qhost r) (q_pick r) = HostOk h0 /\
    f_address f = replace_first HOST_PLACEHOLDER (q_user r) h0 /\
    user = (if d_split c then fst (split_at (q_user r)) else q_user r) /\
    f_gateway f = d_gateway c /\
    exists cl, f_token f = JCompact HS256 (d_signing_key c) cl /\
      cl_host cl = f_address f /\ cl_sub cl = user /\ cl_ip cl = q_client_ip r /\
      cl_at cl = q_access_token r /\ cl_exp cl = Some (now + 300) /\ cl_iss cl = s_rdpgw /\
      cl_nbf cl = None /\ cl_iat cl = None.
Proof. exact download_claims. Qed.
Print Assumptions C12_claims_exact.

(** Under round-robin, unsigned and 'any' selection the file's host and token,
    presented unmodified from the same address within the token's lifetime, pass
    the gateway's own cookie check and host policy. Hypotheses forced by the code
    and stated: the IdP honours the access token and reports a non-empty subject
    [s]; when the chosen entry contains the user placeholder, substituting [s]
    gives the same address as substituting the session's user name (the tunnel's
    user is the IdP subject, the file's is the ID-token name claim). *)
Theorem C12_issued_file_works : forall c now r f t idp s verify,
  download c now r = DlFile f ->
  (d_mode c = s_roundrobin \/ d_mode c = s_unsigned \/ d_mode c = s_any) ->
  t <= now + 360 -> idp (q_access_token r) = Some s -> s <> [] ->
  (forall h0, get_host (d_mode c) (d_hosts c) (q_param r) (q_qhost r) (q_pick r) = HostOk h0 ->
              replace_first HOST_PLACEHOLDER s h0 = replace_first HOST_PLACEHOLDER (q_user r) h0) ->
  fst (check_paa (d_signing_key c) t idp (f_token f)) = PaaAccept (f_address f) (q_client_ip r) s /\
  wired_policy true verify (d_mode c) (d_hosts c)
    {| t_target := f_address f; t_remote := q_client_ip r; t_user := s |} (q_client_ip r) (f_address f) = true.
Proof. exact issued_file_works. Qed.
Print Assumptions C12_issued_file_works.

(** The settings the gateway forces into the file (regenerated from the handler). *)
Definition bs (s : string) : bytes := list_byte_of_string s.
Theorem C12_forced_settings :
  DOWNLOAD_FORCED = map bs ["Username=render"; "Domain=domain"; "FullAddress=host";
    "GatewayHostname=h.gatewayAddress.Host"; "GatewayCredentialsSource=rdp.SourceCookie";
    "GatewayAccessToken=token"; "GatewayCredentialMethod=1"; "GatewayUsageMethod=1"]%string
  /\ RDP_SourceCookie = 5%N.
Proof. split; reflexivity. Qed.
Print Assumptions C12_forced_settings.

Definition ex_c : dl_cfg := {| d_mode := s_roundrobin; d_hosts := [[x68; x3a; x31]; HOST_PLACEHOLDER ++ [x3a; x32]];
  d_split := true; d_template := []; d_nousername := false; d_gateway := [x67]; d_signing_key := repeat x6b 32 |}.
Definition ex_r : dl_req := {| q_authenticated := true; q_user := [x62; x40; x64]; q_access_token := [x61];
  q_client_ip := [x39]; q_param := None; q_qhost := None; q_pick := 1 |}.
Example C12_example :
  match download ex_c 1000 ex_r with
  | DlFile f => f_address f = [x62; x40; x64; x3a; x32] /\ f_username f = Some [x62] /\ f_domain f = Some [x64]
  | _ => False
  end.
Proof. vm_compute. repeat split. Qed.

(** The decisions of the transcribed functions, as the source has them now (regenerated by the
    translator: conditions, case labels, returns, branches, go and defer statements in source order).
    The model is a transcription of exactly this text. *)
Theorem C12_decisions_as_transcribed :
  DECISIONS_getHost =
    [[x73; x77; x69; x74; x63; x68; x20; x68; x2e; x68; x6f; x73; x74; x53; x65; x6c; x65; x63; x74; x69; x6f; x6e] (* switch h.hostSelection *);
     [x63; x61; x73; x65; x20; x22; x72; x6f; x75; x6e; x64; x72; x6f; x62; x69; x6e; x22] (* case "roundrobin" *);
     [x72; x65; x74; x75; x72; x6e; x20; x68; x2e; x73; x65; x6c; x65; x63; x74; x52; x61; x6e; x64; x6f; x6d; x48; x6f; x73; x74; x28; x29; x2c; x6e; x69; x6c] (* return h.selectRandomHost(),nil *);
     [x63; x61; x73; x65; x20; x22; x73; x69; x67; x6e; x65; x64; x22] (* case "signed" *);
     [x69; x66; x20; x21; x6f; x6b] (* if !ok *);
     [x72; x65; x74; x75; x72; x6e; x20; x22; x22; x2c; x65; x72; x72; x6f; x72; x73; x2e; x4e; x65; x77; x28; x22; x69; x6e; x76; x61; x6c; x69; x64; x20; x71; x75; x65; x72; x79; x20; x70; x61; x72; x61; x6d; x65; x74; x65; x72; x22; x29] (* return "",errors.New("invalid query parameter") *);
     [x69; x66; x20; x65; x72; x72; x21; x3d; x6e; x69; x6c] (* if err!=nil *);
     [x72; x65; x74; x75; x72; x6e; x20; x22; x22; x2c; x65; x72; x72] (* return "",err *);
     [x69; x66; x20; x63; x68; x65; x63; x6b; x3d; x3d; x68; x6f; x73; x74] (* if check==host *);
     [x62; x72; x65; x61; x6b] (* break *);
     [x69; x66; x20; x21; x66; x6f; x75; x6e; x64] (* if !found *);
     [x72; x65; x74; x75; x72; x6e; x20; x22; x22; x2c; x65; x72; x72; x6f; x72; x73; x2e; x4e; x65; x77; x28; x22; x69; x6e; x76; x61; x6c; x69; x64; x20; x68; x6f; x73; x74; x20; x73; x70; x65; x63; x69; x66; x69; x65; x64; x20; x69; x6e; x20; x71; x75; x65; x72; x79; x20; x74; x6f; x6b; x65; x6e; x22; x29] (* return "",errors.New("invalid host specified in query token") *);
     [x72; x65; x74; x75; x72; x6e; x20; x68; x6f; x73; x74; x2c; x6e; x69; x6c] (* return host,nil *);
     [x63; x61; x73; x65; x20; x22; x75; x6e; x73; x69; x67; x6e; x65; x64; x22] (* case "unsigned" *);
     [x69; x66; x20; x21; x6f; x6b] (* if !ok *);
     [x72; x65; x74; x75; x72; x6e; x20; x22; x22; x2c; x65; x72; x72; x6f; x72; x73; x2e; x4e; x65; x77; x28; x22; x69; x6e; x76; x61; x6c; x69; x64; x20; x71; x75; x65; x72; x79; x20; x70; x61; x72; x61; x6d; x65; x74; x65; x72; x22; x29] (* return "",errors.New("invalid query parameter") *);
     [x69; x66; x20; x63; x68; x65; x63; x6b; x3d; x3d; x68; x6f; x73; x74; x73; x5b; x30; x5d] (* if check==hosts[0] *);
     [x72; x65; x74; x75; x72; x6e; x20; x68; x6f; x73; x74; x73; x5b; x30; x5d; x2c; x6e; x69; x6c] (* return hosts[0],nil *);
     [x72; x65; x74; x75; x72; x6e; x20; x22; x22; x2c; x65; x72; x72; x6f; x72; x73; x2e; x4e; x65; x77; x28; x22; x69; x6e; x76; x61; x6c; x69; x64; x20; x68; x6f; x73; x74; x20; x73; x70; x65; x63; x69; x66; x69; x65; x64; x20; x69; x6e; x20; x71; x75; x65; x72; x79; x20; x70; x61; x72; x61; x6d; x65; x74; x65; x72; x22; x29] (* return "",errors.New("invalid host specified in query parameter") *);
     [x63; x61; x73; x65; x20; x22; x61; x6e; x79; x22] (* case "any" *);
     [x69; x66; x20; x21; x6f; x6b] (* if !ok *);
     [x72; x65; x74; x75; x72; x6e; x20; x22; x22; x2c; x65; x72; x72; x6f; x72; x73; x2e; x4e; x65; x77; x28; x22; x69; x6e; x76; x61; x6c; x69; x64; x20; x71; x75; x65; x72; x79; x20; x70; x61; x72; x61; x6d; x65; x74; x65; x72; x22; x29] (* return "",errors.New("invalid query parameter") *);
     [x72; x65; x74; x75; x72; x6e; x20; x68; x6f; x73; x74; x73; x5b; x30; x5d; x2c; x6e; x69; x6c] (* return hosts[0],nil *);
     [x64; x65; x66; x61; x75; x6c; x74] (* default *);
     [x72; x65; x74; x75; x72; x6e; x20; x68; x2e; x73; x65; x6c; x65; x63; x74; x52; x61; x6e; x64; x6f; x6d; x48; x6f; x73; x74; x28; x29; x2c; x6e; x69; x6c] (* return h.selectRandomHost(),nil *)] /\
  DECISIONS_HandleDownload =
    [[x69; x66; x20; x21; x69; x64; x2e; x41; x75; x74; x68; x65; x6e; x74; x69; x63; x61; x74; x65; x64; x28; x29] (* if !id.Authenticated() *);
     [x72; x65; x74; x75; x72; x6e] (* return *);
     [x69; x66; x20; x65; x72; x72; x21; x3d; x6e; x69; x6c] (* if err!=nil *);
     [x72; x65; x74; x75; x72; x6e] (* return *);
     [x69; x66; x20; x6f; x70; x74; x73; x2e; x53; x70; x6c; x69; x74; x55; x73; x65; x72; x44; x6f; x6d; x61; x69; x6e] (* if opts.SplitUserDomain *);
     [x69; x66; x20; x6c; x65; x6e; x28; x63; x72; x65; x64; x73; x29; x3e; x31] (* if len(creds)>1 *);
     [x69; x66; x20; x6f; x70; x74; x73; x2e; x55; x73; x65; x72; x6e; x61; x6d; x65; x54; x65; x6d; x70; x6c; x61; x74; x65; x21; x3d; x22; x22] (* if opts.UsernameTemplate!="" *);
     [x69; x66; x20; x68; x2e; x72; x64; x70; x4f; x70; x74; x73; x2e; x55; x73; x65; x72; x6e; x61; x6d; x65; x54; x65; x6d; x70; x6c; x61; x74; x65; x3d; x3d; x72; x65; x6e; x64; x65; x72] (* if h.rdpOpts.UsernameTemplate==render *);
     [x72; x65; x74; x75; x72; x6e] (* return *);
     [x69; x66; x20; x65; x72; x72; x21; x3d; x6e; x69; x6c] (* if err!=nil *);
     [x72; x65; x74; x75; x72; x6e] (* return *);
     [x69; x66; x20; x68; x2e; x65; x6e; x61; x62; x6c; x65; x55; x73; x65; x72; x54; x6f; x6b; x65; x6e] (* if h.enableUserToken *);
     [x69; x66; x20; x65; x72; x72; x21; x3d; x6e; x69; x6c] (* if err!=nil *);
     [x72; x65; x74; x75; x72; x6e] (* return *);
     [x69; x66; x20; x65; x72; x72; x21; x3d; x6e; x69; x6c] (* if err!=nil *);
     [x72; x65; x74; x75; x72; x6e] (* return *);
     [x69; x66; x20; x68; x2e; x72; x64; x70; x44; x65; x66; x61; x75; x6c; x74; x73; x3d; x3d; x22; x22] (* if h.rdpDefaults=="" *);
     [x69; x66; x20; x65; x72; x72; x21; x3d; x6e; x69; x6c] (* if err!=nil *);
     [x72; x65; x74; x75; x72; x6e] (* return *);
     [x69; x66; x20; x21; x68; x2e; x72; x64; x70; x4f; x70; x74; x73; x2e; x4e; x6f; x55; x73; x65; x72; x6e; x61; x6d; x65] (* if !h.rdpOpts.NoUsername *);
     [x69; x66; x20; x64; x6f; x6d; x61; x69; x6e; x21; x3d; x22; x22] (* if domain!="" *)] /\
  DECISIONS_QueryInfo =
    [[x69; x66; x20; x65; x72; x72; x21; x3d; x6e; x69; x6c] (* if err!=nil *);
     [x72; x65; x74; x75; x72; x6e; x20; x22; x22; x2c; x65; x72; x72; x6f; x72; x73; x2e; x4e; x65; x77; x28; x22; x63; x61; x6e; x6e; x6f; x74; x20; x67; x65; x74; x20; x74; x6f; x6b; x65; x6e; x22; x29] (* return "",errors.New("cannot get token") *);
     [x69; x66; x20; x65; x72; x72; x3d; x74; x6f; x6b; x65; x6e; x2e; x43; x6c; x61; x69; x6d; x73; x28; x51; x75; x65; x72; x79; x53; x69; x67; x6e; x69; x6e; x67; x4b; x65; x79; x2c; x26; x73; x74; x61; x6e; x64; x61; x72; x64; x29; x3b; x20; x65; x72; x72; x21; x3d; x6e; x69; x6c] (* if err=token.Claims(QuerySigningKey,&standard); err!=nil *);
     [x72; x65; x74; x75; x72; x6e; x20; x22; x22; x2c; x65; x72; x72; x6f; x72; x73; x2e; x4e; x65; x77; x28; x22; x63; x61; x6e; x6e; x6f; x74; x20; x76; x65; x72; x69; x66; x79; x20; x73; x69; x67; x6e; x61; x74; x75; x72; x65; x22; x29] (* return "",errors.New("cannot verify signature") *);
     [x69; x66; x20; x65; x72; x72; x21; x3d; x6e; x69; x6c] (* if err!=nil *);
     [x72; x65; x74; x75; x72; x6e; x20; x22; x22; x2c; x66; x6d; x74; x2e; x45; x72; x72; x6f; x72; x66; x28; x22; x74; x6f; x6b; x65; x6e; x20; x76; x61; x6c; x69; x64; x61; x74; x69; x6f; x6e; x20; x66; x61; x69; x6c; x65; x64; x20; x64; x75; x65; x20; x74; x6f; x20; x25; x73; x22; x2c; x65; x72; x72; x29] (* return "",fmt.Errorf("token validation failed due to %s",err) *);
     [x72; x65; x74; x75; x72; x6e; x20; x73; x74; x61; x6e; x64; x61; x72; x64; x2e; x53; x75; x62; x6a; x65; x63; x74; x2c; x6e; x69; x6c] (* return standard.Subject,nil *)].
Proof. vm_compute. repeat split; reflexivity. Qed.
Print Assumptions C12_decisions_as_transcribed.
