(** C12 — connection files go only to logged-in sessions and bind user, host and
    address. Model: Model/Download.v over the token (C02), policy (C03/C04) and
    login (C13) models. Property theorems only (proofs: Proofs/DownloadFacts.v). *)
From Coq Require Import List NArith ZArith Bool Lia.
From Coq.Strings Require Import Byte String.
From RDPGW Require Import Lib.Bytes Gen.Consts Model.Policy Model.Token Model.Download Model.Oidc
  Spec.HostPolicy Proofs.PolicyFacts Proofs.TokenFacts Proofs.DownloadFacts Proofs.OidcFacts.
Import ListNotations.
Open Scope Z_scope.

(** Only a session that completed the OpenID login gets a file; any other
    /connect request is redirected to the identity provider (and no token exists
    in a redirect). *)
Theorem C12_only_authenticated : forall c now r f,
  download c now r = DlFile f -> q_authenticated r = true.
Proof. exact download_needs_login. Qed.
Theorem C12_unauthenticated_redirected : forall st s t,
  i_auth (session_of s st) = false -> snd (ostep st (OConnect s t)) = OutToIdP (o_next st).
Proof. intros st s t H. unfold ostep. now rewrite H. Qed.
Print Assumptions C12_only_authenticated.

(** Target selection: the requested value only in 'any' mode; a configured entry
    equal to the request in 'unsigned' mode; in 'signed' mode the subject of a
    query token that verifies (next theorem) and is a configured entry; a
    configured entry in every other mode (round-robin). *)
Theorem C12_host_policy : forall mode hosts param qhost pick h,
  get_host mode hosts param qhost pick = HostOk h ->
  (mode = s_any /\ param = Some h) \/
  (mode = s_unsigned /\ param = Some h /\ In h hosts) \/
  (mode = s_signed /\ param <> None /\ qhost = Some h /\ In h hosts) \/
  (mode <> s_any /\ mode <> s_unsigned /\ mode <> s_signed /\ nth_error hosts pick = Some h).
Proof. exact get_host_policy. Qed.
Print Assumptions C12_host_policy.

Theorem C12_query_token : forall qk iss now tok h,
  query_info qk iss now tok = Some h ->
  exists a c, tok = JCompact a qk c /\ in_list (alg_name a) QUERY_SIG_ALGS = true /\
              (iss = [] \/ cl_iss c = iss) (* no issuer configured: the issuer is not constrained *) /\
              time_ok now c /\ cl_sub c = h.
Proof. exact query_info_sound. Qed.
Print Assumptions C12_query_token.

(** The file names the configured gateway and the selected host (user name
    substituted for the placeholder); its access token's claims are exactly that
    host, the session's user name (domain part removed when splitting is on), the
    requesting client address and the session's IdP access token; it expires
    300 s after issuance. *)
Theorem C12_claims_exact : forall c now r f,
  download c now r = DlFile f ->
  exists h0 user,
    get_host (d_mode c) (d_hosts c) (q_param r) (q_qhost r) (q_pick r) = HostOk h0 /\
    f_address f = replace_first HOST_PLACEHOLDER (q_user r) h0 /\
    user = (if d_split c then fst (split_at (q_user r)) else q_user r) /\
    f_gateway f = d_gateway c /\
    exists cl, f_token f = JCompact HS256 (d_signing_key c) cl /\
      cl_host cl = f_address f /\ cl_sub cl = user /\ cl_ip cl = q_client_ip r /\
      cl_at cl = q_access_token r /\ cl_exp cl = Some (now + 300) /\ cl_iss cl = s_rdpgw /\
      cl_nbf cl = None /\ cl_iat cl = None.
Proof. exact download_claims. Qed.
Print Assumptions C12_claims_exact.

(** Under round-robin, unsigned and 'any' selection the file's host and token,
    presented unmodified from the same address within the token's lifetime, pass
    the gateway's own cookie check and host policy. Hypotheses forced by the code
    and stated: the IdP honours the access token and reports a non-empty subject
    [s]; when the chosen entry contains the user placeholder, substituting [s]
    gives the same address as substituting the session's user name (the tunnel's
    user is the IdP subject, the file's is the ID-token name claim). *)
Theorem C12_issued_file_works : forall c now r f t idp s verify,
  download c now r = DlFile f ->
  (d_mode c = s_roundrobin \/ d_mode c = s_unsigned \/ d_mode c = s_any) ->
  t <= now + 360 -> idp (q_access_token r) = Some s -> s <> [] ->
  (forall h0, get_host (d_mode c) (d_hosts c) (q_param r) (q_qhost r) (q_pick r) = HostOk h0 ->
              replace_first HOST_PLACEHOLDER s h0 = replace_first HOST_PLACEHOLDER (q_user r) h0) ->
  fst (check_paa (d_signing_key c) t idp (f_token f)) = PaaAccept (f_address f) (q_client_ip r) s /\
  wired_policy true verify (d_mode c) (d_hosts c)
    {| t_target := f_address f; t_remote := q_client_ip r; t_user := s |} (q_client_ip r) (f_address f) = true.
Proof. exact issued_file_works. Qed.
Print Assumptions C12_issued_file_works.

(** The settings the gateway forces into the file (regenerated from the handler). *)
Definition bs (s : string) : bytes := list_byte_of_string s.
Theorem C12_forced_settings :
  DOWNLOAD_FORCED = map bs ["Username=render"; "Domain=domain"; "FullAddress=host";
    "GatewayHostname=h.gatewayAddress.Host"; "GatewayCredentialsSource=rdp.SourceCookie";
    "GatewayAccessToken=token"; "GatewayCredentialMethod=1"; "GatewayUsageMethod=1"]%string
  /\ RDP_SourceCookie = 5%N.
Proof. split; reflexivity. Qed.
Print Assumptions C12_forced_settings.

Definition ex_c : dl_cfg := {| d_mode := s_roundrobin; d_hosts := [[x68; x3a; x31]; HOST_PLACEHOLDER ++ [x3a; x32]];
  d_split := true; d_template := []; d_nousername := false; d_gateway := [x67]; d_signing_key := repeat x6b 32 |}.
Definition ex_r : dl_req := {| q_authenticated := true; q_user := [x62; x40; x64]; q_access_token := [x61];
  q_client_ip := [x39]; q_param := None; q_qhost := None; q_pick := 1 |}.
Example C12_example :
  match download ex_c 1000 ex_r with
  | DlFile f => f_address f = [x62; x40; x64; x3a; x32] /\ f_username f = Some [x62] /\ f_domain f = Some [x64]
  | _ => False
  end.
Proof. vm_compute. repeat split. Qed.
