(** C15 — user tokens verify only if minted under the configured keys and
    unexpired. Symbolic cryptography as in C02. Property theorems only. *)
From Coq Require Import List NArith ZArith Bool Lia.
From Coq.Strings Require Import Byte.
From RDPGW Require Import Lib.Bytes Gen.Consts Model.Token Proofs.TokenFacts.
Import ListNotations.
Open Scope Z_scope.

(** Verification succeeds only for a token encrypted under the configured
    encryption key — and, when a signing key is configured, carrying a JWS signed
    under it with an allowed algorithm — that names the gateway as issuer and has
    not expired; the result is the token's subject. *)
Theorem C15_verify_sound : forall ek sk now tok user,
  ek <> [] -> user_info ek sk now tok = Some user ->
  exists kalg cenc cty i c,
    tok = EEnc kalg cenc ek cty i /\ cl_sub c = user /\ cl_iss c = s_rdpgw /\ time_ok now c /\
    ((sk <> [] /\ exists a, i = InSigned a sk c /\ in_list (alg_name a) USER_SIG_ALGS = true) \/
     (sk = [] /\ i = InClaims c)).
Proof. exact user_info_sound. Qed.
Print Assumptions C15_verify_sound.

(** A token minted for user U verifies in the mode it was minted in, within its
    lifetime, and yields subject U. *)
Theorem C15_subject : forall ek sk now t user tok,
  mint_user ek sk now user = Some tok -> t <= now + 360 -> user_info ek sk t tok = Some user.
Proof. exact minted_user_verifies. Qed.
Print Assumptions C15_subject.

(** Tokens minted in encrypt-only mode are refused in sign-and-encrypt mode, and
    the reverse. *)
Theorem C15_modes_disjoint : forall ek sk now t user tok,
  sk <> [] ->
  (mint_user ek [] now user = Some tok -> user_info ek sk t tok = None) /\
  (mint_user ek sk now user = Some tok -> user_info ek [] t tok = None).
Proof.
  intros. split; intro M.
  - eapply modes_disjoint_enc_in_signed; eauto.
  - eapply modes_disjoint_signed_in_enc; eauto.
Qed.
Print Assumptions C15_modes_disjoint.

(** HTTP statuses of the token-info endpoint. *)
Theorem C15_http_statuses : forall is_get param verifies,
  token_info_status is_get param verifies =
  if negb is_get then 405%N
  else match param with
       | None | Some [] => 400%N
       | Some _ => if verifies then 200%N else 403%N
       end.
Proof. intros [] [[|]|] []; reflexivity. Qed.
Print Assumptions C15_http_statuses.

(** The only allowed signature algorithm is HS256 and the only key/content
    algorithms are direct A128CBC-HS256 (regenerated from the source). *)
Theorem C15_allow_lists :
  USER_SIG_ALGS = [alg_name HS256] /\ USER_KEY_ALGS_SIGNED = [s_direct] /\ USER_KEY_ALGS_ENC = [s_direct] /\
  USER_CONTENT_ENC_SIGNED = [s_a128cbc] /\ USER_CONTENT_ENC_ENC = [s_a128cbc].
Proof. repeat split; reflexivity. Qed.
Print Assumptions C15_allow_lists.

Example C15_example :
  exists tok, mint_user (repeat x6b 32) (repeat x73 32) 1000 [x75] = Some tok /\
              user_info (repeat x6b 32) (repeat x73 32) 1200 tok = Some [x75] /\
              user_info (repeat x6b 32) (repeat x73 32) 1400 tok = None /\
              user_info (repeat x6c 32) (repeat x73 32) 1200 tok = None.
Proof. eexists. repeat split; vm_compute; reflexivity. Qed.
