(** C08 — packet boundaries come from length fields, not from transport
    segmentation. Specification: Spec/Framing.v ([frame]); implementation model:
    Model/Framer.v ([frames_of], the fold of the transcription of
    readMessage/readHeader). The full-strength statement is false of the code as
    pinned (three recorded findings); it is kept visible, the part that holds is
    proved ([C08_partial]) and each departure has a machine-checked witness. *)
From Coq Require Import List NArith ZArith Bool Lia.
From Coq.Strings Require Import Byte.
From RDPGW Require Import Lib.Bytes Gen.Consts Model.Utf16 Model.Packets Model.Framer Model.Processor
  Spec.Wire Spec.Framing Proofs.WireFacts Proofs.FramingFacts Gen.Facts.
Import ListNotations.
Open Scope N_scope.

Definition pkt_bytes (p : N * bytes) : bytes := create_packet (fst p) (snd p).

(** Full strength: for every list of reads, the packets processed are the
    packets the length fields frame in the concatenated stream. *)
Definition C08_full_statement : Prop :=
  forall reads, fst (frames_of reads) = fst (frame (concat reads)).

(** What holds: every sequence of well-formed packets, every segmentation that
    delivers each packet alone in one read or cut once with a first part that
    fits the 4096-byte scratch buffer: processed packets = framed packets = the
    packets sent, and the framer is ready for the next packet. *)
Theorem C08_partial : forall pkts reads,
  Forall (fun p => wf_packet (fst p) (snd p)) pkts ->
  seg_ok (map pkt_bytes pkts) reads ->
  frames_of reads = (pkts, FeOpen Fresh) /\ frame (concat (map pkt_bytes pkts)) = (pkts, Done).
Proof. intros pkts reads W S. split; [now apply frames_seg_ok | now apply frame_packets]. Qed.
Print Assumptions C08_partial.

(** A length field smaller than the header ends the tunnel with an error: the
    bytes are never interpreted as a packet. *)
Theorem C08_short_length_ends_tunnel : forall c st data a,
  fs st = Fresh -> HEADER_MIN <= blen data -> fst (take32 (skipn 4 data)) < 8 ->
  tstep c st (RData data a) = (st, [End EndMalformed], true).
Proof.
  intros c st data a Hf Hl Hs. unfold tstep, fstep. rewrite Hf. unfold read_header.
  apply N.ltb_ge in Hl. rewrite Hl.
  replace (blen data <? fst (take32 (skipn 4 data))) with false
    by (symmetry; apply N.ltb_ge; apply N.ltb_ge in Hl; unfold HEADER_MIN in Hl; lia).
  apply N.ltb_lt in Hs. rewrite Hs. reflexivity.
Qed.
Print Assumptions C08_short_length_ends_tunnel.

(** A packet that is never completed ends the tunnel with the read error. *)
Theorem C08_never_completed_ends_tunnel : forall c st,
  tstep c st RErr = (st, [End EndReadErr], true).
Proof. reflexivity. Qed.
Print Assumptions C08_never_completed_ends_tunnel.

(** Bytes that cannot be framed end the tunnel after at most one more read: when the first read of a
    call yields no packet and the bytes collected after the second read still yield none (a length
    field below the header size whose header arrived in two pieces, a packet still incomplete, a
    header still short), [Process] returns with an error at that second read, whatever follows on
    the transport and whatever the environment answers. *)
Theorem C08_unframeable_ends_within_two_reads : forall c st a b x y rest,
  fs st = Fresh ->
  (forall ty size body, read_header a <> HOk ty size body) ->
  (forall ty size body, read_header (firstn (N.to_nat READMSG_BUF) a ++ b) <> HOk ty size body) ->
  exists e, run_from c st (RData a x :: RData b y :: rest) = [End e] /\
            (e = EndMalformed \/ e = EndFrameErr) /\
            (consumed_from c st (RData a x :: RData b y :: rest) <= 2)%nat.
Proof.
  intros c st a b x y rest Hf Ha Hb.
  assert (Hsecond : forall buf, buf = firstn (N.to_nat READMSG_BUF) a ->
            fstep (Frag buf) b = FError).
  { intros buf ->. cbn [fstep].
    destruct (read_header (firstn (N.to_nat READMSG_BUF) a ++ b)) as [|ty' size'|ty' size'|ty' size' body'] eqn:Eb;
      try reflexivity.
    exfalso; eapply Hb; reflexivity. }
  cbn [run_from consumed_from]. unfold tstep at 1 3. rewrite Hf. cbn [fstep].
  destruct (read_header a) as [|ty size|ty size|ty size body] eqn:Ea.
  - cbn [run_from consumed_from]. unfold tstep. cbn [fs].
    rewrite (Hsecond _ eq_refl). exists EndFrameErr. cbn. repeat split; auto.
  - cbn [run_from consumed_from]. unfold tstep. cbn [fs].
    rewrite (Hsecond _ eq_refl). exists EndFrameErr. cbn. repeat split; auto.
  - exists EndMalformed. cbn. repeat split; auto.
  - exfalso; eapply Ha; reflexivity.
Qed.
Print Assumptions C08_unframeable_ends_within_two_reads.

(** Non-vacuity: a DATA header announcing 4 bytes, delivered as 6 + 2 bytes, with a well-formed
    packet following on the transport that is never looked at. *)
Example C08_example_split_bad_header :
  let bad := le16 PKT_TYPE_DATA ++ le16 0 ++ le32 4 in
  let a0 := {| a_cookie := true; a_name := true; a_host := true; a_dial := true |} in
  run (wired false false {| rf_clipboard := false; rf_port := false; rf_drive := false; rf_printer := false;
                            rf_pnp := false; rf_disable_all := false; rf_enable_all := false |} 0%Z)
      [RData (firstn 6 bad) a0; RData (skipn 6 bad) a0; RData (create_packet PKT_TYPE_KEEPALIVE []) a0] = [End EndFrameErr].
Proof. vm_compute. reflexivity. Qed.

(** Departures of the pinned code from the full statement (recorded findings). *)
Definition w_p1 : N * bytes := (PKT_TYPE_KEEPALIVE, []).
Definition w_p2 : N * bytes := (PKT_TYPE_DATA, [x01; x00; xaa]).

(** Two packets in one read: the second is silently dropped. *)
Theorem C08_coalesced_refuted :
  fst (frames_of [pkt_bytes w_p1 ++ pkt_bytes w_p2]) = [w_p1] /\
  fst (frame (pkt_bytes w_p1 ++ pkt_bytes w_p2)) = [w_p1; w_p2].
Proof. split; vm_compute; reflexivity. Qed.
Print Assumptions C08_coalesced_refuted.

(** A packet split over three reads: the tunnel is ended with an error. *)
Theorem C08_three_fragments_refuted :
  frames_of [firstn 3 (pkt_bytes w_p2); firstn 3 (skipn 3 (pkt_bytes w_p2)); skipn 6 (pkt_bytes w_p2)]
    = ([], FeError) /\
  fst (frame (pkt_bytes w_p2)) = [w_p2].
Proof. split; vm_compute; reflexivity. Qed.
Print Assumptions C08_three_fragments_refuted.

(** A first fragment larger than the scratch buffer is truncated. *)
Definition w_big : N * bytes := (PKT_TYPE_DATA, le16 5000 ++ repeat x41 5000).
Theorem C08_big_first_fragment_refuted :
  frames_of [firstn 4500 (pkt_bytes w_big); skipn 4500 (pkt_bytes w_big)] = ([], FeError) /\
  fst (frame (pkt_bytes w_big)) = [w_big].
Proof. split; vm_compute; reflexivity. Qed.
Print Assumptions C08_big_first_fragment_refuted.

Theorem C08_full_refuted : ~ C08_full_statement.
Proof.
  intro H. specialize (H [pkt_bytes w_p1 ++ pkt_bytes w_p2]).
  cbn [concat] in H. rewrite List.app_nil_r in H.
  destruct C08_coalesced_refuted as [A B]. rewrite A, B in H. discriminate.
Qed.
Print Assumptions C08_full_refuted.

(** Non-vacuity of the partial theorem: a packet cut once. *)
Example C08_example_two_reads :
  frames_of [firstn 5 (pkt_bytes w_p2); skipn 5 (pkt_bytes w_p2)] = ([w_p2], FeOpen Fresh).
Proof. vm_compute. reflexivity. Qed.

(** The decisions of the transcribed functions, as the source has them now (regenerated by the
    translator: conditions, case labels, returns, branches, go and defer statements in source order).
    The model is a transcription of exactly this text. *)
Theorem C08_decisions_as_transcribed :
  DECISIONS_readMessage =
    [[x69; x66; x20; x65; x72; x72; x21; x3d; x6e; x69; x6c] (* if err!=nil *);
     [x72; x65; x74; x75; x72; x6e; x20; x30; x2c; x30; x2c; x5b; x5d; x62; x79; x74; x65; x7b; x30; x2c; x30; x7d; x2c; x65; x72; x72] (* return 0,0,[]byte{0,0},err *);
     [x69; x66; x20; x21; x66; x72; x61; x67; x6d; x65; x6e; x74] (* if !fragment *);
     [x69; x66; x20; x65; x72; x72; x3d; x3d; x65; x72; x72; x4d; x61; x6c; x66; x6f; x72; x6d; x65; x64] (* if err==errMalformed *);
     [x72; x65; x74; x75; x72; x6e; x20; x30; x2c; x30; x2c; x5b; x5d; x62; x79; x74; x65; x7b; x30; x2c; x30; x7d; x2c; x65; x72; x72] (* return 0,0,[]byte{0,0},err *);
     [x69; x66; x20; x65; x72; x72; x21; x3d; x6e; x69; x6c] (* if err!=nil *);
     [x63; x6f; x6e; x74; x69; x6e; x75; x65] (* continue *);
     [x69; x66; x20; x65; x72; x72; x21; x3d; x6e; x69; x6c] (* if err!=nil *);
     [x72; x65; x74; x75; x72; x6e; x20; x30; x2c; x30; x2c; x5b; x5d; x62; x79; x74; x65; x7b; x30; x2c; x30; x7d; x2c; x65; x72; x72] (* return 0,0,[]byte{0,0},err *);
     [x69; x66; x20; x21; x66; x72; x61; x67; x6d; x65; x6e; x74] (* if !fragment *);
     [x72; x65; x74; x75; x72; x6e; x20; x69; x6e; x74; x28; x70; x74; x29; x2c; x69; x6e; x74; x28; x73; x7a; x29; x2c; x6d; x73; x67; x2c; x6e; x69; x6c] (* return int(pt),int(sz),msg,nil *)].
Proof. vm_compute. repeat split; reflexivity. Qed.
Print Assumptions C08_decisions_as_transcribed.
