(** C08 — packet boundaries come from length fields, not from transport
    segmentation. Specification: Spec/Framing.v ([frame]); implementation model:
    Model/Framer.v ([frames_of], the fold of the transcription of
    readMessage/readHeader). The full-strength statement is false of the code as
    pinned (three recorded findings); it is kept visible, the part that holds is
    proved ([C08_partial]) and each departure has a machine-checked witness. *)
From Coq Require Import List NArith ZArith Bool Lia.
From Coq.Strings Require Import Byte.
From RDPGW Require Import Lib.Bytes Gen.Consts Model.Utf16 Model.Packets Model.Framer Model.Processor
  Spec.Wire Spec.Framing Proofs.WireFacts Proofs.FramingFacts.
Import ListNotations.
Open Scope N_scope.

Definition pkt_bytes (p : N * bytes) : bytes := create_packet (fst p) (snd p).

(** Full strength: for every list of reads, the packets processed are the
    packets the length fields frame in the concatenated stream. *)
Definition C08_full_statement : Prop :=
  forall reads, fst (frames_of reads) = fst (frame (concat reads)).

(** What holds: every sequence of well-formed packets, every segmentation that
    delivers each packet alone in one read or cut once with a first part that
    fits the 4096-byte scratch buffer: processed packets = framed packets = the
    packets sent, and the framer is ready for the next packet. *)
Theorem C08_partial : forall pkts reads,
  Forall (fun p => wf_packet (fst p) (snd p)) pkts ->
  seg_ok (map pkt_bytes pkts) reads ->
  frames_of reads = (pkts, FeOpen Fresh) /\ frame (concat (map pkt_bytes pkts)) = (pkts, Done).
Proof. intros pkts reads W S. split; [now apply frames_seg_ok | now apply frame_packets]. Qed.
Print Assumptions C08_partial.

(** A length field smaller than the header ends the tunnel with an error: the
    bytes are never interpreted as a packet. *)
Theorem C08_short_length_ends_tunnel : forall c st data a,
  fs st = Fresh -> HEADER_MIN <= blen data -> fst (take32 (skipn 4 data)) < 8 ->
  tstep c st (RData data a) = (st, [End EndMalformed], true).
Proof.
  intros c st data a Hf Hl Hs. unfold tstep, fstep. rewrite Hf. unfold read_header.
  apply N.ltb_ge in Hl. rewrite Hl.
  replace (blen data <? fst (take32 (skipn 4 data))) with false
    by (symmetry; apply N.ltb_ge; apply N.ltb_ge in Hl; unfold HEADER_MIN in Hl; lia).
  apply N.ltb_lt in Hs. rewrite Hs. reflexivity.
Qed.
Print Assumptions C08_short_length_ends_tunnel.

(** A packet that is never completed ends the tunnel with the read error. *)
Theorem C08_never_completed_ends_tunnel : forall c st,
  tstep c st RErr = (st, [End EndReadErr], true).
Proof. reflexivity. Qed.
Print Assumptions C08_never_completed_ends_tunnel.

(** Departures of the pinned code from the full statement (recorded findings). *)
Definition w_p1 : N * bytes := (PKT_TYPE_KEEPALIVE, []).
Definition w_p2 : N * bytes := (PKT_TYPE_DATA, [x01; x00; xaa]).

(** Two packets in one read: the second is silently dropped. *)
Theorem C08_coalesced_refuted :
  fst (frames_of [pkt_bytes w_p1 ++ pkt_bytes w_p2]) = [w_p1] /\
  fst (frame (pkt_bytes w_p1 ++ pkt_bytes w_p2)) = [w_p1; w_p2].
Proof. split; vm_compute; reflexivity. Qed.
Print Assumptions C08_coalesced_refuted.

(** A packet split over three reads: the tunnel is ended with an error. *)
Theorem C08_three_fragments_refuted :
  frames_of [firstn 3 (pkt_bytes w_p2); firstn 3 (skipn 3 (pkt_bytes w_p2)); skipn 6 (pkt_bytes w_p2)]
    = ([], FeError) /\
  fst (frame (pkt_bytes w_p2)) = [w_p2].
Proof. split; vm_compute; reflexivity. Qed.
Print Assumptions C08_three_fragments_refuted.

(** A first fragment larger than the scratch buffer is truncated. *)
Definition w_big : N * bytes := (PKT_TYPE_DATA, le16 5000 ++ repeat x41 5000).
Theorem C08_big_first_fragment_refuted :
  frames_of [firstn 4500 (pkt_bytes w_big); skipn 4500 (pkt_bytes w_big)] = ([], FeError) /\
  fst (frame (pkt_bytes w_big)) = [w_big].
Proof. split; vm_compute; reflexivity. Qed.
Print Assumptions C08_big_first_fragment_refuted.

Theorem C08_full_refuted : ~ C08_full_statement.
Proof.
  intro H. specialize (H [pkt_bytes w_p1 ++ pkt_bytes w_p2]).
  cbn [concat] in H. rewrite List.app_nil_r in H.
  destruct C08_coalesced_refuted as [A B]. rewrite A, B in H. discriminate.
Qed.
Print Assumptions C08_full_refuted.

(** Non-vacuity of the partial theorem: a packet cut once. *)
Example C08_example_two_reads :
  frames_of [firstn 5 (pkt_bytes w_p2); skipn 5 (pkt_bytes w_p2)] = ([w_p2], FeOpen Fresh).
Proof. vm_compute. reflexivity. Qed.
