(** C07 — concurrent tunnels are isolated from each other. Model: Model/System.v
    (connection-id cache, one tunnel and processor per connection); each
    operation is atomic (real goroutine interleavings inside one operation are
    C09's subject). Property theorems only (proofs: Proofs/SystemFacts.v). *)
From Coq Require Import List NArith ZArith Bool Lia.
From Coq.Strings Require Import Byte.
From RDPGW Require Import Lib.Bytes Gen.Consts Model.Packets Model.Processor Model.System Proofs.SystemFacts.
Import ListNotations.
Open Scope N_scope.

(** For any number of tunnels, any interleaving of their opens, reads and ends:
    the outputs tunnel [id] sees (its responses, the bytes relayed to its host,
    its connection attempts, its end) are exactly those of its own operations
    run alone. In particular its phase, user, token host and client address —
    all functions of its own state — are unaffected by the others. *)
Theorem C07_noninterference : forall c id ops,
  project id (grun c [] ops) = project id (grun c [] (own_ops id ops)).
Proof. intros. now apply noninterference. Qed.
Print Assumptions C07_noninterference.

(** A legacy tunnel pairs an inbound and an outbound connection only when they
    carry the same connection identifier. *)
Theorem C07_legacy_pairing : forall c g id,
  snd (gstep c g (GOpenIn id)) = GAccepted <->
  exists t, gget id g = Some t /\ g_out t = true /\ g_in t = false.
Proof. exact pairing. Qed.
Print Assumptions C07_legacy_pairing.

Theorem C07_other_id_not_paired : forall c g id id',
  id <> id' -> gget id' g = None ->
  snd (gstep c (fst (gstep c g (GOpenOut id))) (GOpenIn id')) = GRefused.
Proof. exact pairing_needs_same_id. Qed.
Print Assumptions C07_other_id_not_paired.

Example C07_example :
  let hs := RData (create_packet PKT_TYPE_HANDSHAKE_REQUEST [x01; x00; x00; x00; x00; x00])
                  {| a_cookie := true; a_name := true; a_host := true; a_dial := true |} in
  let c := wired false false {| rf_clipboard := true; rf_port := true; rf_drive := true; rf_printer := true;
                                rf_pnp := true; rf_disable_all := false; rf_enable_all := false |} 0%Z in
  project 1 (grun c [] [GOpenWs 1; GOpenOut 2; GRead 1 hs; GOpenIn 3; GOpenIn 2; GRead 2 hs; GRead 1 hs])
  = project 1 (grun c [] [GOpenWs 1; GRead 1 hs; GRead 1 hs]) /\
  map snd (grun c [] [GOpenOut 2; GOpenIn 3; GOpenIn 2]) = [GAccepted; GRefused; GAccepted].
Proof. split; vm_compute; reflexivity. Qed.
