(** C19 — generated connection files are well-formed and round-trip through the
    parser. Model: Model/RdpFile.v (transcription of rdp.Unmarshal / Marshal, the
    Builder over the regenerated ~60-row settings table). Proofs: Proofs/RdpFacts.v.

    Partiality, stated once: [strings.TrimSpace] is modelled completely (ASCII
    blanks and the UTF-8 encodings of every other unicode.IsSpace rune), but the
    round-trip theorems are proved for keys and string values whose FIRST and LAST
    bytes are ASCII non-blanks ([trimmedA]); their interior is arbitrary (':'
    included, any non-ASCII text). Values that begin or end with a non-ASCII
    character are covered by the correspondence runs only. The full-strength
    statement is kept as [C19_parse_marshal_full_statement]. *)
From Coq Require Import List NArith ZArith Bool Lia Permutation.
From Coq.Strings Require Import Byte.
From RDPGW Require Import Lib.Bytes Gen.Consts Model.RdpFile Proofs.RdpFacts Gen.Facts.
Import ListNotations.
Open Scope Z_scope.

(** Full strength (not proved in this generality): any trimmed key/value. *)
Definition trimmed (s : bytes) : Prop := trim_space s = s.
Definition C19_parse_marshal_full_statement : Prop :=
  forall m, NoDup (keys m) ->
    Forall (fun e => fst e <> [] /\ trimmed (fst e) /\ no_byte x3a (fst e) /\ no_byte x0a (fst e) /\ no_byte x0d (fst e)
                     /\ hd x00 (fst e) <> x23 /\
                     match snd e with
                     | VInt z => int64_min <= z <= int64_max
                     | VStr s => trimmed s /\ no_byte x0a s /\ no_byte x0d s
                     end) m ->
    exists m', parse (marshal m) = Some m' /\ forall k, lookup k m' = lookup k m.

(** parse (marshal m) = m as maps, for every map of int64 integers and strings
    (keys pairwise distinct, non-empty, not starting with '#', free of ':' and
    LF; values free of LF; edges ASCII non-blank). The parser returns the entries
    in the marshaller's (sorted) order. *)
Theorem C19_parse_marshal_partial : forall m,
  NoDup (keys m) ->
  Forall (fun e => wf_key (fst e) /\ wf_value (snd e)) m ->
  parse (marshal m) = Some (sort_kv m) /\ forall k, lookup k (sort_kv m) = lookup k m.
Proof.
  intros m N W. split.
  - unfold marshal. apply parse_rendered.
    + eapply Permutation_Forall; [apply Permutation_sym, sort_perm | exact W].
    + eapply Permutation_NoDup; [|exact N]. unfold keys. apply Permutation_map, Permutation_sym, sort_perm.
  - intro k. apply lookup_perm; [apply Permutation_sym, sort_perm | exact N].
Qed.
Print Assumptions C19_parse_marshal_partial.

(** Every file the builder produces consists of CRLF-terminated name:type:value
    lines, at most one per setting. *)
Theorem C19_emit_wellformed : forall s,
  emit s = concat (map render_line (entries RDP_TABLE s)) /\
  NoDup (keys (entries RDP_TABLE s)) /\
  (forall e, In e (entries RDP_TABLE s) -> render_line e = body_of e ++ [x0d; x0a]).
Proof. exact emit_wellformed. Qed.
Print Assumptions C19_emit_wellformed.

(** Reading a produced file back with the gateway's own reader yields exactly
    the settings the builder held, for every assignment of typed values to the
    settings of the (regenerated) table. *)
Theorem C19_builder_roundtrip : forall s, wf_settings s -> load (emit s) = Some s.
Proof. exact builder_roundtrip. Qed.
Print Assumptions C19_builder_roundtrip.

(** Setting names of the table are pairwise distinct and well-formed keys
    (computed on the regenerated table). *)
Theorem C19_table_sane :
  NoDup (map row_name RDP_TABLE) /\ Forall (fun r => wf_key (row_name r)) RDP_TABLE.
Proof.
  split; [apply nodupb_ok, table_names_distinct|].
  apply Forall_forall. intros r I. apply wf_keyb_ok.
  pose proof table_names_wf as H. rewrite forallb_forall in H. now apply H.
Qed.
Print Assumptions C19_table_sane.

(** Malformed lines are rejected, never silently skipped: a trimmed line that is
    not blank and not a comment and lacks three ':'-separated fields, has an
    unknown type, or a non-integer 'i' value makes the whole parse fail. *)
Theorem C19_malformed_rejected : forall ls1 raw ls2 a l,
  trim_space raw = a :: l -> a <> x23 ->
  (splitn3 (a :: l) = None \/
   (exists f0 f1 f2, splitn3 (a :: l) = Some (f0, f1, f2) /\
      ((trim_space f1 <> [x69] /\ trim_space f1 <> [x73] /\ trim_space f1 <> [x62]) \/
       (trim_space f1 = [x69] /\ atoi (trim_space f2) = None)))) ->
  forall m, parse_lines (ls1 ++ raw :: ls2) m = None.
Proof. intros. apply parse_lines_error. eapply malformed_line; eauto. Qed.
Print Assumptions C19_malformed_rejected.

(** Integers: Atoi inverts %d on the whole int64 range. *)
Theorem C19_atoi_render : forall z, int64_min <= z <= int64_max -> atoi (render_int z) = Some z.
Proof. exact atoi_render. Qed.
Print Assumptions C19_atoi_render.

(** Non-vacuity. *)
Example C19_example_parse :
  parse [x61; x3a; x69; x3a; x35; x0d; x0a; x62; x3a; x73; x3a; x78; x3a; x79; x0d; x0a]
  = Some [([x61], VInt 5); ([x62], VStr [x78; x3a; x79])].
Proof. vm_compute. reflexivity. Qed.
Example C19_example_defaults_roundtrip : load (emit defaults) = Some defaults /\ emit defaults = [].
Proof. split; vm_compute; reflexivity. Qed.
Example C19_example_malformed :
  parse [x61; x3a; x69; x3a; x35; x0a; x6e; x6f; x63; x6f; x6c; x6f; x6e; x0a] = None /\
  parse [x61; x3a; x71; x3a; x35; x0a] = None /\ parse [x61; x3a; x69; x3a; x78; x0a] = None.
Proof. repeat split; vm_compute; reflexivity. Qed.

(** The decisions of the transcribed functions, as the source has them now (regenerated by the
    translator: conditions, case labels, returns, branches, go and defer statements in source order).
    The model is a transcription of exactly this text. *)
Theorem C19_decisions_as_transcribed :
  DECISIONS_rdpUnmarshal =
    [[x66; x6f; x72; x20; x73; x63; x61; x6e; x6e; x65; x72; x2e; x53; x63; x61; x6e; x28; x29] (* for scanner.Scan() *);
     [x69; x66; x20; x6c; x69; x6e; x65; x3d; x3d; x22; x22; x7c; x7c; x73; x74; x72; x69; x6e; x67; x73; x2e; x48; x61; x73; x50; x72; x65; x66; x69; x78; x28; x6c; x69; x6e; x65; x2c; x22; x23; x22; x29] (* if line==""||strings.HasPrefix(line,"#") *);
     [x63; x6f; x6e; x74; x69; x6e; x75; x65] (* continue *);
     [x69; x66; x20; x6c; x65; x6e; x28; x66; x69; x65; x6c; x64; x73; x29; x21; x3d; x33] (* if len(fields)!=3 *);
     [x72; x65; x74; x75; x72; x6e; x20; x6e; x69; x6c; x2c; x66; x6d; x74; x2e; x45; x72; x72; x6f; x72; x66; x28; x22; x6d; x61; x6c; x66; x6f; x72; x6d; x65; x64; x20; x6c; x69; x6e; x65; x20; x25; x64; x3a; x20; x25; x71; x22; x2c; x63; x2c; x6c; x69; x6e; x65; x29] (* return nil,fmt.Errorf("malformed line %d: %q",c,line) *);
     [x73; x77; x69; x74; x63; x68; x20; x74] (* switch t *);
     [x63; x61; x73; x65; x20; x22; x69; x22] (* case "i" *);
     [x69; x66; x20; x65; x72; x72; x21; x3d; x6e; x69; x6c] (* if err!=nil *);
     [x72; x65; x74; x75; x72; x6e; x20; x6e; x69; x6c; x2c; x66; x6d; x74; x2e; x45; x72; x72; x6f; x72; x66; x28; x22; x63; x61; x6e; x6e; x6f; x74; x20; x70; x61; x72; x73; x65; x20; x69; x6e; x74; x65; x67; x65; x72; x20; x61; x74; x20; x6c; x69; x6e; x65; x20; x25; x64; x3a; x20; x25; x73; x22; x2c; x63; x2c; x6c; x69; x6e; x65; x29] (* return nil,fmt.Errorf("cannot parse integer at line %d: %s",c,line) *);
     [x63; x61; x73; x65; x20; x22; x73; x22] (* case "s" *);
     [x63; x61; x73; x65; x20; x22; x62; x22] (* case "b" *);
     [x64; x65; x66; x61; x75; x6c; x74] (* default *);
     [x72; x65; x74; x75; x72; x6e; x20; x6e; x69; x6c; x2c; x66; x6d; x74; x2e; x45; x72; x72; x6f; x72; x66; x28; x22; x6d; x61; x6c; x66; x6f; x72; x6d; x65; x64; x20; x6c; x69; x6e; x65; x20; x25; x64; x3a; x20; x25; x73; x22; x2c; x63; x2c; x6c; x69; x6e; x65; x29] (* return nil,fmt.Errorf("malformed line %d: %s",c,line) *);
     [x72; x65; x74; x75; x72; x6e; x20; x6d; x70; x2c; x6e; x69; x6c] (* return mp,nil *)] /\
  DECISIONS_rdpMarshal =
    [[x63; x61; x73; x65; x20; x62; x6f; x6f; x6c] (* case bool *);
     [x69; x66; x20; x76; x3d; x3d; x74; x72; x75; x65] (* if v==true *);
     [x63; x61; x73; x65; x20; x69; x6e; x74] (* case int *);
     [x63; x61; x73; x65; x20; x73; x74; x72; x69; x6e; x67] (* case string *);
     [x64; x65; x66; x61; x75; x6c; x74] (* default *);
     [x72; x65; x74; x75; x72; x6e; x20; x6e; x69; x6c; x2c; x66; x6d; x74; x2e; x45; x72; x72; x6f; x72; x66; x28; x22; x65; x72; x72; x6f; x72; x20; x6d; x61; x72; x73; x68; x61; x6c; x6c; x69; x6e; x67; x22; x29] (* return nil,fmt.Errorf("error marshalling") *);
     [x72; x65; x74; x75; x72; x6e; x20; x62; x2e; x42; x79; x74; x65; x73; x28; x29; x2c; x6e; x69; x6c] (* return b.Bytes(),nil *)].
Proof. vm_compute. repeat split; reflexivity. Qed.
Print Assumptions C19_decisions_as_transcribed.
