(** C20 — the KDC proxy relays Kerberos messages faithfully and always answers.
    PARTIAL: liveness is proved in steps of the model (the handler is a total
    function; every wait carries the modelled 5 s deadline and the waits run in
    parallel); wall-clock bounds are measured. The DER codec is modelled for the
    message shape the gateway's own codec produces. *)
From Coq Require Import List NArith ZArith Bool Lia.
From Coq.Strings Require Import Byte.
From RDPGW Require Import Lib.Bytes Gen.Consts Model.Kdc Proofs.KdcFacts.
Import ListNotations.
Open Scope N_scope.

(** DER round trip of the request shape, and of the reply wrapping. *)
Theorem C20_der_roundtrip : forall message realm,
  blen message + blen realm < 1048576 -> decode_req (encode_req message realm) = Some (message, realm).
Proof. exact decode_encode_req. Qed.
Print Assumptions C20_der_roundtrip.

Theorem C20_reply_wrapping : forall reply,
  blen reply < 1048576 -> decode_req (encode_msg reply) = Some (reply, []).
Proof. exact decode_encode_msg. Qed.
Print Assumptions C20_reply_wrapping.

(** Requests that are not POST, declare no length or exceed 128 KiB are answered
    405, 411, 413 from the request line and headers alone; an undecodable body
    (or one with trailing bytes) is answered 400 whatever the KDCs would do:
    nothing is sent to any KDC in these cases. *)
Theorem C20_rejections :
  (forall cl, validate MOtherMethod cl = Some 405) /\
  validate MPost None = Some 411 /\
  (forall n, 131072 < n -> validate MPost (Some n) = Some 413) /\
  (forall n, n <= 131072 -> validate MPost (Some n) = None) /\
  (forall data realms, decode_req data = None -> handle data realms = PStatus 400).
Proof.
  repeat split; try reflexivity.
  - intros n H. unfold validate, kdc_maxLength. apply N.ltb_lt in H. now rewrite H.
  - intros n H. unfold validate, kdc_maxLength. replace (131072 <? n) with false; [reflexivity|].
    symmetry. apply N.ltb_ge. exact H.
  - exact undecodable_is_400.
Qed.
Print Assumptions C20_rejections.

(** Exact relay: what is sent to a TCP KDC is the embedded message (over UDP the
    message without its 4-byte prefix); when a KDC of the realm replies, the
    response is that reply wrapped as KDC-PROXY-MESSAGE, and it came from one of
    the realm's KDCs. *)
Theorem C20_relay_exact : forall message realm realms kdcs r,
  blen message + blen realm < 1048576 ->
  realms realm = Some kdcs -> first_reply kdcs message = Some r ->
  to_kdc Tcp message = Some message /\
  handle (encode_req message realm) realms = PReply (encode_msg r) /\
  exists k, In k kdcs /\ from_kdc k message = Some r.
Proof.
  intros message realm realms kdcs r H R F. split; [reflexivity|]. split.
  - eapply relay_exact; eauto.
  - now apply first_reply_from.
Qed.
Print Assumptions C20_relay_exact.

(** Every request gets an answer: the handler is a total function of the request
    and of the KDCs' behaviours (unknown realm, unreachable, silent or partial
    KDCs included), and the fan-out waits at most the timeout. *)
Theorem C20_always_answers : forall data realms,
  (exists code, handle data realms = PStatus code) \/ (exists body, handle data realms = PReply body).
Proof. intros data realms. destruct (handle data realms); eauto. Qed.
Theorem C20_wait_bounded : forall kdcs, wait_bound kdcs <= 5.
Proof. intros [|k kdcs]; cbn; unfold kdc_timeout_SECONDS; lia. Qed.
Print Assumptions C20_always_answers.

Theorem C20_no_reply_is_503 : forall message realm realms kdcs,
  blen message + blen realm < 1048576 -> realms realm = Some kdcs ->
  Forall (fun k => match k_does k with KReply _ => False | _ => True end) kdcs ->
  handle (encode_req message realm) realms = PStatus 503.
Proof.
  intros message realm realms kdcs H R F. unfold handle. rewrite decode_encode_req by exact H. rewrite R.
  replace (first_reply kdcs message) with (@None bytes); [reflexivity|]. clear R.
  induction kdcs as [|k kdcs IH]; [reflexivity|]. inversion F as [|? ? Fk Fr]; subst. cbn [first_reply].
  unfold from_kdc. destruct (to_kdc (k_proto k) message); [|apply IH; exact Fr].
  destruct (k_does k); try contradiction; apply IH; exact Fr.
Qed.
Print Assumptions C20_no_reply_is_503.

Example C20_example :
  handle (encode_req [x00; x00; x00; x01; xaa] [])
    (fun _ => Some [ {| k_proto := Udp; k_does := KSilent |}; {| k_proto := Tcp; k_does := KReply [x00; x00; x00; x01; xbb] |} ])
  = PReply (encode_msg [x00; x00; x00; x01; xbb]).
Proof. vm_compute. reflexivity. Qed.
