(** C17 — authentication capability negotiation follows the configured
    requirements. Property theorems only; proofs are in Proofs/HandshakeFacts.v. *)
From Coq Require Import List NArith ZArith Bool.
From Coq.Strings Require Import Byte.
From RDPGW Require Import Lib.Bytes Gen.Consts Model.Packets Model.Processor
  Spec.Wire Proofs.HandshakeFacts.
Import ListNotations.
Open Scope N_scope.

(** For every client capability value and all four server settings, the
    negotiation succeeds iff both sides are empty or share a bit. *)
Theorem C17_iff : forall smartcard token client,
  (exists caps, match_auth smartcard token client = Some caps) <->
  ((client = 0 /\ server_caps smartcard token = 0) \/
   N.land (server_caps smartcard token) client <> 0).
Proof. exact match_auth_iff. Qed.
Print Assumptions C17_iff.

(** On success the server advertises exactly its enabled mechanisms. *)
Theorem C17_advertises_enabled : forall smartcard token client caps,
  match_auth smartcard token client = Some caps ->
  caps = (if smartcard then 1 else 0) + (if token then 2 else 0).
Proof. intros sc tok cl caps H. apply match_auth_value in H. rewrite H. apply server_caps_bits. Qed.
Print Assumptions C17_advertises_enabled.

(** A successful handshake on a fresh tunnel answers with status 0, echoes the
    client's version bytes, advertises the server mechanisms and moves on; the
    response is a well-formed packet under the reference decoder. *)
Theorem C17_success_step : forall c ma mi v0 v1 e0 e1 rest a,
  negotiation_succeeds (c_smartcard c) (c_token_auth c) (b2n e0 + 256 * b2n e1) ->
  exists raw body,
    process_packet c SERVER_STATE_INITIALIZED PKT_TYPE_HANDSHAKE_REQUEST
      (ma :: mi :: v0 :: v1 :: e0 :: e1 :: rest) a
    = (SERVER_STATE_HANDSHAKE, [Resp PKT_TYPE_HANDSHAKE_RESPONSE ERROR_SUCCESS raw], false)
    /\ decode_packet raw = Some {| pk_type := PKT_TYPE_HANDSHAKE_RESPONSE; pk_reserved := 0;
                                   pk_length := blen raw; pk_body := body |}
    /\ decode_handshake_response body =
       Some ({| hr_status := 0; hr_major := b2n ma; hr_minor := b2n mi; hr_version := 0;
                hr_auth := server_caps (c_smartcard c) (c_token_auth c) |}, []).
Proof.
  intros c ma mi v0 v1 e0 e1 rest a H.
  destruct (decode_handshake_response_ok (b2n ma) (b2n mi)
              (server_caps (c_smartcard c) (c_token_auth c)) ERROR_SUCCESS)
    as [body [D1 D2]]; try apply b2n_lt.
  - destruct (c_smartcard c), (c_token_auth c); vm_compute; reflexivity.
  - vm_compute; reflexivity.
  - eexists; exists body. split; [apply handshake_step_success; exact H|]. split; assumption.
Qed.
Print Assumptions C17_success_step.

(** On failure the answer is capability-mismatch and the tunnel ends. *)
Theorem C17_failure_step : forall c ma mi v0 v1 e0 e1 rest a,
  ~ negotiation_succeeds (c_smartcard c) (c_token_auth c) (b2n e0 + 256 * b2n e1) ->
  exists raw body,
    process_packet c SERVER_STATE_INITIALIZED PKT_TYPE_HANDSHAKE_REQUEST
      (ma :: mi :: v0 :: v1 :: e0 :: e1 :: rest) a
    = (SERVER_STATE_INITIALIZED,
       [Resp PKT_TYPE_HANDSHAKE_RESPONSE E_PROXY_CAPABILITYMISMATCH raw; End EndMismatch], true)
    /\ decode_packet raw = Some {| pk_type := PKT_TYPE_HANDSHAKE_RESPONSE; pk_reserved := 0;
                                   pk_length := blen raw; pk_body := body |}
    /\ decode_handshake_response body =
       Some ({| hr_status := E_PROXY_CAPABILITYMISMATCH; hr_major := 0; hr_minor := 0;
                hr_version := 0; hr_auth := 0 |}, []).
Proof.
  intros c ma mi v0 v1 e0 e1 rest a H.
  destruct (decode_handshake_response_ok 0 0 0 E_PROXY_CAPABILITYMISMATCH)
    as [body [D1 D2]]; try (vm_compute; reflexivity).
  eexists; exists body. split; [apply handshake_step_failure; exact H|]. split; assumption.
Qed.
Print Assumptions C17_failure_step.

(** A client offering no mechanism cannot proceed when cookie authentication is required. *)
Theorem C17_cookie_required_blocks_empty_client : forall smartcard,
  match_auth smartcard true 0 = None.
Proof. intros []; reflexivity. Qed.
Print Assumptions C17_cookie_required_blocks_empty_client.

(** Non-vacuity: a PAA-capable client against a token-auth server succeeds, a
    smart-card-only client does not. *)
Example C17_example_success : match_auth false true 2 = Some 2.
Proof. reflexivity. Qed.
Example C17_example_failure : match_auth false true 1 = None.
Proof. reflexivity. Qed.
