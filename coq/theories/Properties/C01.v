(** C01 — no backend connection or relay before the full authorization
    sequence. Property theorems only; the monitor (the specification) is
    Spec/TunnelOrder.v, the model of [Processor.Process] is Model/Processor.v,
    proofs are in Proofs/TunnelOrderFacts.v, ProcessorSim.v, ProcessorFacts.v.

    Every statement quantifies over all configurations [c], all lists of
    transport reads [items] (arbitrary bytes, any fragmentation, read errors)
    and, through the answers attached to each read, all behaviours of the
    cookie check, the host policy and the dial. *)
From Coq Require Import List NArith ZArith Bool Lia.
From Coq.Strings Require Import Byte.
From RDPGW Require Import Lib.Bytes Gen.Consts Model.Utf16 Model.Packets Model.Processor
  Spec.TunnelOrder Proofs.TunnelOrderFacts Proofs.ProcessorSim Proofs.ProcessorFacts Gen.Facts.
Import ListNotations.
Open Scope N_scope.

(** The monitor never rejects an event of any run. *)
Theorem C01_monitor_accepts : forall c items,
  exists m, feeds (c_cookie_cb c) (c_host_cb c) mon0 (run c items) = Some m.
Proof. exact run_accepted. Qed.
Print Assumptions C01_monitor_accepts.

(** Every connection attempt is preceded, in this order and with nothing else
    counting as progress in between, by: handshake success, the accepted cookie
    (when a cookie check is installed), tunnel-create success, tunnel-auth
    success and (when a host policy is installed) that policy's approval of the
    very host that is dialled. *)
Theorem C01_dial_after_full_sequence : forall c items tr1 h ok tr2,
  run c items = tr1 ++ Dial h ok :: tr2 ->
  marks tr1 = [MsHandshake] ++ opt (c_cookie_cb c) MsCookie ++ [MsTunnel; MsTunnelAuth]
                ++ opt (c_host_cb c) (MsHost h).
Proof.
  intros c items tr1 h ok tr2 E. destruct (run_accepted c items) as [m H]. rewrite E in H.
  eapply accepted_dial_preceded; eauto.
Qed.
Print Assumptions C01_dial_after_full_sequence.

(** At most one connection attempt per tunnel, successful or not. *)
Theorem C01_at_most_one_dial : forall c items, (count_dials (run c items) <= 1)%nat.
Proof. intros c items. destruct (run_accepted c items) as [m H]. eapply accepted_at_most_one_dial; eauto. Qed.
Print Assumptions C01_at_most_one_dial.

(** Client payload is relayed only on an open channel: after the whole sequence,
    a successful connection to the approved host and the channel-create success. *)
Theorem C01_relay_after_successful_dial : forall c items tr1 b tr2,
  run c items = tr1 ++ ToHost b :: tr2 ->
  exists h, marks tr1 = [MsHandshake] ++ opt (c_cookie_cb c) MsCookie ++ [MsTunnel; MsTunnelAuth]
                          ++ opt (c_host_cb c) (MsHost h) ++ [MsDial h; MsChannel].
Proof.
  intros c items tr1 b tr2 E. destruct (run_accepted c items) as [m H]. rewrite E in H.
  eapply accepted_tohost_preceded; eauto.
Qed.
Print Assumptions C01_relay_after_successful_dial.

(** As wired by main(): under token authentication the cookie check is
    installed, and a host policy always is. *)
Corollary C01_wired_dial : forall tok sc r idle items tr1 h ok tr2,
  run (wired tok sc r idle) items = tr1 ++ Dial h ok :: tr2 ->
  marks tr1 = [MsHandshake] ++ opt tok MsCookie ++ [MsTunnel; MsTunnelAuth; MsHost h].
Proof. intros. eapply (C01_dial_after_full_sequence (wired tok sc r idle)); eauto. Qed.
Print Assumptions C01_wired_dial.

(** A setup or close packet in a phase other than the one it requires is never
    answered with success: the phase does not move and the tunnel ends. *)
Theorem C01_out_of_order_never_success : forall c p ty body a q,
  required_phase ty = Some q -> p <> q ->
  exists evs, process_packet c p ty body a = (p, evs, true)
              /\ existsb is_success_resp evs = false
              /\ exists pre w, evs = pre ++ [End w].
Proof. exact out_of_order_rejected. Qed.
Print Assumptions C01_out_of_order_never_success.

Theorem C01_early_data_ends_tunnel : forall c p ty body a,
  (ty = PKT_TYPE_DATA \/ ty = PKT_TYPE_KEEPALIVE) -> p < SERVER_STATE_CHANNEL_CREATE ->
  process_packet c p ty body a = (p, [End EndWrongState], true).
Proof. exact early_data_rejected. Qed.
Print Assumptions C01_early_data_ends_tunnel.

Theorem C01_unknown_type_ignored : forall c p ty body a,
  ty <> PKT_TYPE_HANDSHAKE_REQUEST -> ty <> PKT_TYPE_TUNNEL_CREATE -> ty <> PKT_TYPE_TUNNEL_AUTH ->
  ty <> PKT_TYPE_CHANNEL_CREATE -> ty <> PKT_TYPE_DATA -> ty <> PKT_TYPE_KEEPALIVE ->
  ty <> PKT_TYPE_CLOSE_CHANNEL ->
  process_packet c p ty body a = (p, [], false).
Proof. exact unknown_type_ignored. Qed.
Print Assumptions C01_unknown_type_ignored.

(** An error response is immediately followed by the end of the tunnel. *)
Theorem C01_error_response_ends : forall c items tr1 ty s raw tr2,
  run c items = tr1 ++ Resp ty s raw :: tr2 -> s <> 0 -> exists w, tr2 = [End w].
Proof.
  intros c items tr1 ty s raw tr2 E Hs.
  eapply errs_end_spec; eauto. apply run_from_errs_end.
Qed.
Print Assumptions C01_error_response_ends.

(** After the end of the tunnel (error response, close, read error) nothing the
    client sends is answered, relayed or causes a connection: the run is not
    extended by any further input. *)
Theorem C01_silent_after_end : forall c items1 items2,
  existsb is_end (run c items1) = true -> run c (items1 ++ items2) = run c items1.
Proof. intros. now apply run_from_end_stops. Qed.
Print Assumptions C01_silent_after_end.

(** Non-vacuity: the five-step happy path (handshake, tunnel create with cookie,
    tunnel auth, channel create, two data packets, close) yields exactly one
    dial and relays both payloads. *)
Definition ex_ans : answers := {| a_cookie := true; a_name := true; a_host := true; a_dial := true |}.
Definition ex_pkt (ty : N) (body : bytes) : read_item := RData (create_packet ty body) ex_ans.
Definition ex_items : list read_item :=
  [ ex_pkt PKT_TYPE_HANDSHAKE_REQUEST [x01; x00; x00; x00; x02; x00];
    ex_pkt PKT_TYPE_TUNNEL_CREATE ([x00; x00; x00; x00; x01; x00; x00; x00; x04; x00] ++ [x61; x00; x00; x00]);
    ex_pkt PKT_TYPE_TUNNEL_AUTH [x04; x00; x70; x00; x63; x00];
    ex_pkt PKT_TYPE_CHANNEL_CREATE ([x01; x00; x3d; x0d; x03; x00; x04; x00] ++ [x68; x00; x00; x00]);
    ex_pkt PKT_TYPE_DATA [x02; x00; xaa; xbb];
    ex_pkt PKT_TYPE_DATA [x01; x00; xcc];
    ex_pkt PKT_TYPE_CLOSE_CHANNEL [] ].
Definition ex_cfg : cfg := wired true false
  {| rf_clipboard := true; rf_port := false; rf_drive := false; rf_printer := false; rf_pnp := false;
     rf_disable_all := false; rf_enable_all := false |} 0%Z.

Example C01_happy_path :
  count_dials (run ex_cfg ex_items) = 1%nat /\
  filter (fun e => match e with ToHost _ => true | _ => false end) (run ex_cfg ex_items)
    = [ToHost [xaa; xbb]; ToHost [xcc]] /\
  marks (run ex_cfg ex_items)
    = [MsHandshake; MsCookie; MsTunnel; MsTunnelAuth;
       MsHost [x68; x3a; x33; x33; x38; x39]; MsDial [x68; x3a; x33; x33; x38; x39]; MsChannel].
Proof. vm_compute. repeat split. Qed.

(** The decisions of the transcribed functions, as the source has them now (regenerated by the
    translator: conditions, case labels, returns, branches, go and defer statements in source order).
    The model is a transcription of exactly this text. *)
Theorem C01_decisions_as_transcribed :
  DECISIONS_Process =
    [[x69; x66; x20; x65; x72; x72; x21; x3d; x6e; x69; x6c] (* if err!=nil *);
     [x72; x65; x74; x75; x72; x6e; x20; x65; x72; x72] (* return err *);
     [x73; x77; x69; x74; x63; x68; x20; x70; x74] (* switch pt *);
     [x63; x61; x73; x65; x20; x50; x4b; x54; x5f; x54; x59; x50; x45; x5f; x48; x41; x4e; x44; x53; x48; x41; x4b; x45; x5f; x52; x45; x51; x55; x45; x53; x54] (* case PKT_TYPE_HANDSHAKE_REQUEST *);
     [x69; x66; x20; x70; x2e; x73; x74; x61; x74; x65; x21; x3d; x53; x45; x52; x56; x45; x52; x5f; x53; x54; x41; x54; x45; x5f; x49; x4e; x49; x54; x49; x41; x4c; x49; x5a; x45; x44] (* if p.state!=SERVER_STATE_INITIALIZED *);
     [x72; x65; x74; x75; x72; x6e; x20; x66; x6d; x74; x2e; x45; x72; x72; x6f; x72; x66; x28; x22; x25; x78; x3a; x20; x77; x72; x6f; x6e; x67; x20; x73; x74; x61; x74; x65; x22; x2c; x45; x5f; x50; x52; x4f; x58; x59; x5f; x49; x4e; x54; x45; x52; x4e; x41; x4c; x45; x52; x52; x4f; x52; x29] (* return fmt.Errorf("%x: wrong state",E_PROXY_INTERNALERROR) *);
     [x69; x66; x20; x65; x72; x72; x21; x3d; x6e; x69; x6c] (* if err!=nil *);
     [x72; x65; x74; x75; x72; x6e; x20; x65; x72; x72] (* return err *);
     [x63; x61; x73; x65; x20; x50; x4b; x54; x5f; x54; x59; x50; x45; x5f; x54; x55; x4e; x4e; x45; x4c; x5f; x43; x52; x45; x41; x54; x45] (* case PKT_TYPE_TUNNEL_CREATE *);
     [x69; x66; x20; x70; x2e; x73; x74; x61; x74; x65; x21; x3d; x53; x45; x52; x56; x45; x52; x5f; x53; x54; x41; x54; x45; x5f; x48; x41; x4e; x44; x53; x48; x41; x4b; x45] (* if p.state!=SERVER_STATE_HANDSHAKE *);
     [x72; x65; x74; x75; x72; x6e; x20; x66; x6d; x74; x2e; x45; x72; x72; x6f; x72; x66; x28; x22; x25; x78; x3a; x20; x50; x41; x41; x20; x63; x6f; x6f; x6b; x69; x65; x20; x72; x65; x6a; x65; x63; x74; x65; x64; x2c; x20; x77; x72; x6f; x6e; x67; x20; x73; x74; x61; x74; x65; x22; x2c; x45; x5f; x50; x52; x4f; x58; x59; x5f; x49; x4e; x54; x45; x52; x4e; x41; x4c; x45; x52; x52; x4f; x52; x29] (* return fmt.Errorf("%x: PAA cookie rejected, wrong state",E_PROXY_INTERNALERROR) *);
     [x69; x66; x20; x70; x2e; x67; x77; x2e; x43; x68; x65; x63; x6b; x50; x41; x41; x43; x6f; x6f; x6b; x69; x65; x21; x3d; x6e; x69; x6c] (* if p.gw.CheckPAACookie!=nil *);
     [x69; x66; x20; x6f; x6b; x2c; x5f; x3a; x3d; x70; x2e; x67; x77; x2e; x43; x68; x65; x63; x6b; x50; x41; x41; x43; x6f; x6f; x6b; x69; x65; x28; x63; x74; x78; x2c; x63; x6f; x6f; x6b; x69; x65; x29; x3b; x20; x21; x6f; x6b] (* if ok,_:=p.gw.CheckPAACookie(ctx,cookie); !ok *);
     [x72; x65; x74; x75; x72; x6e; x20; x66; x6d; x74; x2e; x45; x72; x72; x6f; x72; x66; x28; x22; x25; x78; x3a; x20; x69; x6e; x76; x61; x6c; x69; x64; x20; x50; x41; x41; x20; x63; x6f; x6f; x6b; x69; x65; x22; x2c; x45; x5f; x50; x52; x4f; x58; x59; x5f; x43; x4f; x4f; x4b; x49; x45; x5f; x41; x55; x54; x48; x45; x4e; x54; x49; x43; x41; x54; x49; x4f; x4e; x5f; x41; x43; x43; x45; x53; x53; x5f; x44; x45; x4e; x49; x45; x44; x29] (* return fmt.Errorf("%x: invalid PAA cookie",E_PROXY_COOKIE_AUTHENTICATION_ACCESS_DENIED) *);
     [x63; x61; x73; x65; x20; x50; x4b; x54; x5f; x54; x59; x50; x45; x5f; x54; x55; x4e; x4e; x45; x4c; x5f; x41; x55; x54; x48] (* case PKT_TYPE_TUNNEL_AUTH *);
     [x69; x66; x20; x70; x2e; x73; x74; x61; x74; x65; x21; x3d; x53; x45; x52; x56; x45; x52; x5f; x53; x54; x41; x54; x45; x5f; x54; x55; x4e; x4e; x45; x4c; x5f; x43; x52; x45; x41; x54; x45] (* if p.state!=SERVER_STATE_TUNNEL_CREATE *);
     [x72; x65; x74; x75; x72; x6e; x20; x66; x6d; x74; x2e; x45; x72; x72; x6f; x72; x66; x28; x22; x25; x78; x3a; x20; x54; x75; x6e; x6e; x65; x6c; x20; x61; x75; x74; x68; x20; x72; x65; x6a; x65; x63; x74; x65; x64; x2c; x20; x77; x72; x6f; x6e; x67; x20; x73; x74; x61; x74; x65; x22; x2c; x45; x5f; x50; x52; x4f; x58; x59; x5f; x49; x4e; x54; x45; x52; x4e; x41; x4c; x45; x52; x52; x4f; x52; x29] (* return fmt.Errorf("%x: Tunnel auth rejected, wrong state",E_PROXY_INTERNALERROR) *);
     [x69; x66; x20; x70; x2e; x67; x77; x2e; x43; x68; x65; x63; x6b; x43; x6c; x69; x65; x6e; x74; x4e; x61; x6d; x65; x21; x3d; x6e; x69; x6c] (* if p.gw.CheckClientName!=nil *);
     [x69; x66; x20; x6f; x6b; x2c; x5f; x3a; x3d; x70; x2e; x67; x77; x2e; x43; x68; x65; x63; x6b; x43; x6c; x69; x65; x6e; x74; x4e; x61; x6d; x65; x28; x63; x74; x78; x2c; x63; x6c; x69; x65; x6e; x74; x29; x3b; x20; x21; x6f; x6b] (* if ok,_:=p.gw.CheckClientName(ctx,client); !ok *);
     [x72; x65; x74; x75; x72; x6e; x20; x66; x6d; x74; x2e; x45; x72; x72; x6f; x72; x66; x28; x22; x25; x78; x3a; x20; x54; x75; x6e; x6e; x65; x6c; x20; x61; x75; x74; x68; x20; x72; x65; x6a; x65; x63; x74; x65; x64; x2c; x20; x69; x6e; x76; x61; x6c; x69; x64; x20; x63; x6c; x69; x65; x6e; x74; x20; x6e; x61; x6d; x65; x22; x2c; x45; x52; x52; x4f; x52; x5f; x41; x43; x43; x45; x53; x53; x5f; x44; x45; x4e; x49; x45; x44; x29] (* return fmt.Errorf("%x: Tunnel auth rejected, invalid client name",ERROR_ACCESS_DENIED) *);
     [x63; x61; x73; x65; x20; x50; x4b; x54; x5f; x54; x59; x50; x45; x5f; x43; x48; x41; x4e; x4e; x45; x4c; x5f; x43; x52; x45; x41; x54; x45] (* case PKT_TYPE_CHANNEL_CREATE *);
     [x69; x66; x20; x70; x2e; x73; x74; x61; x74; x65; x21; x3d; x53; x45; x52; x56; x45; x52; x5f; x53; x54; x41; x54; x45; x5f; x54; x55; x4e; x4e; x45; x4c; x5f; x41; x55; x54; x48; x4f; x52; x49; x5a; x45] (* if p.state!=SERVER_STATE_TUNNEL_AUTHORIZE *);
     [x72; x65; x74; x75; x72; x6e; x20; x66; x6d; x74; x2e; x45; x72; x72; x6f; x72; x66; x28; x22; x25; x78; x3a; x20; x43; x68; x61; x6e; x6e; x65; x6c; x20; x63; x72; x65; x61; x74; x65; x20; x72; x65; x6a; x65; x63; x74; x65; x64; x2c; x20; x77; x72; x6f; x6e; x67; x20; x73; x74; x61; x74; x65; x22; x2c; x45; x5f; x50; x52; x4f; x58; x59; x5f; x49; x4e; x54; x45; x52; x4e; x41; x4c; x45; x52; x52; x4f; x52; x29] (* return fmt.Errorf("%x: Channel create rejected, wrong state",E_PROXY_INTERNALERROR) *);
     [x69; x66; x20; x70; x2e; x67; x77; x2e; x43; x68; x65; x63; x6b; x48; x6f; x73; x74; x21; x3d; x6e; x69; x6c] (* if p.gw.CheckHost!=nil *);
     [x69; x66; x20; x6f; x6b; x2c; x5f; x3a; x3d; x70; x2e; x67; x77; x2e; x43; x68; x65; x63; x6b; x48; x6f; x73; x74; x28; x63; x74; x78; x2c; x68; x6f; x73; x74; x29; x3b; x20; x21; x6f; x6b] (* if ok,_:=p.gw.CheckHost(ctx,host); !ok *);
     [x72; x65; x74; x75; x72; x6e; x20; x66; x6d; x74; x2e; x45; x72; x72; x6f; x72; x66; x28; x22; x25; x78; x3a; x20; x64; x65; x6e; x69; x65; x64; x20; x62; x79; x20; x73; x65; x63; x75; x72; x69; x74; x79; x20; x70; x6f; x6c; x69; x63; x79; x22; x2c; x45; x5f; x50; x52; x4f; x58; x59; x5f; x52; x41; x50; x5f; x41; x43; x43; x45; x53; x53; x44; x45; x4e; x49; x45; x44; x29] (* return fmt.Errorf("%x: denied by security policy",E_PROXY_RAP_ACCESSDENIED) *);
     [x69; x66; x20; x65; x72; x72; x21; x3d; x6e; x69; x6c] (* if err!=nil *);
     [x72; x65; x74; x75; x72; x6e; x20; x65; x72; x72] (* return err *);
     [x67; x6f; x20; x66; x6f; x72; x77; x61; x72; x64] (* go forward *);
     [x63; x61; x73; x65; x20; x50; x4b; x54; x5f; x54; x59; x50; x45; x5f; x44; x41; x54; x41] (* case PKT_TYPE_DATA *);
     [x69; x66; x20; x70; x2e; x73; x74; x61; x74; x65; x3c; x53; x45; x52; x56; x45; x52; x5f; x53; x54; x41; x54; x45; x5f; x43; x48; x41; x4e; x4e; x45; x4c; x5f; x43; x52; x45; x41; x54; x45] (* if p.state<SERVER_STATE_CHANNEL_CREATE *);
     [x72; x65; x74; x75; x72; x6e; x20; x65; x72; x72; x6f; x72; x73; x2e; x4e; x65; x77; x28; x22; x77; x72; x6f; x6e; x67; x20; x73; x74; x61; x74; x65; x22; x29] (* return errors.New("wrong state") *);
     [x63; x61; x73; x65; x20; x50; x4b; x54; x5f; x54; x59; x50; x45; x5f; x4b; x45; x45; x50; x41; x4c; x49; x56; x45] (* case PKT_TYPE_KEEPALIVE *);
     [x69; x66; x20; x70; x2e; x73; x74; x61; x74; x65; x3c; x53; x45; x52; x56; x45; x52; x5f; x53; x54; x41; x54; x45; x5f; x43; x48; x41; x4e; x4e; x45; x4c; x5f; x43; x52; x45; x41; x54; x45] (* if p.state<SERVER_STATE_CHANNEL_CREATE *);
     [x72; x65; x74; x75; x72; x6e; x20; x65; x72; x72; x6f; x72; x73; x2e; x4e; x65; x77; x28; x22; x77; x72; x6f; x6e; x67; x20; x73; x74; x61; x74; x65; x22; x29] (* return errors.New("wrong state") *);
     [x63; x61; x73; x65; x20; x50; x4b; x54; x5f; x54; x59; x50; x45; x5f; x43; x4c; x4f; x53; x45; x5f; x43; x48; x41; x4e; x4e; x45; x4c] (* case PKT_TYPE_CLOSE_CHANNEL *);
     [x69; x66; x20; x70; x2e; x73; x74; x61; x74; x65; x21; x3d; x53; x45; x52; x56; x45; x52; x5f; x53; x54; x41; x54; x45; x5f; x4f; x50; x45; x4e; x45; x44] (* if p.state!=SERVER_STATE_OPENED *);
     [x72; x65; x74; x75; x72; x6e; x20; x65; x72; x72; x6f; x72; x73; x2e; x4e; x65; x77; x28; x22; x77; x72; x6f; x6e; x67; x20; x73; x74; x61; x74; x65; x22; x29] (* return errors.New("wrong state") *);
     [x72; x65; x74; x75; x72; x6e; x20; x6e; x69; x6c] (* return nil *);
     [x64; x65; x66; x61; x75; x6c; x74] (* default *)] /\
  DECISIONS_tunnelRequest =
    [[x69; x66; x20; x66; x69; x65; x6c; x64; x73; x3d; x3d; x48; x54; x54; x50; x5f; x54; x55; x4e; x4e; x45; x4c; x5f; x50; x41; x43; x4b; x45; x54; x5f; x46; x49; x45; x4c; x44; x5f; x50; x41; x41; x5f; x43; x4f; x4f; x4b; x49; x45] (* if fields==HTTP_TUNNEL_PACKET_FIELD_PAA_COOKIE *);
     [x72; x65; x74; x75; x72; x6e] (* return *)].
Proof. vm_compute. repeat split; reflexivity. Qed.
Print Assumptions C01_decisions_as_transcribed.
