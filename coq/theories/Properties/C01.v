(** C01 — no backend connection or relay before the full authorization
    sequence. Property theorems only; the monitor (the specification) is
    Spec/TunnelOrder.v, the model of [Processor.Process] is Model/Processor.v,
    proofs are in Proofs/TunnelOrderFacts.v, ProcessorSim.v, ProcessorFacts.v.

    Every statement quantifies over all configurations [c], all lists of
    transport reads [items] (arbitrary bytes, any fragmentation, read errors)
    and, through the answers attached to each read, all behaviours of the
    cookie check, the host policy and the dial. *)
From Coq Require Import List NArith ZArith Bool Lia.
From Coq.Strings Require Import Byte.
From RDPGW Require Import Lib.Bytes Gen.Consts Model.Utf16 Model.Packets Model.Processor
  Spec.TunnelOrder Proofs.TunnelOrderFacts Proofs.ProcessorSim Proofs.ProcessorFacts.
Import ListNotations.
Open Scope N_scope.

(** The monitor never rejects an event of any run. *)
Theorem C01_monitor_accepts : forall c items,
  exists m, feeds (c_cookie_cb c) (c_host_cb c) mon0 (run c items) = Some m.
Proof. exact run_accepted. Qed.
Print Assumptions C01_monitor_accepts.

(** Every connection attempt is preceded, in this order and with nothing else
    counting as progress in between, by: handshake success, the accepted cookie
    (when a cookie check is installed), tunnel-create success, tunnel-auth
    success and (when a host policy is installed) that policy's approval of the
    very host that is dialled. *)
Theorem C01_dial_after_full_sequence : forall c items tr1 h ok tr2,
  run c items = tr1 ++ Dial h ok :: tr2 ->
  marks tr1 = [MsHandshake] ++ opt (c_cookie_cb c) MsCookie ++ [MsTunnel; MsTunnelAuth]
                ++ opt (c_host_cb c) (MsHost h).
Proof.
  intros c items tr1 h ok tr2 E. destruct (run_accepted c items) as [m H]. rewrite E in H.
  eapply accepted_dial_preceded; eauto.
Qed.
Print Assumptions C01_dial_after_full_sequence.

(** At most one connection attempt per tunnel, successful or not. *)
Theorem C01_at_most_one_dial : forall c items, (count_dials (run c items) <= 1)%nat.
Proof. intros c items. destruct (run_accepted c items) as [m H]. eapply accepted_at_most_one_dial; eauto. Qed.
Print Assumptions C01_at_most_one_dial.

(** Client payload is relayed only on an open channel: after the whole sequence,
    a successful connection to the approved host and the channel-create success. *)
Theorem C01_relay_after_successful_dial : forall c items tr1 b tr2,
  run c items = tr1 ++ ToHost b :: tr2 ->
  exists h, marks tr1 = [MsHandshake] ++ opt (c_cookie_cb c) MsCookie ++ [MsTunnel; MsTunnelAuth]
                          ++ opt (c_host_cb c) (MsHost h) ++ [MsDial h; MsChannel].
Proof.
  intros c items tr1 b tr2 E. destruct (run_accepted c items) as [m H]. rewrite E in H.
  eapply accepted_tohost_preceded; eauto.
Qed.
Print Assumptions C01_relay_after_successful_dial.

(** As wired by main(): under token authentication the cookie check is
    installed, and a host policy always is. *)
Corollary C01_wired_dial : forall tok sc r idle items tr1 h ok tr2,
  run (wired tok sc r idle) items = tr1 ++ Dial h ok :: tr2 ->
  marks tr1 = [MsHandshake] ++ opt tok MsCookie ++ [MsTunnel; MsTunnelAuth; MsHost h].
Proof. intros. eapply (C01_dial_after_full_sequence (wired tok sc r idle)); eauto. Qed.
Print Assumptions C01_wired_dial.

(** A setup or close packet in a phase other than the one it requires is never
    answered with success: the phase does not move and the tunnel ends. *)
Theorem C01_out_of_order_never_success : forall c p ty body a q,
  required_phase ty = Some q -> p <> q ->
  exists evs, process_packet c p ty body a = (p, evs, true)
              /\ existsb is_success_resp evs = false
              /\ exists pre w, evs = pre ++ [End w].
Proof. exact out_of_order_rejected. Qed.
Print Assumptions C01_out_of_order_never_success.

Theorem C01_early_data_ends_tunnel : forall c p ty body a,
  (ty = PKT_TYPE_DATA \/ ty = PKT_TYPE_KEEPALIVE) -> p < SERVER_STATE_CHANNEL_CREATE ->
  process_packet c p ty body a = (p, [End EndWrongState], true).
Proof. exact early_data_rejected. Qed.
Print Assumptions C01_early_data_ends_tunnel.

Theorem C01_unknown_type_ignored : forall c p ty body a,
  ty <> PKT_TYPE_HANDSHAKE_REQUEST -> ty <> PKT_TYPE_TUNNEL_CREATE -> ty <> PKT_TYPE_TUNNEL_AUTH ->
  ty <> PKT_TYPE_CHANNEL_CREATE -> ty <> PKT_TYPE_DATA -> ty <> PKT_TYPE_KEEPALIVE ->
  ty <> PKT_TYPE_CLOSE_CHANNEL ->
  process_packet c p ty body a = (p, [], false).
Proof. exact unknown_type_ignored. Qed.
Print Assumptions C01_unknown_type_ignored.

(** An error response is immediately followed by the end of the tunnel. *)
Theorem C01_error_response_ends : forall c items tr1 ty s raw tr2,
  run c items = tr1 ++ Resp ty s raw :: tr2 -> s <> 0 -> exists w, tr2 = [End w].
Proof.
  intros c items tr1 ty s raw tr2 E Hs.
  eapply errs_end_spec; eauto. apply run_from_errs_end.
Qed.
Print Assumptions C01_error_response_ends.

(** After the end of the tunnel (error response, close, read error) nothing the
    client sends is answered, relayed or causes a connection: the run is not
    extended by any further input. *)
Theorem C01_silent_after_end : forall c items1 items2,
  existsb is_end (run c items1) = true -> run c (items1 ++ items2) = run c items1.
Proof. intros. now apply run_from_end_stops. Qed.
Print Assumptions C01_silent_after_end.

(** Non-vacuity: the five-step happy path (handshake, tunnel create with cookie,
    tunnel auth, channel create, two data packets, close) yields exactly one
    dial and relays both payloads. *)
Definition ex_ans : answers := {| a_cookie := true; a_name := true; a_host := true; a_dial := true |}.
Definition ex_pkt (ty : N) (body : bytes) : read_item := RData (create_packet ty body) ex_ans.
Definition ex_items : list read_item :=
  [ ex_pkt PKT_TYPE_HANDSHAKE_REQUEST [x01; x00; x00; x00; x02; x00];
    ex_pkt PKT_TYPE_TUNNEL_CREATE ([x00; x00; x00; x00; x01; x00; x00; x00; x04; x00] ++ [x61; x00; x00; x00]);
    ex_pkt PKT_TYPE_TUNNEL_AUTH [x04; x00; x70; x00; x63; x00];
    ex_pkt PKT_TYPE_CHANNEL_CREATE ([x01; x00; x3d; x0d; x03; x00; x04; x00] ++ [x68; x00; x00; x00]);
    ex_pkt PKT_TYPE_DATA [x02; x00; xaa; xbb];
    ex_pkt PKT_TYPE_DATA [x01; x00; xcc];
    ex_pkt PKT_TYPE_CLOSE_CHANNEL [] ].
Definition ex_cfg : cfg := wired true false
  {| rf_clipboard := true; rf_port := false; rf_drive := false; rf_printer := false; rf_pnp := false;
     rf_disable_all := false; rf_enable_all := false |} 0%Z.

Example C01_happy_path :
  count_dials (run ex_cfg ex_items) = 1%nat /\
  filter (fun e => match e with ToHost _ => true | _ => false end) (run ex_cfg ex_items)
    = [ToHost [xaa; xbb]; ToHost [xcc]] /\
  marks (run ex_cfg ex_items)
    = [MsHandshake; MsCookie; MsTunnel; MsTunnelAuth;
       MsHost [x68; x3a; x33; x33; x38; x39]; MsDial [x68; x3a; x33; x33; x38; x39]; MsChannel].
Proof. vm_compute. repeat split. Qed.
