(** C03 — the host dialed is exactly the host that was requested and
    authorized. Specification: Spec/HostPolicy.v ([allowed]); model:
    Model/Policy.v, Model/Processor.v. Property theorems only. *)
From Coq Require Import List NArith ZArith Bool Lia.
From Coq.Strings Require Import Byte.
From RDPGW Require Import Lib.Bytes Gen.Consts Model.Utf16 Model.Packets Model.Processor Model.Policy
  Spec.HostPolicy Spec.TunnelOrder Proofs.PolicyFacts Proofs.ProcessorFacts Proofs.ResponseFacts.
Import ListNotations.
Open Scope N_scope.

(** The policy as wired by main() decides exactly the declarative policy: under
    token authentication the host must be the token's host (and the client
    address the token's, when verification is on) AND the mode clause must hold;
    list modes need a non-empty user and an entry equal to the host after
    substituting the user for the placeholder; 'signed' and unknown modes allow
    nothing; only 'any' allows arbitrary hosts. *)
Theorem C03_policy_iff : forall tok verify mode hosts t ip host,
  wired_policy tok verify mode hosts t ip host = true <-> allowed tok verify mode hosts t ip host.
Proof. exact wired_policy_iff. Qed.
Print Assumptions C03_policy_iff.

(** Whatever the tunnel connects to is the address of the channel-create request
    that is being processed, in the tunnel-authorized phase, after the installed
    policy said yes to that very address. *)
Theorem C03_dialed_is_requested : forall c p ty body a p' evs fin h ok,
  process_packet c p ty body a = (p', evs, fin) -> In (Dial h ok) evs ->
  ty = PKT_TYPE_CHANNEL_CREATE /\ p = SERVER_STATE_TUNNEL_AUTHORIZE /\
  h = join_host_port (fst (channel_request body)) (snd (channel_request body)) /\
  (c_host_cb c = true -> a_host a = true) /\ ok = a_dial a.
Proof. exact dial_step. Qed.
Print Assumptions C03_dialed_is_requested.

(** On every run, with the policy answers given by the wired policy for the
    tunnel's user / token host / addresses and any set of reachable addresses,
    every address the gateway connects to is allowed by the declarative policy. *)
Theorem C03_dialed_is_allowed : forall tok verify mode hosts t ip live c items tr1 h ok tr2,
  c_host_cb c = true ->
  run c (resolve_policy_dials (wired_policy tok verify mode hosts t ip) live c tstate0 items)
    = tr1 ++ Dial h ok :: tr2 ->
  allowed tok verify mode hosts t ip h.
Proof.
  intros. apply wired_policy_iff. eapply resolved_policy_dials; eauto.
Qed.
Print Assumptions C03_dialed_is_allowed.

(** A refused host: resource-access-denied, the tunnel ends, no connection attempt. *)
Theorem C03_refused_no_dial : forall c body a,
  c_host_cb c = true -> a_host a = false ->
  process_packet c SERVER_STATE_TUNNEL_AUTHORIZE PKT_TYPE_CHANNEL_CREATE body a =
  (SERVER_STATE_TUNNEL_AUTHORIZE,
   [AskHost (join_host_port (fst (channel_request body)) (snd (channel_request body))) false;
    Resp PKT_TYPE_CHANNEL_RESPONSE E_PROXY_RAP_ACCESSDENIED (channel_response E_PROXY_RAP_ACCESSDENIED);
    End EndHost], true).
Proof. exact host_refusal. Qed.
Print Assumptions C03_refused_no_dial.

Theorem C03_signed_allows_nothing : forall hosts user host, check_host s_signed hosts user host = false.
Proof. reflexivity. Qed.
Print Assumptions C03_signed_allows_nothing.

Theorem C03_empty_user_refused : forall mode hosts host,
  mode <> s_any -> check_host mode hosts [] host = false.
Proof.
  intros mode hosts host H. unfold check_host. destruct (hmode_of mode) eqn:M; try reflexivity.
  apply hmode_any in M. contradiction.
Qed.
Print Assumptions C03_empty_user_refused.

(** Near misses: a host that differs from every substituted entry is refused in
    the list modes, whatever it is (other port, prefix, suffix, superstring,
    embedded NUL, another user's entry). *)
Theorem C03_near_miss_refused : forall mode hosts user host,
  mode <> s_any -> (forall e, In e hosts -> entry_for user e <> host) ->
  check_host mode hosts user host = false.
Proof.
  intros mode hosts user host Hm Hn. destruct (check_host mode hosts user host) eqn:E; [|reflexivity].
  apply check_host_iff in E. destruct E as [E|[_ [_ [e [He Hh]]]]]; [contradiction|].
  exfalso. eapply Hn; eauto.
Qed.
Print Assumptions C03_near_miss_refused.

(** Non-vacuity and concrete near misses. *)
Definition ex_hosts : list bytes :=
  [ [x68; x31; x3a; x33; x33; x38; x39];                                   (* "h1:3389" *)
    HOST_PLACEHOLDER ++ [x2e; x6c; x3a; x33; x33; x38; x39] ].              (* "{{ preferred_username }}.l:3389" *)
Example C03_example_allowed :
  check_host s_roundrobin ex_hosts [x62; x6f; x62] [x62; x6f; x62; x2e; x6c; x3a; x33; x33; x38; x39] = true /\
  check_host s_roundrobin ex_hosts [x62; x6f; x62] [x68; x31; x3a; x33; x33; x38; x39] = true.
Proof. split; vm_compute; reflexivity. Qed.
Example C03_example_near_misses :
  check_host s_roundrobin ex_hosts [x62; x6f; x62] [x68; x31; x3a; x33; x33; x38] = false /\      (* other port *)
  check_host s_roundrobin ex_hosts [x62; x6f; x62] [x68; x31] = false /\                          (* prefix *)
  check_host s_roundrobin ex_hosts [x62; x6f; x62] [x61; x6c; x2e; x6c; x3a; x33; x33; x38; x39] = false /\ (* al.l:3389: another user's entry *)
  check_host s_roundrobin ex_hosts [] [x68; x31; x3a; x33; x33; x38; x39] = false /\              (* no user *)
  (* a name with an embedded NUL decodes to a different string *)
  decode_utf16 [x68; x00; x00; x00; x31; x00; x00; x00] <> [x68; x31].
Proof. repeat split; try (vm_compute; reflexivity). vm_compute. discriminate. Qed.
