(** C03 — the host dialed is exactly the host that was requested and
    authorized. Specification: Spec/HostPolicy.v ([allowed]); model:
    Model/Policy.v, Model/Processor.v. Property theorems only. *)
From Coq Require Import List NArith ZArith Bool Lia.
From Coq.Strings Require Import Byte.
From RDPGW Require Import Lib.Bytes Gen.Consts Model.Utf16 Model.Packets Model.Processor Model.Policy
  Spec.HostPolicy Spec.TunnelOrder Proofs.PolicyFacts Proofs.ProcessorFacts Proofs.ResponseFacts Gen.Facts.
Import ListNotations.
Open Scope N_scope.

(** The policy as wired by main() decides exactly the declarative policy: under
    token authentication the host must be the token's host (and the client
    address the token's, when verification is on) AND the mode clause must hold;
    list modes need a non-empty user and an entry equal to the host after
    substituting the user for the placeholder; 'signed' and unknown modes allow
    nothing; only 'any' allows arbitrary hosts. *)
Theorem C03_policy_iff : forall tok verify mode hosts t ip host,
  wired_policy tok verify mode hosts t ip host = true <-> allowed tok verify mode hosts t ip host.
Proof. exact wired_policy_iff. Qed.
Print Assumptions C03_policy_iff.

(** Whatever the tunnel connects to is the address of the channel-create request
    that is being processed, in the tunnel-authorized phase, after the installed
    policy said yes to that very address. *)
Theorem C03_dialed_is_requested : forall c p ty body a p' evs fin h ok,
  process_packet c p ty body a = (p', evs, fin) -> In (Dial h ok) evs ->
  ty = PKT_TYPE_CHANNEL_CREATE /\ p = SERVER_STATE_TUNNEL_AUTHORIZE /\
  h = join_host_port (fst (channel_request body)) (snd (channel_request body)) /\
  (c_host_cb c = true -> a_host a = true) /\ ok = a_dial a.
Proof. exact dial_step. Qed.
Print Assumptions C03_dialed_is_requested.

(** On every run, with the policy answers given by the wired policy for the
    tunnel's user / token host / addresses and any set of reachable addresses,
    every address the gateway connects to is allowed by the declarative policy. *)
Theorem C03_dialed_is_allowed : forall tok verify mode hosts t ip live c items tr1 h ok tr2,
  c_host_cb c = true ->
  run c (resolve_policy_dials (wired_policy tok verify mode hosts t ip) live c tstate0 items)
    = tr1 ++ Dial h ok :: tr2 ->
  allowed tok verify mode hosts t ip h.
Proof.
  intros. apply wired_policy_iff. eapply resolved_policy_dials; eauto.
Qed.
Print Assumptions C03_dialed_is_allowed.

(** A refused host: resource-access-denied, the tunnel ends, no connection attempt. *)
Theorem C03_refused_no_dial : forall c body a,
  c_host_cb c = true -> a_host a = false ->
  process_packet c SERVER_STATE_TUNNEL_AUTHORIZE PKT_TYPE_CHANNEL_CREATE body a =
  (SERVER_STATE_TUNNEL_AUTHORIZE,
   [AskHost (join_host_port (fst (channel_request body)) (snd (channel_request body))) false;
    Resp PKT_TYPE_CHANNEL_RESPONSE E_PROXY_RAP_ACCESSDENIED (channel_response E_PROXY_RAP_ACCESSDENIED);
    End EndHost], true).
Proof. exact host_refusal. Qed.
Print Assumptions C03_refused_no_dial.

Theorem C03_signed_allows_nothing : forall hosts user host, check_host s_signed hosts user host = false.
Proof. reflexivity. Qed.
Print Assumptions C03_signed_allows_nothing.

Theorem C03_empty_user_refused : forall mode hosts host,
  mode <> s_any -> check_host mode hosts [] host = false.
Proof.
  intros mode hosts host H. unfold check_host. destruct (hmode_of mode) eqn:M; try reflexivity.
  apply hmode_any in M. contradiction.
Qed.
Print Assumptions C03_empty_user_refused.

(** Near misses: a host that differs from every substituted entry is refused in
    the list modes, whatever it is (other port, prefix, suffix, superstring,
    embedded NUL, another user's entry). *)
Theorem C03_near_miss_refused : forall mode hosts user host,
  mode <> s_any -> (forall e, In e hosts -> entry_for user e <> host) ->
  check_host mode hosts user host = false.
Proof.
  intros mode hosts user host Hm Hn. destruct (check_host mode hosts user host) eqn:E; [|reflexivity].
  apply check_host_iff in E. destruct E as [E|[_ [_ [e [He Hh]]]]]; [contradiction|].
  exfalso. eapply Hn; eauto.
Qed.
Print Assumptions C03_near_miss_refused.

(** Non-vacuity and concrete near misses. *)
Definition ex_hosts : list bytes :=
  [ [x68; x31; x3a; x33; x33; x38; x39];                                   (* "h1:3389" *)
    HOST_PLACEHOLDER ++ [x2e; x6c; x3a; x33; x33; x38; x39] ].              (* "{{ preferred_username }}.l:3389" *)
Example C03_example_allowed :
  check_host s_roundrobin ex_hosts [x62; x6f; x62] [x62; x6f; x62; x2e; x6c; x3a; x33; x33; x38; x39] = true /\
  check_host s_roundrobin ex_hosts [x62; x6f; x62] [x68; x31; x3a; x33; x33; x38; x39] = true.
Proof. split; vm_compute; reflexivity. Qed.
Example C03_example_near_misses :
  check_host s_roundrobin ex_hosts [x62; x6f; x62] [x68; x31; x3a; x33; x33; x38] = false /\      (* other port *)
  check_host s_roundrobin ex_hosts [x62; x6f; x62] [x68; x31] = false /\                          (* prefix *)
  check_host s_roundrobin ex_hosts [x62; x6f; x62] [x61; x6c; x2e; x6c; x3a; x33; x33; x38; x39] = false /\ (* al.l:3389: another user's entry *)
  check_host s_roundrobin ex_hosts [] [x68; x31; x3a; x33; x33; x38; x39] = false /\              (* no user *)
  (* a name with an embedded NUL decodes to a different string *)
  decode_utf16 [x68; x00; x00; x00; x31; x00; x00; x00] <> [x68; x31].
Proof. repeat split; try (vm_compute; reflexivity). vm_compute. discriminate. Qed.

(** The decisions of the transcribed functions, as the source has them now (regenerated by the
    translator: conditions, case labels, returns, branches, go and defer statements in source order).
    The model is a transcription of exactly this text. *)
Theorem C03_decisions_as_transcribed :
  DECISIONS_CheckHost =
    [[x73; x77; x69; x74; x63; x68; x20; x48; x6f; x73; x74; x53; x65; x6c; x65; x63; x74; x69; x6f; x6e] (* switch HostSelection *);
     [x63; x61; x73; x65; x20; x22; x61; x6e; x79; x22] (* case "any" *);
     [x72; x65; x74; x75; x72; x6e; x20; x74; x72; x75; x65; x2c; x6e; x69; x6c] (* return true,nil *);
     [x63; x61; x73; x65; x20; x22; x73; x69; x67; x6e; x65; x64; x22] (* case "signed" *);
     [x72; x65; x74; x75; x72; x6e; x20; x66; x61; x6c; x73; x65; x2c; x65; x72; x72; x6f; x72; x73; x2e; x4e; x65; x77; x28; x22; x63; x61; x6e; x6e; x6f; x74; x20; x76; x65; x72; x69; x66; x79; x20; x68; x6f; x73; x74; x20; x69; x6e; x20; x27; x73; x69; x67; x6e; x65; x64; x27; x20; x6d; x6f; x64; x65; x20; x61; x73; x20; x74; x6f; x6b; x65; x6e; x20; x64; x61; x74; x61; x20; x69; x73; x20; x6d; x69; x73; x73; x69; x6e; x67; x22; x29] (* return false,errors.New("cannot verify host in 'signed' mode as token data is missing") *);
     [x63; x61; x73; x65; x20; x22; x72; x6f; x75; x6e; x64; x72; x6f; x62; x69; x6e; x22; x2c; x22; x75; x6e; x73; x69; x67; x6e; x65; x64; x22] (* case "roundrobin","unsigned" *);
     [x69; x66; x20; x73; x2e; x55; x73; x65; x72; x2e; x55; x73; x65; x72; x4e; x61; x6d; x65; x28; x29; x3d; x3d; x22; x22] (* if s.User.UserName()=="" *);
     [x72; x65; x74; x75; x72; x6e; x20; x66; x61; x6c; x73; x65; x2c; x65; x72; x72; x6f; x72; x73; x2e; x4e; x65; x77; x28; x22; x6e; x6f; x20; x76; x61; x6c; x69; x64; x20; x73; x65; x73; x73; x69; x6f; x6e; x20; x69; x6e; x66; x6f; x20; x6f; x72; x20; x75; x73; x65; x72; x6e; x61; x6d; x65; x20; x66; x6f; x75; x6e; x64; x20; x69; x6e; x20; x63; x6f; x6e; x74; x65; x78; x74; x22; x29] (* return false,errors.New("no valid session info or username found in context") *);
     [x69; x66; x20; x68; x3d; x3d; x68; x6f; x73; x74] (* if h==host *);
     [x72; x65; x74; x75; x72; x6e; x20; x74; x72; x75; x65; x2c; x6e; x69; x6c] (* return true,nil *);
     [x72; x65; x74; x75; x72; x6e; x20; x66; x61; x6c; x73; x65; x2c; x66; x6d; x74; x2e; x45; x72; x72; x6f; x72; x66; x28; x22; x69; x6e; x76; x61; x6c; x69; x64; x20; x68; x6f; x73; x74; x20; x25; x73; x22; x2c; x68; x6f; x73; x74; x29] (* return false,fmt.Errorf("invalid host %s",host) *);
     [x72; x65; x74; x75; x72; x6e; x20; x66; x61; x6c; x73; x65; x2c; x65; x72; x72; x6f; x72; x73; x2e; x4e; x65; x77; x28; x22; x75; x6e; x72; x65; x63; x6f; x67; x6e; x69; x7a; x65; x64; x20; x68; x6f; x73; x74; x20; x73; x65; x6c; x65; x63; x74; x69; x6f; x6e; x20; x63; x72; x69; x74; x65; x72; x69; x61; x22; x29] (* return false,errors.New("unrecognized host selection criteria") *)] /\
  DECISIONS_CheckSession =
    [[x72; x65; x74; x75; x72; x6e; x20; x3c; x2a; x61; x73; x74; x2e; x46; x75; x6e; x63; x4c; x69; x74; x3e] (* return <*ast.FuncLit> *);
     [x69; x66; x20; x74; x75; x6e; x6e; x65; x6c; x3d; x3d; x6e; x69; x6c] (* if tunnel==nil *);
     [x72; x65; x74; x75; x72; x6e; x20; x66; x61; x6c; x73; x65; x2c; x65; x72; x72; x6f; x72; x73; x2e; x4e; x65; x77; x28; x22; x6e; x6f; x20; x76; x61; x6c; x69; x64; x20; x73; x65; x73; x73; x69; x6f; x6e; x20; x69; x6e; x66; x6f; x20; x66; x6f; x75; x6e; x64; x20; x69; x6e; x20; x63; x6f; x6e; x74; x65; x78; x74; x22; x29] (* return false,errors.New("no valid session info found in context") *);
     [x69; x66; x20; x74; x75; x6e; x6e; x65; x6c; x2e; x54; x61; x72; x67; x65; x74; x53; x65; x72; x76; x65; x72; x21; x3d; x68; x6f; x73; x74] (* if tunnel.TargetServer!=host *);
     [x72; x65; x74; x75; x72; x6e; x20; x66; x61; x6c; x73; x65; x2c; x6e; x69; x6c] (* return false,nil *);
     [x69; x66; x20; x56; x65; x72; x69; x66; x79; x43; x6c; x69; x65; x6e; x74; x49; x50; x26; x26; x74; x75; x6e; x6e; x65; x6c; x2e; x52; x65; x6d; x6f; x74; x65; x41; x64; x64; x72; x21; x3d; x69; x64; x2e; x47; x65; x74; x41; x74; x74; x72; x69; x62; x75; x74; x65; x28; x69; x64; x65; x6e; x74; x69; x74; x79; x2e; x41; x74; x74; x72; x43; x6c; x69; x65; x6e; x74; x49; x70; x29] (* if VerifyClientIP&&tunnel.RemoteAddr!=id.GetAttribute(identity.AttrClientIp) *);
     [x72; x65; x74; x75; x72; x6e; x20; x66; x61; x6c; x73; x65; x2c; x6e; x69; x6c] (* return false,nil *);
     [x72; x65; x74; x75; x72; x6e; x20; x6e; x65; x78; x74; x28; x63; x74; x78; x2c; x68; x6f; x73; x74; x29] (* return next(ctx,host) *)] /\
  DECISIONS_DecodeUTF16 =
    [[x69; x66; x20; x6c; x65; x6e; x28; x62; x29; x25; x32; x21; x3d; x30] (* if len(b)%2!=0 *);
     [x72; x65; x74; x75; x72; x6e; x20; x22; x22; x2c; x66; x6d; x74; x2e; x45; x72; x72; x6f; x72; x66; x28; x22; x6d; x75; x73; x74; x20; x68; x61; x76; x65; x20; x65; x76; x65; x6e; x20; x6c; x65; x6e; x67; x74; x68; x20; x62; x79; x74; x65; x20; x73; x6c; x69; x63; x65; x22; x29] (* return "",fmt.Errorf("must have even length byte slice") *);
     [x66; x6f; x72; x20; x69; x3c; x6c; x62] (* for i<lb *);
     [x69; x66; x20; x6c; x65; x6e; x28; x62; x72; x65; x74; x29; x3e; x30; x26; x26; x62; x72; x65; x74; x5b; x6c; x65; x6e; x28; x62; x72; x65; x74; x29; x2d; x31; x5d; x3d; x3d; x27; x5c; x78; x30; x30; x27] (* if len(bret)>0&&bret[len(bret)-1]=='\x00' *);
     [x72; x65; x74; x75; x72; x6e; x20; x73; x74; x72; x69; x6e; x67; x28; x62; x72; x65; x74; x29; x2c; x6e; x69; x6c] (* return string(bret),nil *)] /\
  DECISIONS_channelRequest =
    [[x72; x65; x74; x75; x72; x6e] (* return *)].
Proof. vm_compute. repeat split; reflexivity. Qed.
Print Assumptions C03_decisions_as_transcribed.
