(** C13 — a session becomes authenticated only through a verified OpenID login.
    Model: Model/Oidc.v (state store, callback sequence, sessions), with the
    identity provider's answers attached to each callback. Property theorems
    only (proofs: Proofs/OidcFacts.v). *)
From Coq Require Import List NArith ZArith Bool Lia.
From Coq.Strings Require Import Byte.
From RDPGW Require Import Lib.Bytes Gen.Consts Model.Oidc Proofs.OidcFacts Gen.Facts.
Import ListNotations.
Open Scope Z_scope.

(** For every history of /connect and /callback requests over any number of
    browser sessions and every behaviour of the identity provider: if session
    [s] is authenticated, with user name [u], then [u] is non-empty and the
    history contains a callback of that same session that carried a state value
    this gateway issued (to a /connect request) less than 120 seconds earlier,
    whose code the provider exchanged, whose ID token verified and whose
    user-name claim is [u]. *)
Theorem C13_authenticated_only_via_login : forall ops s,
  i_auth (session_of s (ofinal ostate0 ops)) = true ->
  let u := i_user (session_of s (ofinal ostate0 ops)) in
  u <> [] /\
  exists pre state e t post t0,
    ops = pre ++ OCallback s state e t :: post /\
    find_n state (o_states (ofinal ostate0 pre)) = Some t0 /\ t - t0 < 120 /\
    (exists pre0 s0 post0, pre = pre0 ++ OConnect s0 t0 :: post0 /\
        snd (ostep (ofinal ostate0 pre0) (OConnect s0 t0)) = OutToIdP state) /\
    cb_exchange_ok e = true /\ cb_has_idtoken e = true /\ cb_verify_ok e = true /\ cb_username e = u.
Proof. exact oidc_sound. Qed.
Print Assumptions C13_authenticated_only_via_login.

(** A callback completes a login iff every step succeeds and the ID token names a user. *)
Theorem C13_callback_iff : forall st s state e t,
  snd (ostep st (OCallback s state e t)) = OutCbRedirect <->
  state_valid state t st = true /\ cb_exchange_ok e = true /\ cb_has_idtoken e = true /\
  cb_verify_ok e = true /\ cb_username e <> [].
Proof. exact ostep_callback_iff. Qed.
Print Assumptions C13_callback_iff.

(** Any failing callback leaves every session (in particular an unauthenticated
    one) exactly as it was, whichever point it fails at. *)
Theorem C13_failing_callback_keeps_unauthenticated : forall st s state e t,
  snd (ostep st (OCallback s state e t)) <> OutCbRedirect ->
  fst (ostep st (OCallback s state e t)) = st.
Proof. exact failing_callback_changes_nothing. Qed.
Print Assumptions C13_failing_callback_keeps_unauthenticated.

(** Only an authenticated session is served a connection file; any other
    /connect request is sent to the identity provider with a fresh state. *)
Theorem C13_connect : forall st s t,
  (i_auth (session_of s st) = true ->
     ostep st (OConnect s t) = (st, OutFile (i_user (session_of s st)))) /\
  (i_auth (session_of s st) = false ->
     snd (ostep st (OConnect s t)) = OutToIdP (o_next st)).
Proof. intros st s t. unfold ostep. split; intro H; rewrite H; reflexivity. Qed.
Print Assumptions C13_connect.

(** The callback handler stops after reporting a missing user-name claim, and
    the state lifetime is two minutes (regenerated from the source). *)
Theorem C13_source_facts :
  OIDC_EMPTY_USERNAME_RETURNS = true /\ oidc_CacheExpiration_SECONDS = 120%N /\
  (* the state store is created with that duration as the lifetime of its entries *)
  hd [] OIDC_STATE_CACHE_ARGS =
    [x43; x61; x63; x68; x65; x45; x78; x70; x69; x72; x61; x74; x69; x6f; x6e] (* CacheExpiration *) /\
  (* the name of the session's user is read from these claims and no others *)
  OIDC_USERNAME_CLAIMS =
    [[x70; x72; x65; x66; x65; x72; x72; x65; x64; x5f; x75; x73; x65; x72; x6e; x61; x6d; x65];   (* preferred_username *)
     [x75; x6e; x69; x71; x75; x65; x5f; x6e; x61; x6d; x65];                                       (* unique_name *)
     [x75; x70; x6e];                                                                               (* upn *)
     [x75; x73; x65; x72; x6e; x61; x6d; x65]] /\                                                   (* username *)
  (* the ID-token verifier is configured with the client id only: no clock override, no skipped check *)
  OIDC_VERIFIER_CONFIG_FIELDS = [[x43; x6c; x69; x65; x6e; x74; x49; x44]].                        (* ClientID *)
Proof. repeat split; reflexivity. Qed.
Print Assumptions C13_source_facts.

Definition ok_env (u : bytes) : cbenv :=
  {| cb_exchange_ok := true; cb_has_idtoken := true; cb_verify_ok := true; cb_username := u; cb_access_token := [x61] |}.
Example C13_example :
  orun ostate0 [OConnect 7 0; OCallback 7 1 (ok_env []) 5; OConnect 7 6;
                OCallback 7 2 (ok_env [x62; x6f; x62]) 200; OCallback 7 2 (ok_env [x62; x6f; x62]) 10;
                OConnect 7 11; OConnect 8 12]
  = [OutToIdP 1%N; OutCb500; OutToIdP 2%N; OutCb400; OutCbRedirect; OutFile [x62; x6f; x62]; OutToIdP 3%N].
Proof. vm_compute. reflexivity. Qed.

(** The decisions of the transcribed functions, as the source has them now (regenerated by the
    translator: conditions, case labels, returns, branches, go and defer statements in source order).
    The model is a transcription of exactly this text. *)
Theorem C13_decisions_as_transcribed :
  DECISIONS_HandleCallback =
    [[x69; x66; x20; x21; x66; x6f; x75; x6e; x64] (* if !found *);
     [x72; x65; x74; x75; x72; x6e] (* return *);
     [x69; x66; x20; x65; x72; x72; x21; x3d; x6e; x69; x6c] (* if err!=nil *);
     [x72; x65; x74; x75; x72; x6e] (* return *);
     [x69; x66; x20; x21; x6f; x6b] (* if !ok *);
     [x72; x65; x74; x75; x72; x6e] (* return *);
     [x69; x66; x20; x65; x72; x72; x21; x3d; x6e; x69; x6c] (* if err!=nil *);
     [x72; x65; x74; x75; x72; x6e] (* return *);
     [x69; x66; x20; x65; x72; x72; x3a; x3d; x69; x64; x54; x6f; x6b; x65; x6e; x2e; x43; x6c; x61; x69; x6d; x73; x28; x26; x72; x65; x73; x70; x2e; x49; x44; x54; x6f; x6b; x65; x6e; x43; x6c; x61; x69; x6d; x73; x29; x3b; x20; x65; x72; x72; x21; x3d; x6e; x69; x6c] (* if err:=idToken.Claims(&resp.IDTokenClaims); err!=nil *);
     [x72; x65; x74; x75; x72; x6e] (* return *);
     [x69; x66; x20; x65; x72; x72; x3a; x3d; x6a; x73; x6f; x6e; x2e; x55; x6e; x6d; x61; x72; x73; x68; x61; x6c; x28; x2a; x72; x65; x73; x70; x2e; x49; x44; x54; x6f; x6b; x65; x6e; x43; x6c; x61; x69; x6d; x73; x2c; x26; x64; x61; x74; x61; x29; x3b; x20; x65; x72; x72; x21; x3d; x6e; x69; x6c] (* if err:=json.Unmarshal( *resp.IDTokenClaims,&data); err!=nil *);
     [x72; x65; x74; x75; x72; x6e] (* return *);
     [x69; x66; x20; x75; x73; x65; x72; x4e; x61; x6d; x65; x3d; x3d; x22; x22] (* if userName=="" *);
     [x72; x65; x74; x75; x72; x6e] (* return *);
     [x69; x66; x20; x65; x72; x72; x3d; x53; x61; x76; x65; x53; x65; x73; x73; x69; x6f; x6e; x49; x64; x65; x6e; x74; x69; x74; x79; x28; x72; x2c; x77; x2c; x69; x64; x29; x3b; x20; x65; x72; x72; x21; x3d; x6e; x69; x6c] (* if err=SaveSessionIdentity(r,w,id); err!=nil *)] /\
  DECISIONS_Authenticated =
    [[x72; x65; x74; x75; x72; x6e; x20; x68; x74; x74; x70; x2e; x48; x61; x6e; x64; x6c; x65; x72; x46; x75; x6e; x63; x28; x3c; x2a; x61; x73; x74; x2e; x46; x75; x6e; x63; x4c; x69; x74; x3e; x29] (* return http.HandlerFunc(<*ast.FuncLit>) *);
     [x69; x66; x20; x21; x69; x64; x2e; x41; x75; x74; x68; x65; x6e; x74; x69; x63; x61; x74; x65; x64; x28; x29] (* if !id.Authenticated() *);
     [x69; x66; x20; x65; x72; x72; x21; x3d; x6e; x69; x6c] (* if err!=nil *);
     [x72; x65; x74; x75; x72; x6e] (* return *);
     [x72; x65; x74; x75; x72; x6e] (* return *)].
Proof. vm_compute. repeat split; reflexivity. Qed.
Print Assumptions C13_decisions_as_transcribed.
