(** C05 — the gateway endpoint needs confirmed credentials of an enabled
    scheme. Model: Model/HttpAuth.v (route table of main(), Basic/NTLM
    middlewares); the backend's verdict is an answer attached to the request. *)
From Coq Require Import List NArith Bool Lia String.
From Coq.Strings Require Import Byte.
From RDPGW Require Import Lib.Bytes Gen.Consts Gen.Facts Model.HttpAuth.
Import ListNotations.
Open Scope N_scope.

(** For every mechanism subset other than OpenID alone, every list of
    Authorization values and every backend answer: the tunnel handler runs only
    if the first Authorization value carries credentials of an ENABLED scheme that
    the backend CONFIRMED, and the identity handed to the tunnel is the confirmed
    name (the Basic user name the backend said yes to; the name the NTLM service
    returned). *)
Theorem C05_handler_only_confirmed : forall m values basic bk r,
  openid_only m = false ->
  dispatch m values basic bk = Handler r ->
  (m_local m = true /\ bk = BkBasic true /\ exists u p, basic = Some (u, p) /\ r = Some u) \/
  (m_ntlm m = true /\ exists u, bk = BkNtlmOk u /\ r = Some u /\
     (is_prefix s_NTLM_sp (first_value values) = true \/ is_prefix s_Negotiate_sp (first_value values) = true)).
Proof.
  intros m values basic bk r O D. unfold dispatch, pick_route in D. rewrite O in D.
  destruct (bytes_eqb (first_value values) []); [discriminate|].
  destruct (m_ntlm m && (any_contains s_NTLM values || any_contains s_Negotiate values)) eqn:N.
  { apply andb_true_iff in N as [N _]. right. split; [exact N|].
    destruct (is_prefix s_NTLM_sp (first_value values)) eqn:P1; cbn [orb] in D.
    - destruct bk; try discriminate. inversion D; subst. eauto.
    - destruct (is_prefix s_Negotiate_sp (first_value values)) eqn:P2; [|discriminate].
      destruct bk; try discriminate. inversion D; subst. eauto. }
  destruct (m_local m && any_contains s_Basic values) eqn:B.
  { apply andb_true_iff in B as [B _]. left. split; [exact B|].
    destruct basic as [[u p]|]; [|discriminate]. destruct bk as [[]| | | | |]; try discriminate.
    inversion D; subst. eauto 6. }
  destruct (m_kerberos m && any_contains s_Negotiate values); [destruct bk; discriminate | discriminate].
Qed.
Print Assumptions C05_handler_only_confirmed.

(** A request without an Authorization header (or with an empty first value)
    gets 401 with one challenge per registered scheme, in registration order. *)
Theorem C05_no_header_challenges : forall m rest basic bk,
  openid_only m = false ->
  dispatch m ([] :: rest) basic bk = Status 401 (challenges m) /\
  dispatch m [] basic bk = Status 401 (challenges m).
Proof. intros m rest basic bk O. unfold dispatch, pick_route. rewrite O. split; reflexivity. Qed.
Print Assumptions C05_no_header_challenges.

(** The challenges of [challenges m] are registered in main() under exactly the test of their own
    mechanism (regenerated from the source; error exits aside): a challenge that depends on anything
    else would be missing from the 401 of a configuration that enables the mechanism. *)
Definition bs (s : string) : bytes := list_byte_of_string s.
Definition without_error_exits (t : list (bytes * list bytes)) : list (bytes * list bytes) :=
  map (fun s => (fst s, filter (fun g => negb (bytes_eqb g (bs "!err!=nil"))) (snd s))) t.
Theorem C05_challenges_registered_per_mechanism :
  without_error_exits CHALLENGES_registered =
  [ (bs "auth.Register(`NTLM`)", [bs "conf.Server.NtlmEnabled()"]);
    (bs "auth.Register(`Negotiate`)", [bs "conf.Server.NtlmEnabled()"]);
    (bs "auth.Register(`Basic realm=""restricted"", charset=""UTF-8""`)", [bs "conf.Server.BasicAuthEnabled()"]);
    (bs "auth.Register(""Negotiate"")", [bs "conf.Server.KerberosEnabled()"]) ].
Proof. vm_compute. reflexivity. Qed.
Print Assumptions C05_challenges_registered_per_mechanism.

(** Converse, under the hypothesis the unanchored route patterns force: confirmed
    Basic credentials reach the handler when no Authorization value contains the
    keyword of an earlier route; confirmed NTLM credentials always do. *)
Theorem C05_confirmed_basic_reaches_partial : forall m values u p,
  openid_only m = false -> m_local m = true -> first_value values <> [] ->
  any_contains s_Basic values = true ->
  (m_ntlm m = true -> any_contains s_NTLM values = false /\ any_contains s_Negotiate values = false) ->
  dispatch m values (Some (u, p)) (BkBasic true) = Handler (Some u).
Proof.
  intros m values u p O L F B Sh. unfold dispatch, pick_route. rewrite O.
  apply bytes_eqb_neq in F. rewrite F.
  destruct (m_ntlm m) eqn:N.
  - destruct (Sh eq_refl) as [S1 S2]. rewrite S1, S2. cbn [orb andb]. rewrite L, B. reflexivity.
  - cbn [andb]. rewrite L, B. reflexivity.
Qed.
Print Assumptions C05_confirmed_basic_reaches_partial.

Theorem C05_confirmed_ntlm_reaches : forall m values basic u,
  openid_only m = false -> m_ntlm m = true ->
  is_prefix s_NTLM_sp (first_value values) = true ->
  any_contains s_NTLM values = true ->
  dispatch m values basic (BkNtlmOk u) = Handler (Some u).
Proof.
  intros m values basic u O N P C. unfold dispatch, pick_route. rewrite O.
  assert (F : bytes_eqb (first_value values) [] = false).
  { destruct (first_value values); [discriminate | reflexivity]. }
  rewrite F, N, C. cbn [orb andb]. rewrite P. reflexivity.
Qed.
Print Assumptions C05_confirmed_ntlm_reaches.

(** The unrestricted converse is false of the route table as written: valid
    Basic credentials whose text contains "NTLM" are taken by the NTLM route when
    both mechanisms are enabled (recorded finding route-shadowing). *)
Definition shadow_value : bytes := s_Basic ++ [x20; x4e; x54; x4c; x4d; x4e; x54; x4c; x4d].  (* "Basic NTLMNTLM" *)
Theorem C05_converse_refuted :
  dispatch {| m_openid := false; m_kerberos := false; m_local := true; m_ntlm := true |}
    [shadow_value] (Some ([x35], [x33])) (BkBasic true) = Status 401 [s_NTLM; s_Negotiate].
Proof. vm_compute. reflexivity. Qed.
Print Assumptions C05_converse_refuted.

(** With OpenID alone the endpoint is open at HTTP level (the access cookie is the gate). *)
Theorem C05_openid_only_open : forall values basic bk,
  dispatch {| m_openid := true; m_kerberos := false; m_local := false; m_ntlm := false |} values basic bk = Handler None.
Proof. reflexivity. Qed.
Print Assumptions C05_openid_only_open.

(** All 2^4 mechanism subsets: wrong, malformed or disabled-scheme credentials
    never reach the handler (the backend did not confirm / was not asked). *)
Theorem C05_unconfirmed_never_reaches : forall m values basic bk r,
  openid_only m = false -> dispatch m values basic bk = Handler r ->
  bk = BkBasic true \/ exists u, bk = BkNtlmOk u.
Proof.
  intros m values basic bk r O D. destruct (C05_handler_only_confirmed m values basic bk r O D) as [[_ [H _]]|[_ [u [H _]]]]; eauto.
Qed.
Print Assumptions C05_unconfirmed_never_reaches.

Example C05_example :
  dispatch {| m_openid := false; m_kerberos := false; m_local := true; m_ntlm := false |}
    [s_Basic ++ [x20; x4d; x54; x6f; x7a]] (Some ([x31], [x33])) (BkBasic true) = Handler (Some [x31]).
Proof. vm_compute. reflexivity. Qed.
